#!/bin/bash
# tools/run_seeded.sh <patch.diff> <check id>...   apply a seeded change to /repo, run the quick checks, undo it.
# Prints one line per check: CAUGHT / MISSED / BROKEN(exit 2).
set -u
PATCH=$1; shift
V=${VERIF_DIR:-/verif}; R=${REPO_DIR:-/repo}
cd "$V"
if ! git -C "$R" apply --check "$PATCH" 2>/dev/null; then echo "patch does not apply: $PATCH"; exit 3; fi
git -C "$R" apply "$PATCH"
export VERIF_REPLAY_ROOT=${VERIF_REPLAY_ROOT:-$V/.run/seeded-replays}
export VERIF_EVIDENCE_DIR=${VERIF_EVIDENCE_DIR:-$V/.run/seeded-evidence}
mkdir -p "$VERIF_REPLAY_ROOT"
trap 'git -C "$R" checkout -- .' EXIT
for id in "$@"; do
  out=$(VERIF_DIR="$V" REPO_DIR="$R" ./check "$id" quick 2>&1); rc=$?
  v=$(echo "$out" | grep -c '^VIOLATION')
  sig=$(echo "$out" | grep '^violation:' | head -3 | sed 's/violation: //' | tr '\n' ';')
  if [ $rc -eq 1 ] && [ "$v" -gt 0 ]; then echo "$id CAUGHT ($sig)"; elif [ $rc -eq 0 ]; then echo "$id MISSED"; else echo "$id BROKEN rc=$rc: $(echo "$out" | grep -E 'MACHINERY|BUILD' | head -2)"; fi
done
