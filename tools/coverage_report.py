#!/usr/bin/env python3
"""Summarise gcov data of the SIM_COV build: per file lines executed / executable, functions never entered."""
import sys, os, subprocess, json, glob, gzip, collections
sut = sys.argv[1]
files = collections.OrderedDict()
for gcda in sorted(glob.glob(os.path.join(sut, '*.gcda'))):
    out = subprocess.run(['gcov', '--json-format', '--stdout', os.path.basename(gcda)], capture_output=True, cwd=sut)
    try: data = json.loads(out.stdout)
    except Exception: continue
    for f in data.get('files', []):
        name = f['file']
        if '/src/' not in name and not name.startswith('src/'): continue
        name = name[name.index('src/'):]
        rec = files.setdefault(name, {'lines': {}, 'funcs': {}})
        for ln in f['lines']:
            rec['lines'][ln['line_number']] = rec['lines'].get(ln['line_number'], 0) + ln['count']
        for fn in f['functions']:
            rec['funcs'][fn['name']] = rec['funcs'].get(fn['name'], 0) + fn['execution_count']
print('# Reach of the simulated runs over carquet (gcov, SIM_COV build; bounded runs of all twelve checks)\n')
print('Lines executed at least once / executable lines per source file, and functions never entered.')
print('This measures reach of the workloads, not correctness; ARM/NEON/SVE files are not compiled on this host.\n')
print('| file | lines hit | of | % | functions never entered |')
print('|---|---|---|---|---|')
tot_h = tot_n = 0
for name, rec in files.items():
    n = len(rec['lines']); h = sum(1 for c in rec['lines'].values() if c > 0)
    tot_h += h; tot_n += n
    dead = sorted(k for k, v in rec['funcs'].items() if v == 0)
    print('| %s | %d | %d | %.0f | %s |' % (name, h, n, 100.0 * h / max(n, 1), ', '.join(dead) if dead else '-'))
print('\nTotal: %d of %d executable lines (%.1f %%) in %d files.' % (tot_h, tot_n, 100.0 * tot_h / max(tot_n, 1), len(files)))
