#!/bin/bash
# tools/coverage.sh [runs-per-check]   measure which carquet lines the simulated runs reach.
# Builds a separate gcov-instrumented tree (.build-cov, never used by the checks), runs every claimed
# check for a bounded number of runs on /repo's working tree, and writes evidence/COVERAGE.md:
# per source file the lines executed, and the functions never entered. Reach, not proof.
set -u
cd /verif
RUNS=${1:-3000}
export SIM_COV=1
BIN=$(sim/build.sh 2>/tmp/cov.build.err | tail -1) || { cat /tmp/cov.build.err; exit 2; }
[ -x "$BIN" ] || { cat /tmp/cov.build.err; exit 2; }
SUT=$(ls -d .build-cov/sut-* | head -1)
find "$SUT" -name '*.gcda' -delete
for p in C01 C02 C03 C04 C05 C06 C07 C14 C16 C17 C18 C19; do
  r=$RUNS; case $p in C14) r=$((RUNS/100+4));; C18) r=$((RUNS/40+8));; C19) r=$((RUNS/10+20));; esac
  VERIF_REPLAY_ROOT=/verif/.run/cov-replays VERIF_EVIDENCE_DIR=/verif/.run/cov-evidence "$BIN" --property $p --tier quick --runs $r 2>&1 | grep -E '^(summary|VIOLATION)' | cut -c1-140
done
python3 tools/coverage_report.py "$SUT" > evidence/COVERAGE.md
tail -5 evidence/COVERAGE.md
