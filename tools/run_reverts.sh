#!/bin/bash
# tools/run_reverts.sh   the most realistic regression there is: every "fix:" commit recorded in known_findings.json is taken back
# (reverse patch on the current tree) and the quick checks of the properties that entry names must report a violation again.
# Honours VERIF_DIR / REPO_DIR. One line per fix: CAUGHT / MISSED / NOT-APPLICABLE (reverse patch no longer applies because later
# commits rewrote the same lines).
V=${VERIF_DIR:-/verif}; R=${REPO_DIR:-/repo}
cd "$V"
python3 - "$V" <<'PY' > /tmp/reverts.$$.txt
import json,re,sys
j=json.load(open(sys.argv[1]+'/known_findings.json'))
for e in j['fixed']:
    m=re.match(r'fixed: property=([A-Z0-9/]+) ([0-9a-f]{7})( \((?:also )?([^)]*)\))?', e)
    if not m: continue
    props=set(m.group(1).split('/'))
    if m.group(4): props |= set(re.findall(r'C\d\d', m.group(4)))
    print(m.group(2), ' '.join(sorted(props)))
PY
total=0; caught=0; missed=0; na=0
while read c checks; do
  total=$((total+1))
  git -C "$R" diff "$c" "$c^" -- src include > /tmp/revert.$$.diff 2>/dev/null
  if [ ! -s /tmp/revert.$$.diff ]; then echo "NOT-APPLICABLE $c (commit not found)"; na=$((na+1)); continue; fi
  if ! git -C "$R" apply --check /tmp/revert.$$.diff 2>/dev/null; then echo "NOT-APPLICABLE $c: $(git -C "$R" log --format=%s -1 $c | cut -c1-70)"; na=$((na+1)); continue; fi
  out=$(tools/run_seeded.sh /tmp/revert.$$.diff $checks 2>&1)
  if echo "$out" | grep -q CAUGHT; then caught=$((caught+1)); echo "CAUGHT $c by $(echo "$out" | grep CAUGHT | cut -d' ' -f1 | tr '\n' ' '): $(git -C "$R" log --format=%s -1 $c | cut -c1-70)";
  else missed=$((missed+1)); echo "MISSED $c ($checks): $(git -C "$R" log --format=%s -1 $c | cut -c1-70) :: $(echo "$out" | tr '\n' ' ' | cut -c1-160)"; fi
done < /tmp/reverts.$$.txt
rm -f /tmp/reverts.$$.txt /tmp/revert.$$.diff
echo "SUMMARY fixes=$total caught=$caught missed=$missed not_applicable=$na"
