#!/usr/bin/env python3
"""Regenerates /verif/MANIFEST.json from the table below (keeps the file valid at all times)."""
import json, subprocess, os
V = os.path.dirname(os.path.dirname(os.path.abspath(__file__)))
NA = [
 ("C08","component decoders are pure functions of (bytes, length, bit width, count, capacity) reached only by direct calls to internal entry points: no I/O, allocation outcome, schedule or fault for a simulator to control (damaged-page reach is a by-product of C04/C14, not a decision of C08)"),
 ("C09","codec round trip and size bounds are pure functions of the input bytes and capacities, observed only by direct calls to carquet_*_compress/decompress: nothing to simulate"),
 ("C10","Snappy/LZ4 format conformance is a pure differential property over byte streams with no schedule, fault or history in it (file-level cross-decoding by the independent peer is a by-product of C05/C06)"),
 ("C11","encode/decode identities of internal encoders (incl. the streaming RLE decoder object) are pure; no handle in the simulated world, no I/O, no fault"),
 ("C12","spec conformance of encoder output is a pure differential property over value sequences, observed only through internal headers"),
 ("C13","Thrift compact round trip is a pure function of the metadata value; reached at file level only for the structures the writer/peer emit (C05/C06)"),
 ("C15","SIMD kernels are pure; only the four dictionary-gather kernels are reachable from the public API (exercised under the CPU-cap knob in C06), 47 of 59 x86 variant functions are called by no reader/writer path"),
 ("C20","Bloom filter and XXH64 are pure and not reachable from any public API or file path; nothing in the simulated world touches them"),
]
CHECKS = {
 "C01": ("exploration",
  "Seeded search over writer call histories (schema x content x codec x page size x row-group layout x partition of each column into write_batch calls) executed against the real writer on a simulated disk and read back through fread, mmap and buffer; oracle is a reference table model (null positions, bit-identical values, schema, row-group partition) plus byte-array lifetime under ASan. Sampling, not proof.",
  "Trusted: reference table model, simulated stdio/mmap layer, ASan. read_batch values compared under the dense convention (j-th slot = j-th non-null row). Runs with a non-OK writer call are refusals (reported, not flagged).",
  "deterministic simulation: seeded write-history search vs reference model on simulated disk, 3 I/O transports", "7 C01"),
 "C02": ("exploration",
  "Seeded search over consumption histories (read_batch/skip/has_next/remaining/re-create with sizes around page and chunk boundaries, exhaustive two-call sweeps on small chunks, batch-reader passes with seeded batch size and projection, each batch kept until the next has been fetched and then re-read; max_values beyond int32 with honestly sized buffers) on valid images (incl. data pages without values) from the independent peer writer and from carquet's writer; every result checked against a reference cursor model and batch model.",
  "Trusted: cursor/batch model, peer writer+reader (self-checked each run). 'Up to' freedom of read_batch and either bitmap polarity are allowed; batch reader only on files without REPEATED ancestors.",
  "deterministic simulation: seeded read-history search vs reference cursor model", "7 C02"),
 "C03": ("exploration",
  "One pre-drawn plan (column histories, batch configurations, verify_checksums) replayed on the three transports of the same simulated disk image (stdio cookie stream, guard-paged mapping, exact-size buffer); metadata, schema, statistics and batch transcripts compared across transports and content against the model; zero-copy views re-read after batch/batch-reader free.",
  "Trusted: simulated mmap (anonymous mapping ending at a PROT_NONE page), cookie streams over real glibc stdio, the model. Column-reader equivalence is on content; batch-reader equivalence on the exact batch sequence.",
  "deterministic simulation: one history replayed over three simulated transports of one disk image", "7 C03"),
 "C05": ("exploration",
  "Every image the writer reports complete (generator of C01 plus top-level REPEATED leaves written with definition and repetition levels, unsigned-annotated integer columns, tables around the 10000-element limit, and histories with an out-of-range column index or one write_batch left out) is parsed, structurally validated and fully decoded by an independent peer reader written from the format documents, and compared with the model; the same plan is written twice under different allocator contents/addresses/stdio buffering and must be byte-identical.",
  "Trusted: the peer reader (Thrift compact, hybrid RLE, PLAIN, Snappy/LZ4 written independently; zlib/zstd system libraries; zlib crc32). Strict reading of parquet.thrift for totals, codec tags and the column_orders rule. When a history is not a table (a batch left out) only 'close OK => the peer accepts the file' is required.",
  "deterministic simulation: writer output judged by an independent simulated peer reader; double write under allocator/stdio perturbation", "7 C05"),
 "C06": ("exploration",
  "The independent peer writer is a simulated foreign node with legal-but-unusual layout choices (buggify points); carquet reads its images through three transports with whole reads and seeded histories under random CPU caps; exact def/rep levels and values against the model; files with unimplemented features must be rejected with an error (incl. the batch reader on files with REPEATED columns: refuse, or deliver every entry).",
  "Trusted: peer writer (every file self-checked by the peer reader before carquet sees it; a mismatch is exit 2). No fault or schedule is part of this property; the simulator contributes the second party, the perturbation of I/O mode/history/CPU level, replay and shrinking.",
  "deterministic simulation: independent peer writer with buggify layout choices -> carquet reader", "7 C06"),
 "C16": ("exploration",
  "Public-API clauses: (a) data-page statistics written by carquet's writer (incl. unsigned-annotated integer columns), parsed by the peer reader, must bound every non-NaN value of their page in the column's order, carry no NaN bound and the right null count; (b) peer-written multi-row-group files whose chunk statistics are true bounds by construction are queried through column_statistics/row_group_matches/filter_row_groups with seeded operators and probes at, next to and beyond the bounds (incl. NaN, BOOLEAN columns, columns whose logical type orders values differently from the physical type: unsigned integers, DECIMAL in fixed-length byte arrays, with peer statistics in that order, and byte-array bounds present only in the deprecated signed-order fields), in a random transport; verdicts judged by brute force over the model (no false negative, exact filter list, no statistics => might match).",
  "Trusted: brute-force matcher over the model, peer writer statistics (min/max over non-NaN values, omitted when a chunk holds NaN). Not decided: the statistics builder, carquet_statistics_compare, range_overlaps, column_index_page_might_match (internal entry points no public API reaches).",
  "deterministic simulation: predicate operations on peer-written files vs brute force over the model", "7 C16"),
 "C17": ("exploration",
  "Reader side: seeded ordered schema trees (depth <= 6, <= 60 nodes, all repetition labelings) emitted by the peer writer with data shredded under the true levels; leaf order, every accessor (incl. logical types with parameters against the parquet.thrift field ids, also when the file states them through the legacy converted_type only), lookup by name and by documented dot-separated path, the root-only schema (also through the batch reader), node max-level accessors and the levels the column readers really use are compared with the textbook definition. Builder side: seeded add_column/add_group histories up to 400 steps (across capacity growth) with accessors checked after every step under a realloc-always-moves allocator, then written and read back.",
  "Trusted: textbook level definition in the model, peer writer's Dremel shredding (self-checked by the peer reader). What the simulator adds beyond generation is modest (I/O mode, allocator movement, op history).",
  "deterministic simulation: peer-written nested schemas + builder op histories vs textbook definition", "7 C17"),
 "C18": ("fault_enumeration",
  "Per generated scenario the fault space is enumerated rather than sampled: every proper prefix of the written image (crash at any byte; exhaustive up to 6 KiB, else tail + write boundaries + samples) presented through the three open paths, every sink write failing once (errno rotating through EIO/EINTR/EAGAIN/EPIPE/EDQUOT), ENOSPC budgets around every write boundary, flush-time and close failures under four stdio buffering modes (five for caller-supplied streams: also line-buffered); close == OK after a reported failure must still leave a strictly valid file; and carquet_writer_abort after every prefix of the call history. Exhaustive per scenario, sampled over scenarios.",
  "Trusted: cookie-stream sink over real glibc stdio (short count = error, probed), the peer reader as the judge of 'prefix is itself a complete file', the allocation ledger for leaks. Not exhaustive over scenarios.",
  "deterministic simulation: crash-point, sink-fault and abort-point enumeration per seeded write history", "7 C18"),
 "C19": ("fault_enumeration",
  "Per generated scenario (schema build, write per codec in path/FILE* mode, open+metadata+reads+skip in three transports, batch reads) a dry run numbers the K tracked allocation requests made inside API calls (carquet, zlib, zstd) and request k is failed for every k, plus every fopen and ZSTD_createDCtx returning NULL; thorough tier adds seeded multi-failure runs. Oracle: error reported or effect identical to the fault-free run, correct prefix before an error, a failed carquet_writer_create leaves nothing on disk, skip never answers a failure with 0, a caller that carries on after the failed call (reads on, asks for the next batch again, keeps adding columns) gets the continuation or a persistent error but never shifted, dropped or misaligned data, handles still releasable, ledger empty, no sanitizer report.",
  "Trusted: link-time malloc/calloc/realloc/free/strdup wrappers over ASan's allocator (ledger exact and deterministic), statically linked zlib/zstd so their requests are numbered too. Allocations of the process-lifetime per-thread ZSTD context are not fault sites.",
  "deterministic simulation: k-th allocation failure enumeration per seeded scenario with exact leak ledger", "7 C19"),
 "C14": ("fault_enumeration",
  "Per generated image every page body is damaged in turn (every bit, every byte, a burst at every byte offset) and read back through the three transports with verification on: no row of the damaged page may be delivered, what is delivered before is a correct prefix, and the read must end in an error; the undamaged image must verify (CRCs written by carquet and, on peer files, by zlib); a sample of damages is re-read with verification off (sanitizers, and two reads under different fill patterns of fresh heap memory must agree - no stale heap in the results) and through the batch reader; 1 image in 4 is also verified by 2-4 caller tasks at once on a cold library under the seeded scheduler. Exhaustive per image in the thorough tier, rotating transports per bit in the quick tier.",
  "Trusted: peer reader's page map (body offsets, first entry per page), zlib crc32 on the peer side. The CRC function for arbitrary lengths/alignments and carquet_crc32_update composition are pure and only decided as far as the file layer computes CRCs.",
  "deterministic simulation: storage bit-rot enumeration inside every page body x 3 transports", "7 C14"),
 "C04": ("exploration",
  "Storage corruption between a valid write and a read: structure-aware mutation of footer fields through the peer's Thrift value tree (boundary values, list surgery, retyped/dropped fields, nesting bombs), inconsistencies planted by the peer writer with coherent offsets (page type/sizes/crc/num_values/encodings/dictionary size/index bit width/level-block lengths/levels above the column's maximum), payload damage with verification off, lost/duplicated/misdirected blocks, truncation, garbage, plus input-stream faults (EIO, failed seek, early EOF, fopen failure; open/fstat/mmap failing on the mmap path); each image is opened through three transports and driven by a seeded history of every public reader call with exact-size caller buffers. Oracle: ASan + UBSan subset + guard-paged mapping, per-call tick budget, error contract, allocation ledger and stream/mapping registry empty after close, and (1 image in 4) a heap-garbage differential: the same history under two fill patterns of fresh heap blocks returns the same counts, levels and values.",
  "Trusted: ASan/UBSan, the tick clock (basic blocks of instrumented carquet code; zlib/zstd/libc time only under the 90 s wall-clock backstop), the allocator cap (64 MiB per request, 256 MiB live) that turns huge counts into handled-or-not outcomes. Sampling of an infinite input space.",
  "deterministic simulation: storage-fault injection on valid images + seeded API histories under sanitizers and a logical-time budget", "7 C04"),
 "C07": ("exploration",
  "The OpenMP runtime is the simulator's own (GOMP ABI): worker threads are real pthreads from a persistent pool but only one task is runnable at a time and a seeded scheduler decides every context switch (at wrapped libc calls, loop chunk hand-out and pre-drawn basic-block ticks from the trace-pc callback). Clause 1: batch sequences, values, bitmaps and statuses for num_threads in {2,3,4,8,16,auto} under five scheduling policies must equal the num_threads=1 run, in all three transports. Clause 2: 2-4 caller tasks with independent readers on one image, started on a cold library so that lazy initialisation is interleaved, must each equal their solo run. One seed = one exactly repeatable schedule; violations are shrunk over the schedule choices too.",
  "Trusted: sequentially consistent interleavings at basic-block granularity (no word tearing / reordering / weak memory); own GOMP runtime covers the entry points gcc 12 emits for the tree and common neighbours; guarded hooks make the library cold per run (detect, dispatch, CRC tables, per-thread ZSTD context).",
  "deterministic simulation: own OpenMP runtime, serialising seeded scheduler with basic-block preemption, caller tasks on a cold library", "7 C07"),
}
def chk(pid):
    cat,text,note,tech,ref = CHECKS[pid]
    return {"property_id":pid,"quick_cmd":f"./check {pid} quick","thorough_cmd":f"./check {pid} thorough","evidence_file":f"/verif/evidence/{pid}.json",
            "replay_cmd_template":f"./check {pid} --replay {{path}}","engine":"simrun",
            "level_claimed":{"category":cat,"text":text,"design_ref":"DESIGN.md section "+ref},"level_note":note,"technique":tech}
claimed = sorted(CHECKS)
extra_na = []
m = {
 "version":1,
 "setup_cmd":"cd /verif && sim/build.sh >/dev/null",
 "hooks":{"guard":"CARQUET_VERIF",
  "enable":"sim/build.sh compiles every src/**/*.c of /repo's working tree with gcc -DCARQUET_VERIF (plus ASan, UBSan subset, -fsanitize-coverage=trace-pc, -fopenmp lowered to the simulator's own GOMP runtime); all other seams are link-time --wrap",
  "baseline_off_cmd":"cd /repo && cmake -G Ninja -B _build >/dev/null && cmake --build _build >/dev/null && ctest --test-dir _build -j8 --timeout 900",
  "source_commits":["01aab17","2701701","607e5b6","383b73b","9dcf9d7"],"add_only":True},
 "engines":[{"name":"simrun","path":"/verif/sim","serves_properties":claimed,"kind_free_text":"deterministic simulator: seeded choice tape, simulated disk/stdio/mmap/allocator/OpenMP runtime/CPU, independent Parquet peer, reference models, gate+shrink+replay"}],
 "checks":[chk(p) for p in claimed],
 "not_applicable":[{"property_id":a,"reason":b} for a,b in NA],
 "notes":"Technique: deterministic simulation with fault injection (DESIGN.md). Fixed defects and known findings: /verif/known_findings.json. Properties being built but not yet registered are neither claimed nor declared not applicable: " + ", ".join(sorted(set(["C04","C07","C14","C16","C17","C18","C19"]) - set(claimed))) + "."
}
json.dump(m, open(os.path.join(V,"MANIFEST.json"),"w"), indent=1)
print("claimed:", claimed)
