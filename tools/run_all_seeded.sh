#!/bin/bash
# tools/run_all_seeded.sh   regression over every kept seeded change: apply, run the quick checks recorded as catching it, undo.
# Honours VERIF_DIR / REPO_DIR (so it can run from a `vp run --with-repo` snapshot). Prints one line per change and a summary.
V=${VERIF_DIR:-/verif}; R=${REPO_DIR:-/repo}
cd "$V"
total=0; bad=0
for d in seeded/*/; do
  n=$(basename "$d")
  checks=$(python3 -c "import json,sys; print(' '.join(json.load(open('$d/meta.json'))['caught_by']))")
  if python3 -c "import json,sys; sys.exit(0 if json.load(open('$d/meta.json')).get('neutralised_by') else 1)"; then echo "neutralised $n (see meta.json)"; continue; fi
  out=$(tools/run_seeded.sh "$V/$d/patch.diff" $checks 2>&1)
  total=$((total+1))
  if echo "$out" | grep -q "CAUGHT"; then echo "ok     $n: $(echo "$out" | grep -c CAUGHT)/$(echo $checks | wc -w) checks catch it"; else bad=$((bad+1)); echo "NOT-CAUGHT $n: $(echo "$out" | tr '\n' ' ' | cut -c1-200)"; fi
done
echo "SUMMARY seeded=$total not_caught_or_not_applicable=$bad"
