#!/bin/bash
# tools/confirm_seeded.sh <worktree> <mutant dir>   verify a candidate change independently:
#   patch applies, builds, all tests pass with it, demo fails with it and passes without it.
WT=$1; M=$2
cd "$WT" || exit 3
git checkout -q -- . ; 
git apply --check "$M/patch.diff" || { echo "RESULT patch-does-not-apply"; exit 1; }
run_tests() { unshare -m -r bash -c "mount -t tmpfs tmpfs /tmp 2>/dev/null; cd $WT && cmake --build _build >/dev/null 2>&1 && ctest --test-dir _build -j4 --timeout 900 2>&1 | tail -3" 2>/dev/null || (cmake --build _build >/dev/null 2>&1 && ctest --test-dir _build -j4 --timeout 900 2>&1 | tail -3); }
git apply "$M/patch.diff"
cmake -G Ninja -B _build >/dev/null 2>&1
T1=$(run_tests | grep -c '100% tests passed')
(cd "$M" && timeout 600 bash ./build_and_run.sh >/tmp/confirm.with.log 2>&1); D1=$?
git checkout -q -- .
T0=$(run_tests | grep -c '100% tests passed')
(cd "$M" && timeout 600 bash ./build_and_run.sh >/tmp/confirm.without.log 2>&1); D0=$?
echo "RESULT tests_with_change=$T1 demo_with_change_rc=$D1 tests_clean=$T0 demo_clean_rc=$D0"
