#!/bin/bash
# Builds (a) carquet's own sources from /repo's CURRENT working tree with the
# simulation flags (ASan + UBSan subset + trace-pc + -fopenmp lowered to GOMP,
# hooks on) and (b) the simulator/harness, then links simrun.
# Output: $VERIF/.build/simrun . Re-run is incremental by content hash.
set -euo pipefail
VERIF=${VERIF_DIR:-/verif}
REPO=${REPO_DIR:-/repo}
B=$VERIF/.build
# SIM_COV=1: a separate build tree whose carquet objects also carry gcov counters (tools/coverage.sh); never used by the checks
if [ -n "${SIM_COV:-}" ]; then B=$VERIF/.build-cov; fi
SIM=$VERIF/sim
mkdir -p "$B"
exec 9>"$B/.lock"
flock 9

CC=${SIM_CC:-gcc}
CXX=${SIM_CXX:-g++}
SAN="-fsanitize=address -fsanitize=bounds,pointer-overflow,null,nonnull-attribute,shift -fno-sanitize-recover=all -fno-omit-frame-pointer"
SUT_FLAGS="-std=gnu11 -O1 -g -fopenmp -DCARQUET_VERIF -DCARQUET_ARCH_X86 -DCARQUET_ENABLE_SSE -DCARQUET_ENABLE_AVX2 -DCARQUET_ENABLE_AVX512 $SAN -fsanitize-coverage=trace-pc -I$REPO/include -I$REPO/src -w"
if [ -n "${SIM_COV:-}" ]; then SUT_FLAGS="$SUT_FLAGS --coverage"; fi
HAR_FLAGS="-std=gnu++17 -O1 -g $SAN -I$REPO/include -I$SIM -Wall -Wextra -Wno-unused-parameter -Wno-unused-function -Wno-missing-field-initializers"
if [ -n "${SIM_COV:-}" ]; then HAR_FLAGS="$HAR_FLAGS -DSIM_COV"; fi

# ---- (a) system under test: same file list as CMakeLists.txt on x86-64
SUT_SRCS=$(cd "$REPO" && ls src/core/*.c src/thrift/*.c src/encoding/*.c src/compression/*.c src/simd/*.c src/reader/*.c src/writer/*.c src/metadata/*.c src/util/*.c src/simd/x86/*.c | sort)
# content hash over sources + headers + flags
H=$( (cd "$REPO" && cat $SUT_SRCS $(find src include -name '*.h' | sort); echo "$SUT_FLAGS") | sha1sum | cut -c1-16)
SUTDIR=$B/sut-$H
if [ ! -f "$SUTDIR/.done" ]; then
  rm -rf "$B"/sut-* ; mkdir -p "$SUTDIR"
  compile_one() {
    f=$1; o=$SUTDIR/$(echo "$f" | tr '/' '_' | sed 's/\.c$/.o/')
    extra=""
    case "$f" in
      src/simd/x86/sse_ops.c) extra="-msse4.2" ;;
      src/simd/x86/avx2_ops.c) extra="-mavx2 -mbmi2" ;;
      src/simd/x86/avx512_ops.c) extra="-mavx512f -mavx512bw -mavx512vl" ;;
    esac
    $CC $SUT_FLAGS $extra -c "$REPO/$f" -o "$o"
  }
  export -f compile_one; export CC SUT_FLAGS SUTDIR REPO
  if ! echo "$SUT_SRCS" | xargs -P 16 -n 1 bash -c 'compile_one "$0"' ; then
    echo "BUILD-FAILURE: carquet working tree does not compile under the simulation flags" >&2
    exit 2
  fi
  touch "$SUTDIR/.done"
fi

# ---- (b) harness
HH=$( (cd "$SIM" && find . -name '*.cc' -o -name '*.h' | sort | xargs cat; echo "$HAR_FLAGS"; cat "$REPO/include/carquet/"*.h) | sha1sum | cut -c1-16)
HARDIR=$B/har-$HH
if [ ! -f "$HARDIR/.done" ]; then
  rm -rf "$B"/har-* ; mkdir -p "$HARDIR"
  compile_cc() {
    f=$1; o=$HARDIR/$(echo "$f" | tr '/' '_' | sed 's/\.cc$/.o/')
    $CXX $HAR_FLAGS -c "$SIM/$f" -o "$o"
  }
  export -f compile_cc; export CXX HAR_FLAGS HARDIR SIM
  if ! (cd "$SIM" && find . -name '*.cc' | sed 's|^\./||' | sort | xargs -P 16 -n 1 bash -c 'compile_cc "$0"'); then
    echo "BUILD-FAILURE: harness does not compile" >&2
    exit 2
  fi
  touch "$HARDIR/.done"
fi

# ---- link (no -fopenmp / -lgomp: the OpenMP runtime is the simulator's)
WRAP=""
for s in fopen fclose fread fwrite fseek ftell fflush remove open close fstat mmap munmap madvise malloc calloc realloc free strdup posix_memalign aligned_alloc ZSTD_createDCtx ZSTD_decompressDCtx fileno fsync fdatasync posix_fadvise read pread write lseek stat access rename unlink fseeko ftello; do WRAP="$WRAP -Wl,--wrap=$s"; done
OUT=$B/simrun-$H-$HH
if [ ! -x "$OUT" ]; then
  rm -f "$B"/simrun-*
  if ! $CXX $SAN ${SIM_COV:+--coverage} -o "$OUT" "$HARDIR"/*.o "$SUTDIR"/*.o $WRAP /usr/lib/x86_64-linux-gnu/libzstd.a /usr/lib/x86_64-linux-gnu/libz.a -lpthread 2>"$B/link.err"; then
    cat "$B/link.err" >&2
    echo "BUILD-FAILURE: link failed (an OpenMP construct or libc entry point the simulator does not provide?)" >&2
    exit 2
  fi
fi
ln -sf "$(basename "$OUT")" "$B/simrun"
echo "$OUT"
