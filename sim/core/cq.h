// Thin shims around the public carquet API: every call is an event of the
// simulation (logged with its result, counted, bounded by the tick budget and
// marks "inside the library" for the allocator ledger).
#pragma once
extern "C" {
#include <carquet/carquet.h>
}
#include "sim.h"
#include "../seams/seams.h"

namespace cq {
using sim::ApiScope;

#define CQ_CALL(name, expr) ({ ApiScope _s(name); auto _r = (expr); _s.ret((int64_t)_r); _r; })
#define CQ_PTR(name, expr) ({ ApiScope _s(name); auto _r = (expr); _s.ret(_r != nullptr); _r; })
#define CQ_VOID(name, expr) do { ApiScope _s(name); (expr); _s.ret(0); } while (0)

static inline carquet_schema_t* schema_create(carquet_error_t* e) { return CQ_PTR("schema_create", carquet_schema_create(e)); }
static inline void schema_free(carquet_schema_t* s) { CQ_VOID("schema_free", carquet_schema_free(s)); }
static inline carquet_status_t schema_add_column(carquet_schema_t* s, const char* n, carquet_physical_type_t t,
                                                 const carquet_logical_type_t* lt, carquet_field_repetition_t r, int32_t tl) {
    return CQ_CALL("schema_add_column", carquet_schema_add_column(s, n, t, lt, r, tl));
}
static inline int32_t schema_add_group(carquet_schema_t* s, const char* n, carquet_field_repetition_t r, int32_t parent) {
    return CQ_CALL("schema_add_group", carquet_schema_add_group(s, n, r, parent));
}
static inline carquet_writer_t* writer_create(const char* path, const carquet_schema_t* s, const carquet_writer_options_t* o, carquet_error_t* e) {
    return CQ_PTR("writer_create", carquet_writer_create(path, s, o, e));
}
static inline carquet_writer_t* writer_create_file(FILE* f, const carquet_schema_t* s, const carquet_writer_options_t* o, carquet_error_t* e) {
    return CQ_PTR("writer_create_file", carquet_writer_create_file(f, s, o, e));
}
static inline carquet_status_t writer_write_batch(carquet_writer_t* w, int32_t col, const void* v, int64_t n, const int16_t* d, const int16_t* r) {
    return CQ_CALL("writer_write_batch", carquet_writer_write_batch(w, col, v, n, d, r));
}
static inline carquet_status_t writer_new_row_group(carquet_writer_t* w) { return CQ_CALL("writer_new_row_group", carquet_writer_new_row_group(w)); }
static inline carquet_status_t writer_close(carquet_writer_t* w) { return CQ_CALL("writer_close", carquet_writer_close(w)); }
static inline void writer_abort(carquet_writer_t* w) { CQ_VOID("writer_abort", carquet_writer_abort(w)); }

static inline carquet_reader_t* reader_open(const char* p, const carquet_reader_options_t* o, carquet_error_t* e) {
    return CQ_PTR("reader_open", carquet_reader_open(p, o, e));
}
static inline carquet_reader_t* reader_open_buffer(const void* b, size_t n, const carquet_reader_options_t* o, carquet_error_t* e) {
    return CQ_PTR("reader_open_buffer", carquet_reader_open_buffer(b, n, o, e));
}
static inline void reader_close(carquet_reader_t* r) { CQ_VOID("reader_close", carquet_reader_close(r)); }
static inline carquet_column_reader_t* reader_get_column(carquet_reader_t* r, int32_t rg, int32_t c, carquet_error_t* e) {
    return CQ_PTR("reader_get_column", carquet_reader_get_column(r, rg, c, e));
}
static inline int64_t column_read_batch(carquet_column_reader_t* c, void* v, int64_t n, int16_t* d, int16_t* r) {
    return CQ_CALL("column_read_batch", carquet_column_read_batch(c, v, n, d, r));
}
static inline int64_t column_skip(carquet_column_reader_t* c, int64_t n) { return CQ_CALL("column_skip", carquet_column_skip(c, n)); }
static inline bool column_has_next(const carquet_column_reader_t* c) { return CQ_CALL("column_has_next", carquet_column_has_next(c)); }
static inline int64_t column_remaining(const carquet_column_reader_t* c) { return CQ_CALL("column_remaining", carquet_column_remaining(c)); }
static inline void column_reader_free(carquet_column_reader_t* c) { CQ_VOID("column_reader_free", carquet_column_reader_free(c)); }
static inline carquet_batch_reader_t* batch_reader_create(carquet_reader_t* r, const carquet_batch_reader_config_t* c, carquet_error_t* e) {
    return CQ_PTR("batch_reader_create", carquet_batch_reader_create(r, c, e));
}
static inline carquet_status_t batch_reader_next(carquet_batch_reader_t* b, carquet_row_batch_t** out) {
    return CQ_CALL("batch_reader_next", carquet_batch_reader_next(b, out));
}
static inline void batch_reader_free(carquet_batch_reader_t* b) { CQ_VOID("batch_reader_free", carquet_batch_reader_free(b)); }
static inline void row_batch_free(carquet_row_batch_t* b) { CQ_VOID("row_batch_free", carquet_row_batch_free(b)); }
static inline carquet_status_t reader_column_statistics(const carquet_reader_t* r, int32_t rg, int32_t c, carquet_column_statistics_t* s) {
    return CQ_CALL("reader_column_statistics", carquet_reader_column_statistics(r, rg, c, s));
}
static inline carquet_status_t reader_row_group_matches(const carquet_reader_t* r, int32_t rg, int32_t c, carquet_compare_op_t op,
                                                        const void* v, int32_t vs, bool* m) {
    return CQ_CALL("reader_row_group_matches", carquet_reader_row_group_matches(r, rg, c, op, v, vs, m));
}
static inline int32_t reader_filter_row_groups(const carquet_reader_t* r, int32_t c, carquet_compare_op_t op, const void* v, int32_t vs,
                                               int32_t* out, int32_t maxn) {
    return CQ_CALL("reader_filter_row_groups", carquet_reader_filter_row_groups(r, c, op, v, vs, out, maxn));
}
static inline carquet_status_t reader_row_group_metadata(const carquet_reader_t* r, int32_t rg, carquet_row_group_metadata_t* m) {
    return CQ_CALL("reader_row_group_metadata", carquet_reader_row_group_metadata(r, rg, m));
}
}  // namespace cq
