// State shared between the campaign parent and its forked workers (MAP_SHARED).
#pragma once
#include "sim.h"

namespace sim {

enum { MAX_WORKERS = 64, SHAPE_BITS = 1 << 26, COV_BYTES = 1 << 20, MAX_VIOL = 64 };

struct ViolRec { uint64_t index; char sig[160]; };

struct Shared {
    // work distribution
    uint64_t next_index;
    uint64_t runs;
    int stop;
    uint64_t cur_index[MAX_WORKERS];     // index a worker is executing (~0 = idle)
    uint64_t heartbeat[MAX_WORKERS];     // bumped on every API call / fault point: the watchdog looks at progress, not at run length
    // aggregated results
    uint64_t done, evals, nontrivial, distinct_nontrivial, refusals, violations, events, ticks, bytes_io;
    uint64_t max_run_ticks;
    // counters (probes, faults fired)
    int names_lock, n_names;
    char names[MAX_COUNTERS][48];
    uint64_t counters[MAX_COUNTERS];
    // violations found by workers
    int viol_lock, n_viol;
    ViolRec viol[MAX_VIOL];
    // known-finding hits (by run): counted, first index kept
    // coverage + shape maps
    uint8_t cov[COV_BYTES];
    uint8_t shapes[SHAPE_BITS / 8];
    uint8_t scheds[SHAPE_BITS / 8];
    uint64_t distinct_scheds;
    // per-index event hashes for the determinism re-check (first HASH_SLOTS indices)
    enum { HASH_SLOTS = 4096 };
    uint64_t hashes[HASH_SLOTS];
    uint64_t rehash_mismatch;
    uint64_t rehash_checked;
    // per-property tunables measured in run
    uint64_t max_tick_ratio_x1000;
    uint64_t slow_ms, slow_index;   // slowest single run (wall clock, diagnostics only)   // C04 calibration: max ticks / (bytes+values+granted)
};
extern Shared* SH;

}  // namespace sim
