// Core of the deterministic simulator: choice tape (seeded PRNG / replay),
// event log + rolling hash, violation reporting, run context, probes.
#pragma once
#include <cstdint>
#include <cstddef>
#include <cstring>
#include <string>
#include <vector>
#include <map>
#include <functional>

namespace sim {

// ---------------------------------------------------------------- PRNG
static inline uint64_t splitmix64(uint64_t& x) {
    uint64_t z = (x += 0x9E3779B97F4A7C15ull);
    z = (z ^ (z >> 30)) * 0xBF58476D1CE4E5B9ull;
    z = (z ^ (z >> 27)) * 0x94D049BB133111EBull;
    return z ^ (z >> 31);
}
struct Rng {  // xoshiro256**
    uint64_t s[4];
    void seed(uint64_t a, uint64_t b = 0, uint64_t c = 0) {
        uint64_t x = a * 0x9E3779B97F4A7C15ull ^ (b + 0x632BE59BD9B4E019ull) * 0xD1B54A32D192ED03ull ^
                     (c + 0x2545F4914F6CDD1Dull) * 0x94D049BB133111EBull;
        for (int i = 0; i < 4; i++) s[i] = splitmix64(x);
    }
    static inline uint64_t rotl(uint64_t x, int k) { return (x << k) | (x >> (64 - k)); }
    uint64_t next() {
        uint64_t r = rotl(s[1] * 5, 7) * 9, t = s[1] << 17;
        s[2] ^= s[0]; s[3] ^= s[1]; s[1] ^= s[2]; s[0] ^= s[3]; s[2] ^= t; s[3] = rotl(s[3], 45);
        return r;
    }
    uint32_t below(uint32_t n) { return n <= 1 ? 0 : (uint32_t)(next() % n); }
};

// ---------------------------------------------------------------- choice tape
// Every decision of a run (plan, faults, knobs, schedule) is a draw from the
// tape. In generation mode draws come from the PRNG and are recorded; in
// replay mode they come from the recorded vector and 0 ("simplest") once the
// vector is exhausted. The recorded vector is the replay file.
struct Tape {
    Rng rng;
    std::vector<uint32_t> in;
    size_t pos = 0;
    bool replay = false;
    std::vector<uint32_t> out;
    uint32_t* mirror = nullptr; size_t mirror_cap = 0;   // shared-memory copy of `out` (mirror[0] = count) so that the tape of a run that dies is not lost
    void start_generate(uint64_t seed, uint64_t prop, uint64_t index) {
        rng.seed(seed, prop, index); in.clear(); pos = 0; replay = false; out.clear();
    }
    void start_replay(const std::vector<uint32_t>& t) { in = t; pos = 0; replay = true; out.clear(); }
    uint32_t draw(uint32_t n) {  // uniform in [0,n)
        uint32_t v;
        if (replay) v = pos < in.size() ? in[pos] : 0; else v = (uint32_t)(rng.next() >> 16);
        pos++;
        if (n <= 1) v = 0; else v %= n;
        out.push_back(v);
        if (mirror && mirror[0] + 1 < mirror_cap) { mirror[1 + mirror[0]] = v; mirror[0]++; }
        return v;
    }
};
extern Tape T;
static inline uint32_t draw(uint32_t n) { return T.draw(n); }
static inline int range(int lo, int hi) { return lo + (int)T.draw((uint32_t)(hi - lo + 1)); }  // inclusive
static inline bool chance(uint32_t num, uint32_t den) { return T.draw(den) < num; }  // 0 => false is "simplest"
template <class X> static inline const X& pick(const std::vector<X>& v) { return v[T.draw((uint32_t)v.size())]; }
uint64_t draw64();            // full 64-bit value (two draws)
Rng sub_rng();                // PRNG for bulk data seeded by one draw

// ---------------------------------------------------------------- event log
struct Log {
    uint64_t h = 1469598103934665603ull;
    uint64_t events = 0;
    bool keep = false;               // keep text (replay / samples)
    std::vector<std::string> text;
    void reset(bool keep_text) { h = 1469598103934665603ull; events = 0; keep = keep_text; text.clear(); }
    inline void mix(uint64_t v) { h ^= v; h *= 1099511628211ull; h ^= h >> 29; }
    void ev(const char* kind, int64_t a = 0, int64_t b = 0, int64_t c = 0);
    void bytes(const void* p, size_t n);  // mix content only
};
extern Log L;

// ---------------------------------------------------------------- violations
struct Violation {
    std::string clause;   // short stable oracle-clause id, part of the signature
    std::string detail;   // free text
};
[[noreturn]] void fail(const std::string& clause, const std::string& detail);
#define SIM_CHECK(cond, clause, ...) do { if (!(cond)) ::sim::fail(clause, ::sim::fmt(__VA_ARGS__)); } while (0)
std::string fmt(const char* f, ...) __attribute__((format(printf, 1, 2)));
// harness/peer self-check failure: machinery bug, never a violation (exit 2)
[[noreturn]] void harness_bug(const std::string& what);

// ---------------------------------------------------------------- probes / fault counters
// Small fixed tables in shared memory, aggregated across workers.
enum { MAX_COUNTERS = 256 };
int counter_id(const char* name);           // registers on first use (must be done pre-fork for stable ids)
void count(int id, uint64_t n = 1);
struct CounterReg { const char* name; int id; CounterReg(const char* n) : name(n), id(counter_id(n)) {} };
#define SIM_COUNT(name) do { static ::sim::CounterReg _r(name); ::sim::count(_r.id); } while (0)
#define SIM_COUNTN(name, n) do { static ::sim::CounterReg _r(name); ::sim::count(_r.id, (n)); } while (0)

// ---------------------------------------------------------------- run context
struct RunCtx {
    uint64_t seed = 0;
    uint64_t index = 0;
    bool thorough = false;
    int64_t focus = -1;          // enumeration checks: run only this fault point (replay), -1 = all
    int64_t focus2 = -1;
    // outputs
    uint64_t evals = 0;          // evaluations performed (>=1)
    uint64_t shape = 0;          // plan-shape hash
    bool nontrivial = false;
    bool refusal = false;
    int64_t viol_focus = -1, viol_focus2 = -1;   // set by enumeration drivers before fail()
    std::vector<std::string> tags;   // shape tags for known-finding classification
    std::string sample;          // human-readable plan (kept when L.keep)
    void tag(const char* t) { tags.push_back(t); }
    bool has_tag(const char* t) const { for (auto& s : tags) if (s == t) return true; return false; }
};

struct Property {
    const char* id;
    const char* level;           // exploration | fault_enumeration
    const char* rule;            // evidence "rule" text
    uint64_t quick_runs, thorough_runs;
    uint64_t recheck = 256;      // how many of the first runs are executed a second time (determinism self-check)
    void (*run)(RunCtx&);
    std::vector<std::string> assumptions;
};
void register_property(const Property& p);
const Property* find_property(const std::string& id);

extern uint64_t* g_heartbeat;      // points into shared memory inside campaign workers
static inline void heartbeat() { if (g_heartbeat) ++*g_heartbeat; }
uint64_t fnv(const void* p, size_t n, uint64_t h = 1469598103934665603ull);
std::string hex(const void* p, size_t n, size_t maxn = 64);

}  // namespace sim
