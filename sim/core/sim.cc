#include "sim.h"
#include "shared.h"
#include <cstdarg>
#include <cstdio>
#include <cstdlib>
#include <unistd.h>

namespace sim {

extern uint64_t g_ticks;
Tape T;
Log L;
Shared* SH = nullptr;
uint64_t* g_heartbeat = nullptr;

uint64_t draw64() { uint64_t a = T.draw(0xFFFFFFFFu), b = T.draw(0xFFFFFFFFu); return (a << 32) | b; }
Rng sub_rng() { Rng r; r.seed(T.draw(0xFFFFFFFFu), 0x5eed); return r; }

void Log::ev(const char* kind, int64_t a, int64_t b, int64_t c) {
    events++;
    for (const char* p = kind; *p; p++) mix((uint8_t)*p);
    mix((uint64_t)a); mix((uint64_t)b); mix((uint64_t)c);
    if (keep && text.size() < 4000) text.push_back(fmt("%s %lld %lld %lld @%llu", kind, (long long)a, (long long)b, (long long)c, (unsigned long long)g_ticks));
}
void Log::bytes(const void* p, size_t n) { mix(fnv(p, n)); mix(n); }

std::string fmt(const char* f, ...) {
    char buf[1024];
    va_list ap; va_start(ap, f);
    vsnprintf(buf, sizeof buf, f, ap);
    va_end(ap);
    return buf;
}

void fail(const std::string& clause, const std::string& detail) { throw Violation{clause, detail}; }

void harness_bug(const std::string& what) {
    fprintf(stderr, "HARNESS-BUG: %s\n", what.c_str());
    fflush(stderr);
    _exit(79);
}

uint64_t fnv(const void* p, size_t n, uint64_t h) {
    const uint8_t* b = (const uint8_t*)p;
    for (size_t i = 0; i < n; i++) { h ^= b[i]; h *= 1099511628211ull; }
    return h;
}
std::string hex(const void* p, size_t n, size_t maxn) {
    static const char* d = "0123456789abcdef";
    std::string s; const uint8_t* b = (const uint8_t*)p;
    for (size_t i = 0; i < n && i < maxn; i++) { s += d[b[i] >> 4]; s += d[b[i] & 15]; }
    if (n > maxn) s += "...";
    return s;
}

// ------------------------------------------------------------- counters
static Shared g_private_shared;   // used when not attached (single-process modes)
static Shared& sh() { return SH ? *SH : g_private_shared; }

int counter_id(const char* name) {
    Shared& s = sh();
    while (__atomic_exchange_n(&s.names_lock, 1, __ATOMIC_ACQUIRE)) {}
    int n = s.n_names, id = -1;
    for (int i = 0; i < n; i++) if (strcmp(s.names[i], name) == 0) { id = i; break; }
    if (id < 0 && n < MAX_COUNTERS) {
        strncpy(s.names[n], name, sizeof s.names[n] - 1);
        id = n; s.n_names = n + 1;
    }
    __atomic_store_n(&s.names_lock, 0, __ATOMIC_RELEASE);
    return id;
}
void count(int id, uint64_t n) { if (id >= 0) __atomic_fetch_add(&sh().counters[id], n, __ATOMIC_RELAXED); }

// ------------------------------------------------------------- properties
static std::vector<Property>& props() { static std::vector<Property> v; return v; }
void register_property(const Property& p) { props().push_back(p); }
const Property* find_property(const std::string& id) {
    for (auto& p : props()) if (id == p.id) return &p;
    return nullptr;
}

}  // namespace sim
