// Independent implementations of the Parquet value/level encodings and the
// block codecs, written from Encodings.md, the Snappy format description and
// the LZ4 block format document. Nothing here includes a carquet header.
#pragma once
#include "../core/sim.h"
#include <cstdint>
#include <cstring>
#include <string>
#include <vector>
#include <zlib.h>
#include <zstd.h>

namespace ref {

static inline int bit_width_of(uint32_t maxv) { int w = 0; while (maxv) { w++; maxv >>= 1; } return w; }

// ------------------------------------------------------------------ RLE / bit-packed hybrid
// decodes exactly `count` values; returns false on malformed/short input. *consumed = bytes used.
static inline bool hybrid_decode(const uint8_t* p, size_t n, int bw, size_t count, std::vector<uint32_t>& out, size_t* consumed,
                                 bool* saw_bitpacked = nullptr, bool* saw_rle = nullptr) {
    size_t pos = 0; out.clear(); out.reserve(count);
    if (bw < 0 || bw > 32) return false;
    while (out.size() < count) {
        uint64_t h = 0; int sh = 0; bool ok = false;
        while (pos < n && sh < 35) { uint8_t b = p[pos++]; h |= (uint64_t)(b & 0x7F) << sh; if (!(b & 0x80)) { ok = true; break; } sh += 7; }
        if (!ok) return false;
        if (h & 1) {
            uint64_t groups = h >> 1, nvals = groups * 8, nbytes = groups * (uint64_t)bw;
            if (groups == 0) continue;
            if (nbytes > n - pos) return false;
            if (saw_bitpacked) *saw_bitpacked = true;
            uint64_t bitpos = 0;
            for (uint64_t k = 0; k < nvals; k++) {
                uint64_t v = 0;
                for (int b = 0; b < bw; b++, bitpos++) v |= (uint64_t)((p[pos + (bitpos >> 3)] >> (bitpos & 7)) & 1) << b;
                if (out.size() < count) out.push_back((uint32_t)v);
            }
            pos += (size_t)nbytes;
        } else {
            uint64_t run = h >> 1; int vb = (bw + 7) / 8;
            if ((size_t)vb > n - pos) return false;
            uint32_t v = 0; for (int b = 0; b < vb; b++) v |= (uint32_t)p[pos + (size_t)b] << (8 * b);
            pos += (size_t)vb;
            if (bw < 32 && (v >> bw) != 0) return false;      // value does not fit the declared width
            if (saw_rle && run) *saw_rle = true;
            for (uint64_t k = 0; k < run && out.size() < count; k++) out.push_back(v);
        }
    }
    if (consumed) *consumed = pos;
    return true;
}

static inline void put_varint(std::string& o, uint64_t v) { while (v >= 0x80) { o.push_back((char)(v | 0x80)); v >>= 7; } o.push_back((char)v); }

// policy: 0 canonical (runs >= 8 as RLE, rest bit-packed), 1 all bit-packed in one multi-group run,
//         2 all RLE (also runs of length 1), 3 random legal mix (multi-group bit-packed runs, short RLE runs, padded last group)
static inline std::string hybrid_encode(const std::vector<uint32_t>& v, int bw, int policy, sim::Rng& r) {
    std::string o;
    size_t n = v.size(), i = 0;
    auto bitpack = [&](size_t from, size_t nvals_real, size_t groups) {   // groups*8 slots, the tail beyond nvals_real is padding
        put_varint(o, (groups << 1) | 1);
        std::string bytes(groups * (size_t)bw, '\0');
        uint64_t bitpos = 0;
        for (size_t k = 0; k < groups * 8; k++) {
            uint32_t x = k < nvals_real ? v[from + k] : (policy == 3 && bw > 0 ? (uint32_t)(r.next() & ((bw >= 32 ? 0xFFFFFFFFu : (1u << bw) - 1))) : 0);
            for (int b = 0; b < bw; b++, bitpos++) if ((x >> b) & 1) bytes[bitpos >> 3] = (char)(bytes[bitpos >> 3] | (1 << (bitpos & 7)));
        }
        o += bytes;
    };
    auto rle = [&](uint32_t x, size_t len) { put_varint(o, (uint64_t)len << 1); for (int b = 0; b < (bw + 7) / 8; b++) o.push_back((char)(x >> (8 * b))); };
    auto runlen = [&](size_t at) { size_t k = 1; while (at + k < n && v[at + k] == v[at]) k++; return k; };
    if (policy == 1) { if (n) bitpack(0, n, (n + 7) / 8); return o; }
    if (policy == 2) { while (i < n) { size_t k = runlen(i); rle(v[i], k); i += k; } return o; }
    if (policy == 0) {
        size_t lstart = 0, lcnt = 0;
        auto flush_lits = [&]() { if (lcnt) bitpack(lstart, lcnt, (lcnt + 7) / 8); lcnt = 0; };
        while (i < n) {
            size_t k = runlen(i);
            if (lcnt % 8 == 0 && k >= 8) { flush_lits(); rle(v[i], k); i += k; continue; }
            size_t t = k >= 8 ? 8 - lcnt % 8 : k;          // a long run first completes the open group
            if (lcnt == 0) lstart = i;
            lcnt += t; i += t;
        }
        flush_lits();
        return o;
    }
    while (i < n) {
        size_t k = runlen(i);
        uint32_t c = r.below(3);
        if (c == 0 || (n - i) < 8) {
            if (c != 0 && r.below(2)) { bitpack(i, n - i, 1); i = n; continue; }   // padded last group (padding bits random)
            size_t len = 1 + r.below((uint32_t)k); rle(v[i], len); i += len;
        } else {
            size_t maxg = (n - i) / 8; size_t g = 1 + r.below((uint32_t)std::min<size_t>(maxg, 70));
            bitpack(i, g * 8, g); i += g * 8;
        }
    }
    return o;
}

// ------------------------------------------------------------------ Snappy (raw block)
static inline bool snappy_decode(const uint8_t* p, size_t n, std::string& out) {
    size_t pos = 0; uint64_t len = 0; int sh = 0; bool ok = false;
    while (pos < n && sh < 35) { uint8_t b = p[pos++]; len |= (uint64_t)(b & 0x7F) << sh; if (!(b & 0x80)) { ok = true; break; } sh += 7; }
    if (!ok || len > (1ull << 31)) return false;
    out.clear(); out.reserve((size_t)len);
    while (pos < n) {
        uint8_t tag = p[pos++];
        if ((tag & 3) == 0) {
            uint64_t l = tag >> 2;
            if (l >= 60) { size_t nb = (size_t)l - 59; if (nb > n - pos) return false; l = 0; for (size_t k = 0; k < nb; k++) l |= (uint64_t)p[pos + k] << (8 * k); pos += nb; }
            l += 1;
            if (l > n - pos || out.size() + l > len) return false;
            out.append((const char*)p + pos, (size_t)l); pos += (size_t)l;
        } else {
            uint64_t l, off;
            if ((tag & 3) == 1) { if (pos >= n) return false; l = ((tag >> 2) & 7) + 4; off = ((uint64_t)(tag >> 5) << 8) | p[pos++]; }
            else if ((tag & 3) == 2) { if (n - pos < 2) return false; l = (tag >> 2) + 1; off = p[pos] | ((uint64_t)p[pos + 1] << 8); pos += 2; }
            else { if (n - pos < 4) return false; l = (tag >> 2) + 1; off = p[pos] | ((uint64_t)p[pos + 1] << 8) | ((uint64_t)p[pos + 2] << 16) | ((uint64_t)p[pos + 3] << 24); pos += 4; }
            if (off == 0 || off > out.size() || out.size() + l > len) return false;
            size_t from = out.size() - (size_t)off;
            for (uint64_t k = 0; k < l; k++) out.push_back(out[from + (size_t)k]);
        }
    }
    return out.size() == len;
}

// emits every tag form the format allows when `exotic` (non-canonical literal-length forms, copy-4, overlapping copies)
static inline std::string snappy_encode(const std::string& in, bool exotic, sim::Rng& r) {
    std::string o; put_varint(o, in.size());
    size_t n = in.size(), i = 0, lit = 0;
    std::vector<int32_t> table(1 << 12, -1);
    auto emit_lit = [&](size_t from, size_t len) {
        while (len) {
            size_t l = std::min<size_t>(len, exotic ? (size_t)(1 + r.below(70000)) : 65536);
            uint64_t m = l - 1; int form;
            if (m < 60 && !(exotic && r.below(4) == 0)) form = 0; else form = m < 256 ? 1 : m < 65536 ? 2 : m < (1 << 24) ? 3 : 4;
            if (exotic && form && form < 4 && r.below(3) == 0) form += 1;     // wider than needed: legal
            if (form == 0) o.push_back((char)(m << 2)); else { o.push_back((char)((59 + form) << 2)); for (int k = 0; k < form; k++) o.push_back((char)(m >> (8 * k))); }
            o.append(in, from, l); from += l; len -= l;
        }
    };
    auto emit_copy = [&](size_t off, size_t len) {
        while (len) {
            size_t l = std::min<size_t>(len, 64);
            bool c1 = l >= 4 && l <= 11 && off < 2048;
            int form = c1 && !(exotic && r.below(3) == 0) ? 1 : (off < 65536 && !(exotic && r.below(4) == 0)) ? 2 : 3;
            if (form == 1) { o.push_back((char)(1 | ((l - 4) << 2) | ((off >> 8) << 5))); o.push_back((char)off); }
            else if (form == 2) { o.push_back((char)(2 | ((l - 1) << 2))); o.push_back((char)off); o.push_back((char)(off >> 8)); }
            else { o.push_back((char)(3 | ((l - 1) << 2))); for (int k = 0; k < 4; k++) o.push_back((char)(off >> (8 * k))); }
            len -= l;
        }
    };
    while (i + 4 <= n) {
        uint32_t w; memcpy(&w, in.data() + i, 4);
        uint32_t h = (w * 0x1e35a7bdu) >> 20;
        int32_t cand = table[h]; table[h] = (int32_t)i;
        if (cand >= 0 && memcmp(in.data() + cand, in.data() + i, 4) == 0) {
            size_t len = 4; while (i + len < n && in[(size_t)cand + len] == in[i + len]) len++;
            if (lit < i) emit_lit(lit, i - lit);
            emit_copy(i - (size_t)cand, len);
            i += len; lit = i;
        } else i++;
    }
    if (lit < n) emit_lit(lit, n - lit);
    return o;
}

// ------------------------------------------------------------------ LZ4 (raw block)
static inline bool lz4_decode(const uint8_t* p, size_t n, size_t expect, std::string& out) {
    out.clear(); size_t pos = 0;
    if (n == 0) return expect == 0;
    while (pos < n) {
        uint8_t tok = p[pos++];
        uint64_t ll = tok >> 4;
        if (ll == 15) { uint8_t b; do { if (pos >= n) return false; b = p[pos++]; ll += b; } while (b == 255); }
        if (ll > n - pos || out.size() + ll > expect) return false;
        out.append((const char*)p + pos, (size_t)ll); pos += (size_t)ll;
        if (pos == n) break;                      // last sequence: literals only
        if (n - pos < 2) return false;
        size_t off = p[pos] | ((size_t)p[pos + 1] << 8); pos += 2;
        if (off == 0 || off > out.size()) return false;
        uint64_t ml = tok & 15;
        if (ml == 15) { uint8_t b; do { if (pos >= n) return false; b = p[pos++]; ml += b; } while (b == 255); }
        ml += 4;
        if (out.size() + ml > expect) return false;
        size_t from = out.size() - off;
        for (uint64_t k = 0; k < ml; k++) out.push_back(out[from + (size_t)k]);
    }
    return out.size() == expect;
}

static inline std::string lz4_encode(const std::string& in) {
    std::string o; size_t n = in.size(), i = 0, lit = 0;
    std::vector<int32_t> table(1 << 12, -1);
    auto put_len = [&](uint64_t v) { while (v >= 255) { o.push_back((char)255); v -= 255; } o.push_back((char)v); };
    auto seq = [&](size_t lfrom, size_t ll, size_t off, size_t ml) {   // ml == 0: final literals
        uint8_t tok = (uint8_t)((ll >= 15 ? 15 : ll) << 4);
        if (ml) tok |= (uint8_t)((ml - 4) >= 15 ? 15 : (ml - 4));
        o.push_back((char)tok);
        if (ll >= 15) put_len(ll - 15);
        o.append(in, lfrom, ll);
        if (ml) { o.push_back((char)off); o.push_back((char)(off >> 8)); if (ml - 4 >= 15) put_len(ml - 4 - 15); }
    };
    if (n >= 13) {
        size_t mflimit = n - 12;
        while (i < mflimit) {
            uint32_t w; memcpy(&w, in.data() + i, 4);
            uint32_t h = (w * 2654435761u) >> 20;
            int32_t cand = table[h]; table[h] = (int32_t)i;
            if (cand >= 0 && i - (size_t)cand <= 65535 && memcmp(in.data() + cand, in.data() + i, 4) == 0) {
                size_t len = 4, maxlen = n - 5 - i;      // last 5 bytes are always literals
                while (len < maxlen && in[(size_t)cand + len] == in[i + len]) len++;
                if (len >= 4 && len <= maxlen) { seq(lit, i - lit, i - (size_t)cand, len); i += len; lit = i; continue; }
            }
            i++;
        }
    }
    seq(lit, n - lit, 0, 0);
    return o;
}

// ------------------------------------------------------------------ GZIP / ZSTD via the system libraries
static inline bool gzip_decode(const uint8_t* p, size_t n, size_t expect, std::string& out) {
    out.assign(expect ? expect : 1, '\0');
    z_stream z; memset(&z, 0, sizeof z);
    if (inflateInit2(&z, 15 + 16) != Z_OK) return false;       // gzip member (RFC 1952), as the format requires
    z.next_in = (Bytef*)p; z.avail_in = (uInt)n; z.next_out = (Bytef*)&out[0]; z.avail_out = (uInt)out.size();
    // a gzip page may consist of several members back to back (RFC 1952 2.2; Compression.md: readers should support that)
    int rc; size_t got = 0;
    for (;;) {
        rc = inflate(&z, Z_FINISH);
        got = out.size() - z.avail_out;
        if (rc != Z_STREAM_END || z.avail_in == 0) break;
        if (inflateReset(&z) != Z_OK) { rc = Z_DATA_ERROR; break; }
    }
    bool all_in = z.avail_in == 0;
    inflateEnd(&z);
    if (rc != Z_STREAM_END || got != expect || !all_in) return false;
    out.resize(expect);
    return true;
}
static inline std::string gzip_encode(const std::string& in, int level) {
    z_stream z; memset(&z, 0, sizeof z);
    deflateInit2(&z, level, Z_DEFLATED, 15 + 16, 8, Z_DEFAULT_STRATEGY);
    std::string out(deflateBound(&z, (uLong)in.size()) + 32, '\0');
    z.next_in = (Bytef*)in.data(); z.avail_in = (uInt)in.size(); z.next_out = (Bytef*)&out[0]; z.avail_out = (uInt)out.size();
    deflate(&z, Z_FINISH);
    out.resize(z.total_out);
    deflateEnd(&z);
    return out;
}
static inline bool zstd_decode(const uint8_t* p, size_t n, size_t expect, std::string& out) {
    out.assign(expect ? expect : 1, '\0');
    size_t r = ZSTD_decompress(&out[0], out.size(), p, n);
    if (ZSTD_isError(r) || r != expect) return false;
    out.resize(expect);
    return true;
}
static inline std::string zstd_encode(const std::string& in, int level) {
    std::string out(ZSTD_compressBound(in.size()), '\0');
    size_t r = ZSTD_compress(&out[0], out.size(), in.data(), in.size(), level);
    out.resize(ZSTD_isError(r) ? 0 : r);
    return out;
}
static inline uint32_t crc32_ieee(const void* p, size_t n) { return (uint32_t)crc32(crc32(0L, Z_NULL, 0), (const Bytef*)p, (uInt)n); }

// codec ids as in parquet.thrift
enum { C_NONE = 0, C_SNAPPY = 1, C_GZIP = 2, C_LZO = 3, C_BROTLI = 4, C_LZ4 = 5, C_ZSTD = 6, C_LZ4_RAW = 7 };

static inline bool decompress(int codec, const uint8_t* p, size_t n, size_t expect, std::string& out, std::string* why) {
    bool ok = false;
    switch (codec) {
        case C_NONE: out.assign((const char*)p, n); ok = n == expect; break;
        case C_SNAPPY: ok = snappy_decode(p, n, out) && out.size() == expect; break;
        case C_GZIP: ok = gzip_decode(p, n, expect, out); break;
        case C_ZSTD: ok = zstd_decode(p, n, expect, out); break;
        case C_LZ4_RAW: ok = lz4_decode(p, n, expect, out); break;
        case C_LZ4: {
            // Deprecated Hadoop framing: repeated [u32be uncompressed][u32be compressed][raw block]
            out.clear(); size_t pos = 0; ok = true;
            while (pos < n && ok) {
                if (n - pos < 8) { ok = false; break; }
                auto be = [&](size_t at) { return ((uint32_t)p[at] << 24) | ((uint32_t)p[at + 1] << 16) | ((uint32_t)p[at + 2] << 8) | p[at + 3]; };
                uint32_t ul = be(pos), cl = be(pos + 4); pos += 8;
                if (cl > n - pos || ul > expect - std::min(expect, out.size())) { ok = false; break; }
                std::string part; if (!lz4_decode(p + pos, cl, ul, part)) { ok = false; break; }
                out += part; pos += cl;
            }
            ok = ok && out.size() == expect;
            if (!ok && why) *why = "codec tag LZ4 (5) requires Hadoop-framed LZ4; the bytes are not in that framing";
            return ok;
        }
        default: if (why) *why = "codec not decodable by the reference reader"; return false;
    }
    if (!ok && why) *why = "page body does not decode with the codec the chunk declares (or inflated size != uncompressed_page_size)";
    return ok;
}

static inline std::string compress(int codec, const std::string& in, bool exotic, sim::Rng& r) {
    switch (codec) {
        case C_SNAPPY: return snappy_encode(in, exotic, r);
        case C_GZIP: {
            if (exotic && in.size() >= 2 && r.below(2)) {      // two or three gzip members
                size_t a = 1 + r.below((uint32_t)in.size() - 1), b = a + (in.size() - a > 1 && r.below(2) ? 1 + r.below((uint32_t)(in.size() - a) - 1) : in.size() - a);
                std::string o = gzip_encode(in.substr(0, a), 1 + (int)r.below(9)) + gzip_encode(in.substr(a, b - a), 1 + (int)r.below(9));
                if (b < in.size()) o += gzip_encode(in.substr(b), 1 + (int)r.below(9));
                return o;
            }
            return gzip_encode(in, 1 + (int)r.below(9));
        }
        case C_ZSTD: {
            if (exotic && in.size() >= 2 && r.below(2)) {      // two zstd frames (a valid zstd stream)
                size_t a = 1 + r.below((uint32_t)in.size() - 1);
                return zstd_encode(in.substr(0, a), 1 + (int)r.below(6)) + zstd_encode(in.substr(a), 1 + (int)r.below(6));
            }
            return zstd_encode(in, 1 + (int)r.below(6));
        }
        case C_LZ4_RAW: return lz4_encode(in);
        default: return in;
    }
}

}  // namespace ref
