// Independent Parquet *writer*: the simulated foreign node whose files carquet
// must read. Emits any table model (flat or nested) with a layout plan full of
// legal-but-unusual choices ("buggify points of the peer").
#pragma once
#include "thrift.h"
#include "enc.h"
#include "../model/table.h"
#include <algorithm>
#include <map>

namespace ref {
using namespace model;

struct ChunkLayout {
    std::vector<size_t> page_entries;  // level entries per data page
    bool dict = false;                 // dictionary page + dictionary-encoded data pages
    int dict_tag = 8;                  // 2 PLAIN_DICTIONARY or 8 RLE_DICTIONARY on data pages
    int dict_page_enc = 0;             // 0 PLAIN or 2 PLAIN_DICTIONARY on the dictionary page
    int fallback_after = -1;           // pages with index >= this are PLAIN although a dictionary exists
    int plain_first = 0;               // pages with index < this are PLAIN although a dictionary exists (plain pages BEFORE dictionary-encoded ones)
    int extra_index_bits = 0;          // index bit width wider than necessary
    int level_policy = 0, index_policy = 0;
    bool crc = false;
    bool dict_offset_present = true;
    int chunk_stats = 0;               // 0 none, 1 min_value/max_value, 2 deprecated min/max, 3 both
    int nan_policy = 0;                // statistics over chunks holding NaN: 0 omit min/max, 1 bounds of the non-NaN values
    bool page_stats = false;
    int file_offset_mode = 0;          // ColumnChunk.file_offset: 0 zero, 1 chunk start, 2 chunk end
    bool shuffle_dict = false;
    int unsupported = 0;               // 0 none; 1 DELTA_BINARY_PACKED tag, 2 BYTE_STREAM_SPLIT tag, 3 data page v2, 5 BIT_PACKED levels tag
};
// A deliberate inconsistency planted while the file is emitted (for hostile-file campaigns): offsets stay coherent,
// one field says something else than the bytes.
struct Lie {
    size_t chunk = 0; int page = 0;     // page index among the chunk's pages (0 = first page incl. dictionary page)
    std::vector<int> path;              // Thrift field path inside the PageHeader, e.g. {5,1} = data_page_header.num_values
    int64_t value = 0;
    bool relative = false;              // header lies: value is a delta added to the true value (near-miss sizes and counts)
    int body_kind = 0;                  // 0 header field; 1 first byte of the values section (dictionary index bit width); 2 definition-level length prefix; 3 repetition-level length prefix; 4 values section replaced by `value` zero bytes
};
struct Layout {
    std::vector<Lie> lies;
    int codec = 0;
    std::vector<ChunkLayout> chunks;   // rg-major
    int root_rep = -1;   // repetition_type stated on the root element (-1: absent, as the format says; Arrow C++ states REPEATED) - readers ignore it
    bool long_form = false, junk_fields = false, kv_meta = false, exotic_snappy = false, column_orders = true, ordinals = true;
    int version = 1;
    std::string created_by = "refparquet version 1.0 (build sim)";
    int bad_codec_tag = -1;            // when >= 0: footer claims this (unsupported) codec
    uint64_t rng_seed = 1;
};
struct Written {
    std::string bytes;
    struct ChunkOut { uint64_t start, end, data_page_offset; std::vector<std::pair<uint64_t, uint64_t>> page_bodies; bool has_minmax = false; std::string mn, mx, dmn, dmx; int64_t nulls = 0; int stats_mode = 0; };      // dmn/dmx: bounds in signed byte order (deprecated fields of byte-array columns)
    std::vector<ChunkOut> chunks;
    uint64_t footer_start = 0;
};

// ---- type order used for statistics
static inline int cmp_values(int type, const std::string& a, const std::string& b) {
    switch (type) {
        case T_BOOL: return (int)(uint8_t)a[0] - (int)(uint8_t)b[0];
        case T_I32: { int32_t x, y; memcpy(&x, a.data(), 4); memcpy(&y, b.data(), 4); return x < y ? -1 : x > y; }
        case T_I64: { int64_t x, y; memcpy(&x, a.data(), 8); memcpy(&y, b.data(), 8); return x < y ? -1 : x > y; }
        case T_F32: { float x, y; memcpy(&x, a.data(), 4); memcpy(&y, b.data(), 4); return x < y ? -1 : x > y; }
        case T_F64: { double x, y; memcpy(&x, a.data(), 8); memcpy(&y, b.data(), 8); return x < y ? -1 : x > y; }
        default: { size_t m = std::min(a.size(), b.size()); int c = memcmp(a.data(), b.data(), m); if (c) return c < 0 ? -1 : 1; return a.size() < b.size() ? -1 : a.size() > b.size(); }
    }
}
// comparison in the column's order (see Col::order)
static inline int cmp_ordered(const Col& c, const std::string& a, const std::string& b) {
    if (c.order == 1 && c.type == T_I32) { uint32_t x, y; memcpy(&x, a.data(), 4); memcpy(&y, b.data(), 4); return x < y ? -1 : x > y; }
    if (c.order == 1 && c.type == T_I64) { uint64_t x, y; memcpy(&x, a.data(), 8); memcpy(&y, b.data(), 8); return x < y ? -1 : x > y; }
    if (c.order == 2 && !a.empty() && a.size() == b.size()) {
        int sa = (int8_t)a[0], sb = (int8_t)b[0];
        if (sa != sb) return sa < sb ? -1 : 1;
        int k = memcmp(a.data() + 1, b.data() + 1, a.size() - 1); return k < 0 ? -1 : k > 0;
    }
    return cmp_values(c.type, a, b);
}
static inline bool is_nan_value(int type, const std::string& v) {
    if (type == T_F32) { float x; memcpy(&x, v.data(), 4); return x != x; }
    if (type == T_F64) { double x; memcpy(&x, v.data(), 8); return x != x; }
    return false;
}
// true bounds over a range of values; false when none can be stated (no values, NaN present, INT96)
// nan_policy 0: no min/max at all when a NaN is present (what parquet-mr does); 1: min/max over the non-NaN values
// (what the format text asks for: "NaN values should not be written to min/max")
static inline bool min_max(int type, const std::vector<std::string>& vals, size_t from, size_t to, std::string* mn, std::string* mx, int nan_policy = 0, const Col* col = nullptr) {
    if (col && col->order == 3) return false;
    if (type == T_I96 || from >= to) return false;
    bool have = false;
    for (size_t i = from; i < to; i++) {
        if (is_nan_value(type, vals[i])) { if (nan_policy == 0) return false; continue; }
        if (!have) { *mn = *mx = vals[i]; have = true; continue; }
        if ((col ? cmp_ordered(*col, vals[i], *mn) : cmp_values(type, vals[i], *mn)) < 0) *mn = vals[i];
        if ((col ? cmp_ordered(*col, vals[i], *mx) : cmp_values(type, vals[i], *mx)) > 0) *mx = vals[i];
    }
    if (!have) return false;
    // -0.0 / +0.0: bounds must cover both signs
    if (type == T_F32) { float a, b; memcpy(&a, mn->data(), 4); memcpy(&b, mx->data(), 4); if (a == 0) { a = -0.0f; mn->assign((char*)&a, 4); } if (b == 0) { b = 0.0f; mx->assign((char*)&b, 4); } }
    if (type == T_F64) { double a, b; memcpy(&a, mn->data(), 8); memcpy(&b, mx->data(), 8); if (a == 0) { a = -0.0; mn->assign((char*)&a, 8); } if (b == 0) { b = 0.0; mx->assign((char*)&b, 8); } }
    return true;
}

// DELTA_BINARY_PACKED (block 128, 4 miniblocks) - used only to emit a spec-valid page carquet must reject
static inline std::string delta_binary_packed(int type, const std::vector<std::string>& vals, size_t from, size_t to) {
    std::string o; std::vector<int64_t> v;
    for (size_t i = from; i < to; i++) { if (type == T_I32) { int32_t x; memcpy(&x, vals[i].data(), 4); v.push_back(x); } else { int64_t x; memcpy(&x, vals[i].data(), 8); v.push_back(x); } }
    auto zz = [&](int64_t x) { put_varint(o, ((uint64_t)x << 1) ^ (uint64_t)(x >> 63)); };
    put_varint(o, 128); put_varint(o, 4); put_varint(o, v.size()); zz(v.empty() ? 0 : v[0]);
    size_t i = 1;
    while (i < v.size()) {
        size_t n = std::min<size_t>(128, v.size() - i);
        std::vector<uint64_t> d(128, 0); int64_t mind = INT64_MAX;
        for (size_t k = 0; k < n; k++) { int64_t dd = (int64_t)((uint64_t)v[i + k] - (uint64_t)v[i + k - 1]); if (dd < mind) mind = dd; }
        for (size_t k = 0; k < n; k++) d[k] = (uint64_t)v[i + k] - (uint64_t)v[i + k - 1] - (uint64_t)mind;
        zz(mind);
        int bw[4];
        for (int m = 0; m < 4; m++) { uint64_t mx = 0; for (int k = 0; k < 32; k++) if ((size_t)(m * 32 + k) < n) mx |= d[(size_t)(m * 32 + k)]; int w = 0; while (mx) { w++; mx >>= 1; } bw[m] = (size_t)(m * 32) < n ? w : 0; o.push_back((char)bw[m]); }
        for (int m = 0; m < 4; m++) { if ((size_t)(m * 32) >= n) break; std::string b((size_t)bw[m] * 4, '\0'); size_t bit = 0;
            for (int k = 0; k < 32; k++) { uint64_t x = d[(size_t)(m * 32 + k)]; for (int q = 0; q < bw[m]; q++, bit++) if ((x >> q) & 1) b[bit >> 3] = (char)(b[bit >> 3] | (1 << (bit & 7))); }
            o += b; }
        i += n;
    }
    return o;
}

static inline void plain_encode(const Col& c, const std::vector<std::string>& vals, size_t from, size_t to, std::string& o) {
    if (c.type == T_BOOL) {
        std::string bits((to - from + 7) / 8, '\0');
        for (size_t i = from; i < to; i++) if (vals[i][0]) bits[(i - from) >> 3] = (char)(bits[(i - from) >> 3] | (1 << ((i - from) & 7)));
        o += bits;
    } else if (c.type == T_BA) {
        for (size_t i = from; i < to; i++) { uint32_t L = (uint32_t)vals[i].size(); o.append((const char*)&L, 4); o += vals[i]; }
    } else for (size_t i = from; i < to; i++) o += vals[i];
}

static inline void add_junk(TV& st, sim::Rng& r) {
    int n = 1 + (int)r.below(2);
    for (int k = 0; k < n; k++) {
        int id = 100 + (int)r.below(30000);
        TV v;
        switch (r.below(13)) {
            case 0: v = TV::I32((int32_t)r.next()); break;
            case 1: v = TV::I64((int64_t)r.next()); break;
            case 2: v = TV::Bin(std::string(r.below(40), 'j')); break;
            case 3: v = TV::Bool(r.below(2)); break;
            case 4: v = TV::Dbl(1.5); break;
            case 5: { v = TV::List(TT_I32); for (uint32_t i = 0; i < r.below(20); i++) v.l.push_back(TV::I32(i)); break; }
            case 6: { v = TV::Struct(); v.add(1, TV::I8(7)); v.add(3, TV::Bin("x")); TV in = TV::Struct(); in.add(2, TV::I16(-3)); v.add(9, in); break; }
            case 7: { v.t = TT_MAP; v.kt = TT_BINARY; v.vt = TT_I32; for (uint32_t i = 0; i < r.below(4); i++) v.m.push_back({TV::Bin("k"), TV::I32(i)}); break; }
            // containers with more elements than a reader's first header window has bytes left
            case 8: { v = TV::List(TT_BYTE); uint32_t n = 200 + r.below(400); for (uint32_t i = 0; i < n; i++) v.l.push_back(TV::I8((int)(i & 63))); break; }
            case 9: { v = TV::List(TT_I32); uint32_t n = 40 + r.below(260); for (uint32_t i = 0; i < n; i++) v.l.push_back(TV::I32((int32_t)i * 3)); break; }
            // bool elements of a container are one byte each (a bool FIELD has its value in the field header)
            case 10: { v = TV::List(TT_TRUE); uint32_t n = 1 + r.below(20); for (uint32_t i = 0; i < n; i++) v.l.push_back(TV::Bool(r.below(2))); break; }
            case 11: { v.t = TT_MAP; v.kt = TT_I32; v.vt = TT_TRUE; uint32_t n = 1 + r.below(5); for (uint32_t i = 0; i < n; i++) v.m.push_back({TV::I32(i), TV::Bool(r.below(2))}); break; }
            default: { v = TV::List(TT_STRUCT); TV e = TV::Struct(); e.add(1, TV::Bool(true)); v.l.push_back(e); v.l.push_back(e); break; }
        }
        st.f.push_back({id, v});
    }
    std::stable_sort(st.f.begin(), st.f.end(), [](const std::pair<int, TV>& a, const std::pair<int, TV>& b) { return a.first < b.first; });
}

static inline void schema_elements(const Node& n, bool is_root, std::vector<TV>& out, const Layout& lay, sim::Rng& r) {
    TV e = TV::Struct();
    if (n.leaf) { e.add(1, TV::I32(n.type)); if (n.type == T_FLBA) e.add(2, TV::I32(n.tlen)); }
    if (!is_root) e.add(3, TV::I32(n.rep));
    else if (lay.root_rep >= 0) e.add(3, TV::I32(lay.root_rep));
    e.add(4, TV::Bin(n.name));
    if (!n.leaf) e.add(5, TV::I32((int64_t)n.kids.size()));
    if (n.leaf && n.logical) {
        // LogicalType is a union: exactly one field, whose id says which type; converted_type (6) is the legacy twin, optional
        static const int CONVERTED[16] = {-1, 0, -1, -1, 4, 5, 6, -1, -1, -1, -1, -1, 19, 20, -1, -1};
        int conv = CONVERTED[n.logical];
        if (n.logical == 7 && n.lp1 == 1 && n.lp2 <= 2) conv = n.lp2 == 1 ? 7 : 8;                 // TIME_MILLIS / TIME_MICROS (UTC-adjusted by definition)
        if (n.logical == 8 && n.lp1 == 1 && n.lp2 <= 2) conv = n.lp2 == 1 ? 9 : 10;                // TIMESTAMP_MILLIS / TIMESTAMP_MICROS
        if (n.logical == 10) { int k = n.lp1 == 8 ? 0 : n.lp1 == 16 ? 1 : n.lp1 == 32 ? 2 : 3; conv = (n.lp2 ? 15 : 11) + k; }   // INT_8.. / UINT_8..
        if (n.converted_only && conv >= 0) {
            e.add(6, TV::I32(conv));
            if (n.logical == 5) { e.add(7, TV::I32(n.lp1)); e.add(8, TV::I32(n.lp2)); }
            if (lay.junk_fields && r.below(3) == 0) add_junk(e, r);
            out.push_back(e);
            for (auto& k : n.kids) schema_elements(k, false, out, lay, r);
            return;
        }
        if (n.logical == 1 || (conv >= 0 && r.below(2))) e.add(6, TV::I32(conv));
        if (n.logical == 5) { e.add(7, TV::I32(n.lp1)); e.add(8, TV::I32(n.lp2)); }
        TV body = TV::Struct();
        if (n.logical == 5) { body.add(1, TV::I32(n.lp1)); body.add(2, TV::I32(n.lp2)); }
        else if (n.logical == 7 || n.logical == 8) { TV unit = TV::Struct(); unit.add(n.lp2, TV::Struct()); body.add(1, TV::Bool(n.lp1 != 0)); body.add(2, unit); }
        else if (n.logical == 10) { body.add(1, TV::I8(n.lp1)); body.add(2, TV::Bool(n.lp2 != 0)); }
        TV lt = TV::Struct(); lt.add(n.logical, body); e.add(10, lt);
    }
    if (lay.junk_fields && r.below(3) == 0) add_junk(e, r);
    out.push_back(e);
    for (auto& k : n.kids) schema_elements(k, false, out, lay, r);
}

// parquet.thrift: min_value/max_value are only defined when FileMetaData.column_orders is written; the deprecated min/max are defined
// for the signed order only. So: no column_orders -> deprecated fields at most; a column with another order -> new fields at most.
static inline int effective_stats_mode(int mode, bool column_orders, int order, bool* has_mm) {
    if (mode == 0) return 0;
    bool new_ok = column_orders, old_ok = order == 0;
    if (!new_ok && !old_ok) { *has_mm = false; return mode; }
    if (!new_ok) return 2;
    if (!old_ok) return 1;
    return mode;
}
// the deprecated min/max fields were "determined by signed comparison only" (parquet.thrift): for byte arrays that is the order of
// their bytes read as signed chars - what parquet-mr up to 1.9 wrote. dmn/dmx (if given) are the bounds in that order.
static inline int cmp_signed_bytes(const std::string& a, const std::string& b) {
    size_t m = std::min(a.size(), b.size());
    for (size_t i = 0; i < m; i++) { int x = (int8_t)a[i], y = (int8_t)b[i]; if (x != y) return x < y ? -1 : 1; }
    return a.size() < b.size() ? -1 : a.size() > b.size();
}
static inline void signed_byte_bounds(const std::vector<std::string>& vals, size_t from, size_t to, std::string* mn, std::string* mx) {
    for (size_t i = from; i < to; i++) { if (i == from || cmp_signed_bytes(vals[i], *mn) < 0) *mn = vals[i]; if (i == from || cmp_signed_bytes(vals[i], *mx) > 0) *mx = vals[i]; }
}
static inline TV stats_struct(int mode, bool has_mm, const std::string& mn, const std::string& mx, int64_t nulls, const std::string* dmn = nullptr, const std::string* dmx = nullptr) {
    TV s = TV::Struct();
    if (has_mm && (mode == 2 || mode == 3)) { s.add(1, TV::Bin(dmx ? *dmx : mx)); s.add(2, TV::Bin(dmn ? *dmn : mn)); }
    s.add(3, TV::I64(nulls));
    if (has_mm && (mode == 1 || mode == 3)) { s.add(5, TV::Bin(mx)); s.add(6, TV::Bin(mn)); }
    return s;
}

static inline Written write_file(const Table& t, const Layout& lay) {
    Written W; std::string& o = W.bytes;
    sim::Rng r; r.seed(lay.rng_seed, 0xF11E);
    o = "PAR1";
    TV rgs = TV::List(TT_STRUCT);
    int64_t total_rows = 0;
    size_t li = 0;
    for (size_t g = 0; g < t.rgs.size(); g++) {
        const RowGroup& rg = t.rgs[g];
        TV cols = TV::List(TT_STRUCT);
        uint64_t rg_start = o.size(), rg_unc = 0, rg_comp = 0;
        for (size_t c = 0; c < t.cols.size(); c++, li++) {
            const Col& col = t.cols[c]; const Chunk& ch = rg.cols[c];
            const ChunkLayout& L = lay.chunks[li];
            Written::ChunkOut co; co.start = o.size();
            uint64_t unc_total = 0;
            std::vector<int> encs;
            // dictionary
            std::vector<std::string> dict; std::map<std::string, uint32_t> dix;
            bool use_dict = L.dict && col.type != T_BOOL && !ch.vals.empty();
            int page_counter = 0;
            auto apply_header_lies = [&](TV& H) {
                for (auto& lie : lay.lies) {
                    if (lie.chunk != li || lie.page != page_counter || lie.body_kind != 0 || lie.path.empty()) continue;
                    TV* cur = &H; bool ok = true;
                    for (size_t k = 0; k + 1 < lie.path.size(); k++) { cur = cur->getm(lie.path[k]); if (!cur) { ok = false; break; } }
                    if (!ok) continue;
                    TV* leaf = cur->getm(lie.path.back());
                    if (leaf) leaf->i = lie.relative ? leaf->i + lie.value : lie.value; else cur->add(lie.path.back(), TV::I32(lie.value));
                }
            };
            auto apply_body_lies = [&](std::string& body, size_t rep_len, size_t def_len) {
                for (auto& lie : lay.lies) {
                    if (lie.chunk != li || lie.page != page_counter || lie.body_kind == 0) continue;
                    uint32_t v = (uint32_t)lie.value;
                    if (lie.body_kind == 1 && body.size() > rep_len + def_len) body[rep_len + def_len] = (char)lie.value;
                    else if (lie.body_kind == 2 && def_len >= 4) memcpy(&body[rep_len], &v, 4);
                    else if (lie.body_kind == 3 && rep_len >= 4) memcpy(&body[0], &v, 4);
                    else if (lie.body_kind == 4) { size_t keep = std::min(body.size(), rep_len + def_len + 1); body.resize(keep); body.append((size_t)std::max<int64_t>(lie.value, 0), '\0'); }   // values section = a long stretch of zero bytes (zero-length runs)
                }
            };
            auto emit_page = [&](TV& H, const std::string& body, bool is_dict) {
                std::string comp = lay.codec == C_NONE ? body : compress(lay.codec, body, lay.exotic_snappy, r);
                H.set(2, TV::I32((int64_t)body.size())); H.set(3, TV::I32((int64_t)comp.size()));
                if (L.crc) H.set(4, TV::I32((int32_t)crc32_ieee(comp.data(), comp.size())));
                apply_header_lies(H);
                page_counter++;
                std::stable_sort(H.f.begin(), H.f.end(), [](const std::pair<int, TV>& a, const std::pair<int, TV>& b) { return a.first < b.first; });
                std::string hb = tv_serialize(H, lay.long_form);
                o += hb; co.page_bodies.push_back({o.size(), o.size() + comp.size()}); o += comp;
                unc_total += hb.size() + body.size();
                (void)is_dict;
            };
            if (use_dict) {
                for (auto& v : ch.vals) if (!dix.count(v)) { dix[v] = (uint32_t)dict.size(); dict.push_back(v); }
                if (L.shuffle_dict) { for (size_t i = dict.size(); i > 1; i--) std::swap(dict[i - 1], dict[r.below((uint32_t)i)]); for (size_t i = 0; i < dict.size(); i++) dix[dict[i]] = (uint32_t)i; }
                std::string body; plain_encode(col, dict, 0, dict.size(), body);
                TV H = TV::Struct(); H.add(1, TV::I32(2));
                TV DH = TV::Struct(); DH.add(1, TV::I32((int64_t)dict.size())); DH.add(2, TV::I32(L.dict_page_enc)); if (r.below(2)) DH.add(3, TV::Bool(false));
                if (lay.junk_fields && r.below(3) == 0) add_junk(DH, r);
                H.add(7, DH);
                emit_page(H, body, true);
                encs.push_back(L.dict_page_enc);
            }
            co.data_page_offset = o.size();
            size_t e0 = 0, v0 = 0; int pageno = 0;
            for (size_t pe : L.page_entries) {
                size_t e1 = e0 + pe, nn = 0, nrows = 0;
                for (size_t i = e0; i < e1; i++) { nn += ch.def[i] == col.max_def; nrows += ch.rep[i] == 0; }
                size_t v1 = v0 + nn;
                bool v2 = L.unsupported == 3, legacy_bitpacked = L.unsupported == 5;
                // ---- levels
                auto encode_levels = [&](const std::vector<int16_t>& src, int maxl) -> std::string {
                    std::vector<uint32_t> lv; for (size_t i = e0; i < e1; i++) lv.push_back((uint32_t)src[i]);
                    int bw = bit_width_of((uint32_t)maxl);
                    if (legacy_bitpacked) {      // deprecated BIT_PACKED: MSB-first, no length prefix
                        std::string b((lv.size() * (size_t)bw + 7) / 8, '\0'); size_t bit = 0;
                        for (auto x : lv) for (int k = bw - 1; k >= 0; k--, bit++) if ((x >> k) & 1) b[bit >> 3] = (char)(b[bit >> 3] | (0x80 >> (bit & 7)));
                        return b;
                    }
                    std::string b = hybrid_encode(lv, bw, L.level_policy, r);
                    if (v2) return b;
                    std::string out; uint32_t n = (uint32_t)b.size(); out.append((const char*)&n, 4); out += b; return out;
                };
                std::string rep_bytes = col.max_rep > 0 ? encode_levels(ch.rep, col.max_rep) : std::string();
                std::string def_bytes = col.max_def > 0 ? encode_levels(ch.def, col.max_def) : std::string();
                // ---- values
                std::string vals; int enc;
                bool page_dict = use_dict && pageno >= L.plain_first && (L.fallback_after < 0 || pageno < L.fallback_after);
                if (L.unsupported == 1 && (col.type == T_I32 || col.type == T_I64)) {
                    enc = 5; vals = delta_binary_packed(col.type, ch.vals, v0, v1);
                } else if (L.unsupported == 2 && (col.type == T_F32 || col.type == T_F64)) {
                    enc = 9; size_t w = col.type == T_F32 ? 4 : 8; size_t cnt = v1 - v0; vals.assign(cnt * w, '\0');
                    for (size_t i = 0; i < cnt; i++) for (size_t k = 0; k < w; k++) vals[k * cnt + i] = ch.vals[v0 + i][k];
                } else if (page_dict) {
                    enc = L.dict_tag;
                    int bw = std::min(32, bit_width_of(dict.empty() ? 0 : (uint32_t)dict.size() - 1) + L.extra_index_bits);
                    vals.push_back((char)bw);
                    std::vector<uint32_t> ix; for (size_t i = v0; i < v1; i++) ix.push_back(dix[ch.vals[i]]);
                    vals += hybrid_encode(ix, bw, L.index_policy, r);
                } else { enc = 0; plain_encode(col, ch.vals, v0, v1, vals); }
                TV H = TV::Struct();
                if (v2) {
                    // data page v2: levels stay uncompressed in front of the (optionally compressed) values
                    std::string comp = lay.codec == C_NONE ? vals : compress(lay.codec, vals, lay.exotic_snappy, r);
                    H.add(1, TV::I32(3));
                    H.add(2, TV::I32((int64_t)(rep_bytes.size() + def_bytes.size() + vals.size())));
                    H.add(3, TV::I32((int64_t)(rep_bytes.size() + def_bytes.size() + comp.size())));
                    std::string stored = rep_bytes + def_bytes + comp;
                    if (L.crc) H.add(4, TV::I32((int32_t)crc32_ieee(stored.data(), stored.size())));
                    TV D2 = TV::Struct(); D2.add(1, TV::I32((int64_t)pe)); D2.add(2, TV::I32((int64_t)(pe - nn))); D2.add(3, TV::I32((int64_t)nrows)); D2.add(4, TV::I32(enc));
                    D2.add(5, TV::I32((int64_t)def_bytes.size())); D2.add(6, TV::I32((int64_t)rep_bytes.size())); D2.add(7, TV::Bool(lay.codec != C_NONE));
                    H.add(8, D2);
                    std::string hb = tv_serialize(H, lay.long_form);
                    o += hb; co.page_bodies.push_back({o.size(), o.size() + stored.size()}); o += stored;
                    unc_total += hb.size() + rep_bytes.size() + def_bytes.size() + vals.size();
                } else {
                    std::string body = rep_bytes + def_bytes + vals;
                    apply_body_lies(body, rep_bytes.size(), def_bytes.size());
                    int lvl_tag = legacy_bitpacked ? 4 : 3;
                    H.add(1, TV::I32(0));
                    TV DH = TV::Struct(); DH.add(1, TV::I32((int64_t)pe)); DH.add(2, TV::I32(enc)); DH.add(3, TV::I32(lvl_tag)); DH.add(4, TV::I32(lvl_tag));
                    if (L.page_stats) { std::string mn, mx; bool mm = min_max(col.type, ch.vals, v0, v1, &mn, &mx, 0, &col); if (mm && mn.size() + mx.size() > 1200) mm = false; int em = effective_stats_mode(L.chunk_stats ? L.chunk_stats : 1, lay.column_orders, col.order, &mm); std::string dmn, dmx; bool bytes = col.type == T_BA || col.type == T_FLBA; if (mm && bytes) signed_byte_bounds(ch.vals, v0, v1, &dmn, &dmx); DH.add(5, stats_struct(em, mm, mn, mx, (int64_t)(pe - nn), bytes ? &dmn : nullptr, bytes ? &dmx : nullptr)); }      // the deprecated min/max fields are defined for the signed order only
                    if (lay.junk_fields && r.below(4) == 0) add_junk(DH, r);
                    H.add(5, DH);
                    if (lay.junk_fields && r.below(4) == 0) add_junk(H, r);
                    emit_page(H, body, false);
                }
                encs.push_back(enc); if (col.max_def > 0 || col.max_rep > 0) encs.push_back(legacy_bitpacked ? 4 : 3);
                e0 = e1; v0 = v1; pageno++;
            }
            co.end = o.size();
            co.has_minmax = min_max(col.type, ch.vals, 0, ch.vals.size(), &co.mn, &co.mx, L.nan_policy, &col);
            co.nulls = (int64_t)(ch.def.size() - ch.vals.size());
            // column chunk metadata
            TV M = TV::Struct();
            M.add(1, TV::I32(col.type));
            std::sort(encs.begin(), encs.end()); encs.erase(std::unique(encs.begin(), encs.end()), encs.end());
            TV el = TV::List(TT_I32); for (int e : encs) el.l.push_back(TV::I32(e)); M.add(2, el);
            TV pl = TV::List(TT_BINARY); for (auto& p : col.path) pl.l.push_back(TV::Bin(p)); M.add(3, pl);
            M.add(4, TV::I32(lay.bad_codec_tag >= 0 ? lay.bad_codec_tag : lay.codec));
            M.add(5, TV::I64((int64_t)ch.def.size()));
            M.add(6, TV::I64((int64_t)unc_total));
            M.add(7, TV::I64((int64_t)(co.end - co.start)));
            // without dictionary_page_offset the chunk is located by data_page_offset, which then points at its first page (the dictionary page)
            M.add(9, TV::I64((int64_t)((use_dict && !L.dict_offset_present) ? co.start : co.data_page_offset)));
            if (use_dict && L.dict_offset_present) M.add(11, TV::I64((int64_t)co.start));
            if (L.chunk_stats) { int em = effective_stats_mode(L.chunk_stats, lay.column_orders, col.order, &co.has_minmax); co.stats_mode = em; bool bytes = col.type == T_BA || col.type == T_FLBA; if (co.has_minmax && bytes) signed_byte_bounds(ch.vals, 0, ch.vals.size(), &co.dmn, &co.dmx); M.add(12, stats_struct(em, co.has_minmax, co.mn, co.mx, co.nulls, bytes ? &co.dmn : nullptr, bytes ? &co.dmx : nullptr)); }
            if (lay.junk_fields && r.below(3) == 0) add_junk(M, r);
            TV CC = TV::Struct();
            CC.add(2, TV::I64(L.file_offset_mode == 0 ? 0 : L.file_offset_mode == 1 ? (int64_t)co.start : (int64_t)co.end));
            CC.add(3, M);
            if (lay.junk_fields && r.below(4) == 0) add_junk(CC, r);
            cols.l.push_back(CC);
            rg_unc += unc_total; rg_comp += co.end - co.start;
            W.chunks.push_back(co);
        }
        TV R = TV::Struct();
        R.add(1, cols); R.add(2, TV::I64((int64_t)rg_unc)); R.add(3, TV::I64(rg.rows));
        if (lay.ordinals) { R.add(5, TV::I64((int64_t)rg_start)); R.add(6, TV::I64((int64_t)rg_comp)); R.add(7, TV::I16((int64_t)g)); }
        if (lay.junk_fields && r.below(3) == 0) add_junk(R, r);
        rgs.l.push_back(R);
        total_rows += rg.rows;
    }
    W.footer_start = o.size();
    TV F = TV::Struct();
    F.add(1, TV::I32(lay.version));
    TV sl = TV::List(TT_STRUCT); schema_elements(t.root, true, sl.l, lay, r); F.add(2, sl);
    F.add(3, TV::I64(total_rows));
    F.add(4, rgs);
    if (lay.kv_meta) { TV kv = TV::List(TT_STRUCT); for (int k = 0; k < 3; k++) { TV e = TV::Struct(); e.add(1, TV::Bin("key" + std::to_string(k))); if (k != 1) e.add(2, TV::Bin(std::string((size_t)k * 50, 'v'))); kv.l.push_back(e); } F.add(5, kv); }
    if (!lay.created_by.empty()) F.add(6, TV::Bin(lay.created_by));
    if (lay.column_orders) { TV co = TV::List(TT_STRUCT); for (size_t c = 0; c < t.cols.size(); c++) { TV u = TV::Struct(); u.add(1, TV::Struct()); co.l.push_back(u); } F.add(7, co); }
    if (lay.junk_fields) add_junk(F, r);
    std::string fb = tv_serialize(F, lay.long_form);
    o += fb;
    uint32_t fl = (uint32_t)fb.size(); o.append((const char*)&fl, 4);
    o += "PAR1";
    return W;
}

}  // namespace ref
