// Independent Thrift compact-protocol codec over a generic value tree.
// Written from the protocol description; shares nothing with carquet.
#pragma once
#include <cstdint>
#include <cstring>
#include <string>
#include <utility>
#include <vector>

namespace ref {

enum { TT_STOP = 0, TT_TRUE = 1, TT_FALSE = 2, TT_BYTE = 3, TT_I16 = 4, TT_I32 = 5, TT_I64 = 6, TT_DOUBLE = 7,
       TT_BINARY = 8, TT_LIST = 9, TT_SET = 10, TT_MAP = 11, TT_STRUCT = 12, TT_RAW = 255 };

struct TV {
    uint8_t t = TT_STOP;     // TT_TRUE stands for bool (value in b)
    bool b = false;
    int64_t i = 0;
    double d = 0;
    std::string s;
    std::vector<std::pair<int, TV>> f;     // struct fields in wire order
    uint8_t et = 0;                        // list/set element type
    std::vector<TV> l;
    uint8_t kt = 0, vt = 0;
    std::vector<std::pair<TV, TV>> m;
    bool long_form = false;                // writer: force long-form field header for this field
    uint8_t raw_type = 0;                  // t == TT_RAW: pre-serialized value of this wire type (bytes in s)

    const TV* get(int id) const { for (auto& p : f) if (p.first == id) return &p.second; return nullptr; }
    TV* getm(int id) { for (auto& p : f) if (p.first == id) return &p.second; return nullptr; }
    bool has(int id) const { return get(id) != nullptr; }
    int64_t geti(int id, int64_t dflt = 0) const { auto* v = get(id); return v ? v->i : dflt; }
    static TV I32(int64_t v) { TV x; x.t = TT_I32; x.i = v; return x; }
    static TV I64(int64_t v) { TV x; x.t = TT_I64; x.i = v; return x; }
    static TV I16(int64_t v) { TV x; x.t = TT_I16; x.i = v; return x; }
    static TV I8(int64_t v) { TV x; x.t = TT_BYTE; x.i = v; return x; }
    static TV Bool(bool v) { TV x; x.t = TT_TRUE; x.b = v; return x; }
    static TV Dbl(double v) { TV x; x.t = TT_DOUBLE; x.d = v; return x; }
    static TV Bin(const std::string& v) { TV x; x.t = TT_BINARY; x.s = v; return x; }
    static TV Struct() { TV x; x.t = TT_STRUCT; return x; }
    static TV List(uint8_t et) { TV x; x.t = TT_LIST; x.et = et; return x; }
    TV& add(int id, const TV& v) { f.push_back({id, v}); return f.back().second; }
    void set(int id, const TV& v) { for (auto& p : f) if (p.first == id) { p.second = v; return; } f.push_back({id, v}); }
    void erase(int id) { for (size_t k = 0; k < f.size(); k++) if (f[k].first == id) { f.erase(f.begin() + (long)k); return; } }
};

struct TReader {
    const uint8_t* p; size_t n; size_t pos = 0; bool err = false; std::string why; int depth = 0;
    TReader(const uint8_t* d, size_t len) : p(d), n(len) {}
    void fail(const char* w) { if (!err) { err = true; why = w; } }
    uint8_t byte() { if (pos >= n) { fail("truncated"); return 0; } return p[pos++]; }
    uint64_t varint() {
        uint64_t v = 0; int sh = 0;
        for (int k = 0; k < 10; k++) { uint8_t b = byte(); if (err) return 0; v |= (uint64_t)(b & 0x7F) << sh; if (!(b & 0x80)) return v; sh += 7; }
        fail("varint too long"); return 0;
    }
    int64_t zz() { uint64_t v = varint(); return (int64_t)(v >> 1) ^ -(int64_t)(v & 1); }
    TV value(uint8_t t) {
        TV v; v.t = t;
        if (err) return v;
        if (++depth > 64) { fail("nesting too deep"); depth--; return v; }
        switch (t) {
            case TT_TRUE: case TT_FALSE: { uint8_t b = byte(); v.t = TT_TRUE; v.b = b == 1; break; }   // element form
            case TT_BYTE: v.i = (int8_t)byte(); break;
            case TT_I16: case TT_I32: case TT_I64: v.i = zz(); break;
            case TT_DOUBLE: { if (pos + 8 > n) { fail("truncated double"); break; } memcpy(&v.d, p + pos, 8); pos += 8; break; }
            case TT_BINARY: { uint64_t len = varint(); if (err) break; if (len > n - pos) { fail("binary length beyond input"); break; } v.s.assign((const char*)p + pos, (size_t)len); pos += (size_t)len; break; }
            case TT_LIST: case TT_SET: {
                uint8_t h = byte(); uint64_t cnt = h >> 4; v.et = h & 0x0F;
                if (cnt == 15) cnt = varint();
                if (err) break;
                if (cnt > n - pos + 1 && v.et != TT_STRUCT) { if (cnt > n) { fail("list count beyond input"); break; } }
                if (cnt > (1u << 24)) { fail("list too long"); break; }
                for (uint64_t k = 0; k < cnt && !err; k++) v.l.push_back(value(v.et));
                break;
            }
            case TT_MAP: {
                uint64_t cnt = varint(); if (err) break;
                if (cnt > (1u << 24)) { fail("map too long"); break; }
                if (cnt) { uint8_t h = byte(); v.kt = h >> 4; v.vt = h & 0x0F; }
                for (uint64_t k = 0; k < cnt && !err; k++) { TV a = value(v.kt); TV b = value(v.vt); v.m.push_back({a, b}); }
                break;
            }
            case TT_STRUCT: {
                int last = 0;
                while (!err) {
                    uint8_t h = byte(); if (err) break;
                    if (h == TT_STOP) break;
                    uint8_t ft = h & 0x0F; int delta = h >> 4; int id;
                    bool lf = false;
                    if (delta == 0) { id = (int)zz(); lf = true; } else id = last + delta;
                    last = id;
                    if (ft == TT_TRUE || ft == TT_FALSE) { TV b; b.t = TT_TRUE; b.b = ft == TT_TRUE; b.long_form = lf; v.f.push_back({id, b}); continue; }
                    if (ft > TT_STRUCT) { fail("bad field type"); break; }
                    TV x = value(ft); x.long_form = lf;
                    v.f.push_back({id, x});
                }
                break;
            }
            default: fail("bad type"); break;
        }
        depth--;
        return v;
    }
};

struct TWriter {
    std::string out;
    bool all_long_form = false;     // buggify: every field header in long form
    void byte(uint8_t b) { out.push_back((char)b); }
    void varint(uint64_t v) { while (v >= 0x80) { byte((uint8_t)(v | 0x80)); v >>= 7; } byte((uint8_t)v); }
    void zz(int64_t v) { varint(((uint64_t)v << 1) ^ (uint64_t)(v >> 63)); }
    static uint8_t wire_type(const TV& v) { if (v.t == TT_RAW) return v.raw_type; if (v.t == TT_TRUE) return v.b ? (uint8_t)TT_TRUE : (uint8_t)TT_FALSE; return v.t; }
    void value(const TV& v, bool as_element) {
        switch (v.t) {
            case TT_TRUE: case TT_FALSE: if (as_element) byte(v.b ? 1 : 2); break;   // in a field the value is in the header
            case TT_RAW: out += v.s; break;
            case TT_BYTE: byte((uint8_t)(int8_t)v.i); break;
            case TT_I16: case TT_I32: case TT_I64: zz(v.i); break;
            case TT_DOUBLE: { char b[8]; memcpy(b, &v.d, 8); out.append(b, 8); break; }
            case TT_BINARY: varint(v.s.size()); out += v.s; break;
            case TT_LIST: case TT_SET: {
                uint8_t et = v.et == TT_FALSE ? (uint8_t)TT_TRUE : v.et;
                if (v.l.size() < 15) byte((uint8_t)((v.l.size() << 4) | et)); else { byte((uint8_t)(0xF0 | et)); varint(v.l.size()); }
                for (auto& e : v.l) value(e, true);
                break;
            }
            case TT_MAP: {
                varint(v.m.size());
                if (!v.m.empty()) byte((uint8_t)((v.kt << 4) | v.vt));
                for (auto& kv : v.m) { value(kv.first, true); value(kv.second, true); }
                break;
            }
            case TT_STRUCT: {
                int last = 0;
                for (auto& fv : v.f) {
                    int id = fv.first; uint8_t wt = wire_type(fv.second);
                    int delta = id - last;
                    if (!all_long_form && !fv.second.long_form && delta > 0 && delta <= 15) byte((uint8_t)((delta << 4) | wt));
                    else { byte(wt); zz(id); }
                    last = id;
                    value(fv.second, false);
                }
                byte(TT_STOP);
                break;
            }
        }
    }
};

static inline std::string tv_serialize(const TV& v, bool all_long_form = false) { TWriter w; w.all_long_form = all_long_form; w.value(v, false); return w.out; }

}  // namespace ref
