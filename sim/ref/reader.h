// Independent Parquet reader / strict structural validator ("the other party").
// Decodes data page v1 with PLAIN and dictionary encodings into the table
// model and checks everything C05 lists. Shares no code with carquet.
#pragma once
#include "thrift.h"
#include "enc.h"
#include "../model/table.h"
#include <algorithm>
#include <map>

namespace ref {
using namespace model;

struct PageInfo {
    uint64_t header_off = 0, body_off = 0; uint32_t header_len = 0, comp_len = 0, uncomp_len = 0;
    int type = 0; int64_t num_values = 0; int encoding = 0; bool has_crc = false; uint32_t crc = 0;
    bool has_stats = false; std::string st_min, st_max; bool st_has_minmax = false; bool st_has_nulls = false; int64_t st_nulls = 0;
    size_t first_entry = 0;            // index of the page's first level entry within the chunk
    size_t first_value = 0;            // index of its first non-null value within the chunk
    size_t n_entries = 0, n_values = 0;
    uint64_t levels_bytes = 0;         // bytes of rep+def blocks (incl. prefixes) inside the uncompressed body
};
struct ChunkInfo {
    int rg = 0, col = 0; uint64_t start = 0, total_compressed = 0, total_uncompressed = 0; int codec = 0; int64_t num_values = 0;
    bool has_dict = false; std::vector<PageInfo> pages; uint64_t file_offset_field = 0;
    bool has_stats = false;
};
struct Parsed {
    bool ok = false;
    std::string error;             // first structural problem (empty when ok)
    std::string error_class;       // short stable id of the problem
    Table table;
    TV footer;
    uint64_t footer_start = 0, footer_len = 0;
    std::string created_by; int version = 0;
    std::vector<ChunkInfo> chunks;
    bool saw_bitpacked_levels = false, saw_rle_levels = false, saw_dictionary = false;
};

struct ReadOpts {
    bool strict = true;            // enforce the C05 structural list (tiling, sizes, totals, required fields)
    bool check_row_alignment = true;
};

namespace detail {
struct Fail { std::string cls, msg; };
#define REF_FAIL(cls, ...) throw ::ref::detail::Fail{cls, ::sim::fmt(__VA_ARGS__)}
#define REF_REQ(cond, cls, ...) do { if (!(cond)) REF_FAIL(cls, __VA_ARGS__); } while (0)

static inline void build_schema(const std::vector<TV>& el, size_t& idx, Node& out, bool is_root) {
    REF_REQ(idx < el.size(), "schema.tree", "schema element list ends inside a subtree");
    const TV& e = el[idx++];
    REF_REQ(e.has(4), "schema.required_field", "SchemaElement without name");
    out.name = e.get(4)->s;
    int64_t nchild = e.geti(5, 0);
    if (!is_root) {
        REF_REQ(e.has(3), "schema.required_field", "non-root SchemaElement '%s' without repetition_type", out.name.c_str());
        out.rep = (int)e.geti(3);
        REF_REQ(out.rep >= 0 && out.rep <= 2, "schema.repetition", "bad repetition %d", out.rep);
    } else out.rep = REQ;
    if (e.has(1)) {
        REF_REQ(nchild == 0, "schema.tree", "element '%s' has both a type and children", out.name.c_str());
        out.leaf = true; out.type = (int)e.geti(1); out.tlen = (int)e.geti(2, 0);
        REF_REQ(out.type >= 0 && out.type <= 7, "schema.type", "bad physical type %d", out.type);
        if (out.type == T_FLBA) REF_REQ(e.has(2) && out.tlen > 0, "schema.type_length", "FIXED_LEN_BYTE_ARRAY '%s' without positive type_length", out.name.c_str());
    } else {
        out.leaf = false;
        REF_REQ(is_root || nchild > 0, "schema.tree", "group '%s' without children", out.name.c_str());
        REF_REQ(nchild >= 0 && (size_t)nchild <= el.size(), "schema.tree", "bad num_children");
        for (int64_t k = 0; k < nchild; k++) { Node kid; build_schema(el, idx, kid, false); out.kids.push_back(kid); }
    }
}

static inline void decode_plain(const Col& c, const uint8_t* p, size_t n, size_t count, std::vector<std::string>& out, size_t* used) {
    size_t pos = 0;
    if (c.type == T_BOOL) {
        size_t nb = (count + 7) / 8; REF_REQ(nb <= n, "page.values_short", "PLAIN booleans: need %zu bytes, have %zu", nb, n);
        for (size_t i = 0; i < count; i++) out.push_back(std::string(1, (char)((p[i >> 3] >> (i & 7)) & 1)));
        pos = nb;
    } else if (c.type == T_BA) {
        for (size_t i = 0; i < count; i++) {
            REF_REQ(n - pos >= 4, "page.values_short", "PLAIN byte array %zu: no length word", i);
            uint32_t L; memcpy(&L, p + pos, 4); pos += 4;
            REF_REQ(L <= n - pos, "page.values_short", "PLAIN byte array %zu: length %u beyond page", i, L);
            out.emplace_back((const char*)p + pos, L); pos += L;
        }
    } else {
        size_t w = (size_t)fixed_width(c.type, c.tlen);
        REF_REQ(w * count <= n, "page.values_short", "PLAIN %s: need %zu bytes, have %zu", type_name(c.type), w * count, n);
        for (size_t i = 0; i < count; i++) out.emplace_back((const char*)p + i * w, w);
        pos = w * count;
    }
    *used = pos;
}
}  // namespace detail

static inline Parsed parse_file(const uint8_t* d, size_t n, const ReadOpts& ro = ReadOpts()) {
    Parsed P;
    try {
        using namespace detail;
        REF_REQ(n >= 12, "file.too_small", "file has %zu bytes", n);
        REF_REQ(memcmp(d, "PAR1", 4) == 0, "file.leading_magic", "no leading PAR1");
        REF_REQ(memcmp(d + n - 4, "PAR1", 4) == 0, "file.trailing_magic", "no trailing PAR1");
        uint32_t flen; memcpy(&flen, d + n - 8, 4);
        REF_REQ((uint64_t)flen + 12 <= n, "file.footer_length", "footer length %u does not fit in %zu bytes", flen, n);
        P.footer_len = flen; P.footer_start = n - 8 - flen;
        TReader tr(d + P.footer_start, flen);
        P.footer = tr.value(TT_STRUCT);
        REF_REQ(!tr.err, "footer.thrift", "footer is not valid compact Thrift: %s", tr.why.c_str());
        if (ro.strict) REF_REQ(tr.pos == flen, "footer.length_mismatch", "FileMetaData occupies %zu bytes but footer length says %u", tr.pos, flen);
        const TV& F = P.footer;
        REF_REQ(F.has(1) && F.has(2) && F.has(3) && F.has(4), "footer.required_field", "FileMetaData lacks a required field (version/schema/num_rows/row_groups)");
        REF_REQ(F.get(2)->t == TT_LIST && F.get(2)->et == TT_STRUCT && F.get(4)->t == TT_LIST, "footer.field_type", "schema/row_groups have wrong wire types");
        REF_REQ(F.get(1)->t == TT_I32 && F.get(3)->t == TT_I64, "footer.field_type", "version/num_rows have wrong wire types");
        P.version = (int)F.geti(1);
        if (F.has(6)) P.created_by = F.get(6)->s;
        // schema
        const auto& el = F.get(2)->l;
        REF_REQ(!el.empty(), "schema.empty", "empty schema list");
        size_t idx = 0;
        build_schema(el, idx, P.table.root, true);
        REF_REQ(idx == el.size(), "schema.tree", "schema tree consumes %zu of %zu elements", idx, el.size());
        derive_leaves(P.table);
        // row groups
        int64_t file_rows = 0; bool saw_new_minmax = false;
        const auto& rgs = F.get(4)->l;
        for (size_t g = 0; g < rgs.size(); g++) {
            const TV& R = rgs[g];
            REF_REQ(R.has(1) && R.has(2) && R.has(3), "rowgroup.required_field", "RowGroup %zu lacks columns/total_byte_size/num_rows", g);
            RowGroup rg; rg.rows = R.geti(3);
            REF_REQ(rg.rows >= 0, "rowgroup.num_rows", "negative num_rows");
            const auto& cols = R.get(1)->l;
            REF_REQ(cols.size() == P.table.cols.size(), "rowgroup.columns", "row group %zu has %zu column chunks, schema has %zu leaves", g, cols.size(), P.table.cols.size());
            uint64_t sum_uncompressed = 0, sum_compressed = 0;
            for (size_t c = 0; c < cols.size(); c++) {
                const Col& col = P.table.cols[c];
                const TV& CC = cols[c];
                REF_REQ(CC.has(2), "chunk.required_field", "ColumnChunk without file_offset");
                REF_REQ(CC.has(3), "chunk.no_metadata", "ColumnChunk without meta_data");
                const TV& M = *CC.get(3);
                for (int fid : {1, 2, 3, 4, 5, 6, 7, 9}) REF_REQ(M.has(fid), "chunk.required_field", "ColumnMetaData rg%zu col%zu lacks required field %d", g, c, fid);
                REF_REQ((int)M.geti(1) == col.type, "chunk.type", "rg%zu col%zu: chunk type %d, schema type %d", g, c, (int)M.geti(1), col.type);
                // path_in_schema
                { const auto& pl = M.get(3)->l; REF_REQ(pl.size() == col.path.size(), "chunk.path", "rg%zu col%zu: path_in_schema has %zu parts, leaf path has %zu", g, c, pl.size(), col.path.size());
                  for (size_t k = 0; k < pl.size(); k++) REF_REQ(pl[k].s == col.path[k], "chunk.path", "rg%zu col%zu: path_in_schema differs from schema", g, c); }
                ChunkInfo ci; ci.rg = (int)g; ci.col = (int)c; ci.codec = (int)M.geti(4); ci.num_values = M.geti(5);
                ci.total_uncompressed = (uint64_t)M.geti(6); ci.total_compressed = (uint64_t)M.geti(7);
                ci.file_offset_field = (uint64_t)CC.geti(2);
                ci.has_stats = M.has(12);
                if (M.has(12) && (M.get(12)->has(5) || M.get(12)->has(6))) saw_new_minmax = true;
                int64_t data_off = M.geti(9);
                bool has_dict_off = M.has(11) && M.geti(11) > 0;
                int64_t start = has_dict_off ? M.geti(11) : data_off;
                if (has_dict_off) REF_REQ(M.geti(11) < data_off, "chunk.offsets", "dictionary_page_offset %lld not before data_page_offset %lld", (long long)M.geti(11), (long long)data_off);
                REF_REQ(start >= 4 && (uint64_t)start <= P.footer_start, "chunk.offsets", "rg%zu col%zu: chunk starts at %lld, data region is [4,%llu)", g, c, (long long)start, (unsigned long long)P.footer_start);
                REF_REQ(ci.total_compressed <= P.footer_start - (uint64_t)start, "chunk.offsets", "rg%zu col%zu: chunk [%lld,+%llu) leaves the data region", g, c, (long long)start, (unsigned long long)ci.total_compressed);
                ci.start = (uint64_t)start;
                std::vector<int> declared_enc; for (auto& e : M.get(2)->l) declared_enc.push_back((int)e.i);
                // ---- walk the pages
                Chunk ch;
                std::vector<std::string> dict; bool have_dict = false;
                uint64_t pos = ci.start, end = ci.start + ci.total_compressed;
                uint64_t sum_page_uncompressed = 0;
                int64_t values_seen = 0;
                bool first = true;
                std::vector<int> used_enc;
                while (pos < end) {
                    TReader pr(d + pos, (size_t)(end - pos));
                    TV H = pr.value(TT_STRUCT);
                    REF_REQ(!pr.err, "page.header_thrift", "rg%zu col%zu: page header at %llu is not valid Thrift: %s", g, c, (unsigned long long)pos, pr.why.c_str());
                    REF_REQ(H.has(1) && H.has(2) && H.has(3), "page.required_field", "PageHeader lacks type/uncompressed_page_size/compressed_page_size");
                    PageInfo pi; pi.header_off = pos; pi.header_len = (uint32_t)pr.pos; pi.body_off = pos + pr.pos;
                    pi.type = (int)H.geti(1); int64_t ul = H.geti(2), cl = H.geti(3);
                    REF_REQ(ul >= 0 && cl >= 0, "page.sizes", "negative page size");
                    pi.uncomp_len = (uint32_t)ul; pi.comp_len = (uint32_t)cl;
                    REF_REQ(pi.body_off + (uint64_t)cl <= end, "page.chain", "rg%zu col%zu: page at %llu (header %u + body %lld) runs past the chunk end %llu", g, c, (unsigned long long)pos, pi.header_len, (long long)cl, (unsigned long long)end);
                    if (H.has(4)) { pi.has_crc = true; pi.crc = (uint32_t)(int32_t)H.geti(4);
                        uint32_t want = crc32_ieee(d + pi.body_off, (size_t)cl);
                        REF_REQ(want == pi.crc, "page.crc", "rg%zu col%zu page at %llu: stored crc %08x, IEEE CRC-32 of the stored bytes is %08x", g, c, (unsigned long long)pos, pi.crc, want); }
                    std::string body, why;
                    REF_REQ(decompress(ci.codec, d + pi.body_off, (size_t)cl, (size_t)ul, body, &why), "page.codec", "rg%zu col%zu page at %llu (codec %d): %s", g, c, (unsigned long long)pos, ci.codec, why.c_str());
                    sum_page_uncompressed += (uint64_t)ul + pi.header_len;
                    if (pi.type == 2) {   // dictionary page
                        REF_REQ(first, "page.dictionary_position", "dictionary page is not the first page of the chunk");
                        REF_REQ(H.has(7), "page.required_field", "DICTIONARY_PAGE without dictionary_page_header");
                        const TV& DH = *H.get(7);
                        REF_REQ(DH.has(1) && DH.has(2), "page.required_field", "DictionaryPageHeader lacks num_values/encoding");
                        int enc = (int)DH.geti(2);
                        REF_REQ(enc == 0 || enc == 2, "page.dictionary_encoding", "dictionary page encoding %d", enc);
                        size_t used = 0; pi.num_values = DH.geti(1);
                        REF_REQ(pi.num_values >= 0 && pi.num_values <= (int64_t)body.size() * 8 + 1, "page.num_values", "dictionary num_values %lld", (long long)pi.num_values);
                        decode_plain(col, (const uint8_t*)body.data(), body.size(), (size_t)pi.num_values, dict, &used);
                        if (ro.strict) REF_REQ(used == body.size(), "page.trailing_bytes", "dictionary page has %zu trailing bytes", body.size() - used);
                        have_dict = true; ci.has_dict = true; P.saw_dictionary = true;
                        used_enc.push_back(enc);
                    } else if (pi.type == 0) {
                        REF_REQ(H.has(5), "page.required_field", "DATA_PAGE without data_page_header");
                        const TV& DH = *H.get(5);
                        REF_REQ(DH.has(1) && DH.has(2) && DH.has(3) && DH.has(4), "page.required_field", "DataPageHeader lacks a required field");
                        pi.num_values = DH.geti(1); pi.encoding = (int)DH.geti(2);
                        REF_REQ(pi.num_values >= 0 && pi.num_values < (1ll << 31), "page.num_values", "bad num_values");
                        int def_enc = (int)DH.geti(3), rep_enc = (int)DH.geti(4);
                        const uint8_t* bp = (const uint8_t*)body.data(); size_t bn = body.size(), bpos = 0;
                        size_t nv = (size_t)pi.num_values;
                        std::vector<uint32_t> reps, defs;
                        if (col.max_rep > 0) {
                            REF_REQ(rep_enc == 3, "page.level_encoding", "repetition levels encoded as %d", rep_enc);
                            REF_REQ(bn - bpos >= 4, "page.levels_short", "no repetition-level length prefix");
                            uint32_t L; memcpy(&L, bp + bpos, 4); bpos += 4;
                            REF_REQ(L <= bn - bpos, "page.levels_short", "repetition-level block of %u bytes beyond page", L);
                            size_t used; bool bpk = false, rl = false;
                            REF_REQ(hybrid_decode(bp + bpos, L, bit_width_of((uint32_t)col.max_rep), nv, reps, &used, &bpk, &rl), "page.levels_decode", "rg%zu col%zu: repetition levels do not decode to %zu values", g, c, nv);
                            if (ro.strict) REF_REQ(used == L, "page.levels_length", "repetition-level block: prefix says %u bytes, %zu used", L, used);
                            bpos += L; P.saw_bitpacked_levels |= bpk; P.saw_rle_levels |= rl;
                        } else reps.assign(nv, 0);
                        if (col.max_def > 0) {
                            REF_REQ(def_enc == 3, "page.level_encoding", "definition levels encoded as %d", def_enc);
                            REF_REQ(bn - bpos >= 4, "page.levels_short", "rg%zu col%zu page at %llu: no definition-level length prefix", g, c, (unsigned long long)pos);
                            uint32_t L; memcpy(&L, bp + bpos, 4); bpos += 4;
                            REF_REQ(L <= bn - bpos, "page.levels_short", "rg%zu col%zu: definition-level block of %u bytes beyond page body of %zu", g, c, L, bn);
                            size_t used; bool bpk = false, rl = false;
                            REF_REQ(hybrid_decode(bp + bpos, L, bit_width_of((uint32_t)col.max_def), nv, defs, &used, &bpk, &rl), "page.levels_decode", "rg%zu col%zu: definition levels do not decode to %zu values", g, c, nv);
                            if (ro.strict) REF_REQ(used == L, "page.levels_length", "rg%zu col%zu: definition-level block: prefix says %u bytes, decoding %zu values uses %zu", g, c, L, nv, used);
                            bpos += L; P.saw_bitpacked_levels |= bpk; P.saw_rle_levels |= rl;
                        } else defs.assign(nv, 0);
                        pi.levels_bytes = bpos;
                        size_t nn = 0;
                        for (size_t i = 0; i < nv; i++) {
                            REF_REQ((int)defs[i] <= col.max_def && (int)reps[i] <= col.max_rep, "page.level_range", "level above maximum");
                            nn += (int)defs[i] == col.max_def;
                        }
                        pi.first_entry = ch.def.size(); pi.first_value = ch.vals.size(); pi.n_entries = nv; pi.n_values = nn;
                        for (size_t i = 0; i < nv; i++) { ch.def.push_back((int16_t)defs[i]); ch.rep.push_back((int16_t)reps[i]); }
                        if (pi.encoding == 0) {
                            size_t used = 0;
                            decode_plain(col, bp + bpos, bn - bpos, nn, ch.vals, &used);
                            if (ro.strict) REF_REQ(used == bn - bpos, "page.trailing_bytes", "rg%zu col%zu page at %llu: %zu bytes left after %zu PLAIN values (uncompressed_page_size does not match content)", g, c, (unsigned long long)pos, bn - bpos - used, nn);
                        } else if (pi.encoding == 2 || pi.encoding == 8) {
                            REF_REQ(have_dict, "page.no_dictionary", "dictionary-encoded page without dictionary page");
                            REF_REQ(bn - bpos >= 1, "page.values_short", "no bit-width byte");
                            int bw = bp[bpos++];
                            REF_REQ(bw <= 32, "page.bit_width", "index bit width %d", bw);
                            std::vector<uint32_t> ix; size_t used;
                            REF_REQ(hybrid_decode(bp + bpos, bn - bpos, bw, nn, ix, &used), "page.indices_decode", "dictionary indices do not decode");
                            for (auto x : ix) { REF_REQ(x < dict.size(), "page.index_range", "dictionary index %u of %zu", x, dict.size()); ch.vals.push_back(dict[x]); }
                        } else REF_FAIL("page.encoding_unsupported", "data page encoding %d not decodable by the reference reader", pi.encoding);
                        // page statistics (optional)
                        if (DH.has(5)) {
                            const TV& S = *DH.get(5); pi.has_stats = true;
                            if (S.has(3)) { pi.st_has_nulls = true; pi.st_nulls = S.geti(3); }
                            if (S.has(5) || S.has(6)) saw_new_minmax = true;
                            if (S.has(5) && S.has(6)) { pi.st_has_minmax = true; pi.st_max = S.get(5)->s; pi.st_min = S.get(6)->s; }
                            else if (S.has(1) && S.has(2)) { pi.st_has_minmax = true; pi.st_max = S.get(1)->s; pi.st_min = S.get(2)->s; }
                        }
                        values_seen += pi.num_values;
                        used_enc.push_back(pi.encoding); if (col.max_def > 0 || col.max_rep > 0) used_enc.push_back(3);
                    } else REF_FAIL("page.type_unsupported", "page type %d not decodable by the reference reader", pi.type);
                    first = false;
                    ci.pages.push_back(pi);
                    pos = pi.body_off + (uint64_t)cl;
                }
                REF_REQ(pos == end, "page.chain", "rg%zu col%zu: pages end at %llu, chunk ends at %llu", g, c, (unsigned long long)pos, (unsigned long long)end);
                REF_REQ(values_seen == ci.num_values, "chunk.num_values", "rg%zu col%zu: data pages hold %lld values, ColumnMetaData.num_values is %lld", g, c, (long long)values_seen, (long long)ci.num_values);
                if (ro.strict) {
                    if (!ci.pages.empty()) {
                        uint64_t first_data = 0; bool found = false;
                        for (auto& pg : ci.pages) if (pg.type == 0) { first_data = pg.header_off; found = true; break; }
                        if (found && has_dict_off) REF_REQ((uint64_t)data_off == first_data, "chunk.data_page_offset", "rg%zu col%zu: data_page_offset %lld but first data page is at %llu", g, c, (long long)data_off, (unsigned long long)first_data);
                    }
                    REF_REQ(ci.total_uncompressed == sum_page_uncompressed, "chunk.total_uncompressed_size", "rg%zu col%zu: total_uncompressed_size %llu, pages (headers + uncompressed bodies) add up to %llu", g, c, (unsigned long long)ci.total_uncompressed, (unsigned long long)sum_page_uncompressed);
                    for (int e : used_enc) REF_REQ(std::find(declared_enc.begin(), declared_enc.end(), e) != declared_enc.end(), "chunk.encodings", "rg%zu col%zu: encoding %d used by a page is not in ColumnMetaData.encodings", g, c, e);
                }
                if (ro.check_row_alignment && col.max_rep == 0) REF_REQ((int64_t)ch.def.size() == rg.rows, "rowgroup.rows_vs_values", "rg%zu col%zu: %zu values for %lld rows", g, c, ch.def.size(), (long long)rg.rows);
                if (ro.check_row_alignment && col.max_rep > 0) { int64_t recs = 0; for (auto r : ch.rep) recs += r == 0; REF_REQ(recs == rg.rows, "rowgroup.rows_vs_values", "rg%zu col%zu: %lld records for %lld rows", g, c, (long long)recs, (long long)rg.rows); }
                sum_uncompressed += ci.total_uncompressed; sum_compressed += ci.total_compressed;
                rg.cols.push_back(ch);
                P.chunks.push_back(ci);
            }
            if (ro.strict) {
                REF_REQ((uint64_t)R.geti(2) == sum_uncompressed, "rowgroup.total_byte_size", "row group %zu: total_byte_size %lld, chunks' total_uncompressed_size add up to %llu", g, (long long)R.geti(2), (unsigned long long)sum_uncompressed);
                if (R.has(6)) REF_REQ((uint64_t)R.geti(6) == sum_compressed, "rowgroup.total_compressed_size", "row group %zu: total_compressed_size %lld, chunks add up to %llu", g, (long long)R.geti(6), (unsigned long long)sum_compressed);
                if (R.has(5) && !cols.empty()) { uint64_t first_start = ~0ull; for (auto& ci : P.chunks) if (ci.rg == (int)g) first_start = std::min(first_start, ci.start);
                    REF_REQ((uint64_t)R.geti(5) == first_start, "rowgroup.file_offset", "row group %zu: file_offset %lld, first chunk starts at %llu", g, (long long)R.geti(5), (unsigned long long)first_start); }
            }
            file_rows += rg.rows;
            P.table.rgs.push_back(rg);
        }
        // parquet.thrift, ColumnOrder: "if these fields [min_value/max_value] are written to a Parquet file, column_orders must be written as well"
        if (ro.strict && saw_new_minmax) {
            REF_REQ(F.has(7), "footer.column_orders_missing", "statistics carry min_value/max_value but FileMetaData.column_orders is absent: their meaning is undefined");
            REF_REQ(F.get(7)->l.size() == P.table.cols.size(), "footer.column_orders_count", "column_orders has %zu entries for %zu leaf columns", F.get(7)->l.size(), P.table.cols.size());
        }
        REF_REQ(file_rows == F.geti(3), "footer.num_rows", "row groups hold %lld rows, FileMetaData.num_rows is %lld", (long long)file_rows, (long long)F.geti(3));
        if (ro.strict) {
            // chunks tile [4, footer_start) without gap or overlap
            std::vector<std::pair<uint64_t, uint64_t>> spans;
            for (auto& ci : P.chunks) if (ci.total_compressed) spans.push_back({ci.start, ci.start + ci.total_compressed});
            std::sort(spans.begin(), spans.end());
            uint64_t at = 4;
            for (auto& s : spans) { REF_REQ(s.first == at, "file.tiling", "%s between offset %llu and chunk at %llu", s.first > at ? "gap" : "overlap", (unsigned long long)at, (unsigned long long)s.first); at = s.second; }
            REF_REQ(at == P.footer_start, "file.tiling", "data region ends at %llu but footer starts at %llu", (unsigned long long)at, (unsigned long long)P.footer_start);
        }
        P.ok = true;
    } catch (detail::Fail& f) { P.ok = false; P.error = f.msg; P.error_class = f.cls; }
    return P;
}

}  // namespace ref
