// simrun: campaign driver. Forks workers that execute seeded runs in-process,
// gates / minimises / replays violations in fresh child processes, writes
// evidence. Exit 0 = property held on everything explored (KNOWN-FINDING lines
// allowed), 1 = VIOLATION line(s), 2 = machinery failure.
#include "core/sim.h"
#include "core/shared.h"
#include "seams/seams.h"
#include <algorithm>
#include <cerrno>
#include <cinttypes>
#include <csignal>
#include <cstdio>
#include <cstdlib>
#include <ctime>
#include <fstream>
#include <set>
#include <sstream>
#include <sys/mman.h>
#include <sys/stat.h>
#include <sys/wait.h>
#include <unistd.h>
#include <fcntl.h>

using namespace sim;

namespace sim { void register_all_properties(); void sched_end_of_run(uint64_t* sched_hash); bool sched_poisoned(); }
#define EXIT_RESTART 80

#ifdef SIM_COV
extern "C" void __gcov_dump(void);      // tools/coverage.sh build only
#define GCOV_DUMP() __gcov_dump()
#else
#define GCOV_DUMP() ((void)0)
#endif

static std::string g_rundir = "/verif/.run";
static std::string g_verif = "/verif";

static size_t cov_count_shared() { size_t n = 0; for (size_t i = 0; i < COV_BYTES; i++) n += SH->cov[i] != 0; return n; }
static double now_s() { timespec ts; clock_gettime(CLOCK_MONOTONIC, &ts); return ts.tv_sec + ts.tv_nsec * 1e-9; }

// ---------------------------------------------------------------- known findings
struct KF { std::string id, property, sig, tag, what; };
static std::vector<KF> g_kf;
static std::vector<std::string> g_avoid_tags;   // tags of known findings of the current property

static std::string slurp(const std::string& p) { std::ifstream f(p); std::stringstream ss; ss << f.rdbuf(); return ss.str(); }

static std::string json_str_field(const std::string& obj, const char* key) {
    std::string k = std::string("\"") + key + "\"";
    size_t p = obj.find(k);
    if (p == std::string::npos) return "";
    p = obj.find(':', p); if (p == std::string::npos) return "";
    p = obj.find('"', p); if (p == std::string::npos) return "";
    std::string out;
    for (size_t i = p + 1; i < obj.size(); i++) {
        if (obj[i] == '\\' && i + 1 < obj.size()) { char c = obj[++i]; out += c == 'n' ? '\n' : c; continue; }
        if (obj[i] == '"') break;
        out += obj[i];
    }
    return out;
}
static int64_t json_int_field(const std::string& obj, const char* key, int64_t dflt) {
    std::string k = std::string("\"") + key + "\"";
    size_t p = obj.find(k);
    if (p == std::string::npos) return dflt;
    p = obj.find(':', p); if (p == std::string::npos) return dflt;
    return strtoll(obj.c_str() + p + 1, nullptr, 10);
}
static std::string json_escape(const std::string& s) {
    std::string o;
    for (unsigned char c : s) {
        if (c == '"' || c == '\\') { o += '\\'; o += (char)c; }
        else if (c == '\n') o += "\\n";
        else if (c < 0x20 || c >= 0x7f) { char b[8]; snprintf(b, sizeof b, "\\u%04x", c); o += b; }
        else o += (char)c;
    }
    return o;
}

static void load_known_findings(const std::string& prop) {
    std::string s = slurp(g_verif + "/known_findings.json");
    size_t p = s.find("\"findings\"");
    if (p == std::string::npos) return;
    size_t end = s.find(']', p);
    size_t q = p;
    while (true) {
        size_t a = s.find('{', q); if (a == std::string::npos || a > end) break;
        size_t b = s.find('}', a); if (b == std::string::npos) break;
        std::string obj = s.substr(a, b - a + 1);
        KF k{json_str_field(obj, "id"), json_str_field(obj, "property"), json_str_field(obj, "sig"),
             json_str_field(obj, "tag"), json_str_field(obj, "what")};
        if (k.property == prop) { g_kf.push_back(k); if (!k.tag.empty()) g_avoid_tags.push_back(k.tag); }
        q = b + 1;
    }
}
namespace sim {
// Generators ask this before producing a shape that a listed finding is known to trip over.
// Pool A (3 of 5 run indices) avoids all of them, so any violation there is new by construction.
static bool g_pool_a = false;
bool avoid_known(const char* tag) {
    if (!g_pool_a) return false;
    for (auto& t : g_avoid_tags) if (t == tag) return true;
    return false;
}
}
static const KF* match_kf(const std::string& sig, const std::vector<std::string>& tags) {
    for (auto& k : g_kf) {
        if (sig.compare(0, k.sig.size(), k.sig) != 0) continue;
        if (k.tag.empty()) return &k;
        for (auto& t : tags) if (t == k.tag) return &k;
    }
    return nullptr;
}

// ---------------------------------------------------------------- one run
struct RunResult {
    int status = 0;             // 0 ok, 1 violation, 2 refusal
    std::string sig, detail;
    uint64_t hash = 0;
    std::vector<std::string> tags;
    std::vector<uint32_t> tape;
    int64_t focus = -1, focus2 = -1;
    std::string sample;
    std::vector<std::string> events;
    RunCtx ctx;
};

static RunResult execute(const Property* P, RunCtx& ctx, bool keep_text) {
    RunResult r;
    world_reset();
    L.reset(keep_text);
    g_pool_a = (ctx.index % 5) < 3;
    try {
        P->run(ctx);
        if (ctx.refusal) r.status = 2;
    } catch (Violation& v) {
        r.status = 1;
        r.sig = std::string(P->id) + ":" + v.clause;
        r.detail = v.detail;
        ledger_forget_all();
    }
    uint64_t sh = 0; sched_end_of_run(&sh);
    if (sh && SH) {
        uint64_t bit = sh % SHAPE_BITS;
        uint8_t m = (uint8_t)(1u << (bit & 7));
        uint8_t old = __atomic_fetch_or(&SH->scheds[bit >> 3], m, __ATOMIC_RELAXED);
        if (!(old & m)) __atomic_fetch_add(&SH->distinct_scheds, 1, __ATOMIC_RELAXED);
    }
    r.hash = L.h;
    r.tags = ctx.tags;
    r.tape = T.out;
    r.focus = ctx.viol_focus; r.focus2 = ctx.viol_focus2;
    r.sample = ctx.sample;
    if (keep_text) r.events = L.text;
    r.ctx = ctx;
    return r;
}

// ---------------------------------------------------------------- child execution (gate / shrink / replay)
struct ChildSpec {
    const Property* P; uint64_t seed, index; bool thorough;
    bool use_tape = false; std::vector<uint32_t> tape; int64_t focus = -1, focus2 = -1; bool keep_text = false; unsigned timeout_s = 120; int64_t warm = -1;
};
struct ChildResult {
    bool ok_exec = false;      // child produced a result record
    int status = 0; std::string sig, detail; uint64_t hash = 0;
    std::vector<std::string> tags; std::vector<uint32_t> tape; int64_t focus = -1, focus2 = -1;
    std::string sample; std::vector<std::string> events;
    int exit_code = 0, term_sig = 0;
    std::string stderr_text;
    double wall = 0;
};

static void write_all(int fd, const std::string& s) {
    size_t off = 0;
    while (off < s.size()) { ssize_t n = write(fd, s.data() + off, s.size() - off); if (n <= 0) break; off += (size_t)n; }
}

static std::string first_carquet_frame(const std::string& err, std::string* kind) {
    // ASan: "ERROR: AddressSanitizer: heap-buffer-overflow on address" ; UBSan: "runtime error: ..."
    size_t p = err.find("AddressSanitizer: ");
    if (p != std::string::npos) {
        size_t e = err.find_first_of(" \n", p + 18);
        *kind = err.substr(p + 18, e - (p + 18));
    } else if ((p = err.find("runtime error: ")) != std::string::npos) {
        *kind = "ubsan";
    } else if (err.find("SIM-HANG") != std::string::npos) {
        *kind = "hang";
        size_t a = err.find("api="); size_t e = err.find(' ', a);
        return a == std::string::npos ? "?" : err.substr(a + 4, e - a - 4);
    } else *kind = "unknown";
    // frames: "    #1 0x... in func /path/file.c:123"; start at the report itself (a verbose run prints SIM-FAULT stacks before it)
    size_t q = p == std::string::npos ? 0 : p;
    std::string first_any;
    while ((q = err.find(" in ", q)) != std::string::npos) {
        size_t e = err.find('\n', q);
        std::string line = err.substr(q + 4, e - q - 4);
        size_t sp = line.find(' ');
        std::string fn = line.substr(0, sp);
        if (first_any.empty()) first_any = fn;
        if (line.find("/repo/src/") != std::string::npos || line.find("/repo/include/") != std::string::npos) {
            if (fn.find("__wrap_") != 0) return fn;
        }
        q = e == std::string::npos ? err.size() : e;
    }
    return first_any.empty() ? "?" : first_any;
}

static ChildResult run_child(const ChildSpec& cs) {
    ChildResult cr;
    int pfd[2];
    if (pipe(pfd) != 0) return cr;
    mkdir(g_rundir.c_str(), 0755);
    std::string errpath = g_rundir + "/child." + std::to_string(getpid()) + ".err";
    fflush(stdout); fflush(stderr);
    double t_child0 = now_s();
    const size_t MIRROR_CAP = 1u << 21;
    uint32_t* mirror = (uint32_t*)mmap(nullptr, MIRROR_CAP * 4, PROT_READ | PROT_WRITE, MAP_SHARED | MAP_ANONYMOUS, -1, 0);
    if (mirror == MAP_FAILED) mirror = nullptr; else mirror[0] = 0;
    pid_t pid = fork();
    if (pid == 0) {
        close(pfd[0]);
        T.mirror = mirror; T.mirror_cap = MIRROR_CAP;
        int efd = open(errpath.c_str(), O_WRONLY | O_CREAT | O_TRUNC, 0644);
        if (efd >= 0) { dup2(efd, 2); close(efd); }
        alarm(cs.timeout_s);
        if (cs.warm >= 0) {   // diagnostics: give the process some history first (as a campaign worker has)
            RunCtx wc; wc.seed = cs.seed; wc.index = (uint64_t)cs.warm; wc.thorough = cs.thorough;
            T.start_generate(cs.seed, fnv(cs.P->id, strlen(cs.P->id)), (uint64_t)cs.warm);
            (void)execute(cs.P, wc, false);
            if (T.mirror) T.mirror[0] = 0;
        }
        RunCtx ctx; ctx.seed = cs.seed; ctx.index = cs.index; ctx.thorough = cs.thorough;
        ctx.focus = cs.focus; ctx.focus2 = cs.focus2;
        if (cs.use_tape) T.start_replay(cs.tape); else T.start_generate(cs.seed, fnv(cs.P->id, strlen(cs.P->id)), cs.index);
        RunResult r = execute(cs.P, ctx, cs.keep_text);
        std::ostringstream o;
        o << "STATUS " << r.status << "\nSIG " << r.sig << "\nDETAIL " << json_escape(r.detail) << "\nHASH " << r.hash
          << "\nFOCUS " << r.focus << " " << r.focus2 << "\nTAGS";
        for (auto& t : r.tags) o << " " << t;
        o << "\nTAPE";
        for (auto v : r.tape) o << " " << v;
        o << "\nSAMPLE " << json_escape(r.sample) << "\n";
        for (auto& e : r.events) o << "EV " << e << "\n";
        o << "END\n";
        write_all(pfd[1], o.str());
        GCOV_DUMP();
        _exit(0);
    }
    close(pfd[1]);
    std::string out; char buf[65536]; ssize_t n;
    while ((n = read(pfd[0], buf, sizeof buf)) > 0) out.append(buf, (size_t)n);
    close(pfd[0]);
    int st = 0; waitpid(pid, &st, 0);
    cr.wall = now_s() - t_child0;
    if (WIFEXITED(st)) cr.exit_code = WEXITSTATUS(st); else if (WIFSIGNALED(st)) cr.term_sig = WTERMSIG(st);
    cr.stderr_text = slurp(errpath);
    unlink(errpath.c_str());
    if (out.find("END\n") != std::string::npos) {
        cr.ok_exec = true;
        std::istringstream is(out); std::string line;
        while (std::getline(is, line)) {
            if (line.compare(0, 7, "STATUS ") == 0) cr.status = atoi(line.c_str() + 7);
            else if (line.compare(0, 4, "SIG ") == 0) cr.sig = line.substr(4);
            else if (line.compare(0, 7, "DETAIL ") == 0) cr.detail = line.substr(7);
            else if (line.compare(0, 5, "HASH ") == 0) cr.hash = strtoull(line.c_str() + 5, nullptr, 10);
            else if (line.compare(0, 6, "FOCUS ") == 0) sscanf(line.c_str() + 6, "%" SCNd64 " %" SCNd64, &cr.focus, &cr.focus2);
            else if (line.compare(0, 4, "TAGS") == 0) { std::istringstream ts(line.substr(4)); std::string t; while (ts >> t) cr.tags.push_back(t); }
            else if (line.compare(0, 4, "TAPE") == 0) { std::istringstream ts(line.substr(4)); uint32_t v; while (ts >> v) cr.tape.push_back(v); }
            else if (line.compare(0, 7, "SAMPLE ") == 0) cr.sample = line.substr(7);
            else if (line.compare(0, 3, "EV ") == 0) cr.events.push_back(line.substr(3));
        }
    } else {
        // died: classify from exit status and stderr
        cr.status = 1;
        std::string kind;
        std::string fn = first_carquet_frame(cr.stderr_text, &kind);
        if (cr.exit_code == EXIT_HARNESS) { cr.status = 3; cr.sig = "harness-bug"; cr.detail = json_escape(cr.stderr_text.substr(0, 400)); }
        else if (cr.exit_code == EXIT_HANG) cr.sig = std::string(cs.P->id) + ":hang:" + fn;
        else if (cr.exit_code == EXIT_ASAN) cr.sig = std::string(cs.P->id) + ":crash:" + kind + ":" + fn;
        else if (cr.term_sig == SIGALRM) cr.sig = std::string(cs.P->id) + ":hang:wallclock";
        else cr.sig = std::string(cs.P->id) + ":crash:signal" + std::to_string(cr.term_sig) + ":exit" + std::to_string(cr.exit_code) + ":" + fn;
        if (cr.detail.empty()) {
            size_t p = cr.stderr_text.find("ERROR");
            cr.detail = json_escape(cr.stderr_text.substr(p == std::string::npos ? 0 : p, 600));
        }
        size_t fp = cr.stderr_text.rfind("SIM-FOCUS ");
        if (fp != std::string::npos) sscanf(cr.stderr_text.c_str() + fp + 10, "%" SCNd64 " %" SCNd64, &cr.focus, &cr.focus2);
        // the tape the dead run had consumed so far (mirrored into shared memory draw by draw)
        if (mirror && cr.status != 3) cr.tape.assign(mirror + 1, mirror + 1 + mirror[0]);
    }
    if (mirror) munmap(mirror, MIRROR_CAP * 4);
    return cr;
}

// ---------------------------------------------------------------- shrinking
static bool same_class(const ChildResult& r, const std::string& sig) { return r.status == 1 && r.sig == sig; }

static ChildResult shrink(const Property* P, uint64_t seed, uint64_t index, bool thorough, ChildResult best,
                          std::vector<uint32_t> tape, int* executions) {
    const std::string sig = best.sig;
    int budget = 400;
    const double t_shrink0 = now_s();
    const unsigned per_attempt = (unsigned)std::min(120.0, std::max(10.0, best.wall * 3 + 5));
    if (sig.find(":hang:wallclock") != std::string::npos) budget = 0;     // each attempt would cost the full watchdog time
    auto attempt = [&](const std::vector<uint32_t>& cand, int64_t f, int64_t f2) -> bool {
        if (budget <= 0 || now_s() - t_shrink0 > 90) return false;
        budget--; (*executions)++;
        ChildSpec cs{P, seed, index, thorough};
        cs.use_tape = true; cs.tape = cand; cs.focus = f; cs.focus2 = f2; cs.timeout_s = per_attempt;
        ChildResult r = run_child(cs);
        if (!same_class(r, sig)) return false;
        if (r.ok_exec) { tape = r.tape; } else tape = cand;
        r.tape = tape;
        if (!r.ok_exec) { r.focus = f; r.focus2 = f2; }
        best = r;
        return true;
    };
    int64_t f = best.focus, f2 = best.focus2;
    // first narrow enumeration checks to the single failing fault point
    if (f >= 0) attempt(tape, f, f2);
    bool progress = true;
    while (progress && budget > 0) {
        progress = false;
        // delete chunks, large to small, from the end
        for (size_t sz = std::max<size_t>(tape.size() / 2, 1); sz >= 1 && budget > 0; sz /= 2) {
            for (size_t i = tape.size() >= sz ? tape.size() - sz : 0; budget > 0;) {
                if (i + sz <= tape.size()) {
                    std::vector<uint32_t> c(tape.begin(), tape.begin() + (long)i);
                    c.insert(c.end(), tape.begin() + (long)(i + sz), tape.end());
                    if (attempt(c, best.focus, best.focus2)) { progress = true; if (tape.size() < sz) break; }
                }
                if (i < sz) break;
                i -= sz;
            }
            if (sz == 1) break;
        }
        // zero / halve values
        for (size_t i = 0; i < tape.size() && budget > 0; i++) {
            if (tape[i] == 0) continue;
            std::vector<uint32_t> c = tape; c[i] = 0;
            if (attempt(c, best.focus, best.focus2)) { progress = true; continue; }
            if (tape[i] > 1) { c = tape; c[i] = tape[i] / 2; if (attempt(c, best.focus, best.focus2)) { progress = true; continue; } }
            if (tape[i] > 1) { c = tape; c[i] = tape[i] - 1; if (attempt(c, best.focus, best.focus2)) progress = true; }
        }
    }
    best.tape = tape;
    return best;
}

// ---------------------------------------------------------------- replay files
static std::string write_replay(const Property* P, uint64_t seed, uint64_t index, bool thorough, const ChildResult& r,
                                const std::string& dir_override = "") {
    // VERIF_REPLAY_ROOT: tools/run_seeded.sh keeps replays of deliberately broken trees out of /verif/replays
    const char* rr = getenv("VERIF_REPLAY_ROOT");
    std::string root = rr && *rr ? std::string(rr) : g_verif + "/replays";
    std::string dir = dir_override.empty() ? root + "/" + P->id : dir_override;
    mkdir(root.c_str(), 0755);
    mkdir(dir.c_str(), 0755);
    char name[256];
    snprintf(name, sizeof name, "%s/%" PRIu64 "-%" PRIu64 "-%08x.json", dir.c_str(), seed, index,
             (unsigned)fnv(r.sig.data(), r.sig.size()));
    std::ofstream o(name);
    o << "{\n \"property\": \"" << P->id << "\",\n \"seed\": " << seed << ",\n \"index\": " << index
      << ",\n \"thorough\": " << (thorough ? 1 : 0) << ",\n \"focus\": " << r.focus << ",\n \"focus2\": " << r.focus2
      << ",\n \"signature\": \"" << json_escape(r.sig) << "\",\n \"event_hash\": \"" << r.hash << "\",\n \"detail\": \""
      << r.detail << "\",\n \"tags\": [";
    for (size_t i = 0; i < r.tags.size(); i++) o << (i ? "," : "") << "\"" << r.tags[i] << "\"";
    o << "],\n \"tape\": [";
    for (size_t i = 0; i < r.tape.size(); i++) o << (i ? "," : "") << r.tape[i];
    o << "],\n \"plan\": \"" << r.sample << "\",\n \"events\": [";
    for (size_t i = 0; i < r.events.size() && i < 400; i++) o << (i ? "," : "") << "\n  \"" << json_escape(r.events[i]) << "\"";
    o << "]\n}\n";
    return name;
}

static bool read_replay(const std::string& path, std::string* prop, uint64_t* seed, uint64_t* index, int* thorough,
                        int64_t* focus, int64_t* focus2, std::string* sig, uint64_t* hash, std::vector<uint32_t>* tape) {
    std::string s = slurp(path);
    if (s.empty()) return false;
    *prop = json_str_field(s, "property");
    *seed = (uint64_t)json_int_field(s, "seed", 0);
    *index = (uint64_t)json_int_field(s, "index", 0);
    *thorough = (int)json_int_field(s, "thorough", 0);
    *focus = json_int_field(s, "focus", -1);
    *focus2 = json_int_field(s, "focus2", -1);
    *sig = json_str_field(s, "signature");
    *hash = strtoull(json_str_field(s, "event_hash").c_str(), nullptr, 10);
    size_t p = s.find("\"tape\"");
    if (p == std::string::npos) return false;
    p = s.find('[', p);
    size_t e = s.find(']', p);
    std::string body = s.substr(p + 1, e - p - 1);
    for (auto& c : body) if (c == ',') c = ' ';
    std::istringstream is(body); uint32_t v;
    while (is >> v) tape->push_back(v);
    return true;
}

// ---------------------------------------------------------------- workers
static void worker_main(const Property* P, int w, uint64_t seed, bool thorough) {
    cov_attach(SH->cov, COV_BYTES);
    g_heartbeat = &SH->heartbeat[w];
    uint64_t pid_hash = fnv(P->id, strlen(P->id));
    while (!__atomic_load_n(&SH->stop, __ATOMIC_RELAXED)) {
        uint64_t idx = __atomic_fetch_add(&SH->next_index, 1, __ATOMIC_RELAXED);
        uint64_t total = SH->runs + std::min<uint64_t>(SH->runs, P->recheck);   // tail: determinism re-check of the first indices
        if (idx >= total) break;
        bool recheck = idx >= SH->runs;
        uint64_t ridx = recheck ? idx - SH->runs : idx;
        __atomic_store_n(&SH->cur_index[w], ridx, __ATOMIC_RELAXED);
        RunCtx ctx; ctx.seed = seed; ctx.index = ridx; ctx.thorough = thorough;
        T.start_generate(seed, pid_hash, ridx);
        double tr0 = now_s();
        RunResult r = execute(P, ctx, false);
        uint64_t ms = (uint64_t)((now_s() - tr0) * 1000);
        if (ms > SH->slow_ms) { SH->slow_ms = ms; SH->slow_index = ridx; }
        if (recheck) {
            __atomic_fetch_add(&SH->rehash_checked, 1, __ATOMIC_RELAXED);
            if (ridx < Shared::HASH_SLOTS && SH->hashes[ridx] != r.hash) __atomic_fetch_add(&SH->rehash_mismatch, 1, __ATOMIC_RELAXED);
            __atomic_store_n(&SH->cur_index[w], ~0ull, __ATOMIC_RELAXED);
            continue;
        }
        if (ridx < Shared::HASH_SLOTS) SH->hashes[ridx] = r.hash;
        __atomic_fetch_add(&SH->done, 1, __ATOMIC_RELAXED);
        __atomic_fetch_add(&SH->evals, std::max<uint64_t>(ctx.evals, 1), __ATOMIC_RELAXED);
        __atomic_fetch_add(&SH->events, L.events, __ATOMIC_RELAXED);
        __atomic_fetch_add(&SH->ticks, g_ticks, __ATOMIC_RELAXED);
        uint64_t mt = SH->max_run_ticks;
        while (g_ticks > mt && !__atomic_compare_exchange_n(&SH->max_run_ticks, &mt, g_ticks, false, __ATOMIC_RELAXED, __ATOMIC_RELAXED)) {}
        if (r.status == 2) __atomic_fetch_add(&SH->refusals, 1, __ATOMIC_RELAXED);
        if (ctx.nontrivial) {
            __atomic_fetch_add(&SH->nontrivial, 1, __ATOMIC_RELAXED);
            uint64_t bit = ctx.shape % SHAPE_BITS;
            uint8_t m = (uint8_t)(1u << (bit & 7));
            uint8_t old = __atomic_fetch_or(&SH->shapes[bit >> 3], m, __ATOMIC_RELAXED);
            if (!(old & m)) __atomic_fetch_add(&SH->distinct_nontrivial, 1, __ATOMIC_RELAXED);
        }
        if (r.status == 1) {
            const KF* k = match_kf(r.sig, r.tags);
            std::string rec = k ? std::string("KF:") + k->id : r.sig;
            while (__atomic_exchange_n(&SH->viol_lock, 1, __ATOMIC_ACQUIRE)) {}
            bool dup = false;
            int same = 0;
            for (int i = 0; i < SH->n_viol; i++) if (rec == SH->viol[i].sig) { same++; if (k || same >= 3) dup = true; }
            if (!dup && SH->n_viol < MAX_VIOL) {
                SH->viol[SH->n_viol].index = ridx;
                strncpy(SH->viol[SH->n_viol].sig, rec.c_str(), sizeof SH->viol[0].sig - 1);
                SH->n_viol++;
            }
            if (!k) __atomic_fetch_add(&SH->violations, 1, __ATOMIC_RELAXED);
            else { int id = counter_id((std::string("known_finding.") + k->id).c_str()); sim::count(id); }
            __atomic_store_n(&SH->viol_lock, 0, __ATOMIC_RELEASE);
            if (!k && SH->violations >= 24) __atomic_store_n(&SH->stop, 1, __ATOMIC_RELAXED);
        }
        __atomic_store_n(&SH->cur_index[w], ~0ull, __ATOMIC_RELAXED);
        if (sched_poisoned()) { GCOV_DUMP(); _exit(EXIT_RESTART); }     // a run ended with tasks in flight: continue in a fresh process
    }
    GCOV_DUMP();
    _exit(0);
}

// ---------------------------------------------------------------- main
static void usage() {
    fprintf(stderr, "usage: simrun --property Cxx [--tier quick|thorough] [--runs N] [--jobs J] [--seed S]\n"
                    "              [--one INDEX] [--replay FILE] [--list]\n");
}

namespace sim { int seams_selftest(); }

int main(int argc, char** argv) {
    std::string prop, tier = "quick", replay;
    uint64_t runs = 0, seed = 0; int jobs = 16; int64_t one = -1, warm = -1; bool list = false; bool verbose = false;
    if (const char* e = getenv("VERIF_SEED")) seed = strtoull(e, nullptr, 10);
    if (const char* e = getenv("VERIF_TIER")) if (*e) tier = e;
    if (const char* e = getenv("VERIF_JOBS")) jobs = atoi(e);
    if (const char* e = getenv("VERIF_DIR")) g_verif = e;
    bool tier_set = false;
    for (int i = 1; i < argc; i++) {
        std::string a = argv[i];
        auto next = [&]() -> const char* { return i + 1 < argc ? argv[++i] : ""; };
        if (a == "--property") prop = next();
        else if (a == "--tier") { tier = next(); tier_set = true; }
        else if (a == "--runs") runs = strtoull(next(), nullptr, 10);
        else if (a == "--jobs") jobs = atoi(next());
        else if (a == "--seed") seed = strtoull(next(), nullptr, 10);
        else if (a == "--one") one = strtoll(next(), nullptr, 10);
        else if (a == "--replay") replay = next();
        else if (a == "--warm") warm = strtoll(next(), nullptr, 10);
        else if (a == "--list") list = true;
        else if (a == "--selftest") return sim::seams_selftest();
        else if (a == "-v") verbose = true;
        else { usage(); return 2; }
    }
    (void)tier_set;
    g_rundir = g_verif + "/.run";
    register_all_properties();
    if (list) { for (const char* id : {"C01","C02","C03","C04","C05","C06","C07","C14","C16","C17","C18","C19"}) if (find_property(id)) printf("%s\n", id); return 0; }
    bool thorough = tier == "thorough";

    // ---- replay mode
    if (!replay.empty()) {
        std::string rp, sig; uint64_t rseed, rindex, rhash; int rth; int64_t f, f2; std::vector<uint32_t> tape;
        if (!read_replay(replay, &rp, &rseed, &rindex, &rth, &f, &f2, &sig, &rhash, &tape)) { fprintf(stderr, "cannot read replay %s\n", replay.c_str()); return 2; }
        const Property* P = find_property(rp);
        if (!P) { fprintf(stderr, "unknown property %s\n", rp.c_str()); return 2; }
        load_known_findings(rp);
        ChildSpec cs{P, rseed, rindex, rth != 0}; cs.use_tape = true; cs.tape = tape; cs.focus = f; cs.focus2 = f2; cs.keep_text = true;
        ChildResult r = run_child(cs);
        printf("replay %s: status=%d sig=%s hash=%" PRIu64 " (recorded sig=%s hash=%" PRIu64 ")\n", replay.c_str(), r.status,
               r.sig.c_str(), r.hash, sig.c_str(), rhash);
        if (verbose) { printf("plan: %s\n", r.sample.c_str()); for (auto& e : r.events) printf("  %s\n", e.c_str()); if (!r.stderr_text.empty()) printf("---- child stderr ----\n%s\n", r.stderr_text.substr(0, 12000).c_str()); }
        if (r.status == 3) return 2;
        if (r.status == 1) {
            printf("detail: %s\n", r.detail.c_str());
            printf("VIOLATION property=%s replay=%s\n", rp.c_str(), replay.c_str());
            return 1;
        }
        printf("replay did not reproduce a violation on this tree\n");
        return 0;
    }

    const Property* P = find_property(prop);
    if (!P) { fprintf(stderr, "unknown or unbuilt property '%s'\n", prop.c_str()); usage(); return 2; }
    load_known_findings(prop);
    if (!runs) runs = thorough ? P->thorough_runs : P->quick_runs;
    if (const char* e = getenv("VERIF_RUNS")) if (*e) runs = strtoull(e, nullptr, 10);
    if (jobs < 1) jobs = 1;
    if (jobs > MAX_WORKERS) jobs = MAX_WORKERS;

    // ---- single index in a child, verbose
    if (one >= 0) {
        ChildSpec cs{P, seed, (uint64_t)one, thorough}; cs.keep_text = true; cs.warm = warm;
        ChildResult r = run_child(cs);
        printf("index %" PRId64 ": status=%d sig=%s hash=%" PRIu64 " exit=%d signal=%d\n", one, r.status, r.sig.c_str(), r.hash, r.exit_code, r.term_sig);
        printf("plan: %s\ndetail: %s\ntags:", r.sample.c_str(), r.detail.c_str());
        for (auto& t : r.tags) printf(" %s", t.c_str());
        printf("\n");
        if (verbose) for (auto& e : r.events) printf("  %s\n", e.c_str());
        if (!r.stderr_text.empty()) printf("stderr:\n%s\n", r.stderr_text.substr(0, 6000).c_str());
        return r.status == 1 ? 1 : r.status == 3 ? 2 : 0;
    }

    // ---- campaign
    double t0 = now_s();
    SH = (Shared*)mmap(nullptr, sizeof(Shared), PROT_READ | PROT_WRITE, MAP_SHARED | MAP_ANONYMOUS, -1, 0);
    if (SH == MAP_FAILED) { perror("mmap"); return 2; }
    memset(SH, 0, sizeof(Shared));
    SH->runs = runs;
    for (int w = 0; w < MAX_WORKERS; w++) SH->cur_index[w] = ~0ull;
    mkdir(g_rundir.c_str(), 0755);
    printf("simrun property=%s tier=%s seed=%" PRIu64 " runs=%" PRIu64 " jobs=%d\n", P->id, tier.c_str(), seed, runs, jobs);
    fflush(stdout);

    std::vector<pid_t> pids((size_t)jobs, 0);
    std::vector<std::string> errfiles((size_t)jobs);
    struct Death { uint64_t index; int exit_code, sig; };
    std::vector<Death> deaths;
    auto spawn = [&](int w) {
        errfiles[(size_t)w] = g_rundir + "/worker." + std::to_string(getpid()) + "." + std::to_string(w) + ".err";
        fflush(stdout); fflush(stderr);
        pid_t p = fork();
        if (p == 0) {
            int efd = open(errfiles[(size_t)w].c_str(), O_WRONLY | O_CREAT | O_TRUNC, 0644);
            if (efd >= 0) { dup2(efd, 2); close(efd); }
            worker_main(P, w, seed, thorough);
            _exit(0);
        }
        pids[(size_t)w] = p;
    };
    for (int w = 0; w < jobs; w++) spawn(w);
    int live = jobs;
    int harness_fail = 0;
    double wall_limit = thorough ? 6 * 3600.0 : 3600.0;
    std::vector<uint64_t> last_idx((size_t)jobs, ~0ull); std::vector<double> last_change((size_t)jobs, now_s());
    while (live > 0) {
        int st = 0;
        pid_t p = waitpid(-1, &st, WNOHANG);
        if (p == 0) {
            // wall-clock backstop for time spent outside instrumented code (zlib, zstd, libc): a worker that sits on one
            // index for 90 s is killed; the index is then re-executed in a child whose own alarm classifies it as a hang
            usleep(20000);
            double t = now_s();
            for (int i = 0; i < jobs; i++) {
                if (!pids[(size_t)i]) continue;
                uint64_t ci = SH->cur_index[i] ^ (SH->heartbeat[i] << 20);       // index or progress inside the run
                if (ci != last_idx[(size_t)i]) { last_idx[(size_t)i] = ci; last_change[(size_t)i] = t; }
                else if (SH->cur_index[i] != ~0ull && t - last_change[(size_t)i] > 90) { kill(pids[(size_t)i], SIGKILL); last_change[(size_t)i] = t; }
            }
            continue;
        }
        if (p < 0) { if (errno == EINTR) continue; break; }
        int w = -1;
        for (int i = 0; i < jobs; i++) if (pids[(size_t)i] == p) w = i;
        if (w < 0) continue;
        bool clean = WIFEXITED(st) && WEXITSTATUS(st) == 0;
        if (clean) { live--; pids[(size_t)w] = 0; continue; }
        if (WIFEXITED(st) && WEXITSTATUS(st) == EXIT_RESTART) { if (!SH->stop) spawn(w); else { live--; pids[(size_t)w] = 0; } continue; }
        uint64_t idx = SH->cur_index[w];
        int ec = WIFEXITED(st) ? WEXITSTATUS(st) : 0, sg = WIFSIGNALED(st) ? WTERMSIG(st) : 0;
        if (ec == EXIT_HARNESS) { harness_fail++; fprintf(stderr, "worker %d reported a harness bug at index %" PRIu64 ":\n%s\n", w, idx, slurp(errfiles[(size_t)w]).substr(0, 2000).c_str()); }
        if (idx != ~0ull) deaths.push_back({idx, ec, sg});
        SH->cur_index[w] = ~0ull;
        __atomic_fetch_add(&SH->done, 1, __ATOMIC_RELAXED);
        if (deaths.size() >= 200 || harness_fail || now_s() - t0 > wall_limit) __atomic_store_n(&SH->stop, 1, __ATOMIC_RELAXED);
        if (!SH->stop && SH->next_index < SH->runs + std::min<uint64_t>(SH->runs, P->recheck)) spawn(w); else { live--; pids[(size_t)w] = 0; }
    }
    for (auto& f : errfiles) unlink(f.c_str());
    double t_campaign = now_s() - t0;
    if (harness_fail) { printf("MACHINERY-FAILURE: harness self-check failed in %d worker(s)\n", harness_fail); return 2; }

    // ---- triage: worker-reported violations + deaths
    struct Cand { uint64_t index; std::string sig; };
    std::vector<Cand> cands;
    for (int i = 0; i < SH->n_viol; i++) cands.push_back({SH->viol[i].index, SH->viol[i].sig});
    for (auto& d : deaths) cands.push_back({d.index, d.sig == SIGKILL ? "?killed" : "?death"});
    int exit_status = 0;
    int n_reported = 0;
    std::set<std::string> reported_sigs, reported_kf;
    std::vector<std::string> viol_lines, kf_lines;
    int shrink_execs = 0;
    uint64_t death_known = 0, death_new = 0;
    for (auto& c : cands) {
        if (n_reported >= 6 && c.sig[0] == '?') { continue; }
        ChildSpec cs{P, seed, c.index, thorough}; cs.keep_text = true;
        ChildResult r1 = run_child(cs);
        printf("triage: index %" PRIu64 " (%s) -> %s [%.1fs]\n", c.index, c.sig.c_str(), r1.sig.c_str(), r1.wall); fflush(stdout);
        if (r1.status == 3) { printf("MACHINERY-FAILURE: harness bug at index %" PRIu64 ": %s\n", c.index, r1.detail.c_str()); return 2; }
        if (r1.status != 1 && c.sig == "?killed") { printf("note: index %" PRIu64 " made no progress for 90 s in a worker but completes in a fresh process (%.1fs): machine load, not a verdict\n", c.index, r1.wall); continue; }
        if (r1.status != 1) {
            printf("MACHINERY-FAILURE: index %" PRIu64 " (%s) did not reproduce in a fresh process (status=%d) - harness nondeterministic\n", c.index, c.sig.c_str(), r1.status);
            return 2;
        }
        if (!r1.ok_exec) {
            // a crash: learn tags + tape from a plan-only dry child is not possible in general; use generation tape
            ChildSpec dry = cs; (void)dry;
        }
        // classification against known findings (tags from the run itself when it survived; for crashes from the plan)
        std::vector<std::string> tags = r1.tags;
        if (!r1.ok_exec) {
            // tags are produced during planning, before the SUT runs: ask a child that stops after planning
            setenv("SIM_PLAN_ONLY", "1", 1);
            ChildResult rp = run_child(cs);
            unsetenv("SIM_PLAN_ONLY");
            tags = rp.tags;
            if (r1.tape.empty()) r1.tape = rp.tape;
            r1.sample = rp.sample;
            r1.tags = tags;
        }
        const KF* k = match_kf(r1.sig, tags);
        if (k) {
            if (c.sig[0] == '?') death_known++;
            if (!reported_kf.count(k->id)) {
                reported_kf.insert(k->id);
                kf_lines.push_back("KNOWN-FINDING: property=" + std::string(P->id) + " " + k->id + ": " + k->what + " (e.g. seed " + std::to_string(seed) + " index " + std::to_string(c.index) + ")");
            }
            continue;
        }
        if (c.sig[0] == '?') death_new++;
        if (reported_sigs.count(r1.sig)) continue;
        // gate 1: same seed twice, same signature and (for surviving runs) same event hash
        ChildResult r2 = run_child(cs);
        if (r2.status != 1 || r2.sig != r1.sig || (r1.ok_exec && r2.hash != r1.hash)) {
            printf("MACHINERY-FAILURE: index %" PRIu64 " not deterministic (sig %s/%s hash %" PRIu64 "/%" PRIu64 ")\n", c.index, r1.sig.c_str(), r2.sig.c_str(), r1.hash, r2.hash);
            return 2;
        }
        reported_sigs.insert(r1.sig);
        // minimise
        ChildResult best = r1;
        if (!r1.tape.empty()) best = shrink(P, seed, c.index, thorough, r1, r1.tape, &shrink_execs);
        // final replay from the file content in a fresh process
        ChildSpec fs{P, seed, c.index, thorough}; fs.use_tape = true; fs.tape = best.tape; fs.focus = best.focus; fs.focus2 = best.focus2; fs.keep_text = true;
        ChildResult rf = run_child(fs);
        if (rf.status != 1 || rf.sig != r1.sig) {
            // minimised tape does not replay with the same signature: fall back to the unminimised one
            fs.tape = r1.tape; fs.focus = r1.focus; fs.focus2 = r1.focus2;
            rf = run_child(fs);
            if (rf.status != 1) { printf("MACHINERY-FAILURE: replay of index %" PRIu64 " does not reproduce %s\n", c.index, r1.sig.c_str()); return 2; }
            // it fails again, possibly at another frame (memory errors after a use-after-free are like that): still a violation
            if (rf.sig != r1.sig) printf("note: index %" PRIu64 " fails on every execution but not always with the same signature (%s / %s)\n", c.index, r1.sig.c_str(), rf.sig.c_str());
        }
        if (!rf.ok_exec) { rf.tape = fs.tape; rf.focus = fs.focus; rf.focus2 = fs.focus2; rf.sample = best.sample; rf.tags = tags; }
        std::string path = write_replay(P, seed, c.index, thorough, rf);
        viol_lines.push_back("VIOLATION property=" + std::string(P->id) + " replay=" + path);
        printf("violation: index=%" PRIu64 " sig=%s\n  detail: %s\n  plan: %s\n  tape length %zu (from %zu)\n", c.index, rf.sig.c_str(), rf.detail.c_str(), rf.sample.substr(0, 1500).c_str(), rf.tape.size(), r1.tape.size());
        exit_status = 1;
        n_reported++;
        if (n_reported >= 6) break;
    }
    bool determinism_ok = SH->rehash_mismatch == 0;
    if (!determinism_ok && exit_status == 0) {
        printf("MACHINERY-FAILURE: %" PRIu64 " of %" PRIu64 " re-executed runs produced a different event hash\n", SH->rehash_mismatch, SH->rehash_checked);
        return 2;
    }

    // ---- evidence
    double wall = now_s() - t0;
    mkdir((g_verif + "/evidence").c_str(), 0755);
    {
        // samples: the first three plans, re-executed in children with text kept
        std::vector<ChildResult> samples;
        for (uint64_t i = 0; i < 3 && i < runs; i++) { ChildSpec cs{P, seed, i, thorough}; cs.keep_text = true; samples.push_back(run_child(cs)); }
        const char* ed = getenv("VERIF_EVIDENCE_DIR");      // tools/coverage.sh keeps its bounded runs out of /verif/evidence
        std::string edir = ed && *ed ? std::string(ed) : g_verif + "/evidence";
        mkdir(edir.c_str(), 0755);
        std::ofstream o(edir + "/" + P->id + ".json");
        uint64_t dn = SH->distinct_nontrivial;
        o << "{\n \"property_id\": \"" << P->id << "\",\n \"tier\": \"" << (thorough ? "thorough" : "quick") << "\",\n \"seed\": " << seed
          << ",\n \"level\": \"" << P->level << "\",\n \"wall_s\": " << wall << ",\n \"violations\": " << (uint64_t)viol_lines.size()
          << ",\n \"coverage\": {\n  \"evaluations\": " << SH->evals << ",\n  \"distinct_nontrivial\": " << dn
          << ",\n  \"rule\": \"" << json_escape(P->rule) << "\",\n  \"exhaustive\": false,\n  \"simulated_runs\": " << SH->done
          << ",\n  \"runs_per_hour\": " << (uint64_t)(SH->done / std::max(t_campaign, 1e-3) * 3600)
          << ",\n  \"workers\": " << jobs
          << ",\n  \"nontrivial_runs\": " << SH->nontrivial << ",\n  \"refusals\": " << SH->refusals
          << ",\n  \"simulated_time\": {\"steps_events\": " << SH->events << ", \"ticks_basic_blocks\": " << SH->ticks << ", \"max_ticks_one_run\": " << SH->max_run_ticks << "}"
          << ",\n  \"distinct_carquet_basic_blocks_reached\": " << cov_count_shared()
          << ",\n  \"distinct_schedules\": " << SH->distinct_scheds
          << ",\n  \"determinism_recheck\": {\"runs_executed_twice\": " << SH->rehash_checked << ", \"hash_mismatches\": " << SH->rehash_mismatch << "}"
          << ",\n  \"worker_deaths\": {\"total\": " << deaths.size() << ", \"classified_known\": " << death_known << ", \"new\": " << death_new << "}"
          << ",\n  \"shrink_executions\": " << shrink_execs
          << ",\n  \"counters\": {";
        bool first = true;
        for (int i = 0; i < SH->n_names; i++) { o << (first ? "" : ", ") << "\"" << SH->names[i] << "\": " << SH->counters[i]; first = false; }
        o << "},\n  \"real_vs_stub\": {\"real\": [\"carquet (all of src/, working tree)\", \"zlib\", \"zstd\", \"glibc stdio buffering\"], \"stub\": [\"disk/file system (in-memory images)\", \"mmap (guard-paged anonymous maps)\", \"OpenMP runtime (own GOMP_* + seeded scheduler)\", \"allocator (failure/cap/dirt/ledger over ASan malloc)\", \"foreign Parquet writer/reader (independent peer)\", \"CPUID (masked by cap)\"]}"
          << ",\n  \"samples\": [";
        for (size_t i = 0; i < samples.size(); i++) {
            o << (i ? "," : "") << "\n   {\"index\": " << i << ", \"plan\": \"" << samples[i].sample << "\", \"events\": " << samples[i].events.size() << ", \"first_events\": [";
            for (size_t j = 0; j < samples[i].events.size() && j < 12; j++) o << (j ? "," : "") << "\"" << json_escape(samples[i].events[j]) << "\"";
            o << "]}";
        }
        o << "\n  ]\n },\n \"assumptions\": [";
        for (size_t i = 0; i < P->assumptions.size(); i++) o << (i ? "," : "") << "\n  \"" << json_escape(P->assumptions[i]) << "\"";
        o << "\n ]\n}\n";
    }
    for (auto& l : kf_lines) printf("%s\n", l.c_str());
    for (auto& l : viol_lines) printf("%s\n", l.c_str());
    printf("summary property=%s runs=%" PRIu64 " evals=%" PRIu64 " nontrivial=%" PRIu64 " distinct=%" PRIu64 " refusals=%" PRIu64 " deaths=%zu wall=%.1fs (%0.f runs/s) determinism_recheck=%" PRIu64 "/%" PRIu64 " ok\n",
           P->id, (uint64_t)SH->done, (uint64_t)SH->evals, (uint64_t)SH->nontrivial, (uint64_t)SH->distinct_nontrivial, (uint64_t)SH->refusals, deaths.size(), wall, SH->done / std::max(t_campaign, 1e-3), SH->rehash_checked - SH->rehash_mismatch, (uint64_t)SH->rehash_checked);
    printf("slowest run: index %" PRIu64 " took %" PRIu64 " ms\n", (uint64_t)SH->slow_index, (uint64_t)SH->slow_ms);
    return exit_status;
}
