// C03 - fread, mmap and in-memory-buffer reading are observationally equivalent.
#include "common.h"
#include "readhist.h"
#include "validfile.h"

namespace {
using namespace model;

struct MetaObs { int64_t rows; int32_t rgs, cols; std::vector<int64_t> rg_rows, rg_bytes, rg_comp; std::vector<std::string> names; std::vector<int> types, reps, tlens; std::vector<uint64_t> stats; };

MetaObs observe_meta(carquet_reader_t* r) {
    MetaObs m; m.rows = carquet_reader_num_rows(r); m.rgs = carquet_reader_num_row_groups(r); m.cols = carquet_reader_num_columns(r);
    for (int g = 0; g < m.rgs; g++) { carquet_row_group_metadata_t md; memset(&md, 0, sizeof md); carquet_status_t st = cq::reader_row_group_metadata(r, g, &md); m.rg_rows.push_back(st == CARQUET_OK ? md.num_rows : -1); m.rg_bytes.push_back(md.total_byte_size); m.rg_comp.push_back(md.total_compressed_size); }
    const carquet_schema_t* s = carquet_reader_schema(r);
    int ne = carquet_schema_num_elements(s);
    for (int i = 0; i < ne; i++) { const carquet_schema_node_t* n = carquet_schema_get_element(s, i); m.names.push_back(carquet_schema_node_name(n) ? carquet_schema_node_name(n) : "<null>"); m.types.push_back(carquet_schema_node_is_leaf(n) ? (int)carquet_schema_node_physical_type(n) : -1); m.reps.push_back((int)carquet_schema_node_repetition(n)); m.tlens.push_back(carquet_schema_node_type_length(n)); }
    for (int g = 0; g < m.rgs; g++) for (int c = 0; c < m.cols; c++) {
        carquet_column_statistics_t cs; memset(&cs, 0, sizeof cs);
        carquet_status_t st = cq::reader_column_statistics(r, g, c, &cs);
        uint64_t h = sim::fnv(&st, sizeof st);
        if (st == CARQUET_OK) { h = sim::fnv(&cs.has_min_max, 1, h); h = sim::fnv(&cs.has_null_count, 1, h); h = sim::fnv(&cs.null_count, 8, h); h = sim::fnv(&cs.num_values, 8, h);
            if (cs.has_min_max) { h = sim::fnv(cs.min_value, (size_t)cs.min_value_size, h); h = sim::fnv(cs.max_value, (size_t)cs.max_value_size, h); } }
        m.stats.push_back(h);
    }
    return m;
}

void run_c03(sim::RunCtx& ctx) {
    gen::g_row_cap = 0;
    validfile::VF vf; validfile::Opts vo; vo.small = sim::draw(4) != 3; vo.bias_zero_copy = true; vo.allow_nested = sim::draw(3) == 0;
    common::apply_benign_knobs();
    const std::string path = SIMDISK "c03.parquet";
    if (!validfile::make(vf, path, vo)) { ctx.refusal = true; SIM_COUNT("refusal.no_valid_file"); return; }
    validfile::finish(vf, ctx);
    const Table& t = vf.table;
    bool verify = sim::draw(2) == 0;
    // pre-drawn plan shared by the three transports
    std::vector<std::vector<readhist::Op>> ops;
    for (size_t i = 0; i < vf.pages.size(); i++) ops.push_back(readhist::gen_ops(14));
    std::vector<readhist::BatchCfg> cfgs;
    if (!vf.has_repeated && !t.cols.empty()) { int nb = 1 + (int)sim::draw(2); for (int k = 0; k < nb; k++) { auto cfg = readhist::gen_batch_cfg(t, vf.pages.empty() ? std::vector<size_t>() : vf.pages[0]); if (sim::draw(2)) { size_t mx = 1; for (auto& pe : vf.pages) for (auto e : pe) mx = std::max(mx, e); cfg.batch_size = (int32_t)(mx + 1 + sim::draw(20)); } cfgs.push_back(cfg); } }
    if (common::plan_only()) return;
    readhist::Polarity pol;                       // one polarity across all transports
    MetaObs meta0; std::vector<std::vector<uint64_t>> batch_tr(3);
    for (int mode = 0; mode < 3; mode++) {
        auto o = exec::open_image(path, mode, verify);
        SIM_CHECK(o->r != nullptr, "open.valid_file_rejected", "%s: valid file does not open (%d %s)", exec::mode_name(mode), (int)o->err.code, o->err.message);
        if (mode == 1) SIM_CHECK(carquet_reader_is_mmap(o->r), "mmap.not_active", "use_mmap requested but reader_is_mmap() is false");
        MetaObs m = observe_meta(o->r);
        if (mode == 0) meta0 = m;
        else {
            SIM_CHECK(m.rows == meta0.rows && m.rgs == meta0.rgs && m.cols == meta0.cols && m.rg_rows == meta0.rg_rows && m.rg_bytes == meta0.rg_bytes && m.rg_comp == meta0.rg_comp, "equiv.metadata", "%s and fread disagree on row/row-group metadata", exec::mode_name(mode));
            SIM_CHECK(m.names == meta0.names && m.types == meta0.types && m.reps == meta0.reps && m.tlens == meta0.tlens, "equiv.schema", "%s and fread disagree on schema accessors", exec::mode_name(mode));
            SIM_CHECK(m.stats == meta0.stats, "equiv.statistics", "%s and fread disagree on column statistics", exec::mode_name(mode));
        }
        size_t li = 0;
        for (size_t g = 0; g < t.rgs.size(); g++) for (size_t c = 0; c < t.cols.size(); c++, li++) {
            readhist::ChunkRef cr{(int)g, (int)c, &t.cols[c], &t.rgs[g].cols[c], vf.pages[li]};
            readhist::run_column_history(o->r, cr, ops[li], exec::mode_name(mode), nullptr);
        }
        std::vector<readhist::ViewRec> views;
        for (auto& cfg : cfgs) {
            readhist::Transcript tr;
            readhist::run_batch_reader(o->r, t, cfg, exec::mode_name(mode), pol, &tr, &views);
            batch_tr[(size_t)mode].push_back(tr.h);
            size_t maxpage = 0; for (auto& pe : vf.pages) for (auto e : pe) maxpage = std::max(maxpage, e);
            if ((size_t)cfg.batch_size > maxpage && vf.codec == 0) SIM_COUNT("probe.zero_copy_page_smaller_than_batch");
        }
        // zero-copy lifetime: batches and batch readers are gone, the reader is still open
        for (auto& v : views) SIM_CHECK(memcmp(v.p, v.expect.data(), v.n) == 0, "zero_copy.lifetime", "%s: data handed out as a view changed before the reader was closed", exec::mode_name(mode));
        if (!views.empty()) SIM_COUNT("probe.zero_copy_lifetime_checked");
        o.reset();
    }
    SIM_CHECK(batch_tr[0] == batch_tr[1], "equiv.batches", "fread and mmap deliver different batch sequences (row counts / values / statuses)");
    SIM_CHECK(batch_tr[0] == batch_tr[2], "equiv.batches", "fread and buffer deliver different batch sequences (row counts / values / statuses)");
    common::end_of_run_checks();
    ctx.evals = 3;
}
}  // namespace

namespace sim {
void register_c03() {
    Property p;
    p.id = "C03"; p.level = "exploration";
    p.rule = "one evaluation = one (valid image, pre-drawn column-reader histories, pre-drawn batch-reader configurations, verify_checksums on/off) plan executed once per transport (fread, mmap on a guard-paged mapping, exact-size buffer) of the same disk image; metadata, schema accessors, statistics API and batch transcripts (status, rows, values per batch) are compared across the three and all content against the model; views handed out by batches are re-read after batch and batch reader are freed and before the reader is closed; 3 evaluations per run; non-trivial = file has rows; distinct as in C02. Generator biased to uncompressed REQUIRED fixed-width multi-page columns next to nullable/boolean/byte-array ones with batch_size > page";
    p.quick_runs = 10000; p.thorough_runs = 500000;
    p.run = run_c03;
    p.assumptions = {"column-reader equivalence is on content, not on per-call counts (the API says 'up to'); batch-reader equivalence is on the exact batch sequence",
                     "a batch column whose data pointer is not an ASan-owned heap block is a view (mapping or caller buffer) and must stay valid until the reader is closed"};
    register_property(p);
}
}
