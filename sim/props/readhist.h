// Read histories against the reference cursor model / batch model.
#pragma once
#include "common.h"
#include <sys/mman.h>
extern "C" int __sanitizer_get_ownership(const volatile void* p);

namespace readhist {
using namespace model;

// transcript of observable results (for cross-transport comparison)
struct Transcript {
    uint64_t h = 1469598103934665603ull; size_t n = 0; std::string first_diff_hint;
    void add(uint64_t v) { h ^= v; h *= 1099511628211ull; h ^= h >> 31; n++; }
    void bytes(const void* p, size_t len) { add(sim::fnv(p, len)); add(len); }
};

struct ChunkRef { int rg; int col; const Col* c; const Chunk* want; std::vector<size_t> pages; };   // pages: entries per data page (may be empty if unknown)

// a pre-drawn history: all choices are made before execution so that the same history can be replayed on
// several transports of one image without touching the tape again
struct Op { uint8_t kind; uint8_t kcode; uint32_t r1; bool with_def, with_rep; };
static inline std::vector<Op> gen_ops(int max_ops) {
    std::vector<Op> ops;
    int n = (int)sim::draw((uint32_t)max_ops + 1);
    for (int i = 0; i < n; i++) { Op o; o.kind = (uint8_t)sim::draw(12); o.kcode = (uint8_t)sim::draw(10); o.r1 = sim::draw(1u << 20); o.with_def = sim::draw(4) != 3; o.with_rep = sim::draw(2) == 1; ops.push_back(o); }
    Op fin; fin.kind = 0; fin.kcode = 1; fin.r1 = 0; fin.with_def = true; fin.with_rep = true;     // always finish by reading the rest
    ops.push_back(fin); ops.push_back(fin);
    return ops;
}

static inline int64_t pick_k(const ChunkRef& cr, const Op& op, int64_t pos, int64_t remaining) {
    // sizes around page boundaries and the end of the chunk
    int64_t page_left = -1; { int64_t at = 0; for (auto pe : cr.pages) { if (pos < at + (int64_t)pe) { page_left = at + (int64_t)pe - pos; break; } at += (int64_t)pe; } }
    switch (op.kcode) {
        case 0: return 1;
        case 1: return remaining;
        case 2: return remaining + 1 + op.r1 % 5;
        case 3: return 0;
        case 4: return page_left > 0 ? page_left : 1;
        case 5: return page_left > 1 ? page_left - 1 : 1;
        case 6: return page_left > 0 ? page_left + 1 : 2;
        case 7: return 1 + op.r1 % 8;
        case 8: return 1 + op.r1 % (uint32_t)std::max<int64_t>(remaining, 1);
        default: return 2 + op.r1 % 64;
    }
}

// A caller that reads "everything" may pass a max_values beyond INT32_MAX together with a buffer that really is that large.
// One lazily committed mapping per process serves as that buffer: 1-byte BOOLEAN slots at offset 0, int16 levels at 5 GiB.
static inline uint8_t* huge_region() {
    static uint8_t* base = nullptr;
    if (!base) {
        void* p = mmap(nullptr, 14ull << 30, PROT_READ | PROT_WRITE, MAP_PRIVATE | MAP_ANONYMOUS | MAP_NORESERVE, -1, 0);
        base = p == MAP_FAILED ? nullptr : (uint8_t*)p;
    }
    return base;
}

// Executes a history of column-reader calls on one chunk and checks every result against the cursor model.
static inline void run_column_history(carquet_reader_t* r, const ChunkRef& cr, const std::vector<Op>& ops, const char* where, Transcript* tr) {
    const Col& c = *cr.c; const Chunk& want = *cr.want;
    carquet_error_t err = CARQUET_ERROR_INIT;
    carquet_column_reader_t* col = cq::reader_get_column(r, cr.rg, cr.col, &err);
    SIM_CHECK(col != nullptr, "read.get_column_failed", "%s rg%d col%d: get_column failed on a valid file (%d %s)", where, cr.rg, cr.col, (int)err.code, err.message);
    int64_t total = (int64_t)want.entries(), pos = 0; size_t vpos = 0;
    size_t w = exec::slot_width(c.type, c.tlen);
    for (const Op& op : ops) {
        int64_t remaining = total - pos;
        uint32_t kind = op.kind;
        if (kind <= 7) {                                  // read_batch
            int64_t k = kind == 0 ? remaining : pick_k(cr, op, pos, remaining);
            bool with_def = op.with_def;
            bool with_rep = op.with_rep || c.max_rep > 0;
            // BOOLEAN, not repeated: now and then the count is beyond 32 bits and the buffers are honest about it
            bool huge = c.type == T_BOOL && c.max_rep == 0 && !op.with_rep && op.kcode == 2 && (op.r1 & 3) == 0 && remaining > 0 && huge_region() != nullptr;
            if (huge) { static const int64_t HUGE_K[] = {1ll << 31, (1ll << 31) + 5, 1ll << 32, (1ll << 32) + 3}; k = HUGE_K[(op.r1 >> 2) & 3]; with_rep = false; SIM_COUNT("probe.read_batch_max_values_beyond_int32"); }
            exec::Buf vals_b(huge ? 1 : w * (size_t)k), defs_b(huge ? 2 : 2 * (size_t)k, 0x7E), reps(huge ? 2 : 2 * (size_t)k, 0x7E);
            struct Ptr { uint8_t* p; uint8_t* get() const { return p; } };
            Ptr vals{huge ? huge_region() : vals_b.get()}, defs{huge ? huge_region() + (5ull << 30) : defs_b.get()};
            int64_t n = cq::column_read_batch(col, vals.get(), k, with_def ? (int16_t*)defs.get() : nullptr, with_rep ? (int16_t*)reps.get() : nullptr);
            if (tr) { tr->add((uint64_t)k); tr->add((uint64_t)n); }
            int64_t cap = std::min(k, remaining);
            if (k > 0 && remaining > 0) SIM_CHECK(n >= 1 && n <= cap, "cursor.read_count", "%s rg%d col%d (%s d%d r%d): read_batch(%lld) at row %lld of %lld returned %lld", where, cr.rg, cr.col, type_name(c.type), c.max_def, c.max_rep, (long long)k, (long long)pos, (long long)total, (long long)n);
            else SIM_CHECK(n == 0, "cursor.read_count", "%s rg%d col%d: read_batch(%lld) with %lld remaining returned %lld", where, cr.rg, cr.col, (long long)k, (long long)remaining, (long long)n);
            size_t nn = 0;
            for (int64_t i = 0; i < n; i++) {
                int16_t wd = want.def[(size_t)(pos + i)], wr = want.rep[(size_t)(pos + i)];
                if (with_def) SIM_CHECK(((int16_t*)defs.get())[i] == wd, "cursor.def_level", "%s rg%d col%d (%s d%d): after history, def level of entry %lld is %d, file says %d", where, cr.rg, cr.col, type_name(c.type), c.max_def, (long long)(pos + i), ((int16_t*)defs.get())[i], wd);
                if (with_rep) SIM_CHECK(((int16_t*)reps.get())[i] == wr, "cursor.rep_level", "%s rg%d col%d: rep level of entry %lld is %d, file says %d", where, cr.rg, cr.col, (long long)(pos + i), ((int16_t*)reps.get())[i], wr);
                nn += wd == c.max_def;
            }
            std::vector<std::string> got;
            exec::unpack_values(c.type, c.tlen, vals.get(), nn, got);
            for (size_t i = 0; i < nn; i++) {
                SIM_CHECK(got[i] == want.vals[vpos + i], "cursor.value", "%s rg%d col%d (%s d%d r%d): read_batch(%lld) at entry %lld: non-null value #%zu of the call is %s, file says %s", where, cr.rg, cr.col, type_name(c.type), c.max_def, c.max_rep,
                          (long long)k, (long long)pos, i, sim::hex(got[i].data(), got[i].size(), 20).c_str(), sim::hex(want.vals[vpos + i].data(), want.vals[vpos + i].size(), 20).c_str());
                if (tr) tr->bytes(got[i].data(), got[i].size());
            }
            if (n > 1 && cr.pages.size() > 1) SIM_COUNT("probe.read_history_multi_row_call");
            if (n > 0 && n < total && c.max_def > 0) SIM_COUNT("probe.partial_nullable_read");
            pos += n; vpos += nn;
        } else if (kind <= 9) {                           // skip
            int64_t k = pick_k(cr, op, pos, remaining);
            int64_t n = cq::column_skip(col, k);
            if (tr) { tr->add(0x5111); tr->add((uint64_t)n); }
            SIM_CHECK(n == std::min(k, remaining), "cursor.skip_count", "%s rg%d col%d (%s): skip(%lld) at row %lld of %lld returned %lld", where, cr.rg, cr.col, type_name(c.type), (long long)k, (long long)pos, (long long)total, (long long)n);
            for (int64_t i = 0; i < n; i++) vpos += want.def[(size_t)(pos + i)] == c.max_def;
            pos += n;
            SIM_COUNT("probe.skip_op");
        } else if (kind == 10) {
            bool hn = cq::column_has_next(col); int64_t rem = cq::column_remaining(col);
            if (tr) { tr->add((uint64_t)hn); tr->add((uint64_t)rem); }
            SIM_CHECK(rem == total - pos, "cursor.remaining", "%s rg%d col%d: remaining() is %lld, %lld rows not yet delivered", where, cr.rg, cr.col, (long long)rem, (long long)(total - pos));
            SIM_CHECK(hn == (rem > 0), "cursor.has_next", "%s rg%d col%d: has_next()=%d with remaining()=%lld", where, cr.rg, cr.col, (int)hn, (long long)rem);
        } else {                                          // re-create the reader: cursor back to 0
            cq::column_reader_free(col);
            col = cq::reader_get_column(r, cr.rg, cr.col, &err);
            SIM_CHECK(col != nullptr, "read.get_column_failed", "%s: get_column failed on re-creation", where);
            pos = 0; vpos = 0;
            SIM_COUNT("probe.reader_recreated");
        }
    }
    int64_t rem = cq::column_remaining(col);
    SIM_CHECK(rem == total - pos, "cursor.remaining", "%s rg%d col%d: remaining() is %lld at the end of the history, expected %lld", where, cr.rg, cr.col, (long long)rem, (long long)(total - pos));
    cq::column_reader_free(col);
}

// all two-call histories read(k); read(rest) for every k (the reader analogue of a crash-point sweep)
static inline void two_call_sweep(carquet_reader_t* r, const ChunkRef& cr, const char* where, int64_t limit) {
    const Col& c = *cr.c; const Chunk& want = *cr.want;
    int64_t total = (int64_t)want.entries();
    size_t w = exec::slot_width(c.type, c.tlen);
    for (int64_t k = 0; k <= total && k <= limit; k++) {
        carquet_error_t err = CARQUET_ERROR_INIT;
        carquet_column_reader_t* col = cq::reader_get_column(r, cr.rg, cr.col, &err);
        SIM_CHECK(col != nullptr, "read.get_column_failed", "%s: get_column failed", where);
        int64_t pos = 0; size_t vpos = 0;
        for (int call = 0; call < 2 + 64 && pos < total; call++) {
            int64_t ask = call == 0 ? k : total - pos + 1;
            if (ask == 0) continue;
            exec::Buf vals(w * (size_t)ask), defs(2 * (size_t)ask);
            int64_t n = cq::column_read_batch(col, vals.get(), ask, (int16_t*)defs.get(), nullptr);
            SIM_CHECK(n >= 1 && n <= std::min(ask, total - pos), "cursor.read_count", "%s rg%d col%d: sweep k=%lld: read_batch(%lld) at %lld/%lld returned %lld", where, cr.rg, cr.col, (long long)k, (long long)ask, (long long)pos, (long long)total, (long long)n);
            size_t nn = 0;
            for (int64_t i = 0; i < n; i++) { SIM_CHECK(((int16_t*)defs.get())[i] == want.def[(size_t)(pos + i)], "cursor.def_level", "%s rg%d col%d: sweep k=%lld: def level of entry %lld wrong", where, cr.rg, cr.col, (long long)k, (long long)(pos + i)); nn += want.def[(size_t)(pos + i)] == c.max_def; }
            std::vector<std::string> got; exec::unpack_values(c.type, c.tlen, vals.get(), nn, got);
            for (size_t i = 0; i < nn; i++) SIM_CHECK(got[i] == want.vals[vpos + i], "cursor.value", "%s rg%d col%d (%s d%d): sweep read(%lld);read(rest): value #%zu after entry %lld is %s, file says %s", where, cr.rg, cr.col, type_name(c.type), c.max_def, (long long)k, i, (long long)pos,
                                                   sim::hex(got[i].data(), got[i].size(), 20).c_str(), sim::hex(want.vals[vpos + i].data(), want.vals[vpos + i].size(), 20).c_str());
            pos += n; vpos += nn;
        }
        SIM_CHECK(pos == total, "cursor.read_count", "%s rg%d col%d: sweep k=%lld delivered %lld of %lld rows", where, cr.rg, cr.col, (long long)k, (long long)pos, (long long)total);
        cq::column_reader_free(col);
    }
}

// ---------------------------------------------------------------- batch reader
struct Polarity { int bit_for_null = -1, bit_for_present = -1; };   // one fixed polarity per run

struct BatchCfg { int32_t batch_size; int num_threads; int proj_mode; std::vector<int32_t> cols; };   // proj_mode 0 none, 1 indices, 2 names

static inline BatchCfg gen_batch_cfg(const Table& t, const std::vector<size_t>& first_pages) {
    BatchCfg b; b.num_threads = 1;
    int64_t rows0 = t.rgs.empty() ? 0 : t.rgs[0].rows;
    int64_t pg = first_pages.empty() ? 8 : (int64_t)first_pages[0];
    switch (sim::draw(10)) { case 0: b.batch_size = 65536; break; case 1: b.batch_size = 1; break; case 2: b.batch_size = 2; break; case 3: b.batch_size = 7; break; case 4: b.batch_size = 8; break; case 5: b.batch_size = 9; break;
        case 6: b.batch_size = (int32_t)std::max<int64_t>(1, pg - 1); break; case 7: b.batch_size = (int32_t)(pg + 1); break; case 8: b.batch_size = (int32_t)std::max<int64_t>(1, rows0); break; default: b.batch_size = 1 + (int32_t)sim::draw(300); }
    b.proj_mode = (int)sim::draw(3);
    if (b.proj_mode) { size_t n = 1 + sim::draw((uint32_t)t.cols.size()); for (size_t i = 0; i < n; i++) b.cols.push_back((int32_t)sim::draw((uint32_t)t.cols.size())); if (sim::draw(3)) { std::sort(b.cols.begin(), b.cols.end()); b.cols.erase(std::unique(b.cols.begin(), b.cols.end()), b.cols.end()); } }
    else for (size_t c = 0; c < t.cols.size(); c++) b.cols.push_back((int32_t)c);
    return b;
}

// Runs the batch reader over the whole file and checks the batch model; returns views into non-owned memory for the lifetime check.
struct ViewRec { const uint8_t* p; size_t n; std::string expect; };

static inline void run_batch_reader(carquet_reader_t* r, const Table& t, const BatchCfg& cfg, const char* where, Polarity& pol, Transcript* tr, std::vector<ViewRec>* views,
                                    std::vector<carquet_status_t>* statuses = nullptr, bool* error_seen = nullptr) {
    carquet_batch_reader_config_t bc; carquet_batch_reader_config_init(&bc);
    bc.batch_size = cfg.batch_size; bc.num_threads = cfg.num_threads;
    std::vector<const char*> names; std::vector<std::string> keep;
    if (cfg.proj_mode == 1) { bc.column_indices = cfg.cols.data(); bc.num_columns = (int32_t)cfg.cols.size(); }
    else if (cfg.proj_mode == 2) { for (auto c : cfg.cols) keep.push_back(t.cols[(size_t)c].name); for (auto& s : keep) names.push_back(s.c_str()); bc.column_names = names.data(); bc.num_column_names = (int32_t)names.size(); }
    carquet_error_t err = CARQUET_ERROR_INIT;
    carquet_batch_reader_t* br = cq::batch_reader_create(r, &bc, &err);
    if (!br && error_seen) { *error_seen = true; SIM_CHECK(err.code != CARQUET_OK, "error_contract.code_ok_on_failure", "batch_reader_create returned NULL with error.code == OK"); return; }
    SIM_CHECK(br != nullptr, "batch.create_failed", "%s: batch_reader_create failed on a valid file (%d %s)", where, (int)err.code, err.message);
    // expected stream: non-empty row groups in order
    size_t g = 0; int64_t rowpos = 0;
    std::vector<size_t> vpos(cfg.cols.size(), 0);
    auto advance_group = [&]() { while (g < t.rgs.size() && rowpos >= t.rgs[g].rows) { g++; rowpos = 0; std::fill(vpos.begin(), vpos.end(), 0); } };
    int64_t total = 0; for (auto& rg : t.rgs) total += rg.rows;
    int64_t delivered = 0;
    int errors = 0; bool resync = false;
    const bool hold_batches = error_seen == nullptr;     // fault-free runs: each batch is kept until the next one has been fetched
    carquet_row_batch_t* prev = nullptr; int64_t prev_rows = 0, prev_rowpos = 0; std::vector<size_t> prev_vpos; size_t prev_g = 0;
    // checks one delivered batch against the rows [rp, rp+nrows) of row group g; vp = dense value positions of the projected columns at rp
    auto verify = [&](carquet_row_batch_t* b, int64_t nrows, int64_t rp, std::vector<size_t>& vp, bool record, size_t g) {
        for (size_t ci = 0; ci < cfg.cols.size(); ci++) {
            const Col& c = t.cols[(size_t)cfg.cols[ci]]; const Chunk& want = t.rgs[g].cols[(size_t)cfg.cols[ci]];
            const void* data = nullptr; const uint8_t* bitmap = nullptr; int64_t nv = -1;
            carquet_status_t cs = carquet_row_batch_column(b, (int32_t)ci, &data, &bitmap, &nv);
            SIM_CHECK(cs == CARQUET_OK, "batch.column_failed", "%s: row_batch_column(%zu) returned %d", where, ci, (int)cs);
            SIM_CHECK(nv == nrows, "batch.column_alignment", "%s: batch of %lld rows but projected column %zu (file column %d, %s%s) has %lld values", where, (long long)nrows, ci, cfg.cols[ci], type_name(c.type), c.max_def ? "?" : "", (long long)nv);
            size_t nn = 0;
            for (int64_t i = 0; i < nrows; i++) {
                bool is_null = want.def[(size_t)(rp + i)] != c.max_def;
                nn += !is_null;
                if (!bitmap) { SIM_CHECK(!is_null, "batch.bitmap_missing", "%s: column %zu has nulls but no bitmap", where, ci); continue; }
                int bit = (bitmap[i / 8] >> (i % 8)) & 1;
                int& slot = is_null ? pol.bit_for_null : pol.bit_for_present;
                if (slot < 0) slot = bit;
                SIM_CHECK(slot == bit, "batch.bitmap", "%s: null bitmap of column %zu (%s%s) row %lld has bit %d for a %s row, elsewhere in this run bit %d marks %s rows", where, ci, type_name(c.type), c.max_def ? "?" : "", (long long)(rp + i), bit, is_null ? "null" : "present", slot, is_null ? "null" : "present");
                SIM_CHECK(pol.bit_for_null < 0 || pol.bit_for_present < 0 || pol.bit_for_null != pol.bit_for_present, "batch.bitmap", "%s: bitmap bit %d marks both null and present rows", where, bit);
            }
            std::vector<std::string> got;
            exec::unpack_values(c.type, c.tlen, (const uint8_t*)data, nn, got);
            for (size_t i = 0; i < nn; i++) {
                SIM_CHECK(got[i] == want.vals[vp[ci] + i], "batch.value", "%s: batch at row %lld of rg%zu, column %zu (%s d%d): non-null value #%zu is %s, file says %s", where, (long long)rp, g, ci, type_name(c.type), c.max_def, i,
                          sim::hex(got[i].data(), got[i].size(), 20).c_str(), sim::hex(want.vals[vp[ci] + i].data(), want.vals[vp[ci] + i].size(), 20).c_str());
                if (record && tr) tr->bytes(got[i].data(), got[i].size());
            }
            if (record && views && data && nn && c.type != T_BA && !__sanitizer_get_ownership(data)) {
                ViewRec v; v.p = (const uint8_t*)data; v.n = nn * exec::slot_width(c.type, c.tlen); v.expect.assign((const char*)data, v.n); views->push_back(v);
                SIM_COUNT("probe.zero_copy_view_handed_out");
            }
            vp[ci] += nn;
        }
    };
    for (int guard = 0; guard < 2000000; guard++) {
        carquet_row_batch_t* b = nullptr;
        carquet_status_t st = cq::batch_reader_next(br, &b);
        if (statuses) statuses->push_back(st);
        if (tr) tr->add((uint64_t)st);
        if (st == CARQUET_ERROR_END_OF_DATA || (st == CARQUET_OK && !b)) { if (b) cq::row_batch_free(b); break; }
        if (st != CARQUET_OK && error_seen) {
            // a caller may well call next() again after an error (the fault was transient): it may keep failing, or deliver batches whose
            // columns all show the same rows - the rows that follow, or (if the failed batch is given up) rows a whole number of batches later
            *error_seen = true; if (b) cq::row_batch_free(b);
            if (++errors > 2) { cq::batch_reader_free(br); return; }
            resync = true; SIM_COUNT("probe.batch_next_called_again_after_error");
            continue;
        }
        SIM_CHECK(st == CARQUET_OK, "batch.next_failed", "%s: batch_reader_next returned %d on a valid file after %lld rows", where, (int)st, (long long)delivered);
        int64_t nrows = carquet_row_batch_num_rows(b);
        if (tr) tr->add((uint64_t)nrows);
        SIM_CHECK(carquet_row_batch_num_columns(b) == (int32_t)cfg.cols.size(), "batch.num_columns", "%s: batch has %d columns, projection has %zu", where, carquet_row_batch_num_columns(b), cfg.cols.size());
        if (nrows == 0) { cq::row_batch_free(b); advance_group(); if (g >= t.rgs.size()) { /* trailing empty group */ } continue; }
        advance_group();
        SIM_CHECK(g < t.rgs.size(), "batch.too_many_rows", "%s: batch reader delivers rows beyond the end of the file", where);
        if (resync) {
            // first batch after a failed call: it is either the plain continuation, or - if the reader gave the failed batch up - starts a whole
            // number of batches later in this row group or at the start of a later row group; column 0 decides which, every column must then agree
            resync = false;
            auto col0_matches = [&](size_t gg, int64_t rp) -> bool {
                if (gg >= t.rgs.size() || rp >= t.rgs[gg].rows || nrows > t.rgs[gg].rows - rp) return false;
                const Col& c0 = t.cols[(size_t)cfg.cols[0]]; const Chunk& w0 = t.rgs[gg].cols[(size_t)cfg.cols[0]];
                const void* data = nullptr; const uint8_t* bitmap = nullptr; int64_t nv = -1;
                if (carquet_row_batch_column(b, 0, &data, &bitmap, &nv) != CARQUET_OK || nv != nrows) return false;
                size_t v0 = 0; for (int64_t i = 0; i < rp; i++) v0 += w0.def[(size_t)i] == c0.max_def;
                size_t nn = 0; for (int64_t i = 0; i < nrows; i++) nn += w0.def[(size_t)(rp + i)] == c0.max_def;
                std::vector<std::string> got; exec::unpack_values(c0.type, c0.tlen, (const uint8_t*)data, nn, got);
                for (size_t i = 0; i < nn; i++) if (got[i] != w0.vals[v0 + i]) return false;
                return true;
            };
            if (!col0_matches(g, rowpos)) {
                std::vector<std::pair<size_t, int64_t>> cand;
                for (int k = 1; k <= 3; k++) cand.push_back({g, rowpos + (int64_t)k * cfg.batch_size});
                for (size_t gg = g + 1; gg < t.rgs.size() && cand.size() < 6; gg++) if (t.rgs[gg].rows > 0) cand.push_back({gg, 0});
                for (auto& cd : cand) if (col0_matches(cd.first, cd.second)) {
                    g = cd.first; rowpos = cd.second;
                    for (size_t ci = 0; ci < cfg.cols.size(); ci++) { const Col& c = t.cols[(size_t)cfg.cols[ci]]; const Chunk& want = t.rgs[g].cols[(size_t)cfg.cols[ci]]; vpos[ci] = 0; for (int64_t i = 0; i < rowpos; i++) vpos[ci] += want.def[(size_t)i] == c.max_def; }
                    SIM_COUNT("probe.batch_reader_gave_up_failed_batch");
                    break;
                }
            }
        }
        SIM_CHECK(nrows >= 1 && nrows <= cfg.batch_size && nrows <= t.rgs[g].rows - rowpos, "batch.num_rows", "%s: batch of %lld rows (batch_size %d, %lld rows left in row group)", where, (long long)nrows, cfg.batch_size, (long long)(t.rgs[g].rows - rowpos));
        std::vector<size_t> vpos_at = vpos;
        verify(b, nrows, rowpos, vpos, true, g);
        // "pointers remain valid until the batch is freed": the previous batch is still held while this one was fetched - look at it again
        if (prev) { std::vector<size_t> pv = prev_vpos; verify(prev, prev_rows, prev_rowpos, pv, false, prev_g); cq::row_batch_free(prev); prev = nullptr; SIM_COUNT("probe.batch_reread_after_next_batch"); }
        if (hold_batches) { prev = b; prev_rows = nrows; prev_rowpos = rowpos; prev_vpos = vpos_at; prev_g = g; }
        rowpos += nrows; delivered += nrows;
        if (!hold_batches) cq::row_batch_free(b);
    }
    if (prev) {
        // ... and once more after the end of data was reported
        std::vector<size_t> pv = prev_vpos; verify(prev, prev_rows, prev_rowpos, pv, false, prev_g); cq::row_batch_free(prev); prev = nullptr;
    }
    if (errors) { cq::batch_reader_free(br); return; }
    SIM_CHECK(delivered == total, "batch.total_rows", "%s: batch reader delivered %lld rows, file has %lld", where, (long long)delivered, (long long)total);
    cq::batch_reader_free(br);
}

}  // namespace readhist
