// C01 - write-then-read round trip returns exactly the table that was written.
#include "common.h"

namespace {

using namespace model;

void byte_array_lifetime_check(const std::string& path, const Table& t) {
    // "Byte-array values handed back by a read call stay readable until the next call on that column reader":
    // hold pointers of one BYTE_ARRAY read, work on *other* column readers + allocator churn, then dereference.
    int col = -1; size_t g = 0;
    for (size_t gi = 0; gi < t.rgs.size() && col < 0; gi++)
        for (size_t c = 0; c < t.cols.size(); c++)
            if (t.cols[c].type == T_BA && !t.rgs[gi].cols[c].vals.empty() && t.rgs[gi].rows > 0) { col = (int)c; g = gi; break; }
    if (col < 0) return;
    int mode = (int)sim::draw(3);
    auto o = exec::open_image(path, mode);
    SIM_CHECK(o->r != nullptr, "open.valid_file_rejected", "lifetime check: %s open failed", exec::mode_name(mode));
    // file row-group index of the model's g-th group: empty groups may or may not be stored; find by counting non-empty
    int nrg = carquet_reader_num_row_groups(o->r); int fg = -1; size_t k = 0, want_k = 0;
    for (size_t gi = 0; gi < g; gi++) if (t.rgs[gi].rows > 0) want_k++;
    for (int i = 0; i < nrg; i++) { carquet_row_group_metadata_t md; if (cq::reader_row_group_metadata(o->r, i, &md) != CARQUET_OK) return; if (md.num_rows == 0) continue; if (k == want_k) { fg = i; break; } k++; }
    if (fg < 0) return;
    carquet_error_t err = CARQUET_ERROR_INIT;
    carquet_column_reader_t* cr = cq::reader_get_column(o->r, fg, col, &err);
    SIM_CHECK(cr != nullptr, "read.get_column_failed", "lifetime check: get_column failed");
    const Chunk& want = t.rgs[g].cols[(size_t)col];
    int64_t k_read = 1 + (int64_t)sim::draw((uint32_t)want.entries());
    exec::Buf vals(sizeof(carquet_byte_array_t) * (size_t)k_read);
    exec::Buf defs(2 * (size_t)k_read);
    int64_t n = cq::column_read_batch(cr, vals.get(), k_read, (int16_t*)defs.get(), nullptr);
    if (n > 0) {
        // other column readers come and go; allocator churn
        for (size_t c = 0; c < t.cols.size() && c < 4; c++) {
            if ((int)c == col) continue;
            exec::ReadChunk rc = exec::read_chunk_whole(o->r, fg, (int)c, t.cols[c].type, t.cols[c].tlen, t.cols[c].max_def, (int64_t)t.rgs[g].cols[c].entries());
            (void)rc;
        }
        { sim::ApiScope churn("harness_churn"); for (int i = 0; i < 32; i++) { void* p = malloc(64 + (size_t)i * 97); if (p) { memset(p, 0x5A, 64); free(p); } } }
        size_t nn = 0; int16_t* d = (int16_t*)defs.get();
        for (int64_t i = 0; i < n; i++) nn += d[i] == t.cols[(size_t)col].max_def;
        std::vector<std::string> got;
        exec::unpack_values(T_BA, 0, vals.get(), nn, got);          // dereference now (ASan catches freed memory)
        for (size_t i = 0; i < nn && i < want.vals.size(); i++)
            SIM_CHECK(got[i] == want.vals[i], "read.byte_array_lifetime", "byte array #%zu changed before the next call on its column reader", i);
        SIM_COUNT("probe.byte_array_lifetime_checked");
    }
    cq::column_reader_free(cr);
}

void run_c01(sim::RunCtx& ctx) {
    gen::g_row_cap = 0;
    gen::FlatOpts fo;
    gen::WritePlan p = gen::gen_write_plan(fo);
    common::apply_benign_knobs();
    common::plan_tags_and_shape(ctx, p);
    ctx.sample = p.describe();
    if (common::plan_only()) return;
    const std::string path = SIMDISK "c01.parquet";
    exec::WriteOutcome w = exec::run_writer(p, path);
    if (!w.all_ok) { ctx.refusal = true; SIM_COUNT("refusal.writer_call_not_ok"); sim::L.ev("refusal", w.first_bad_call, w.first_bad_status); return; }
    SIM_CHECK(w.file_exists, "write.no_file_after_ok_close", "close returned OK but no file exists");
    sim::L.bytes(w.image.data(), w.image.size());
    for (int mode = 0; mode < 3; mode++) {
        auto o = exec::open_image(path, mode);
        if (!o->r) { exec::check_error_struct(o->err, "reader_open"); }
        SIM_CHECK(o->r != nullptr, "open.valid_file_rejected", "%s: file written with all calls OK does not re-open: code %d (%s)", exec::mode_name(mode), (int)o->err.code, o->err.message);
        exec::compare_reader_with_table(o->r, p.table, exec::mode_name(mode));
    }
    byte_array_lifetime_check(path, p.table);
    common::end_of_run_checks();
    ctx.evals = 1;
}

}  // namespace

namespace sim {
void register_c01() {
    Property p;
    p.id = "C01"; p.level = "exploration";
    p.rule = "one evaluation = one seeded (schema, table, codec, page size, row-group layout, write_batch history) plan executed against the real writer on the simulated disk and read back through fread, mmap and buffer; non-trivial = has rows and hits at least one history/shape probe (several batches per page, nullable, multi-page, booleans in odd batches, strings, several row groups); distinct = hash of (types, repetition, codec, page size, per-column batch-count bucket, row-count bucket)";
    p.quick_runs = 40000; p.thorough_runs = 2000000;
    p.run = run_c01;
    p.assumptions = {"harness obeys the documented writer contract (equal rows per column, sparse values + one def level per row)",
                     "values array returned by read_batch is dense (j-th slot = j-th non-null row), as examples/nullable_columns.c consumes it",
                     "runs in which a writer call returns non-OK are refusals (property is conditional on OK), counted not flagged"};
    register_property(p);
}
}
