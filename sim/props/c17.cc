// C17 - schema trees map to the right leaf columns and def/rep levels.
#include "common.h"
#include "peerfile.h"

namespace {
using namespace model;

struct Flat { const Node* n; int def, rep; bool leaf; std::vector<std::string> path; };
void flatten(const Node& n, int def, int rep, std::vector<std::string>& path, std::vector<Flat>& out, bool root) {
    int d = def + (!root && n.rep != REQ), r = rep + (!root && n.rep == REPEATED);
    if (!root) path.push_back(n.name);
    out.push_back(Flat{&n, d, r, n.leaf && !root, path});
    for (auto& k : n.kids) flatten(k, d, r, path, out, false);
    if (!root) path.pop_back();
}

void reader_side(sim::RunCtx& ctx) {
    peergen::SchemaOpts so; so.max_depth = 6; so.max_nodes = 60;
    Table t; peergen::gen_schema(t, so);
    if (sim::draw(40) == 39) { t.root.kids.clear(); derive_leaves(t); }      // the legal zero-column schema: just the root
    int nrg = t.cols.empty() ? 0 : 1 + (int)sim::draw(2);
    for (int g = 0; g < nrg; g++) { RowGroup rg; peergen::fill_row_group(t, rg, (int64_t)sim::draw(9)); t.rgs.push_back(rg); }
    peergen::LayoutOpts lo; lo.simple_pages = true;
    ref::Layout L = peergen::gen_layout(t, lo);
    int mode = (int)sim::draw(3);
    ctx.sample = "reader side: " + peergen::describe(t, L);
    std::vector<Flat> flat; { std::vector<std::string> path; flatten(t.root, 0, 0, path, flat, true); }
    { std::string sh = "r"; for (auto& f : flat) sh += sim::fmt(";%d%d%d", (int)f.leaf, f.n->rep, f.leaf ? f.n->type : (int)f.n->kids.size()); ctx.shape = sim::fnv(sh.data(), sh.size()); ctx.nontrivial = flat.size() > 2 || t.cols.empty(); }
    int maxdepth = 0; for (auto& f : flat) maxdepth = std::max(maxdepth, (int)f.path.size());
    if (common::plan_only()) return;
    if (maxdepth >= 4) SIM_COUNT("probe.schema_depth_ge_4");
    if (!t.root.kids.empty() && !t.root.kids.back().leaf) SIM_COUNT("probe.group_as_last_child");
    const std::string path = SIMDISK "c17.parquet";
    peerfile::emit(t, L, path, true);
    auto o = exec::open_image(path, mode);
    SIM_CHECK(o->r != nullptr, "open.valid_file_rejected", "%s: file with nested schema does not open (%d %s)", exec::mode_name(mode), (int)o->err.code, o->err.message);
    const carquet_schema_t* s = carquet_reader_schema(o->r);
    SIM_CHECK(s != nullptr, "schema.null", "reader_schema returned NULL");
    SIM_CHECK(carquet_reader_num_columns(o->r) == (int32_t)t.cols.size() && carquet_schema_num_columns(s) == (int32_t)t.cols.size(), "schema.num_columns", "num_columns %d/%d, tree has %zu leaves", carquet_reader_num_columns(o->r), carquet_schema_num_columns(s), t.cols.size());
    SIM_CHECK(carquet_schema_num_elements(s) == (int32_t)flat.size(), "schema.num_elements", "num_elements %d, tree has %zu nodes", carquet_schema_num_elements(s), flat.size());
    SIM_CHECK(carquet_schema_get_element(s, -1) == nullptr && carquet_schema_get_element(s, (int32_t)flat.size()) == nullptr, "schema.element_range", "out-of-range element index not rejected");
    size_t leaf = 0;
    for (size_t i = 0; i < flat.size(); i++) {
        const carquet_schema_node_t* n = carquet_schema_get_element(s, (int32_t)i);
        SIM_CHECK(n != nullptr, "schema.element_null", "element %zu is NULL", i);
        const Flat& f = flat[i];
        SIM_CHECK(f.n->name == carquet_schema_node_name(n), "schema.name", "element %zu name '%s', file says '%s'", i, carquet_schema_node_name(n), f.n->name.c_str());
        if (i == 0) continue;
        SIM_CHECK(carquet_schema_node_is_leaf(n) == f.leaf, "schema.is_leaf", "element %zu is_leaf=%d, file says %d", i, (int)carquet_schema_node_is_leaf(n), (int)f.leaf);
        SIM_CHECK((int)carquet_schema_node_repetition(n) == f.n->rep, "schema.repetition", "element %zu repetition %d, file says %d", i, (int)carquet_schema_node_repetition(n), f.n->rep);
        if (!f.leaf) continue;
        SIM_CHECK((int)carquet_schema_node_physical_type(n) == f.n->type, "schema.type", "element %zu type %d, file says %d", i, (int)carquet_schema_node_physical_type(n), f.n->type);
        if (f.n->type == T_FLBA) SIM_CHECK(carquet_schema_node_type_length(n) == f.n->tlen, "schema.type_length", "element %zu type_length %d, file says %d", i, carquet_schema_node_type_length(n), f.n->tlen);
        const carquet_logical_type_t* lt = carquet_schema_node_logical_type(n);
        if (f.n->logical) {
            // LogicalType union field id (parquet.thrift) -> the id the public header gives that type
            static const int ID[16] = {-1, CARQUET_LOGICAL_STRING, CARQUET_LOGICAL_MAP, CARQUET_LOGICAL_LIST, CARQUET_LOGICAL_ENUM, CARQUET_LOGICAL_DECIMAL, CARQUET_LOGICAL_DATE, CARQUET_LOGICAL_TIME,
                                       CARQUET_LOGICAL_TIMESTAMP, -1, CARQUET_LOGICAL_INTEGER, CARQUET_LOGICAL_NULL, CARQUET_LOGICAL_JSON, CARQUET_LOGICAL_BSON, CARQUET_LOGICAL_UUID, CARQUET_LOGICAL_FLOAT16};
            if (f.n->converted_only) SIM_COUNT("probe.annotation_by_converted_type_only");
            SIM_CHECK(lt != nullptr, "schema.logical_type", "element %zu ('%s'): the file annotates it (%s, LogicalType field id %d) but no logical type is reported", i, f.n->name.c_str(), f.n->converted_only ? "through the legacy converted_type field only" : "LogicalType", f.n->logical);
            SIM_CHECK((int)lt->id == ID[f.n->logical], "schema.logical_type", "element %zu ('%s'): LogicalType field %d in the file, reported id %d (expected %d)", i, f.n->name.c_str(), f.n->logical, (int)lt->id, ID[f.n->logical]);
            if (f.n->logical == 5) SIM_CHECK(lt->params.decimal.scale == f.n->lp1 && lt->params.decimal.precision == f.n->lp2, "schema.logical_type_params", "element %zu: DECIMAL(scale %d, precision %d) reported as scale %d precision %d", i, f.n->lp1, f.n->lp2, lt->params.decimal.scale, lt->params.decimal.precision);
            if (f.n->logical == 10) SIM_CHECK(lt->params.integer.bit_width == f.n->lp1 && (int)lt->params.integer.is_signed == f.n->lp2, "schema.logical_type_params", "element %zu: INTEGER(%d, signed=%d) reported as (%d, %d)", i, f.n->lp1, f.n->lp2, (int)lt->params.integer.bit_width, (int)lt->params.integer.is_signed);
            if (f.n->logical == 7) SIM_CHECK((int)lt->params.time.unit == f.n->lp2 - 1 && (int)lt->params.time.is_adjusted_to_utc == f.n->lp1, "schema.logical_type_params", "element %zu: TIME(utc=%d, unit %d) reported as (utc=%d, unit %d)", i, f.n->lp1, f.n->lp2 - 1, (int)lt->params.time.is_adjusted_to_utc, (int)lt->params.time.unit);
            if (f.n->logical == 8) SIM_CHECK((int)lt->params.timestamp.unit == f.n->lp2 - 1 && (int)lt->params.timestamp.is_adjusted_to_utc == f.n->lp1, "schema.logical_type_params", "element %zu: TIMESTAMP(utc=%d, unit %d) reported as (utc=%d, unit %d)", i, f.n->lp1, f.n->lp2 - 1, (int)lt->params.timestamp.is_adjusted_to_utc, (int)lt->params.timestamp.unit);
            SIM_COUNT("probe.logical_type_checked");
        } else SIM_CHECK(lt == nullptr, "schema.logical_type", "element %zu: logical type reported but the file has none", i);
        // maximum levels as the public accessors state them
        int md = carquet_schema_node_max_def_level(n), mr = carquet_schema_node_max_rep_level(n);
        SIM_CHECK(md == f.def && mr == f.rep, "schema.node_max_levels", "leaf '%s' (element %zu, depth %zu): node_max_def_level=%d node_max_rep_level=%d, path has %d optional/repeated and %d repeated nodes", f.n->name.c_str(), i, f.path.size(), md, mr, f.def, f.rep);
        // lookup by name: the leaf's own name is unique in generated schemas
        // lookup by name as the header documents it: the name for a top-level column, the dot-separated path for a nested one
        // (names are unique in generated schemas; a bare leaf name of a nested column may resolve to it or to nothing)
        int32_t idx = carquet_schema_find_column(s, f.n->name.c_str());
        if (f.path.size() == 1) SIM_CHECK(idx == (int32_t)leaf, "schema.find_column", "find_column('%s') returned %d, leaf index is %zu", f.n->name.c_str(), idx, leaf);
        else SIM_CHECK(idx == -1 || idx == (int32_t)leaf, "schema.find_column", "find_column('%s') returned %d, the only leaf of that name is %zu", f.n->name.c_str(), idx, leaf);
        std::string dotted; bool dots_in_names = false; for (size_t k = 0; k < f.path.size(); k++) { dotted += (k ? "." : "") + f.path[k]; dots_in_names = dots_in_names || f.path[k].find('.') != std::string::npos; }
        if (f.path.size() > 1 && !dots_in_names) {
            int32_t di = carquet_schema_find_column(s, dotted.c_str());
            SIM_CHECK(di == (int32_t)leaf, "schema.find_column_path", "find_column('%s') returned %d; the header documents dot-separated paths for nested schemas and that path is leaf %zu", dotted.c_str(), di, leaf);
            SIM_COUNT("probe.dotted_path_resolved");
        }
        SIM_CHECK(t.cols[leaf].max_def == f.def && t.cols[leaf].max_rep == f.rep, "harness.leaf_order", "harness leaf order mismatch");
        leaf++;
    }
    SIM_CHECK(leaf == t.cols.size(), "schema.leaf_count", "%zu leaves visited, %zu expected", leaf, t.cols.size());
    SIM_CHECK(carquet_schema_find_column(s, "no such column \x01") == -1, "schema.find_column", "find_column of an absent name did not return -1");
    if (t.cols.empty()) {
        // a table without columns through the batch reader: it may refuse, or report the end of the data - on every call
        carquet_batch_reader_config_t bc; carquet_batch_reader_config_init(&bc); bc.num_threads = 1;
        carquet_error_t berr = CARQUET_ERROR_INIT;
        carquet_batch_reader_t* br = cq::batch_reader_create(o->r, &bc, &berr);
        if (br) {
            for (int q = 0; q < 3; q++) { carquet_row_batch_t* b = nullptr; carquet_status_t st = cq::batch_reader_next(br, &b); SIM_CHECK(st != CARQUET_OK || b == nullptr || carquet_row_batch_num_rows(b) == 0, "batch.rows_from_no_columns", "batch reader delivered rows from a table without columns"); if (b) cq::row_batch_free(b); }
            cq::batch_reader_free(br);
        }
        SIM_COUNT("probe.zero_column_table_through_batch_reader");
    }
    // the levels the column readers actually use: every chunk must decode to the model's levels and values
    for (size_t g = 0; g < t.rgs.size(); g++) for (size_t c = 0; c < t.cols.size(); c++) {
        exec::ReadChunk rc = exec::read_chunk_whole(o->r, (int)g, (int)c, t.cols[c].type, t.cols[c].tlen, t.cols[c].max_def, (int64_t)t.rgs[g].cols[c].entries());
        exec::compare_chunk(rc, t.rgs[g].cols[c], t.cols[c], exec::mode_name(mode), (int)g, (int)c);
    }
    // the schema of a nested file handed to the writer (the natural way to copy a file): the writer either refuses it or writes the
    // tree with the schema's own levels - flattening it silently gives wrong levels and reads past the caller's dense value arrays
    if (maxdepth >= 2 && !t.rgs.empty() && t.rgs[0].rows > 0 && (L.rng_seed & 3) == 0) {
        bool writable = true; for (auto& c : t.cols) writable = writable && c.type != T_I96;
        if (writable) {
            const std::string wpath = SIMDISK "c17w.parquet";
            carquet_error_t werr = CARQUET_ERROR_INIT;
            carquet_writer_t* w = cq::writer_create(wpath.c_str(), s, nullptr, &werr);
            if (!w) { exec::check_error_struct(werr, "writer_create"); SIM_COUNT("probe.writer_refuses_nested_schema"); }
            else {
                bool all_ok = true;
                for (size_t c = 0; c < t.cols.size() && all_ok; c++) {
                    const Chunk& ch = t.rgs[0].cols[c];
                    auto pk = exec::pack_values(t.cols[c], ch.vals, 0, ch.vals.size());
                    all_ok = cq::writer_write_batch(w, (int32_t)c, pk->buf.get(), (int64_t)ch.def.size(), ch.def.data(), ch.rep.data()) == CARQUET_OK;
                }
                carquet_status_t cs = cq::writer_close(w);
                if (all_ok && cs == CARQUET_OK) {
                    std::vector<uint8_t> img = sim::disk_file(wpath);
                    ref::ReadOpts ro; ro.strict = false;
                    ref::Parsed P = ref::parse_file(img.data(), img.size(), ro);
                    SIM_CHECK(P.ok, "writer.nested_schema_file_invalid", "the schema of a nested file (depth %d) was handed to the writer, every call returned OK, and the independent reader cannot read the result: %s", maxdepth, P.error.c_str());
                    SIM_CHECK(P.table.cols.size() == t.cols.size(), "writer.nested_schema_flattened", "written file has %zu leaves, the schema had %zu", P.table.cols.size(), t.cols.size());
                    for (size_t c = 0; c < t.cols.size(); c++) {
                        SIM_CHECK(P.table.cols[c].max_def == t.cols[c].max_def && P.table.cols[c].max_rep == t.cols[c].max_rep, "writer.nested_schema_flattened", "leaf %zu ('%s') has levels %d/%d in the written file, %d/%d in the schema the writer was given", c, t.cols[c].name.c_str(), P.table.cols[c].max_def, P.table.cols[c].max_rep, t.cols[c].max_def, t.cols[c].max_rep);
                        SIM_CHECK(!P.table.rgs.empty() && P.table.rgs[0].cols[c].def == t.rgs[0].cols[c].def && P.table.rgs[0].cols[c].vals == t.rgs[0].cols[c].vals, "writer.nested_schema_content", "leaf %zu: levels or values in the written file differ from what was handed to write_batch", c);
                    }
                    SIM_COUNT("probe.nested_schema_written_correctly");
                }
            }
        }
    }
    o.reset();
    common::end_of_run_checks();
    ctx.evals = 1;
}

void builder_side(sim::RunCtx& ctx) {
    int n = (int)sim::draw(20) < 16 ? (int)sim::draw(12) : (int)sim::draw(401);
    struct El { bool leaf; std::string name; int type, rep, tlen; bool has_lt = false; carquet_logical_type_t lt; };
    auto same_lt = [](const carquet_logical_type_t& a, const carquet_logical_type_t& b) {
        if (a.id != b.id) return false;
        switch (a.id) {
            case CARQUET_LOGICAL_DECIMAL: return a.params.decimal.precision == b.params.decimal.precision && a.params.decimal.scale == b.params.decimal.scale;
            case CARQUET_LOGICAL_INTEGER: return a.params.integer.bit_width == b.params.integer.bit_width && a.params.integer.is_signed == b.params.integer.is_signed;
            case CARQUET_LOGICAL_TIME: return a.params.time.unit == b.params.time.unit && a.params.time.is_adjusted_to_utc == b.params.time.is_adjusted_to_utc;
            case CARQUET_LOGICAL_TIMESTAMP: return a.params.timestamp.unit == b.params.timestamp.unit && a.params.timestamp.is_adjusted_to_utc == b.params.timestamp.is_adjusted_to_utc;
            default: return true;
        }
    };
    std::vector<El> els; std::vector<size_t> leaves;
    ctx.sample = sim::fmt("builder side: %d add ops", n);
    ctx.shape = sim::fnv(&n, sizeof n); ctx.nontrivial = n > 0;
    sim::allocplan.realloc_moves = true;
    if (common::plan_only()) { for (int i = 0; i < n; i++) { sim::draw(5); } return; }
    carquet_error_t err = CARQUET_ERROR_INIT;
    carquet_schema_t* s = cq::schema_create(&err);
    SIM_CHECK(s != nullptr, "builder.create_failed", "schema_create failed");
    auto check_el = [&](size_t i) {
        const carquet_schema_node_t* nd = carquet_schema_get_element(s, (int32_t)i + 1);
        SIM_CHECK(nd != nullptr, "builder.element_null", "element %zu NULL after %zu adds", i + 1, els.size());
        const El& e = els[i];
        SIM_CHECK(e.name == carquet_schema_node_name(nd), "builder.name", "element %zu name differs after %zu adds", i + 1, els.size());
        SIM_CHECK(carquet_schema_node_is_leaf(nd) == e.leaf, "builder.is_leaf", "element %zu is_leaf wrong", i + 1);
        SIM_CHECK((int)carquet_schema_node_repetition(nd) == e.rep, "builder.repetition", "element %zu repetition %d, added %d", i + 1, (int)carquet_schema_node_repetition(nd), e.rep);
        if (e.leaf) {
            SIM_CHECK((int)carquet_schema_node_physical_type(nd) == e.type, "builder.type", "element %zu type wrong", i + 1);
            SIM_CHECK(carquet_schema_node_type_length(nd) == e.tlen, "builder.type_length", "element %zu type_length %d, added %d", i + 1, carquet_schema_node_type_length(nd), e.tlen);
            SIM_CHECK(carquet_schema_node_max_def_level(nd) == (e.rep != REQ) && carquet_schema_node_max_rep_level(nd) == (e.rep == REPEATED), "builder.levels", "element %zu levels %d/%d for repetition %d", i + 1, carquet_schema_node_max_def_level(nd), carquet_schema_node_max_rep_level(nd), e.rep);
            const carquet_logical_type_t* lt = carquet_schema_node_logical_type(nd);
            SIM_CHECK((lt != nullptr) == e.has_lt && (!lt || same_lt(*lt, e.lt)), "builder.logical_type", "element %zu: logical type %s id %d, added %s id %d", i + 1, lt ? "present" : "absent", lt ? (int)lt->id : -1, e.has_lt ? "with" : "without", e.has_lt ? (int)e.lt.id : -1);
        }
    };
    for (int i = 0; i < n; i++) {
        bool group = sim::draw(5) == 4;
        El e; e.leaf = !group; e.name = (group ? "g" : "c") + std::to_string(i); e.rep = (int)sim::draw(3);
        e.type = group ? 0 : gen::WRITABLE[sim::draw(7)]; e.tlen = e.type == T_FLBA && !group ? 1 + (int)sim::draw(16) : 0;
        if (group) { int32_t idx = cq::schema_add_group(s, e.name.c_str(), (carquet_field_repetition_t)e.rep, 0); SIM_CHECK(idx == (int32_t)els.size() + 1, "builder.add_group_index", "add_group returned %d, expected element index %zu", idx, els.size() + 1); }
        else {
            // a third of the columns carry a logical type (with parameters where the type has them)
            if (sim::draw(3) == 0) {
                memset(&e.lt, 0, sizeof e.lt); uint32_t k = sim::draw(4);
                if (e.type == T_BA) { e.has_lt = true; static const carquet_logical_type_id_t L[] = {CARQUET_LOGICAL_STRING, CARQUET_LOGICAL_ENUM, CARQUET_LOGICAL_JSON, CARQUET_LOGICAL_BSON}; e.lt.id = L[k]; }
                else if (e.type == T_I32) { e.has_lt = true; if (k == 0) e.lt.id = CARQUET_LOGICAL_DATE; else if (k == 1) { e.lt.id = CARQUET_LOGICAL_TIME; e.lt.params.time.unit = CARQUET_TIME_UNIT_MILLIS; e.lt.params.time.is_adjusted_to_utc = sim::draw(2); } else if (k == 2) { e.lt.id = CARQUET_LOGICAL_INTEGER; static const int8_t BW[] = {8, 16, 32}; e.lt.params.integer.bit_width = BW[sim::draw(3)]; e.lt.params.integer.is_signed = sim::draw(2); } else { e.lt.id = CARQUET_LOGICAL_DECIMAL; e.lt.params.decimal.precision = 1 + (int32_t)sim::draw(9); e.lt.params.decimal.scale = (int32_t)sim::draw((uint32_t)e.lt.params.decimal.precision + 1); } }
                else if (e.type == T_I64) { e.has_lt = true; if (k <= 1) { e.lt.id = CARQUET_LOGICAL_TIMESTAMP; e.lt.params.timestamp.unit = (carquet_time_unit_t)sim::draw(3); e.lt.params.timestamp.is_adjusted_to_utc = sim::draw(2); } else if (k == 2) { e.lt.id = CARQUET_LOGICAL_INTEGER; e.lt.params.integer.bit_width = 64; e.lt.params.integer.is_signed = sim::draw(2); } else { e.lt.id = CARQUET_LOGICAL_TIME; e.lt.params.time.unit = sim::draw(2) ? CARQUET_TIME_UNIT_MICROS : CARQUET_TIME_UNIT_NANOS; e.lt.params.time.is_adjusted_to_utc = sim::draw(2); } }
                else if (e.type == T_FLBA) { e.has_lt = true; if (k == 0) { e.lt.id = CARQUET_LOGICAL_UUID; e.tlen = 16; } else if (k == 1) { e.lt.id = CARQUET_LOGICAL_FLOAT16; e.tlen = 2; } else { e.lt.id = CARQUET_LOGICAL_DECIMAL; e.lt.params.decimal.precision = 1 + (int32_t)sim::draw((uint32_t)(2 * e.tlen)); e.lt.params.decimal.scale = 0; } }
                if (e.has_lt) SIM_COUNT("probe.builder_column_with_logical_type");
            }
            carquet_status_t st = cq::schema_add_column(s, e.name.c_str(), (carquet_physical_type_t)e.type, e.has_lt ? &e.lt : nullptr, (carquet_field_repetition_t)e.rep, e.tlen); SIM_CHECK(st == CARQUET_OK, "builder.add_column_failed", "add_column #%d returned %d", i, (int)st); leaves.push_back(els.size()); }
        els.push_back(e);
        SIM_CHECK(carquet_schema_num_elements(s) == (int32_t)els.size() + 1, "builder.num_elements", "num_elements %d after %zu adds", carquet_schema_num_elements(s), els.size());
        SIM_CHECK(carquet_schema_num_columns(s) == (int32_t)leaves.size(), "builder.num_columns", "num_columns %d after %zu add_column calls", carquet_schema_num_columns(s), leaves.size());
        check_el(els.size() - 1);
        check_el(sim::draw((uint32_t)els.size()));
        if (!leaves.empty()) { size_t li = sim::draw((uint32_t)leaves.size()); SIM_CHECK(carquet_schema_find_column(s, els[leaves[li]].name.c_str()) == (int32_t)li, "builder.find_column", "find_column('%s') returned %d, expected %zu", els[leaves[li]].name.c_str(), carquet_schema_find_column(s, els[leaves[li]].name.c_str()), li); }
        if (els.size() == 64 || els.size() == 128 || els.size() == 256) SIM_COUNT("probe.builder_capacity_growth");
    }
    for (size_t i = 0; i < els.size(); i++) check_el(i);
    // hand the (flat part of the) schema to the writer and read it back
    bool only_writable_reps = true; for (auto li : leaves) if (els[li].rep == REPEATED) only_writable_reps = false;
    if (!leaves.empty() && only_writable_reps && leaves.size() <= 300) {
        const std::string path = SIMDISK "c17b.parquet";
        carquet_writer_t* w = cq::writer_create(path.c_str(), s, nullptr, &err);
        SIM_CHECK(w != nullptr, "builder.writer_create_failed", "writer_create with built schema failed");
        carquet_status_t cs = cq::writer_close(w);
        if (cs == CARQUET_OK) {
            auto o = exec::open_image(path, (int)sim::draw(3));
            SIM_CHECK(o->r != nullptr, "builder.reopen_failed", "file written from built schema does not re-open");
            const carquet_schema_t* rs = carquet_reader_schema(o->r);
            SIM_CHECK(carquet_schema_num_columns(rs) == (int32_t)leaves.size(), "builder.roundtrip_columns", "file has %d columns, schema had %zu leaves", carquet_schema_num_columns(rs), leaves.size());
            for (size_t k = 0; k < leaves.size(); k++) {
                const carquet_schema_node_t* nd = carquet_schema_get_element(rs, (int32_t)k + 1);
                const El& e = els[leaves[k]];
                SIM_CHECK(nd && e.name == carquet_schema_node_name(nd) && (int)carquet_schema_node_physical_type(nd) == e.type && (int)carquet_schema_node_repetition(nd) == e.rep && (e.type != T_FLBA || carquet_schema_node_type_length(nd) == e.tlen),
                          "builder.roundtrip_column", "leaf %zu differs after write/read", k);
                const carquet_logical_type_t* lt = carquet_schema_node_logical_type(nd);
                SIM_CHECK((lt != nullptr) == e.has_lt && (!lt || same_lt(*lt, e.lt)), "builder.roundtrip_logical_type", "leaf %zu ('%s'): logical type %s id %d after write/read, the schema handed to the writer had %s id %d", k, e.name.c_str(), lt ? "present" : "absent", lt ? (int)lt->id : -1, e.has_lt ? "one with" : "none,", e.has_lt ? (int)e.lt.id : -1);
            }
            SIM_COUNT("probe.builder_schema_written_and_read");
        }
    }
    cq::schema_free(s);
    common::end_of_run_checks();
    ctx.evals = (uint64_t)n + 1;
}

void run_c17(sim::RunCtx& ctx) {
    gen::g_row_cap = 0;
    common::apply_benign_knobs();
    if (sim::draw(6) == 5) builder_side(ctx); else reader_side(ctx);
}
}  // namespace

namespace sim {
void register_c17() {
    Property p;
    p.id = "C17"; p.level = "exploration";
    p.rule = "reader-side run: the peer writer emits a file whose schema is a seeded ordered tree (depth <= 6, <= 60 nodes, all REQUIRED/OPTIONAL/REPEATED labelings, 8 physical types, a third of the leaves annotated with a LogicalType that fits the physical type (a third of those stated through the legacy converted_type field alone) - STRING, ENUM, JSON, BSON, UUID, FLOAT16, DATE, TIME, TIMESTAMP, INTEGER, DECIMAL with parameters -, the root sometimes stating a repetition_type as Arrow C++ does) with data shredded under the true levels (1 tree in 40 is the root alone: a table without columns); num_columns, depth-first leaf order, every element accessor (incl. logical type id and parameters against the parquet.thrift field ids), find_column, the node max-level accessors and - through the column reader - the levels actually used are compared with the textbook definition; 1 nested schema in 4 is also handed to the writer, which must refuse it or write the tree with the schema's levels; builder-side run (1 in 6): a seeded history of 0-400 add_column/add_group calls (a third of the columns with a logical type and its parameters) with accessors checked after every step under a realloc-always-moves allocator, then the schema is written and read back; one evaluation = one tree or one builder step; non-trivial = tree has more than one field; distinct = hash of the labelled tree shape";
    p.quick_runs = 25000; p.thorough_runs = 1200000;
    p.run = run_c17;
    p.assumptions = {"leaf names are unique in generated trees; a top-level column must be found by its name and a nested one by its dot-separated path (as the header documents), while a bare leaf name of a nested column may resolve to it or to nothing; paths through names that themselves contain dots are not looked up",
                     "the builder is exercised for the flat shapes it supports (add_group only under the root)"};
    register_property(p);
}
}
