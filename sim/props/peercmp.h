// Comparison of a peer-parsed file with the model table, and page-statistics oracle.
#pragma once
#include "common.h"
#include "../ref/reader.h"

namespace peercmp {
using namespace model;

static inline void compare_parsed_with_table(const ref::Parsed& P, const Table& t, const char* where) {
    SIM_CHECK(P.table.cols.size() == t.cols.size(), "peer.schema_columns", "%s: file has %zu leaf columns, written %zu", where, P.table.cols.size(), t.cols.size());
    for (size_t c = 0; c < t.cols.size(); c++) {
        const Col &a = P.table.cols[c], &b = t.cols[c];
        SIM_CHECK(a.name == b.name && a.type == b.type && a.rep == b.rep && (b.type != T_FLBA || a.tlen == b.tlen) && a.max_def == b.max_def && a.max_rep == b.max_rep,
                  "peer.schema_column", "%s: column %zu is %s rep%d len%d in the file, written %s rep%d len%d", where, c, type_name(a.type), a.rep, a.tlen, type_name(b.type), b.rep, b.tlen);
    }
    std::vector<const RowGroup*> got, want;
    for (auto& g : P.table.rgs) if (g.rows > 0) got.push_back(&g);
    for (auto& g : t.rgs) if (g.rows > 0) want.push_back(&g);
    SIM_CHECK(got.size() == want.size(), "peer.row_groups", "%s: %zu non-empty row groups in the file, written %zu", where, got.size(), want.size());
    for (size_t g = 0; g < want.size(); g++) {
        SIM_CHECK(got[g]->rows == want[g]->rows, "peer.row_groups", "%s: row group %zu has %lld rows, written %lld", where, g, (long long)got[g]->rows, (long long)want[g]->rows);
        for (size_t c = 0; c < t.cols.size(); c++) {
            const Chunk &a = got[g]->cols[c], &b = want[g]->cols[c];
            SIM_CHECK(a.def == b.def, "peer.null_positions", "%s: rg%zu col%zu (%s): definition levels in the file differ from what was written", where, g, c, type_name(t.cols[c].type));
            SIM_CHECK(a.rep == b.rep, "peer.rep_levels", "%s: rg%zu col%zu: repetition levels differ", where, g, c);
            SIM_CHECK(a.vals.size() == b.vals.size(), "peer.value_count", "%s: rg%zu col%zu: %zu values in the file, %zu written", where, g, c, a.vals.size(), b.vals.size());
            for (size_t i = 0; i < b.vals.size(); i++)
                SIM_CHECK(a.vals[i] == b.vals[i], "peer.value_mismatch", "%s: rg%zu col%zu (%s) value #%zu is %s in the file, written %s", where, g, c, type_name(t.cols[c].type), i,
                          sim::hex(a.vals[i].data(), a.vals[i].size(), 24).c_str(), sim::hex(b.vals[i].data(), b.vals[i].size(), 24).c_str());
        }
    }
}

}  // namespace peercmp
