// C05 - every file the writer reports complete is structurally valid Parquet
// (decided by the independent peer reader) and writing is deterministic.
#include "common.h"
#include "peercmp.h"

namespace {
using namespace model;

void run_c05(sim::RunCtx& ctx) {
    gen::g_row_cap = 0;
    gen::FlatOpts fo; fo.allow_repeated = true; fo.allow_unsigned = true; fo.allow_int96 = true;
    gen::WritePlan p = gen::gen_write_plan(fo);
    if (p.codec == 5 && sim::avoid_known("codec_lz4_legacy_tag")) p.codec = 7;
    common::apply_benign_knobs();
    common::plan_tags_and_shape(ctx, p);
    ctx.sample = p.describe();
    int bad_at = -1, bad_kind = 0;
    if (sim::draw(6) == 5) { bad_at = (int)sim::draw(12); bad_kind = (int)sim::draw(3); }
    if (common::plan_only()) return;
    const std::string path = SIMDISK "c05.parquet";
    // 1 run in 6: one call with a column index out of range (which the API documents as an error) somewhere in the history. It must be refused; whether the writer
    // carries on or gives up is its choice, but if close then says OK the file has to be the complete, valid table all the same
    exec::g_bad_call_at = -1; exec::g_bad_call_made = false;
    if (bad_at >= 0) { exec::g_bad_call_at = bad_at; exec::g_bad_call_kind = bad_kind; }
    exec::WriteOutcome w = exec::run_writer(p, path);
    exec::g_bad_call_at = -1;
    if (exec::g_bad_call_made && bad_kind == 2) {
        // one batch was left out: the columns of a row group differ in length. That is not a table; if close nevertheless says OK
        // the file must at least be one an independent reader accepts
        if (w.close_status != CARQUET_OK || !w.created) { ctx.refusal = true; SIM_COUNT("probe.unequal_columns_refused"); return; }
        ref::Parsed Pu = ref::parse_file(w.image.data(), w.image.size());
        SIM_CHECK(Pu.ok, ("peer_rejects." + Pu.error_class).c_str(), "one write_batch was left out (columns of a row group differ in length), every call incl. close returned OK, and the independent reader rejects the file: %s", Pu.error.c_str());
        SIM_COUNT("probe.unequal_columns_accepted_and_file_valid");
        common::end_of_run_checks(); ctx.evals = 1; return;
    }
    if (exec::g_bad_call_made) {
        SIM_CHECK(exec::g_bad_call_status != CARQUET_OK, "contract.invalid_write_batch_accepted", "write_batch with %s returned OK", bad_kind == 0 ? "column index -1" : "column index == number of columns");
        SIM_COUNT(w.close_status == CARQUET_OK ? "probe.invalid_call_refused_writer_carried_on" : "probe.invalid_call_refused_writer_gave_up");
    }
    if (w.close_status != CARQUET_OK || !w.created) { ctx.refusal = true; SIM_COUNT("refusal.close_not_ok"); return; }
    if (!w.all_ok) {
        // a call was refused (an INT96 batch, ...) and the caller carried on to close, which says OK: "whenever close returns OK" the
        // file has to be one the independent reader accepts - whatever the refused call left behind must not have made it into the file
        ref::Parsed Pr = ref::parse_file(w.image.data(), w.image.size());
        SIM_CHECK(Pr.ok, ("peer_rejects." + Pr.error_class).c_str(), "writer call #%d was refused (status %d), the caller carried on, carquet_writer_close returned OK, and the independent reader rejects the file: %s", w.first_bad_call, (int)w.first_bad_status, Pr.error.c_str());
        SIM_COUNT("probe.close_ok_after_refused_call_file_valid");
    }
    if (!w.all_ok) { ctx.refusal = true; SIM_COUNT("refusal.writer_call_not_ok"); return; }
    sim::L.bytes(w.image.data(), w.image.size());
    ref::Parsed P = ref::parse_file(w.image.data(), w.image.size());
    SIM_CHECK(P.ok, ("peer_rejects." + P.error_class).c_str(), "independent reader rejects a file carquet_writer_close reported OK: %s", P.error.c_str());
    peercmp::compare_parsed_with_table(P, p.table, "peer");
    if (P.saw_bitpacked_levels) SIM_COUNT("probe.bitpacked_level_run_seen");
    if (P.saw_rle_levels) SIM_COUNT("probe.rle_level_run_seen");
    size_t pages = 0; for (auto& c : P.chunks) { pages += c.pages.size(); if (c.pages.size() > 1) SIM_COUNT("probe.multi_page_chunk"); }
    SIM_COUNTN("probe.pages_validated", pages);
    // determinism: same plan, different allocator contents / addresses / stdio buffering => byte-identical file
    std::vector<uint8_t> first = w.image;
    sim::allocplan.dirt ^= 0x5C; sim::allocplan.realloc_moves = !sim::allocplan.realloc_moves;
    sim::sinkplan.vbuf_mode = sim::sinkplan.vbuf_mode == 1 ? 2 : 1; sim::sinkplan.vbuf_size = 128;
    std::vector<void*> noise; for (int i = 0; i < 7; i++) noise.push_back(malloc(48 + (size_t)i * 40));
    exec::g_bad_call_made = false;
    exec::WriteOutcome w2 = exec::run_writer(p, SIMDISK "c05b.parquet");
    for (auto q : noise) free(q);
    SIM_CHECK(w2.all_ok, "determinism.second_write_failed", "second write of the same plan failed (status %d)", (int)w2.first_bad_status);
    SIM_CHECK(w2.image == first, "determinism.files_differ", "same table and options written twice gave different bytes (sizes %zu / %zu)", first.size(), w2.image.size());
    common::end_of_run_checks();
    ctx.evals = 1;
}
}  // namespace

namespace sim {
void register_c05() {
    Property p;
    p.id = "C05"; p.level = "exploration";
    p.rule = "one evaluation = one seeded writer plan (generator of C01 plus top-level REPEATED leaves written with definition and repetition levels and unsigned-annotated integer columns; 1 in 6 with one write_batch call with an out-of-range column index slipped in, which must be refused, or with one write_batch left out so that the columns of a row group differ in length: then only 'close OK => the peer accepts the file' is asked) whose image, after carquet_writer_close == OK, is parsed and fully decoded by the independent peer reader with all structural checks (magics, footer length, required Thrift fields, chunk tiling, page chain, counts, encodings, codec decode, CRC vs zlib, uncompressed sizes, totals) and compared with the model; then written a second time under different allocator dirt/addresses/stdio buffering and compared byte for byte; non-trivial and distinct as in C01";
    p.quick_runs = 30000; p.thorough_runs = 1500000;
    p.run = run_c05;
    p.assumptions = {"the peer reader implements parquet.thrift / Encodings.md / Snappy / LZ4 block format independently; zlib and zstd are the system libraries",
                     "total_uncompressed_size and total_byte_size are checked as the spec defines them (page headers included)"};
    register_property(p);
}
}
