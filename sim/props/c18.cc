// C18 - truncated files are rejected; failed writes are never reported OK; abort releases everything.
// Enumeration per generated scenario: every crash point (prefix length), every sink operation / byte budget, every abort point.
#include "common.h"
#include <cerrno>
#include "peercmp.h"

namespace {
using namespace model;

enum { K_CRASH = 1, K_SINK = 2, K_ABORT = 3 };

// adversarial byte-array contents: plausible file tails in the middle of the data
void plant_tails(gen::WritePlan& p) {
    static const std::string T1("\x00\x01\x00\x00\x00PAR1", 9), T2("\x00\x00\x00\x00PAR1", 8), T3("\x15\x02\x19\x0c\x00\x00\x06\x00\x00\x00PAR1", 14);
    for (auto& rg : p.table.rgs) for (size_t c = 0; c < p.table.cols.size(); c++) if (p.table.cols[c].type == T_BA) for (auto& v : rg.cols[c].vals) { uint32_t k = sim::draw(6); if (k == 1) v = T1; else if (k == 2) v = T2; else if (k == 3) v = T3; }
}

void check_prefix(const std::vector<uint8_t>& image, size_t n, int mode, const std::string& path, sim::RunCtx& ctx) {
    sim::set_focus(K_CRASH, (int64_t)(n * 3 + (size_t)mode));
    std::vector<uint8_t> prefix(image.begin(), image.begin() + (long)n);
    sim::disk_put(path, prefix);
    auto o = exec::open_image(path, mode);
    if (!o->r) { exec::check_error_struct(o->err, "reader_open on a truncated file"); return; }
    // opened: only acceptable if the prefix is itself a complete Parquet file
    ref::Parsed P = ref::parse_file(prefix.data(), prefix.size());
    ctx.viol_focus = K_CRASH; ctx.viol_focus2 = (int64_t)(n * 3 + (size_t)mode);
    SIM_CHECK(P.ok, "crash.truncated_file_opened", "%s: prefix of %zu bytes (of %zu) opens as a table with %lld rows / %d columns / %d row groups, but it is not a complete Parquet file (%s)", exec::mode_name(mode), n, image.size(),
              (long long)carquet_reader_num_rows(o->r), carquet_reader_num_columns(o->r), carquet_reader_num_row_groups(o->r), P.error.c_str());
    exec::compare_reader_with_table(o->r, P.table, "prefix-that-is-a-complete-file");
    SIM_COUNT("probe.prefix_is_complete_file");
}

void run_c18(sim::RunCtx& ctx) {
    gen::g_row_cap = 0;
    gen::FlatOpts fo; fo.allow_big = false; fo.allow_wide = false; fo.max_cols = 5; fo.max_rgs = 3;
    gen::WritePlan p = gen::gen_write_plan(fo);
    plant_tails(p);
    common::apply_benign_knobs();
    common::plan_tags_and_shape(ctx, p);
    ctx.sample = p.describe();
    uint32_t sample_seed = sim::draw(0xFFFFFFFFu);
    if (common::plan_only()) return;
    const std::string path = SIMDISK "c18.parquet", ppath = SIMDISK "c18-prefix.parquet";
    // ---- dry run (fault-free)
    exec::WriteOutcome dry = exec::run_writer(p, path);
    if (!dry.all_ok) { ctx.refusal = true; SIM_COUNT("refusal.writer_call_not_ok"); return; }
    const std::vector<uint8_t> image = dry.image;
    const uint64_t W = sim::io.sink_writes, B = sim::io.sink_bytes; const int ncalls = dry.calls;
    std::vector<sim::JournalOp> journal = sim::D.files[path].journal;
    sim::L.bytes(image.data(), image.size());
    uint64_t evals = 0;
    sim::Rng r; r.seed(sample_seed, 18);
    auto want = [&](int kind, int64_t idx) { return ctx.focus < 0 || (ctx.focus == kind && ctx.focus2 == idx); };

    // ---- (1) crash points: every proper prefix, three transports
    if (ctx.focus < 0 || ctx.focus == K_CRASH) {
        std::vector<size_t> cuts;
        if (image.size() <= 6144) for (size_t n = 0; n < image.size(); n++) cuts.push_back(n);
        else {
            std::vector<char> mark(image.size(), 0);
            for (size_t n = image.size() - 4096; n < image.size(); n++) mark[n] = 1;
            for (auto& j : journal) for (int d = -3; d <= 3; d++) { int64_t at = (int64_t)j.off + d; if (at >= 0 && at < (int64_t)image.size()) mark[(size_t)at] = 1; at = (int64_t)(j.off + j.len) + d; if (at >= 0 && at < (int64_t)image.size()) mark[(size_t)at] = 1; }
            for (int k = 0; k < 300; k++) mark[r.below((uint32_t)image.size())] = 1;
            for (size_t n = 0; n < 16 && n < image.size(); n++) mark[n] = 1;
            for (size_t n = 0; n < image.size(); n++) if (mark[n]) cuts.push_back(n);
        }
        for (size_t n : cuts) for (int mode = 0; mode < 3; mode++) {
            if (!want(K_CRASH, (int64_t)(n * 3 + (size_t)mode))) continue;
            check_prefix(image, n, mode, ppath, ctx); evals++;
        }
        SIM_COUNTN("fault.crash_prefix_presented", cuts.size() * 3);
        if (image.size() <= 6144) SIM_COUNT("probe.crash_points_exhaustive");
    }

    // ---- (2) sink failures: every sink op (EIO), byte budgets around every op boundary (ENOSPC), flush failure, close failure
    if (ctx.focus < 0 || ctx.focus == K_SINK) {
        struct SF { int kind; int64_t arg; int vb; };   // kind 0 eio@op, 1 enospc@byte, 2 flush_fail, 3 close_fail
        std::vector<SF> plan;
        static const int VBM[] = {1, 2, 2, 0, 3}; static const size_t VBS[] = {0, 64, 4096, 0, 512};
        const int NVB = p.path_mode ? 4 : 5;      // a caller-supplied FILE* may be line-buffered; carquet's own fopen never is
        for (int vb = 0; vb < NVB; vb++) {
            // number of sink ops depends on the buffering: measure it per mode with its own dry run below (upper bound here)
            plan.push_back({2, 0, vb}); if (p.path_mode) plan.push_back({3, 0, vb});
            std::vector<int64_t> budgets;
            uint64_t acc = 0; for (auto& j : journal) { for (int d = -1; d <= 1; d++) budgets.push_back((int64_t)acc + d); acc += j.len; }
            budgets.push_back((int64_t)B - 1); budgets.push_back(0); budgets.push_back(3); budgets.push_back(4); budgets.push_back(5);
            for (int k = 0; k < 6; k++) budgets.push_back((int64_t)r.below((uint32_t)std::max<uint64_t>(B, 1)));
            std::sort(budgets.begin(), budgets.end()); budgets.erase(std::unique(budgets.begin(), budgets.end()), budgets.end());
            for (auto b : budgets) if (b >= 0 && b < (int64_t)B) plan.push_back({1, b, vb});
            for (int64_t k = 0; k < 400; k++) plan.push_back({0, k, vb});       // trimmed below once the op count of the mode is known
        }
        std::vector<uint64_t> ops_in_mode(5, 0);
        for (int vb = 0; vb < NVB; vb++) {   // op count per buffering mode
            sim::reset_fault_plans(); sim::sinkplan.vbuf_mode = VBM[vb]; sim::sinkplan.vbuf_size = VBS[vb];
            exec::WriteOutcome d2 = exec::run_writer(p, path);
            ops_in_mode[(size_t)vb] = sim::io.sink_writes;
            SIM_CHECK(d2.all_ok && d2.image == image, "determinism.buffering_changes_file", "writing under stdio buffering mode %d gives a different result", vb);
        }
        int64_t idx = 0;
        for (auto& f : plan) {
            int64_t my = idx++;
            if (f.kind == 0 && (uint64_t)f.arg >= ops_in_mode[(size_t)f.vb]) continue;
            if (!want(K_SINK, my)) continue;
            sim::set_focus(K_SINK, my);
            sim::reset_fault_plans();
            sim::sinkplan.vbuf_mode = VBM[f.vb]; sim::sinkplan.vbuf_size = VBS[f.vb];
            static const int ERRNOS[] = {EIO, EINTR, EAGAIN, EPIPE, EDQUOT};       // one failed write, the sink works again afterwards: whatever errno says, the bytes are lost
            if (f.kind == 0) { sim::sinkplan.eio_at_op = f.arg; sim::sinkplan.eio_errno = ERRNOS[(size_t)(f.arg + f.vb) % 5]; } else if (f.kind == 1) sim::sinkplan.enospc_at_byte = f.arg; else if (f.kind == 2) sim::sinkplan.flush_fail = true; else sim::sinkplan.close_fail = true;
            FILE* user_stream = nullptr;
            exec::WriteOutcome w = exec::run_writer(p, path, -1, p.path_mode ? nullptr : &user_stream);
            bool fired_before_user_close = sim::io.sink_fault_fired;
            if (user_stream) sim::close_stream_real(user_stream);
            evals++;
            ctx.viol_focus = K_SINK; ctx.viol_focus2 = my;
            static const char* KN[] = {"EIO at sink write #", "ENOSPC at byte ", "failure of the write issued by fflush/fclose", "fclose failure"};
            if (fired_before_user_close) {
                SIM_CHECK(!w.all_ok, "sink.failure_reported_ok", "%s writer, stdio buffering mode %d: sink fault (%s%lld) fired but every writer call including carquet_writer_close returned OK", p.path_mode ? "path" : "FILE*", f.vb, KN[f.kind], (long long)f.arg);
                SIM_COUNT("probe.sink_fault_reported");
                if (w.first_bad_call == w.calls - 1) SIM_COUNT("probe.sink_error_surfaced_at_close");
            }
            if (w.created && w.close_status == CARQUET_OK && w.first_bad_call >= 0 && w.first_bad_call < w.calls - 1 && w.file_exists) {
                // an earlier call reported the failure, the caller carried on and close says OK: then what the sink holds must at least be a complete, valid file
                ref::ReadOpts ro; ro.strict = true;
                ref::Parsed P2 = ref::parse_file(w.image.data(), w.image.size(), ro);
                SIM_CHECK(P2.ok, "sink.close_ok_on_invalid_file", "%s writer, stdio buffering mode %d: %s%lld made writer call #%d fail, the caller carried on and carquet_writer_close returned OK, but the sink holds an invalid file (%zu bytes; fault-free %zu): %s",
                          p.path_mode ? "path" : "FILE*", f.vb, KN[f.kind], (long long)f.arg, w.first_bad_call, w.image.size(), image.size(), P2.error.c_str());
                SIM_COUNT("probe.close_ok_after_reported_failure_file_valid");
            }
            if (w.created && w.close_status == CARQUET_OK && w.first_bad_call < 0)
                SIM_CHECK(w.image == image, "sink.ok_but_bytes_missing", "%s writer: close returned OK but the sink holds %zu bytes that differ from the fault-free image (%zu bytes)", p.path_mode ? "path" : "FILE*", w.image.size(), image.size());
            std::string what; SIM_CHECK(sim::ledger_leaks(&what) == 0, "resource.leak", "after a failed write (%s%lld): %s", KN[f.kind], (long long)f.arg, what.c_str());
            sim::world_check_closed();
        }
    }

    // ---- (3) abort after every prefix of the call history, on a healthy sink and on a sink that fails from then on
    if (ctx.focus < 0 || ctx.focus == K_ABORT) {
        for (int kk = 0; kk < 3 * ncalls; kk++) {
            int k = kk / 3, sinkmode = kk % 3;      // 0 healthy, 1 every flush-time write fails (incl. the fclose inside abort), 2 device full from the first byte
            if (!want(K_ABORT, kk)) continue;
            sim::set_focus(K_ABORT, kk);
            sim::reset_fault_plans();
            if (sinkmode == 1) sim::sinkplan.flush_fail = true; else if (sinkmode == 2) sim::sinkplan.enospc_at_byte = (int64_t)r.below(8);
            FILE* user_stream = nullptr;
            exec::WriteOutcome w = exec::run_writer(p, path, k, p.path_mode ? nullptr : &user_stream, 1);
            evals++;
            ctx.viol_focus = K_ABORT; ctx.viol_focus2 = kk;
            if (!w.created) continue;
            if (sinkmode) SIM_COUNT("fault.abort_on_failing_sink");
            if (p.path_mode) SIM_CHECK(!sim::disk_has(path), "abort.file_left_behind", "path writer aborted after %d calls (sink mode %d): file still exists (%zu bytes)", k, sinkmode, sim::disk_file(path).size());
            else { SIM_CHECK(user_stream != nullptr && sim::io.open_streams == 1, "abort.user_stream_closed", "FILE* writer aborted after %d calls: the caller's stream was closed", k); int rc = sim::close_stream_real(user_stream); if (sinkmode == 0) SIM_CHECK(rc == 0, "abort.user_stream_broken", "caller's stream fails to close after abort"); }
            std::string what; SIM_CHECK(sim::ledger_leaks(&what) == 0, "resource.leak", "after abort at call %d (sink mode %d): %s", k, sinkmode, what.c_str());
            sim::world_check_closed();
            SIM_COUNT("fault.abort_injected");
        }
    }
    (void)W;
    ctx.viol_focus = -1; ctx.viol_focus2 = -1;
    ctx.evals = evals ? evals : 1;
}
}  // namespace

namespace sim {
void register_c18() {
    Property p;
    p.id = "C18"; p.level = "fault_enumeration";
    p.rule = "per seeded scenario (writer plan with adversarial byte-array contents that look like file tails) the fault space is enumerated: (1) every proper prefix length of the fault-free image (all of them for images <= 6 KiB, else the last 4 KiB, +-3 bytes around every sink write boundary, the first 16 and 300 sampled) presented by fread, mmap and buffer: open must fail with a proper error unless the peer reader strictly validates the prefix as a complete file (then content must match); (2) under each of 4 stdio buffering modes: one failed sink write at every position (errno rotating through EIO, EINTR, EAGAIN, EPIPE, EDQUOT; the sink works again afterwards), ENOSPC at byte budgets +-1 around every write boundary plus samples, failure of the flush-time write, fclose failure: a fired fault must surface as non-OK from some writer call, and close==OK implies the sink holds the fault-free bytes; (3) carquet_writer_abort after every prefix of the call history: no file left (path), caller's stream untouched (FILE*), ledger empty; one evaluation = one fault point; non-trivial/distinct as in C01 for the scenario";
    p.quick_runs = 400; p.thorough_runs = 40000;
    p.run = run_c18; p.recheck = 48;
    p.assumptions = {"a prefix counts as 'itself a complete Parquet file' iff the independent peer reader accepts it under its strict structural checks",
                     "glibc treats a short count from a cookie write as an error and does not retry (probed), so there are no benign short writes at this seam"};
    register_property(p);
}
}
