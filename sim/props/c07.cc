// C07 - parallel reading is independent of thread count and scheduling; independent readers used
// concurrently (incl. concurrent first use of the library) each return what they return alone.
#include "common.h"
#include "readhist.h"
#include "validfile.h"
#include "../seams/sched.h"
#include "schedgen.h"

namespace {
using namespace model;

sim::SchedParams gen_sched(int force_policy = -1) { return schedgen::gen(force_policy); }

struct Out { uint64_t h; size_t n; std::vector<carquet_status_t> st; bool operator==(const Out& o) const { return h == o.h && n == o.n && st == o.st; } };

// one full pass of the batch reader; content is also checked against the model inside
Out batch_pass(const std::string& path, int mode, const Table& t, readhist::BatchCfg cfg, int threads, const char* where) {
    auto o = exec::open_image(path, mode);
    SIM_CHECK(o->r != nullptr, "open.valid_file_rejected", "%s: valid file does not open", where);
    cfg.num_threads = threads;
    readhist::Polarity pol; readhist::Transcript tr; Out out;
    readhist::run_batch_reader(o->r, t, cfg, where, pol, &tr, nullptr, &out.st);
    out.h = tr.h; out.n = tr.n;
    return out;
}

// what one independent reader handle returns: metadata + every chunk through the column reader (+ a batch pass)
Out reader_pass(const std::string& path, int mode, const Table& t, bool with_batch, const readhist::BatchCfg& cfg, int threads, const char* where) {
    auto o = exec::open_image(path, mode);
    SIM_CHECK(o->r != nullptr, "open.valid_file_rejected", "%s: valid file does not open", where);
    readhist::Transcript tr; Out out;
    tr.add((uint64_t)carquet_reader_num_rows(o->r)); tr.add((uint64_t)carquet_reader_num_columns(o->r));
    for (size_t g = 0; g < t.rgs.size(); g++) for (size_t c = 0; c < t.cols.size(); c++) {
        exec::ReadChunk rc = exec::read_chunk_whole(o->r, (int)g, (int)c, t.cols[c].type, t.cols[c].tlen, t.cols[c].max_def, (int64_t)t.rgs[g].cols[c].entries());
        exec::compare_chunk(rc, t.rgs[g].cols[c], t.cols[c], where, (int)g, (int)c);
        for (auto& v : rc.ch.vals) tr.bytes(v.data(), v.size());
        tr.add(rc.ch.def.size());
    }
    if (with_batch) { readhist::BatchCfg c2 = cfg; c2.num_threads = threads; readhist::Polarity pol; readhist::run_batch_reader(o->r, t, c2, where, pol, &tr, nullptr, &out.st); }
    out.h = tr.h; out.n = tr.n;
    return out;
}

void run_c07(sim::RunCtx& ctx) {
    gen::g_row_cap = 300;
    validfile::VF vf; validfile::Opts vo; vo.small = true; vo.flat_only = true; vo.allow_nested = false;
    common::apply_benign_knobs();
    const std::string path = SIMDISK "c07.parquet";
    if (!validfile::make(vf, path, vo)) { ctx.refusal = true; return; }
    validfile::finish(vf, ctx);
    const Table& t = vf.table;
    if (t.cols.empty()) { ctx.refusal = true; return; }
    readhist::BatchCfg cfg = readhist::gen_batch_cfg(t, vf.pages.empty() ? std::vector<size_t>() : vf.pages[0]);
    if (cfg.cols.size() < 2 && t.cols.size() >= 2) { cfg.proj_mode = 0; cfg.cols.clear(); for (size_t c = 0; c < t.cols.size(); c++) cfg.cols.push_back((int32_t)c); }
    bool clause2 = sim::draw(3) == 2;
    int mode = (int)sim::draw(3);
    ctx.sample = sim::fmt("%s in %s mode, batch_size %d, %zu projected columns: ", clause2 ? "independent readers on caller tasks" : "batch reader under schedules", exec::mode_name(mode), cfg.batch_size, cfg.cols.size()) + vf.desc;
    ctx.shape ^= (uint64_t)clause2 * 131 + (uint64_t)mode;
    if (common::plan_only()) return;
    uint64_t evals = 0;
    if (!clause2) {
        // ---- clause 1: same batches and statuses for every num_threads and schedule as single-threaded
        sim::make_library_cold();
        Out base = batch_pass(path, mode, t, cfg, 1, "baseline(num_threads=1)");
        int S = 2 + (int)sim::draw(3);
        static const int THREADS[] = {2, 3, 4, 8, 16, 0};
        for (int s = 0; s < S; s++) {
            int threads = THREADS[sim::draw(6)];
            sim::SchedParams sp = gen_sched();
            if (sim::draw(2)) sim::make_library_cold();
            sim::sched_begin(sp);
            Out got = batch_pass(path, mode, t, cfg, threads, "scheduled");
            sim::SchedStats ss = sim::sched_stats();
            sim::sched_end();
            sim::check_pending_violation();
            SIM_CHECK(got == base, "parallel.differs_from_single_threaded", "%s: num_threads=%d, policy %d, %llu context switches (%llu between fseek and fread, %llu at basic-block ticks): batch sequence/statuses differ from the num_threads=1 run",
                      exec::mode_name(mode), threads, sp.policy, (unsigned long long)ss.switches, (unsigned long long)ss.seek_read_split, (unsigned long long)ss.tick_preemptions);
            if (ss.seek_read_split) SIM_COUNT("probe.seek_read_pair_split_by_switch");
            if (ss.tick_preemptions) SIM_COUNT("probe.basic_block_preemption_fired");
            if (ss.switches) SIM_COUNT("probe.schedule_with_context_switches");
            SIM_COUNTN("sched.context_switches", ss.switches); SIM_COUNTN("sched.yield_points", ss.yields); SIM_COUNTN("sched.parallel_regions", ss.regions);
            evals++;
        }
    } else {
        // ---- clause 2: K independent readers on K caller tasks, cold library, each equals its solo run
        int K = 2 + (int)sim::draw(3);
        struct Plan { int mode; bool with_batch; int threads; };
        std::vector<Plan> plans; for (int k = 0; k < K; k++) plans.push_back({(int)sim::draw(3), sim::draw(2) == 1, sim::draw(3) == 0 ? 2 : 1});
        std::vector<Out> solo;
        for (int k = 0; k < K; k++) { sim::make_library_cold(); solo.push_back(reader_pass(path, plans[(size_t)k].mode, t, plans[(size_t)k].with_batch, cfg, 1, "solo")); }
        sim::SchedParams sp = gen_sched(); if (sp.policy == 0) sp.policy = 1 + (int)sim::draw(4);
        sim::make_library_cold();               // concurrent FIRST use: lazy initialisers run inside the schedule
        std::vector<Out> got((size_t)K);
        sim::sched_begin(sp);
        for (int k = 0; k < K; k++) sim::sched_spawn([&, k]() { got[(size_t)k] = reader_pass(path, plans[(size_t)k].mode, t, plans[(size_t)k].with_batch, cfg, plans[(size_t)k].threads, "concurrent"); });
        sim::sched_join_all();
        sim::SchedStats ss = sim::sched_stats();
        sim::sched_end();
        sim::check_pending_violation();
        for (int k = 0; k < K; k++) SIM_CHECK(got[(size_t)k] == solo[(size_t)k], "concurrent.differs_from_solo", "reader %d of %d (%s mode) returned different content when used concurrently with the others (policy %d, %llu switches)", k, K, exec::mode_name(plans[(size_t)k].mode), sp.policy, (unsigned long long)ss.switches);
        if (ss.switches) SIM_COUNT("probe.concurrent_readers_interleaved");
        if (ss.tick_preemptions) SIM_COUNT("probe.basic_block_preemption_fired");
        SIM_COUNTN("sched.context_switches", ss.switches); SIM_COUNTN("sched.yield_points", ss.yields);
        evals += (uint64_t)K;
    }
    common::end_of_run_checks();
    ctx.evals = evals ? evals : 1;
}
}  // namespace

namespace sim {
void register_c07() {
    Property p;
    p.id = "C07"; p.level = "exploration";
    p.rule = "clause-1 run: a valid flat image (peer- or carquet-written, all codecs, 1-6 columns, several pages per chunk) is read by the batch reader with num_threads=1 (baseline), then 2-4 times with num_threads in {2,3,4,8,16,auto} under the simulator's own OpenMP runtime with one runnable task at a time and a seeded schedule (run-to-completion, random, round-robin, seek-stealer, priorities with change points; yield points at every wrapped libc call and loop chunk plus 0-4 pre-drawn basic-block preemption ticks per region); batch sequence, values, bitmaps and status codes must equal the baseline; clause-2 run (1 in 3): 2-4 caller tasks each with its own reader (own stream/mapping/buffer) on the same image, started on a cold library so that lazy initialisers (CPU detection, dispatch table, CRC tables, per-thread ZSTD context) run inside the schedule; each task's complete output must equal its solo output; one evaluation = one scheduled execution; non-trivial = file has rows; distinct = file shape hash; distinct interleavings are counted separately (hash of the switch sequence)";
    p.quick_runs = 20000; p.thorough_runs = 600000;
    p.run = run_c07;
    p.assumptions = {"interleavings are sequentially consistent at basic-block granularity: word tearing, compiler/CPU reordering and weak-memory effects are not modelled (TSan sees nothing under a serialising scheduler and is not used)",
                     "each handle is single-owner, so equality with a deterministic sequential baseline is the oracle (no linearizability search needed)",
                     "the OpenMP runtime implements the GOMP entry points gcc 12 emits for the tree's constructs and their common neighbours; an exotic construct fails the link (exit 2), not the property"};
    register_property(p);
}
}
