// C19 - allocation failure gives a clean error or the correct result, nothing else.
// Per scenario the k-th tracked allocation request fails, for every k (plus the fopen and ZSTD_createDCtx sites).
#include "common.h"
#include "readhist.h"
#include "validfile.h"

namespace {
using namespace model;

enum { S_SCHEMA = 1, S_WRITE = 2, S_READ = 3, S_BATCH = 4 };
static const int64_t SITE_FOPEN = 1000000000ll, SITE_DCTX = 2000000000ll;

struct Outcome { bool error_reported = false; };

// ---- scenario bodies; each must clean up after any error and throw only on oracle violations
// pad > 0: names of that many bytes, so that the schema's name arena outgrows its first block (a further allocation site)
void sc_schema(int ncols, int pad, Outcome& out) {
    auto colname = [&](int i) { std::string n = "col" + std::to_string(i); if (pad > 0 && (int)n.size() < pad) n += std::string((size_t)pad - n.size(), (char)('a' + i % 26)); return n; };
    carquet_error_t err = CARQUET_ERROR_INIT; memset(err.message, 0x7F, sizeof err.message);
    carquet_schema_t* s = cq::schema_create(&err);
    if (!s) { exec::check_error_struct(err, "schema_create"); out.error_reported = true; return; }
    // a failed add is reported and skipped; the caller carries on with the remaining columns (the failure is transient),
    // and every add that reported success must have exactly its fault-free effect
    std::vector<int> ok_cols;
    for (int i = 0; i < ncols; i++) {
        std::string name = colname(i);
        carquet_status_t st = cq::schema_add_column(s, name.c_str(), (carquet_physical_type_t)gen::WRITABLE[i % 7], nullptr, (carquet_field_repetition_t)(i % 2), gen::WRITABLE[i % 7] == T_FLBA ? 5 : 0);
        if (st != CARQUET_OK) out.error_reported = true; else ok_cols.push_back(i);
        if (i % 17 == 16) { int32_t g = cq::schema_add_group(s, ("g" + std::to_string(i)).c_str(), CARQUET_REPETITION_OPTIONAL, 0); if (g < 0) out.error_reported = true; }
    }
    if (out.error_reported && !ok_cols.empty()) SIM_COUNT("probe.schema_built_on_after_failed_add");
    SIM_CHECK(carquet_schema_num_columns(s) == (int32_t)ok_cols.size(), "alloc.schema_corrupted", "schema reports %d columns after %zu successful add_column calls", carquet_schema_num_columns(s), ok_cols.size());
    for (size_t k = 0; k < ok_cols.size(); k++) {
        int i = ok_cols[k];
        std::string name = colname(i);
        int32_t idx = carquet_schema_find_column(s, name.c_str());
        SIM_CHECK(idx == (int32_t)k, "alloc.schema_corrupted", "find_column('%s') returned %d, it is leaf %zu (an allocation failed during an earlier or later add)", name.c_str(), idx, k);
    }
    // element accessors of every leaf: name, type and levels as added
    { size_t k = 0; int32_t ne = carquet_schema_num_elements(s);
      for (int32_t e = 1; e < ne; e++) {
        const carquet_schema_node_t* nd = carquet_schema_get_element(s, e);
        SIM_CHECK(nd != nullptr, "alloc.schema_corrupted", "element %d of %d is NULL", e, ne);
        if (!carquet_schema_node_is_leaf(nd)) continue;
        SIM_CHECK(k < ok_cols.size(), "alloc.schema_corrupted", "more leaf elements than successful add_column calls");
        int i = ok_cols[k++];
        SIM_CHECK(carquet_schema_node_name(nd) != nullptr, "alloc.schema_corrupted", "leaf element %d (added as col%d, add_column returned OK) has a NULL name", e, i);
        SIM_CHECK(colname(i) == carquet_schema_node_name(nd) && (int)carquet_schema_node_physical_type(nd) == gen::WRITABLE[i % 7] && (int)carquet_schema_node_repetition(nd) == i % 2 && carquet_schema_node_max_def_level(nd) == i % 2,
                  "alloc.schema_corrupted", "leaf element %d: name '%.40s' type %d repetition %d max_def %d, added as col%d type %d repetition %d", e, carquet_schema_node_name(nd), (int)carquet_schema_node_physical_type(nd), (int)carquet_schema_node_repetition(nd), (int)carquet_schema_node_max_def_level(nd), i, gen::WRITABLE[i % 7], i % 2);
      }
      SIM_CHECK(k == ok_cols.size(), "alloc.schema_corrupted", "%zu leaf elements, %zu successful add_column calls", k, ok_cols.size()); }
    cq::schema_free(s);
}

void sc_write(const gen::WritePlan& p, const std::string& path, const std::vector<uint8_t>& dry_image, int on_error, Outcome& out) {
    exec::WriteOutcome w = exec::run_writer(p, path, -1, nullptr, on_error);
    if (!w.all_ok) {
        out.error_reported = true;
        // a writer that could not even be created hands the caller no handle to abort: for a path-based writer nothing may stay behind on disk
        if (!w.created && p.path_mode) SIM_CHECK(!w.file_exists, "alloc.file_left_by_failed_create", "carquet_writer_create failed (status %d) but left a file of %zu bytes at the path; there is no handle to abort it with", (int)w.first_bad_status, w.image.size());
        return;
    }
    // every call reported success: the effect must be exactly that of the fault-free run
    SIM_CHECK(w.file_exists && w.image == dry_image, "alloc.silent_wrong_file", "an allocation failed during the write, every writer call returned OK, but the file (%zu bytes) differs from the fault-free one (%zu bytes)", w.image.size(), dry_image.size());
}

void sc_read(const validfile::VF& vf, const std::string& path, int mode, Outcome& out) {
    auto o = exec::open_image(path, mode);
    if (!o->r) { exec::check_error_struct(o->err, "reader_open"); out.error_reported = true; return; }
    const Table& t = vf.table;
    SIM_CHECK(carquet_reader_num_columns(o->r) == (int32_t)t.cols.size() && carquet_reader_num_row_groups(o->r) == (int32_t)t.rgs.size(), "alloc.metadata_wrong", "open succeeded under allocation failure but metadata differs");
    for (size_t g = 0; g < t.rgs.size(); g++) for (size_t c = 0; c < t.cols.size(); c++) {
        // the caller keeps reading after a failed call: the failure is transient (one allocation), so what later calls deliver must continue the sequence without a hole
        exec::ReadChunk rc = exec::read_chunk_whole(o->r, (int)g, (int)c, t.cols[c].type, t.cols[c].tlen, t.cols[c].max_def, (int64_t)t.rgs[g].cols[c].entries(), 2);
        if (rc.errors) SIM_COUNT("probe.read_continued_after_failed_call");
        if (rc.ok) exec::compare_chunk(rc, t.rgs[g].cols[c], t.cols[c], exec::mode_name(mode), (int)g, (int)c);
        else { out.error_reported = true; exec::compare_chunk_prefix(rc, t.rgs[g].cols[c], t.cols[c], exec::mode_name(mode), (int)g, (int)c); }
        // skip path allocates a scratch buffer: it may skip fewer rows on failure but must stay consistent
        carquet_error_t err = CARQUET_ERROR_INIT;
        carquet_column_reader_t* cr = cq::reader_get_column(o->r, (int)g, (int)c, &err);
        if (!cr) { out.error_reported = true; continue; }
        int64_t total = (int64_t)t.rgs[g].cols[c].entries();
        int64_t sk = cq::column_skip(cr, total / 2 + 1);
        int64_t rem = cq::column_remaining(cr);
        int64_t want_sk = std::min(total, total / 2 + 1);
        // a negative return is the error; a short positive count leaves the cursor where it says (like a short read_batch); but "0 rows skipped"
        // with rows left is indistinguishable from the end of the column: success reported, effect not that of the fault-free call
        if (sk < 0) { out.error_reported = true; SIM_CHECK(rem == total, "alloc.skip_inconsistent", "skip failed (%lld) but remaining() moved from %lld to %lld", (long long)sk, (long long)total, (long long)rem); }
        else {
            SIM_CHECK(sk <= want_sk && rem == total - sk, "alloc.skip_inconsistent", "skip returned %lld, remaining() %lld of %lld", (long long)sk, (long long)rem, (long long)total);
            SIM_CHECK(sk > 0 || want_sk == 0, "alloc.skip_failure_reported_as_zero", "skip(%lld) with %lld rows left returned 0 after an allocation failed: the caller cannot tell this from the end of the column", (long long)want_sk, (long long)total);
            if (sk < want_sk) out.error_reported = true;
        }
        cq::column_reader_free(cr);
    }
    carquet_column_statistics_t cs; if (!t.rgs.empty() && !t.cols.empty()) { carquet_status_t st = cq::reader_column_statistics(o->r, 0, 0, &cs); if (st != CARQUET_OK) out.error_reported = true; }
}

void sc_batch(const validfile::VF& vf, const std::string& path, int mode, const readhist::BatchCfg& cfg, Outcome& out) {
    auto o = exec::open_image(path, mode);
    if (!o->r) { exec::check_error_struct(o->err, "reader_open"); out.error_reported = true; return; }
    readhist::Polarity pol; pol.bit_for_null = 1; pol.bit_for_present = 0;      // the polarity observed fault-free (checked in the dry run)
    bool err = false;
    readhist::run_batch_reader(o->r, vf.table, cfg, exec::mode_name(mode), pol, nullptr, nullptr, nullptr, &err);
    if (err) out.error_reported = true;
}

void run_c19(sim::RunCtx& ctx) {
    gen::g_row_cap = 150;
    common::apply_benign_knobs();
    int kind = 1 + (int)sim::draw(4);
    const std::string path = SIMDISK "c19.parquet";
    gen::WritePlan p; validfile::VF vf; readhist::BatchCfg cfg; int ncols = 0, mode = 0;
    std::vector<uint8_t> dry_image;
    bool multi = ctx.thorough && sim::draw(4) == 3;       // thorough tier: also seeded multi-failure runs
    int pad = 0;
    if (kind == S_SCHEMA) { ncols = 1 + (int)sim::draw(140); if (sim::draw(3) == 2) { pad = 300 + (int)sim::draw(700); ncols = 60 + (int)sim::draw(120); } ctx.sample = sim::fmt("schema build with %d columns (+groups), names of %d bytes", ncols, pad ? pad : 5); ctx.shape = sim::fnv(&ncols, 4) ^ 1 ^ ((uint64_t)(pad != 0) << 20); ctx.nontrivial = true; }
    else if (kind == S_WRITE) {
        gen::FlatOpts fo; fo.allow_big = false; fo.allow_wide = false; fo.max_cols = 5; fo.max_rgs = 2;
        if (sim::draw(5) == 4) { fo.max_cols = 30; gen::g_row_cap = 12; }     // footers beyond one buffer growth step: allocation failures inside string payloads
        p = gen::gen_write_plan(fo);
        if (sim::draw(4) == 3) p.created_by = std::string(3000 + sim::draw(6000), 'c');
        common::plan_tags_and_shape(ctx, p); ctx.shape ^= 2; ctx.sample = "write: " + p.describe();
    } else {
        validfile::Opts vo; vo.small = true;
        if (sim::draw(12) == 11) vo.wide_footer = true;      // parsed metadata beyond one arena block: allocation sites inside the footer parser
        mode = (int)sim::draw(3);
        if (!validfile::make(vf, path, vo)) { ctx.refusal = true; return; }
        validfile::finish(vf, ctx); ctx.shape ^= (uint64_t)kind * 7 + (uint64_t)mode;
        if (kind == S_BATCH) { if (vf.has_repeated || vf.table.cols.empty()) kind = S_READ; else cfg = readhist::gen_batch_cfg(vf.table, vf.pages.empty() ? std::vector<size_t>() : vf.pages[0]); }
        ctx.sample = sim::fmt("%s in %s mode: ", kind == S_READ ? "open+metadata+column reads+skip" : "batch read", exec::mode_name(mode)) + vf.desc;
    }
    uint32_t multi_seed = sim::draw(0xFFFFFFFFu); uint32_t multi_prob = 200 + sim::draw(6000);
    if (common::plan_only()) return;
    std::map<std::string, std::vector<uint8_t>> disk0; for (auto& kv : sim::D.files) disk0[kv.first] = kv.second.data;
    auto restore_disk = [&]() { sim::D.files.clear(); for (auto& kv : disk0) sim::disk_put(kv.first, kv.second); };
    auto body = [&](Outcome& out, int on_error) {
        switch (kind) {
            case S_SCHEMA: sc_schema(ncols, pad, out); break;
            case S_WRITE: sc_write(p, path, dry_image, on_error, out); break;
            case S_READ: sc_read(vf, path, mode, out); break;
            default: sc_batch(vf, path, mode, cfg, out); break;
        }
    };
    // ---- dry run: counts the fault sites and fixes the fault-free effect
    sim::reset_fault_plans();
    if (kind == S_WRITE) { exec::WriteOutcome d = exec::run_writer(p, path); if (!d.all_ok) { ctx.refusal = true; return; } dry_image = d.image; restore_disk(); sim::reset_fault_plans(); }
    Outcome dry; body(dry, 0);
    SIM_CHECK(!dry.error_reported, "harness.dry_run_failed", "fault-free run of the scenario reported an error");
    const int64_t K = (int64_t)sim::alloc.requests, NF = (int64_t)sim::io.fopens;
    { std::string what; SIM_CHECK(sim::ledger_leaks(&what) == 0, "resource.leak", "fault-free scenario leaks: %s", what.c_str()); }
    uint64_t evals = 0;
    std::vector<int64_t> sites;
    // every request when K <= 800; beyond that the first and last 200 and an even sample of ~400 in the middle (keeps one scenario
    // below a few seconds; the evidence counts how many scenarios were enumerated completely)
    // a wide-footer scenario is about the allocation sites while the footer is parsed - they come first; each of its runs re-reads
    // several hundred chunks, so it gets the first 160 sites, the last 40 and a thin sample in between
    const bool wide = vf.table.cols.size() >= 60;
    if (wide && !multi && K > 240) {
        int64_t stepw = (K - 200) / 40 + 1;
        for (int64_t k = 0; k < K; k++) if (k < 160 || k >= K - 40 || (k - 160) % stepw == 0) sites.push_back(k);
        for (int64_t j = 0; j < NF; j++) sites.push_back(SITE_FOPEN + j);
        if (vf.codec == 6) sites.push_back(SITE_DCTX);
        SIM_COUNT("probe.wide_footer_scenario");
    }
    bool complete = K <= 800;
    if (!sites.empty()) { /* wide scenario: sites chosen above */ } else
    {
    if (complete) SIM_COUNT("probe.scenario_enumerated_completely"); else SIM_COUNT("probe.scenario_sampled_beyond_800_sites");
    if (multi) sites.push_back(-7); else { int64_t step = complete ? 1 : (K - 400) / 400 + 1;
        for (int64_t k = 0; k < K; k++) if (complete || k < 200 || k >= K - 200 || (k - 200) % step == 0) sites.push_back(k); for (int64_t j = 0; j < NF; j++) sites.push_back(SITE_FOPEN + j); if (vf.codec == 6 || p.codec == 6) sites.push_back(SITE_DCTX); }
    }
    for (int64_t site : sites) {
        if (ctx.focus >= 0 && !(ctx.focus == kind && ctx.focus2 == site)) continue;
        sim::set_focus(kind, site);
        restore_disk();
        sim::reset_fault_plans();
        if (site == -7) { sim::allocplan.fail_prob = multi_prob; sim::allocplan.prob_seed = multi_seed; }
        else if (site >= SITE_DCTX) { sim::allocplan.zstd_dctx_fail_at = site - SITE_DCTX; }
        else if (site >= SITE_FOPEN) sim::srcplan.fopen_fail_at = site - SITE_FOPEN;
        else sim::allocplan.fail_at = site;
        ctx.viol_focus = kind; ctx.viol_focus2 = site;
        Outcome out;
        body(out, site >= 0 ? 1 + (int)(site & 1) : 1);
        evals++;
        bool fired = sim::alloc.fired > 0 || sim::io.src_fault_fired;
        if (fired && out.error_reported) SIM_COUNT("probe.alloc_failure_reported_as_error");
        if (fired && !out.error_reported) SIM_COUNT("probe.alloc_failure_absorbed_correct_result");
        if (fired && sim::alloc.fired_api_name == "writer_close") SIM_COUNT("probe.alloc_fail_inside_close");
        if (!fired && site >= 0 && site < SITE_FOPEN) SIM_COUNT("probe.fault_site_not_reached");
        std::string what;
        SIM_CHECK(sim::ledger_leaks(&what) == 0, "resource.leak", "request #%lld failed during %s: after all handles were released %s", (long long)site, sim::alloc.fired_api_name.c_str(), what.c_str());
        sim::world_check_closed();
        if (kind == S_WRITE && out.error_reported && p.path_mode) { /* a failed path write may leave a partial file or none: both fine */ }
    }
    ctx.viol_focus = -1; ctx.viol_focus2 = -1;
    ctx.evals = evals ? evals : 1;
}
}  // namespace

namespace sim {
void register_c19() {
    Property p;
    p.id = "C19"; p.level = "fault_enumeration";
    p.rule = "per seeded scenario (schema build with capacity growth where a failed add is skipped and the caller carries on adding; write of a small multi-type nullable table with a seeded history per codec, path or FILE*; open + metadata + whole-chunk reads + skip + statistics in fread/mmap/buffer on a peer- or carquet-written file, 1 in 12 with 60-100 columns so that the parsed footer needs further arena blocks; batch read in each transport) a fault-free dry run counts the K tracked allocation requests (carquet, zlib and zstd requests made inside API calls, numbered by the allocator ledger), then request k fails for EVERY k in 0..K-1 (for K > 800: the first and last 200 and an even sample of about 400 in between), plus every fopen returning NULL and ZSTD_createDCtx returning NULL; thorough tier adds seeded multi-failure runs (each request fails with probability p); oracle per fault point: no sanitizer report, an error is reported by some call or else the effect equals the fault-free run (identical file bytes / identical values), data delivered before an error is a correct prefix, a column reader that is read on after a failed call delivers the continuation of the sequence without a hole, a batch reader may be asked for the next batch again after an error, every handle can still be closed/freed/aborted, a writer that could not be created leaves no file, skip never answers a failure with 0 while rows are left, ledger empty; after the first error the writer is aborted (odd k) or closed (even k); one evaluation = one fault point";
    p.quick_runs = 4000; p.thorough_runs = 200000;
    p.run = run_c19; p.recheck = 128;
    p.assumptions = {"allocations made by a per-thread ZSTD decompression context (process lifetime) are not numbered fault sites; its creation is (ZSTD_createDCtx -> NULL)",
                     "after a writer call reported an error the content of the resulting file is not judged (only safety, cleanup and leaks)"};
    register_property(p);
}
}
