// C02 - what a reader returns does not depend on how the caller consumes it.
#include "common.h"
#include "readhist.h"
#include "validfile.h"

namespace {
using namespace model;

void run_c02(sim::RunCtx& ctx) {
    gen::g_row_cap = 0;
    validfile::VF vf; validfile::Opts vo; vo.small = sim::draw(4) != 3;
    common::apply_benign_knobs();
    const std::string path = SIMDISK "c02.parquet";
    if (!validfile::make(vf, path, vo)) { ctx.refusal = true; SIM_COUNT("refusal.no_valid_file"); return; }
    validfile::finish(vf, ctx);
    int mode = (int)sim::draw(3);
    // plan: per chunk a few histories; a two-call sweep on small chunks; one batch-reader pass
    if (common::plan_only()) return;
    auto o = exec::open_image(path, mode);
    SIM_CHECK(o->r != nullptr, "open.valid_file_rejected", "%s: valid file does not open (%d %s)", exec::mode_name(mode), (int)o->err.code, o->err.message);
    const Table& t = vf.table;
    size_t li = 0; uint64_t evals = 0;
    for (size_t g = 0; g < t.rgs.size(); g++) for (size_t c = 0; c < t.cols.size(); c++, li++) {
        readhist::ChunkRef cr{(int)g, (int)c, &t.cols[c], &t.rgs[g].cols[c], vf.pages[li]};
        int nh = 1 + (int)sim::draw(3);
        for (int h = 0; h < nh; h++) { readhist::run_column_history(o->r, cr, readhist::gen_ops(24), exec::mode_name(mode), nullptr); evals++; }
        if (cr.want->entries() <= 160 && sim::draw(2) == 0) { readhist::two_call_sweep(o->r, cr, exec::mode_name(mode), 160); evals += cr.want->entries() + 1; SIM_COUNT("probe.two_call_sweep"); }
        if (vf.pages[li].size() > 1) SIM_COUNT("probe.multi_page_chunk_history");
    }
    if (!vf.has_repeated && !t.cols.empty()) {
        readhist::Polarity pol;
        int nb = 1 + (int)sim::draw(2);
        for (int k = 0; k < nb; k++) {
            readhist::BatchCfg cfg = readhist::gen_batch_cfg(t, vf.pages.empty() ? std::vector<size_t>() : vf.pages[0]);
            readhist::run_batch_reader(o->r, t, cfg, exec::mode_name(mode), pol, nullptr, nullptr);
            evals++; SIM_COUNT("probe.batch_reader_pass");
            if (cfg.proj_mode == 2) SIM_COUNT("probe.projection_by_name");
        }
    }
    o.reset();
    common::end_of_run_checks();
    ctx.evals = evals ? evals : 1;
}
}  // namespace

namespace sim {
void register_c02() {
    Property p;
    p.id = "C02"; p.level = "exploration";
    p.rule = "one evaluation = one call history executed on one column chunk (seeded sequence of read_batch(k)/skip(k)/has_next/remaining/re-create with k around page boundaries and the chunk end, level buffers passed or NULL; on BOOLEAN columns now and then max_values of 2^31..2^32+3 with an honestly sized lazily committed buffer), or one member read(k);read(rest) of the exhaustive two-call sweep of a small chunk, or one batch-reader pass (seeded batch_size and projection by index/name; every batch is kept until the next one has been fetched and then looked at again) over a valid file (peer-written incl. nested/dictionary/multi-page, or carquet-written); every result is checked against the reference cursor model / batch model; non-trivial = file has rows; distinct = hash of (source, codec, leaf types/levels, pages per chunk)";
    p.quick_runs = 12000; p.thorough_runs = 600000;
    p.run = run_c02;
    p.assumptions = {"read_batch may return fewer rows than asked ('up to') but at least one while rows remain; skip(n) returns exactly min(n, remaining)",
                     "values arrays are dense (non-null rows only) in both the column reader and batch columns; the null bitmap may use either polarity as long as it is the same everywhere in a run",
                     "the batch reader is exercised only on files without REPEATED ancestors (rows == level entries)"};
    register_property(p);
}
}
