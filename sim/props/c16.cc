// C16 - statistics are true bounds; pruning never discards matching data (public-API clauses).
#include "common.h"
#include "validfile.h"

namespace {
using namespace model;

static bool is_nan(int type, const std::string& v) { return ref::is_nan_value(type, v); }

// (a) page statistics written by carquet's writer, judged through the peer reader
void check_writer_page_stats(sim::RunCtx& ctx) {
    gen::FlatOpts fo; fo.allow_wide = false; fo.allow_unsigned = true;
    gen::WritePlan p = gen::gen_write_plan(fo);
    ctx.sample = "writer page statistics: " + p.describe();
    common::plan_tags_and_shape(ctx, p);
    if (common::plan_only()) return;
    const std::string path = SIMDISK "c16w.parquet";
    exec::WriteOutcome w = exec::run_writer(p, path);
    if (!w.all_ok) { ctx.refusal = true; return; }
    ref::ReadOpts ro; ro.strict = false;
    ref::Parsed P = ref::parse_file(w.image.data(), w.image.size(), ro);
    if (!P.ok) { ctx.refusal = true; SIM_COUNT("refusal.peer_rejects_file"); return; }   // C05's business
    uint64_t pages = 0;
    for (auto& ci : P.chunks) {
        const Col& c = P.table.cols[(size_t)ci.col]; const Chunk& ch = P.table.rgs[(size_t)ci.rg].cols[(size_t)ci.col];
        for (auto& pg : ci.pages) {
            if (pg.type != 0 || !pg.has_stats) continue;
            pages++;
            if (pg.st_has_nulls) SIM_CHECK(pg.st_nulls == (int64_t)(pg.n_entries - pg.n_values), "page_stats.null_count", "rg%d col%d (%s) page at %llu: null_count %lld, page has %zu nulls", ci.rg, ci.col, type_name(c.type), (unsigned long long)pg.header_off, (long long)pg.st_nulls, pg.n_entries - pg.n_values);
            if (!pg.st_has_minmax) continue;
            int wdt = fixed_width(c.type, c.tlen);
            if (wdt > 0) SIM_CHECK((int)pg.st_min.size() == wdt && (int)pg.st_max.size() == wdt, "page_stats.width", "rg%d col%d (%s): min/max have %zu/%zu bytes", ci.rg, ci.col, type_name(c.type), pg.st_min.size(), pg.st_max.size());
            SIM_CHECK(!is_nan(c.type, pg.st_min) && !is_nan(c.type, pg.st_max), "page_stats.nan_bound", "rg%d col%d (%s) page at %llu: NaN stored as a statistics bound (min %s max %s)", ci.rg, ci.col, type_name(c.type), (unsigned long long)pg.header_off, sim::hex(pg.st_min.data(), pg.st_min.size()).c_str(), sim::hex(pg.st_max.data(), pg.st_max.size()).c_str());
            for (size_t i = pg.first_value; i < pg.first_value + pg.n_values; i++) {
                const std::string& v = ch.vals[i];
                if (is_nan(c.type, v)) continue;
                const Col& mc = p.table.cols[(size_t)ci.col];      // the column as the caller declared it (annotation -> order of its statistics)
                SIM_CHECK(ref::cmp_ordered(mc, pg.st_min, v) <= 0 && ref::cmp_ordered(mc, v, pg.st_max) <= 0, "page_stats.not_a_bound", "rg%d col%d (%s) page at %llu: value %s outside [min %s, max %s]", ci.rg, ci.col, type_name(c.type), (unsigned long long)pg.header_off,
                          sim::hex(v.data(), v.size()).c_str(), sim::hex(pg.st_min.data(), pg.st_min.size()).c_str(), sim::hex(pg.st_max.data(), pg.st_max.size()).c_str());
            }
            SIM_COUNT("probe.page_minmax_checked");
        }
    }
    SIM_COUNTN("probe.pages_with_statistics", pages);
    ctx.evals = std::max<uint64_t>(pages, 1);
}

static bool matches(const Col& col, const std::string& v, int op, const std::string& probe) {
    int type = col.type;
    if (type == T_F32 || type == T_F64) {
        double a, b;
        if (type == T_F32) { float x, y; memcpy(&x, v.data(), 4); memcpy(&y, probe.data(), 4); a = x; b = y; } else { memcpy(&a, v.data(), 8); memcpy(&b, probe.data(), 8); }
        switch (op) { case 0: return a == b; case 1: return a != b; case 2: return a < b; case 3: return a <= b; case 4: return a > b; default: return a >= b; }
    }
    int c = ref::cmp_ordered(col, v, probe);      // the column's own order: unsigned for INTEGER(.., false), signed big-endian for DECIMAL on FLBA
    switch (op) { case 0: return c == 0; case 1: return c != 0; case 2: return c < 0; case 3: return c <= 0; case 4: return c > 0; default: return c >= 0; }
}

static std::string neighbour(int type, const std::string& v, int dir, sim::Rng& r) {
    std::string o = v;
    switch (type) {
        case T_I32: { int32_t x; memcpy(&x, v.data(), 4); if (dir > 0 && x < INT32_MAX) x++; if (dir < 0 && x > INT32_MIN) x--; o.assign((char*)&x, 4); break; }
        case T_I64: { int64_t x; memcpy(&x, v.data(), 8); if (dir > 0 && x < INT64_MAX) x++; if (dir < 0 && x > INT64_MIN) x--; o.assign((char*)&x, 8); break; }
        case T_F32: { float x; memcpy(&x, v.data(), 4); x = dir > 0 ? nextafterf(x, INFINITY) : nextafterf(x, -INFINITY); o.assign((char*)&x, 4); break; }
        case T_F64: { double x; memcpy(&x, v.data(), 8); x = dir > 0 ? nextafter(x, INFINITY) : nextafter(x, -INFINITY); o.assign((char*)&x, 8); break; }
        case T_BA: { if (dir > 0) o.push_back((char)r.below(256)); else if (!o.empty()) o.pop_back(); break; }
        case T_FLBA: { if (!o.empty()) { size_t k = o.size() - 1; o[k] = (char)((uint8_t)o[k] + (dir > 0 ? 1 : -1)); } break; }
    }
    return o;
}

void check_pruning(sim::RunCtx& ctx) {
    Table t = peergen::gen_flat_any(5, 6, false);
    // some columns carry a logical type whose order is not the physical type's: unsigned integers, decimals in fixed-length byte arrays
    // (the values stay what they are; only the order of statistics and predicates changes)
    for (auto& k : t.root.kids) if (sim::draw(4) == 0) {
        if (k.type == T_I32) { k.logical = 10; k.lp1 = 32; k.lp2 = 0; }
        else if (k.type == T_I64) { k.logical = 10; k.lp1 = 64; k.lp2 = 0; }
        else if (k.type == T_FLBA) { k.logical = 5; k.lp2 = 1 + (int)sim::draw((uint32_t)(2 * k.tlen)); k.lp1 = 0; }
        else if (k.type == T_BA) { k.logical = 5; k.lp2 = 9; k.lp1 = 2; }
    }
    derive_leaves(t);
    peergen::LayoutOpts lo; lo.stats = true;
    ref::Layout L = peergen::gen_layout(t, lo);
    for (auto& cl : L.chunks) if (sim::draw(8) != 7) cl.chunk_stats = 1 + (int)sim::draw(3);     // mostly with statistics
    ctx.sample = "pruning: " + peergen::describe(t, L);
    { std::string sh = sim::fmt("p/%d/%zu/%zu", L.codec, t.cols.size(), t.rgs.size()); for (auto& c : t.cols) sh += sim::fmt(";%d.%d", c.type, c.rep); for (auto& cl : L.chunks) sh += sim::fmt(":%d", cl.chunk_stats); ctx.shape = sim::fnv(sh.data(), sh.size()); }
    uint32_t rs = sim::draw(0xFFFFFFFFu);
    int mode = (int)sim::draw(3);
    int nops = 10 + (int)sim::draw(60);
    if (common::plan_only()) return;
    const std::string path = SIMDISK "c16.parquet";
    ref::Written W = peerfile::emit(t, L, path, true);
    auto o = exec::open_image(path, mode);
    SIM_CHECK(o->r != nullptr, "open.valid_file_rejected", "%s: valid file with statistics does not open (%d %s)", exec::mode_name(mode), (int)o->err.code, o->err.message);
    sim::Rng r; r.seed(rs, 16);
    int ng = (int)t.rgs.size(); uint64_t evals = 0; bool any_rows = false;
    // statistics API reports what the file states
    for (int g = 0; g < ng; g++) for (size_t c = 0; c < t.cols.size(); c++) {
        size_t li = (size_t)g * t.cols.size() + c; auto& co = W.chunks[li]; auto& cl = L.chunks[li];
        carquet_column_statistics_t cs; memset(&cs, 0x5A, sizeof cs);
        carquet_status_t st = cq::reader_column_statistics(o->r, g, (int)c, &cs);
        SIM_CHECK(st == CARQUET_OK, "stats_api.failed", "column_statistics(rg%d,col%zu) returned %d", g, c, (int)st);
        SIM_CHECK(cs.num_values == (int64_t)t.rgs[(size_t)g].cols[c].def.size(), "stats_api.num_values", "column_statistics num_values %lld, chunk has %zu", (long long)cs.num_values, t.rgs[(size_t)g].cols[c].def.size());
        bool expect_mm = cl.chunk_stats && co.has_minmax && !co.mn.empty() && !co.mx.empty();
        if (cl.chunk_stats) { SIM_CHECK(cs.has_null_count && cs.null_count == co.nulls, "stats_api.null_count", "rg%d col%zu: null_count %lld (has=%d), file states %lld", g, c, (long long)cs.null_count, (int)cs.has_null_count, (long long)co.nulls); }
        else SIM_CHECK(!cs.has_min_max && !cs.has_null_count, "stats_api.phantom_statistics", "rg%d col%zu: statistics reported although the file has none", g, c);
        // byte-array bounds that exist only in the deprecated fields are in signed byte order: a reader may hand them out as stated or
        // (like parquet-mr since 1.10) not use them at all - but must never treat them as bounds in the unsigned order
        bool deprecated_bytes_only = expect_mm && co.stats_mode == 2 && (t.cols[c].type == T_BA || t.cols[c].type == T_FLBA);
        if (deprecated_bytes_only) {
            if (cs.has_min_max) SIM_CHECK(cs.min_value_size == (int32_t)co.dmn.size() && cs.max_value_size == (int32_t)co.dmx.size() && memcmp(cs.min_value, co.dmn.data(), co.dmn.size()) == 0 && memcmp(cs.max_value, co.dmx.data(), co.dmx.size()) == 0,
                      "stats_api.min_max_value", "rg%d col%zu (%s): min/max returned differ from the file's deprecated min/max", g, c, type_name(t.cols[c].type));
            SIM_COUNT("probe.byte_array_bounds_in_deprecated_fields_only");
        } else if (expect_mm) {
            SIM_CHECK(cs.has_min_max, "stats_api.min_max_missing", "rg%d col%zu (%s): file states min/max (mode %d) but has_min_max is false", g, c, type_name(t.cols[c].type), cl.chunk_stats);
            SIM_CHECK(cs.min_value_size == (int32_t)co.mn.size() && cs.max_value_size == (int32_t)co.mx.size() && memcmp(cs.min_value, co.mn.data(), co.mn.size()) == 0 && memcmp(cs.max_value, co.mx.data(), co.mx.size()) == 0,
                      "stats_api.min_max_value", "rg%d col%zu (%s): min/max returned differ from the file's", g, c, type_name(t.cols[c].type));
        } else if (cl.chunk_stats && !co.has_minmax) SIM_CHECK(!cs.has_min_max, "stats_api.phantom_statistics", "rg%d col%zu: min/max reported although the file states none", g, c);
        evals++;
    }
    for (int k = 0; k < nops; k++) {
        size_t c = r.below((uint32_t)t.cols.size());
        const Col& col = t.cols[c];
        if (col.type == T_I96) continue;      // INT96 has no defined order: no writer states bounds for it
        // probe value: at / next to / beyond a group's bounds, a stored value, random, NaN
        int g0 = (int)r.below((uint32_t)ng);
        auto& co = W.chunks[(size_t)g0 * t.cols.size() + c];
        std::string probe;
        sim::Rng rr = r; gen::Src src{&rr};
        uint32_t pk = r.below(12);
        const Chunk& ch0 = t.rgs[(size_t)g0].cols[c];
        if (pk < 6 && co.has_minmax) { probe = (pk & 1) ? co.mx : co.mn; if (pk >= 2) probe = neighbour(col.type, probe, pk < 4 ? -1 : 1, r); }
        else if (pk < 9 && !ch0.vals.empty()) probe = ch0.vals[r.below((uint32_t)ch0.vals.size())];
        else if (pk == 9 && (col.type == T_F32 || col.type == T_F64)) { if (col.type == T_F32) { float x = NAN; probe.assign((char*)&x, 4); } else { double x = NAN; probe.assign((char*)&x, 8); } SIM_COUNT("probe.nan_probe"); }
        else probe = gen::gen_value(src, col.type, col.tlen, 1 + (int)r.below(2), 5);
        int op = (int)r.below(6);
        std::vector<char> truth((size_t)ng, 0), said((size_t)ng, 0);
        exec::Buf pv(probe.size()); memcpy(pv.get(), probe.data(), probe.size());
        for (int g = 0; g < ng; g++) {
            const Chunk& ch = t.rgs[(size_t)g].cols[c];
            for (auto& v : ch.vals) if (matches(col, v, op, probe)) { truth[(size_t)g] = 1; break; }
            if (!ch.vals.empty()) any_rows = true;
            bool mm = false;
            carquet_status_t st = cq::reader_row_group_matches(o->r, g, (int)c, (carquet_compare_op_t)op, pv.get(), (int32_t)probe.size(), &mm);
            SIM_CHECK(st == CARQUET_OK, "pruning.call_failed", "row_group_matches(rg%d,col%zu) returned %d", g, c, (int)st);
            said[(size_t)g] = mm;
            auto& cg = W.chunks[(size_t)g * t.cols.size() + c]; auto& clg = L.chunks[(size_t)g * t.cols.size() + c];
            SIM_CHECK(!truth[(size_t)g] || mm, "pruning.false_negative", "%s rg%d col%zu (%s): predicate 'x %s %s' matches a stored row but row_group_matches says cannot match (stats min %s max %s)", exec::mode_name(mode), g, c, type_name(col.type),
                      (const char*[]){"==", "!=", "<", "<=", ">", ">="}[op], sim::hex(probe.data(), probe.size(), 16).c_str(), sim::hex(cg.mn.data(), cg.mn.size(), 16).c_str(), sim::hex(cg.mx.data(), cg.mx.size(), 16).c_str());
            if (!clg.chunk_stats || !cg.has_minmax) SIM_CHECK(mm, "pruning.no_stats_must_match", "rg%d col%zu: no min/max statistics but row_group_matches says cannot match", g, c);
            if (!mm) SIM_COUNT("probe.row_group_pruned");
            evals++;
        }
        int32_t maxn = 1 + (int32_t)r.below((uint32_t)ng + 1);
        exec::Buf out(sizeof(int32_t) * (size_t)maxn);
        int32_t n = cq::reader_filter_row_groups(o->r, (int)c, (carquet_compare_op_t)op, pv.get(), (int32_t)probe.size(), (int32_t*)out.get(), maxn);
        std::vector<int32_t> want; for (int g = 0; g < ng && (int32_t)want.size() < maxn; g++) if (said[(size_t)g]) want.push_back(g);
        SIM_CHECK(n == (int32_t)want.size(), "pruning.filter_count", "filter_row_groups(max %d) returned %d, row_group_matches says %zu groups", maxn, n, want.size());
        for (int32_t i = 0; i < n; i++) SIM_CHECK(((int32_t*)out.get())[i] == want[(size_t)i], "pruning.filter_list", "filter_row_groups entry %d is %d, expected %d", i, ((int32_t*)out.get())[i], want[(size_t)i]);
        evals++;
    }
    ctx.nontrivial = any_rows;
    o.reset();
    common::end_of_run_checks();
    ctx.evals = evals ? evals : 1;
}

void run_c16(sim::RunCtx& ctx) {
    gen::g_row_cap = 0;
    common::apply_benign_knobs();
    if (sim::draw(3) == 2) check_writer_page_stats(ctx); else check_pruning(ctx);
}
}  // namespace

namespace sim {
void register_c16() {
    Property p;
    p.id = "C16"; p.level = "exploration";
    p.rule = "two kinds of run: (a) a seeded writer plan (incl. integer columns annotated as unsigned) whose data-page statistics (parsed by the peer reader) must bound every non-NaN value of that page in the column's order, carry no NaN bound and the page's null count; (b) a peer-written multi-row-group file whose chunk statistics are true bounds by construction (new fields, deprecated fields - for byte arrays in the signed byte order the format defines for them -, both or none; none when a chunk holds NaN; in the logical type's order for unsigned integers and DECIMAL in fixed-length byte arrays; BOOLEAN columns included) queried through column_statistics / row_group_matches / filter_row_groups with seeded (column, operator, probe at/next to/beyond a group's bounds, stored value, random, NaN, max_indices) in a random transport, judged by brute force over the model; one evaluation = one API verdict; non-trivial = file has values; distinct = hash of (codec, column types, statistics mode per chunk)";
    p.quick_runs = 12000; p.thorough_runs = 600000;
    p.run = run_c16;
    p.assumptions = {"a row 'matches' when it is non-null and (value op probe) holds under the physical type's order (signed ints, IEEE comparison for floats so x != NaN is true, unsigned lexicographic bytes)",
                     "the statistics builder, carquet_statistics_compare, range_overlaps and column_index_page_might_match are internal entry points no public API reaches: not decided here",
                     "types probed: INT32, INT64, FLOAT, DOUBLE, BYTE_ARRAY, FIXED_LEN_BYTE_ARRAY"};
    register_property(p);
}
}
