// C06 - spec-valid files from another (independent) writer decode to the values stored in them;
// unimplemented features are rejected with an error, never decoded to wrong values.
#include "common.h"
#include "peercmp.h"
#include "readhist.h"
#include "../model/peergen.h"
#include "peerfile.h"


namespace {
using namespace model;

void run_c06(sim::RunCtx& ctx) {
    gen::g_row_cap = 0;
    Table t;
    bool nested = sim::draw(10) < 7;
    if (nested) { peergen::SchemaOpts so; t = peergen::gen_nested_table(so, 3); } else t = peergen::gen_flat_any(6, 3, true);
    peergen::LayoutOpts lo;
    ref::Layout L = peergen::gen_layout(t, lo);
    // one run in seven: a feature carquet does not implement, which it must reject
    int unsupported = 0; size_t bad_chunk = 0; int64_t bad_rg = -1, bad_col = -1;
    if (sim::draw(7) == 6 && !L.chunks.empty()) {
        static const int U[] = {1, 2, 3, 5, 6};
        unsupported = U[sim::draw(5)];
        bad_chunk = sim::draw((uint32_t)L.chunks.size());
        bad_rg = (int64_t)(bad_chunk / t.cols.size()); bad_col = (int64_t)(bad_chunk % t.cols.size());
        const Col& c = t.cols[(size_t)bad_col]; const Chunk& ch = t.rgs[(size_t)bad_rg].cols[(size_t)bad_col];
        bool applicable = !ch.def.empty();
        if (unsupported == 1) applicable = applicable && (c.type == T_I32 || c.type == T_I64) && !ch.vals.empty();
        if (unsupported == 2) applicable = applicable && (c.type == T_F32 || c.type == T_F64) && !ch.vals.empty();
        if (unsupported == 5) applicable = applicable && (c.max_def > 0 || c.max_rep > 0);
        if (!applicable) unsupported = 0;
        else if (unsupported == 6) { L.bad_codec_tag = sim::draw(2) ? 3 : 4; L.codec = 0; }     // LZO / BROTLI tag on every chunk
        else { L.chunks[bad_chunk].unsupported = unsupported; L.chunks[bad_chunk].dict = false; }
    }
    common::apply_benign_knobs();
    ctx.sample = peergen::describe(t, L) + (unsupported ? sim::fmt(" unsupported=%d@chunk%zu", unsupported, bad_chunk) : "");
    { std::string sh = sim::fmt("%d/%d/%zu/%zu", L.codec, unsupported, t.cols.size(), t.rgs.size()); for (auto& c : t.cols) sh += sim::fmt(";%d.%d.%d", c.type, c.max_def, c.max_rep);
      for (auto& cl : L.chunks) sh += sim::fmt(":%d%d%d%zu", cl.dict, cl.level_policy, cl.index_policy, std::min<size_t>(cl.page_entries.size(), 4));
      ctx.shape = sim::fnv(sh.data(), sh.size()); int64_t rows = 0; for (auto& rg : t.rgs) rows += rg.rows; ctx.nontrivial = rows > 0; }
    if (common::plan_only()) return;
    const std::string path = SIMDISK "c06.parquet";
    peerfile::emit(t, L, path, unsupported == 0);
    peerfile::probes(t, L);
    if (unsupported) SIM_COUNT("probe.unsupported_feature_file");
    for (int mode = 0; mode < 3; mode++) {
        auto o = exec::open_image(path, mode);
        if (unsupported) {
            if (!o->r) { exec::check_error_struct(o->err, "reader_open"); SIM_COUNT("probe.unsupported_rejected_at_open"); continue; }
            // every chunk that uses the feature must fail to read; all others must still decode exactly
            size_t li = 0;
            for (size_t g = 0; g < t.rgs.size(); g++) for (size_t c = 0; c < t.cols.size(); c++, li++) {
                const Chunk& want = t.rgs[g].cols[c];
                bool bad = unsupported == 6 ? !want.def.empty() : li == bad_chunk;
                exec::ReadChunk rc = exec::read_chunk_whole(o->r, (int)g, (int)c, t.cols[c].type, t.cols[c].tlen, t.cols[c].max_def, (int64_t)want.entries());
                if (bad) {
                    SIM_CHECK(!rc.ok || rc.reported == 0, "unsupported.decoded_instead_of_rejected", "%s rg%zu col%zu (%s): chunk uses unimplemented feature %d but read_batch delivered %lld entries", exec::mode_name(mode), g, c, type_name(t.cols[c].type), unsupported, (long long)rc.reported);
                    SIM_CHECK(!rc.ok, "unsupported.no_error_reported", "%s rg%zu col%zu: chunk uses unimplemented feature %d; read_batch returned 0 instead of an error with %zu entries outstanding", exec::mode_name(mode), g, c, unsupported, want.entries());
                    SIM_COUNT("probe.unsupported_rejected_at_read");
                } else exec::compare_chunk(rc, want, t.cols[c], exec::mode_name(mode), (int)g, (int)c);
            }
            continue;
        }
        if (!o->r) exec::check_error_struct(o->err, "reader_open");
        SIM_CHECK(o->r != nullptr, "open.valid_file_rejected", "%s: spec-valid file from the independent writer does not open: code %d (%s)", exec::mode_name(mode), (int)o->err.code, o->err.message);
        SIM_CHECK(carquet_reader_num_columns(o->r) == (int32_t)t.cols.size(), "meta.num_columns", "%s: num_columns %d, file has %zu leaves", exec::mode_name(mode), carquet_reader_num_columns(o->r), t.cols.size());
        SIM_CHECK(carquet_reader_num_row_groups(o->r) == (int32_t)t.rgs.size(), "meta.num_row_groups", "%s: num_row_groups %d, file has %zu", exec::mode_name(mode), carquet_reader_num_row_groups(o->r), t.rgs.size());
        int64_t rows = 0; for (auto& rg : t.rgs) rows += rg.rows;
        SIM_CHECK(carquet_reader_num_rows(o->r) == rows, "meta.num_rows", "%s: num_rows %lld, file says %lld", exec::mode_name(mode), (long long)carquet_reader_num_rows(o->r), (long long)rows);
        size_t li = 0;
        for (size_t g = 0; g < t.rgs.size(); g++) for (size_t c = 0; c < t.cols.size(); c++, li++) {
            const Chunk& want = t.rgs[g].cols[c];
            exec::ReadChunk rc = exec::read_chunk_whole(o->r, (int)g, (int)c, t.cols[c].type, t.cols[c].tlen, t.cols[c].max_def, (int64_t)want.entries());
            exec::compare_chunk(rc, want, t.cols[c], exec::mode_name(mode), (int)g, (int)c);
            if (sim::draw(3) == 0) { readhist::ChunkRef cr{(int)g, (int)c, &t.cols[c], &want, L.chunks[li].page_entries}; readhist::run_column_history(o->r, cr, readhist::gen_ops(10), exec::mode_name(mode), nullptr); }
        }
        // the batch reader has no way to express lists: on a file with REPEATED columns it must refuse, not hand out batches that drop or shift entries
        bool has_rep = false; for (auto& c : t.cols) has_rep = has_rep || c.max_rep > 0;
        if (has_rep && rows > 0 && mode == (int)(L.rng_seed % 3)) {
            carquet_batch_reader_config_t bc; carquet_batch_reader_config_init(&bc); bc.batch_size = 1 + (int32_t)(L.rng_seed % 50); bc.num_threads = 1;
            carquet_error_t berr = CARQUET_ERROR_INIT;
            carquet_batch_reader_t* br = cq::batch_reader_create(o->r, &bc, &berr);
            if (!br) { exec::check_error_struct(berr, "batch_reader_create"); SIM_COUNT("probe.batch_reader_refuses_repeated_columns"); }
            else {
                std::vector<int64_t> got(t.cols.size(), 0); bool refused = false;
                for (int guard = 0; guard < 100000; guard++) {
                    carquet_row_batch_t* b = nullptr; carquet_status_t st = cq::batch_reader_next(br, &b);
                    if (st == CARQUET_ERROR_END_OF_DATA || (st == CARQUET_OK && !b)) { if (b) cq::row_batch_free(b); break; }
                    if (st != CARQUET_OK) { if (b) cq::row_batch_free(b); refused = true; break; }
                    for (size_t c = 0; c < t.cols.size() && (int32_t)c < carquet_row_batch_num_columns(b); c++) { const void* d = nullptr; const uint8_t* bm = nullptr; int64_t nv = 0; if (carquet_row_batch_column(b, (int32_t)c, &d, &bm, &nv) == CARQUET_OK) got[c] += nv; }
                    cq::row_batch_free(b);
                }
                cq::batch_reader_free(br);
                if (refused) SIM_COUNT("probe.batch_reader_refuses_repeated_columns");
                else for (size_t c = 0; c < t.cols.size(); c++) {
                    int64_t entries = 0; for (auto& rg : t.rgs) entries += (int64_t)rg.cols[c].entries();
                    SIM_CHECK(got[c] == entries, "unsupported.batch_reader_drops_repeated_entries", "%s: the batch reader read a file with REPEATED columns to the end without an error, but column %zu (%s d%d r%d) delivered %lld entries of %lld stored",
                              exec::mode_name(mode), c, type_name(t.cols[c].type), t.cols[c].max_def, t.cols[c].max_rep, (long long)got[c], (long long)entries);
                }
            }
        }
    }
    common::end_of_run_checks();
    ctx.evals = 1;
}
}  // namespace

namespace sim {
void register_c06() {
    Property p;
    p.id = "C06"; p.level = "exploration";
    p.rule = "one evaluation = one file emitted by the independent peer writer (flat or nested schema up to depth 5, all 8 physical types, 1-3 row groups, seeded page splits incl. data pages without values, PLAIN page before dictionary pages, dictionary/plain/fallback, PLAIN_DICTIONARY vs RLE_DICTIONARY, level/index run policies {canonical, bit-packed only, RLE only, random mix}, 5 codecs, CRC on/off, statistics, unknown Thrift fields of every wire type incl. boolean containers and containers longer than the first header window, long-form headers, logical-type annotations, a repetition_type on the root, BYTE_ARRAY values around 4/64/128 KiB), self-checked by the peer reader, then read by carquet through fread/mmap/buffer with whole-chunk reads plus seeded read/skip histories under a random CPU cap; one run in seven plants an unimplemented feature (DELTA_BINARY_PACKED, BYTE_STREAM_SPLIT, data page v2, BIT_PACKED levels, LZO/BROTLI tag) that must be rejected; a file with REPEATED columns is also handed to the batch reader, which must refuse it or deliver every entry; non-trivial = has rows; distinct = hash of (codec, schema leaf types/levels, per-chunk dictionary/policies/page count)";
    p.quick_runs = 20000; p.thorough_runs = 1000000;
    p.run = run_c06;
    p.assumptions = {"the peer writer follows parquet.thrift/Encodings.md; every file it emits is first decoded by the (independent) peer reader and compared with the model, a mismatch is a harness bug (exit 2)",
                     "pages are split at record boundaries; page-header statistics are kept small (min+max <= 60 bytes)"};
    register_property(p);
}
}
