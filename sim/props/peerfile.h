// Emission of peer-written files with self-check, and reach probes.
#pragma once
#include "common.h"
#include "peercmp.h"
#include "../model/peergen.h"

namespace peerfile {
using namespace model;

// Writes the table with the peer writer, self-checks it with the peer reader (harness bug if that fails), stores it on the sim disk.
static inline ref::Written emit(const Table& t, const ref::Layout& L, const std::string& path, bool expect_decodable = true) {
    ref::Written W = ref::write_file(t, L);
    if (expect_decodable) {
        ref::Parsed P = ref::parse_file((const uint8_t*)W.bytes.data(), W.bytes.size());
        if (!P.ok) sim::harness_bug("peer writer output rejected by peer reader: " + P.error_class + ": " + P.error);
        try { peercmp::compare_parsed_with_table(P, t, "peer-selfcheck"); }
        catch (sim::Violation& v) { sim::harness_bug("peer writer/reader self-check mismatch: " + v.clause + ": " + v.detail); }
    }
    if (const char* dd = getenv("SIM_DUMP_DIR")) { std::string fn = std::string(dd) + "/peer.parquet"; FILE* f = fopen(fn.c_str(), "wb"); if (f) { fwrite(W.bytes.data(), 1, W.bytes.size(), f); fclose(f); } }
    sim::disk_put(path, std::vector<uint8_t>(W.bytes.begin(), W.bytes.end()));
    return W;
}

static inline void probes(const Table& t, const ref::Layout& L) {
    size_t li = 0;
    for (auto& rg : t.rgs) for (size_t c = 0; c < t.cols.size(); c++, li++) {
        auto& cl = L.chunks[li];
        if (cl.dict && t.cols[c].type != T_BOOL && !rg.cols[c].vals.empty()) SIM_COUNT("probe.dictionary_page_seen");
        if (cl.page_entries.size() > 1) SIM_COUNT("probe.multi_page_chunk");
        if (cl.level_policy == 1 && t.cols[c].max_def > 0) SIM_COUNT("probe.bitpacked_only_levels");
        if (cl.level_policy == 3 && t.cols[c].max_def > 0) SIM_COUNT("probe.mixed_level_runs");
        if (t.cols[c].max_rep > 0) SIM_COUNT("probe.repeated_column_chunk");
        if (t.cols[c].max_def > 1) SIM_COUNT("probe.nested_optional_chunk");
        if (t.cols[c].type == T_I96) SIM_COUNT("probe.int96_chunk");
        if (cl.fallback_after >= 0) SIM_COUNT("probe.dictionary_fallback_to_plain");
        if (cl.plain_first > 0 && (size_t)cl.plain_first < cl.page_entries.size()) SIM_COUNT("probe.plain_pages_before_dictionary_pages");
    }
    if (L.junk_fields) SIM_COUNT("probe.unknown_thrift_fields");
    if (L.long_form) SIM_COUNT("probe.long_form_field_headers");
}
}  // namespace peerfile
