// Seeded schedule parameters for scenarios that run under the simulated thread scheduler.
#pragma once
#include "../core/sim.h"
#include "../seams/sched.h"

namespace schedgen {
static inline sim::SchedParams gen(int force_policy = -1) {
    sim::SchedParams p;
    p.policy = force_policy >= 0 ? force_policy : (int)sim::draw(5);          // 0 run-to-completion is the simplest
    static const uint32_t NUM[] = {1, 1, 1, 3}; static const uint32_t DEN[] = {2, 4, 16, 4};
    uint32_t k = sim::draw(4); p.switch_num = NUM[k]; p.switch_den = DEN[k];
    int d = (int)sim::draw(5);                                                // 0..4 basic-block preemption points per region
    for (int i = 0; i < d; i++) { uint32_t mag = sim::draw(18); p.preempt_ticks.push_back((1ull << mag) / 2 + sim::draw(1u << mag)); }
    static const int CORES[] = {4, 1, 2, 3, 8, 16};
    p.cores = CORES[sim::draw(6)];
    return p;
}
}
