// C04 - no input file can make the reader memory-unsafe, hang or leak.
// Fault model: storage corruption between a valid write and a read (structure-aware field mutations through the
// peer's Thrift value tree, planted page-header/body inconsistencies, payload damage, lost/duplicated/misdirected
// blocks, truncation, garbage) plus input-stream faults; then a seeded history of every public reader call.
#include "common.h"
#include "readhist.h"
#include "validfile.h"

namespace sim { void set_call_budget(uint64_t base, uint64_t c1); }

namespace {
using namespace model;

static const uint64_t BUDGET_C0 = 4000000, BUDGET_C1 = 3000;   // ticks; see evidence: >= 50x the largest ratio seen fault-free

int64_t boundary_value(sim::Rng& r, int64_t old, size_t file_size, uint64_t footer_start) {
    switch (r.below(16)) {
        case 0: return 0; case 1: return 1; case 2: return -1; case 3: return INT32_MAX; case 4: return INT32_MIN; case 5: return INT64_MAX; case 6: return INT64_MIN;
        case 7: return (int64_t)file_size; case 8: return (int64_t)file_size - 1; case 9: return (int64_t)footer_start; case 10: return old + 1; case 11: return old - 1;
        case 12: return old * 2; case 13: return (int64_t)r.below(64); case 14: return (int64_t)(r.next() >> (r.below(60))); default: return -(int64_t)r.below(1000);
    }
}

// collect pointers to every scalar / container in the tree (for random path selection)
void collect(ref::TV& v, std::vector<ref::TV*>& out) {
    if (out.size() > 20000) return;
    out.push_back(&v);
    for (auto& f : v.f) collect(f.second, out);
    for (auto& e : v.l) collect(e, out);
}

// deeply nested containers as raw compact-protocol bytes (built without recursion): list<list<...<i32>>>, struct{1:struct{...}}, map<i32,map<...>>
ref::TV nest_bomb(int depth, int kind) {
    ref::TV v; v.t = ref::TT_RAW;
    if (kind == 0) { v.raw_type = ref::TT_LIST; v.s.assign((size_t)depth, (char)0x19); v.s += (char)0x15; v.s += (char)0x02; }
    else if (kind == 1) { v.raw_type = ref::TT_STRUCT; v.s.assign((size_t)depth, (char)0x1C); v.s += (char)0x15; v.s += (char)0x02; v.s.append((size_t)depth + 1, (char)0x00); }
    else { v.raw_type = ref::TT_MAP; for (int i = 0; i < depth; i++) { v.s += (char)0x01; v.s += (char)0x5B; v.s += (char)0x00; } v.s += (char)0x01; v.s += (char)0x55; v.s += (char)0x00; v.s += (char)0x02; }
    return v;
}

bool mutate_footer(std::vector<uint8_t>& img, sim::Rng& r, std::string& what) {
    if (img.size() < 12) return false;
    uint32_t flen; memcpy(&flen, img.data() + img.size() - 8, 4);
    if ((uint64_t)flen + 12 > img.size()) return false;
    uint64_t fstart = img.size() - 8 - flen;
    ref::TReader tr(img.data() + fstart, flen);
    ref::TV F = tr.value(ref::TT_STRUCT);
    if (tr.err) return false;
    int nmut = 1 + (int)r.below(3);
    for (int m = 0; m < nmut; m++) {
        std::vector<ref::TV*> nodes; collect(F, nodes);
        uint32_t k = r.below(12);
        if (k == 0) {   // nesting bomb in an unknown field
            int depth = 40 + (int)(r.below(4) == 0 ? r.below(30000) : r.below(2000)); int kind = (int)r.below(3);
            F.f.emplace_back(200 + (int)r.below(1000), nest_bomb(depth, kind));
            what += sim::fmt(" nest_bomb(depth=%d,kind=%d)", depth, kind);
            continue;
        }
        ref::TV* n = nodes[r.below((uint32_t)nodes.size())];
        if (n->t == ref::TT_I16 || n->t == ref::TT_I32 || n->t == ref::TT_I64 || n->t == ref::TT_BYTE) {
            int64_t old = n->i; n->i = boundary_value(r, old, img.size(), fstart);
            if (n->t == ref::TT_I32 && k < 9) n->i = (int32_t)n->i;
            what += sim::fmt(" int:%lld->%lld", (long long)old, (long long)n->i);
        } else if (n->t == ref::TT_BINARY) {
            uint32_t c = r.below(4);
            if (c == 0) n->s.clear(); else if (c == 1) n->s.assign(1 + r.below(70000), 'Z'); else if (c == 2 && !n->s.empty()) n->s[r.below((uint32_t)n->s.size())] ^= (char)(1 + r.below(255)); else n->s.push_back('\0');
            what += " binary";
        } else if (n->t == ref::TT_LIST) {
            uint32_t c = r.below(4);
            if (c == 0 && !n->l.empty()) n->l.pop_back(); else if (c == 1 && !n->l.empty()) n->l.push_back(n->l[r.below((uint32_t)n->l.size())]); else if (c == 2) n->l.clear(); else if (!n->l.empty()) { size_t reps = 1 + r.below(40); ref::TV e = n->l[0]; for (size_t q = 0; q < reps; q++) n->l.push_back(e); }
            what += sim::fmt(" list(len now %zu)", n->l.size());
        } else if (n->t == ref::TT_STRUCT && !n->f.empty()) {
            uint32_t c = r.below(3); size_t fi = r.below((uint32_t)n->f.size());
            if (c == 0) { what += sim::fmt(" drop_field(%d)", n->f[fi].first); n->f.erase(n->f.begin() + (long)fi); }
            else if (c == 1) { n->f[fi].first = (int)r.below(20); what += " renumber_field"; }
            else { ref::TV& x = n->f[fi].second; if (x.t == ref::TT_I32) x.t = ref::TT_I64; else if (x.t == ref::TT_I64) x.t = ref::TT_I32; else if (x.t == ref::TT_BINARY) { x.t = ref::TT_I32; x.i = (int64_t)x.s.size(); } what += " retype_field"; }
        } else if (n->t == ref::TT_TRUE) { n->b = !n->b; what += " bool"; }
    }
    std::string fb = ref::tv_serialize(F, r.below(8) == 0);
    img.resize(fstart);
    img.insert(img.end(), fb.begin(), fb.end());
    uint32_t nl = (uint32_t)fb.size();
    if (r.below(12) == 0) { nl = (uint32_t)boundary_value(r, nl, img.size() + 8, fstart); what += " footer_len"; }
    img.insert(img.end(), (uint8_t*)&nl, (uint8_t*)&nl + 4);
    img.insert(img.end(), {'P', 'A', 'R', '1'});
    return true;
}

void block_faults(std::vector<uint8_t>& img, sim::Rng& r, std::string& what) {
    if (img.size() < 16) return;
    size_t n = img.size();
    switch (r.below(6)) {
        case 0: { size_t a = r.below((uint32_t)n), l = 1 + r.below(64); for (size_t i = a; i < a + l && i < n; i++) img[i] = 0; what += sim::fmt(" block_zero@%zu+%zu", a, l); break; }
        case 1: { size_t a = r.below((uint32_t)n), b = r.below((uint32_t)n), l = 1 + r.below(64); for (size_t i = 0; i < l && a + i < n && b + i < n; i++) img[b + i] = img[a + i]; what += sim::fmt(" block_dup %zu->%zu", a, b); break; }
        case 2: { size_t a = 4 + r.below((uint32_t)(n - 12)), l = 1 + r.below(32); img.erase(img.begin() + (long)a, img.begin() + (long)std::min(a + l, n - 8)); what += sim::fmt(" splice_out@%zu", a); break; }
        case 3: { size_t a = 4 + r.below((uint32_t)(n - 12)), l = 1 + r.below(32); std::vector<uint8_t> junk(l); for (auto& b : junk) b = (uint8_t)r.next(); img.insert(img.begin() + (long)a, junk.begin(), junk.end()); what += sim::fmt(" splice_in@%zu", a); break; }
        case 4: { size_t keep = r.below((uint32_t)n); img.resize(keep); if (r.below(2) && keep >= 8) { memcpy(img.data() + keep - 4, "PAR1", 4); } what += sim::fmt(" truncate@%zu", keep); break; }
        default: { int flips = 1 + (int)r.below(6); for (int i = 0; i < flips; i++) { size_t a = r.below((uint32_t)n); img[a] ^= (uint8_t)(1u << r.below(8)); } what += sim::fmt(" %d bitflips", flips); break; }
    }
}

std::vector<uint8_t> garbage_file(sim::Rng& r) {
    size_t n = 12 + r.below(600);
    std::vector<uint8_t> g(n);
    for (auto& b : g) b = (uint8_t)(r.below(4) == 0 ? r.below(32) : r.next());
    memcpy(g.data(), "PAR1", 4); memcpy(g.data() + n - 4, "PAR1", 4);
    uint32_t fl = r.below((uint32_t)(n - 11)); if (r.below(8) == 0) fl = (uint32_t)r.next();
    memcpy(g.data() + n - 8, &fl, 4);
    return g;
}

// size of one value slot as a user derives it from the public schema accessors
size_t user_slot(const carquet_schema_node_t* n) {
    switch ((int)carquet_schema_node_physical_type(n)) {
        case 0: return 1; case 1: case 4: return 4; case 2: case 5: return 8; case 3: return 12; case 6: return sizeof(carquet_byte_array_t);
        case 7: { int32_t tl = carquet_schema_node_type_length(n); return tl > 0 ? (size_t)tl : 0; }
        default: return 0;
    }
}

// out (optional): hash of everything the calls returned that a caller can legitimately look at; two executions of the same history
// that differ only in what fresh heap memory contains must agree on it
void exercise(const std::string& path, size_t image_size, int mode, bool verify, sim::Rng& r, uint64_t& evals, uint64_t* out = nullptr) {
    auto mixb = [&](const void* p, size_t n) { if (out) *out = sim::fnv(p, n, *out ^ (n * 0x9E3779B97F4A7C15ull)); };
    auto mixi = [&](int64_t v) { mixb(&v, sizeof v); };
    sim::set_call_budget(BUDGET_C0 + BUDGET_C1 * (image_size + 4096), BUDGET_C1);
    auto o = exec::open_image(path, mode, verify);
    evals++;
    if (!o->r) { exec::check_error_struct(o->err, "reader_open*"); SIM_COUNT("probe.hostile_rejected_at_open"); sim::set_call_budget(0, 0); return; }
    SIM_COUNT("probe.hostile_file_opened");
    carquet_reader_t* rd = o->r;
    int32_t ncols = carquet_reader_num_columns(rd), nrgs = carquet_reader_num_row_groups(rd);
    (void)carquet_reader_num_rows(rd); (void)carquet_reader_is_mmap(rd);
    const carquet_schema_t* s = carquet_reader_schema(rd);
    std::vector<carquet_column_reader_t*> open_cols; std::vector<carquet_batch_reader_t*> open_brs;
    int present_bit = -1;      // bitmap bit value that means "row present", once observed on a column without nulls
    int nops = 4 + (int)r.below(24);
    for (int op = 0; op < nops; op++) {
        uint32_t k = r.below(14);
        int32_t g = nrgs > 0 && r.below(8) != 0 ? (int32_t)r.below((uint32_t)std::min(nrgs, 64)) : (int32_t)r.below(3) - 1 + (r.below(2) ? nrgs : 0);
        int32_t c = ncols > 0 && r.below(8) != 0 ? (int32_t)r.below((uint32_t)std::min(ncols, 64)) : (int32_t)r.below(3) - 1 + (r.below(2) ? ncols : 0);
        bool in_range = g >= 0 && g < nrgs && c >= 0 && c < ncols;
        evals++;
        if (k <= 5) {           // column reader: get, read with exact-size buffers, skip, queries
            carquet_error_t err; memset(&err, 0, sizeof err); memset(err.message, 0x7F, sizeof err.message);
            carquet_column_reader_t* cr = cq::reader_get_column(rd, g, c, &err);
            if (!cr) { exec::check_error_struct(err, "reader_get_column"); continue; }
            SIM_CHECK(in_range, "contract.out_of_range_index_accepted", "reader_get_column(rg=%d of %d, col=%d of %d) returned a column reader", g, nrgs, c, ncols);
            const carquet_schema_node_t* node = nullptr;
            // the user finds the leaf's schema element through the public API: leaves in depth-first order
            { int ne = carquet_schema_num_elements(s), leaf = -1; for (int i = 0; i < ne && i < 20000; i++) { const carquet_schema_node_t* n = carquet_schema_get_element(s, i); if (n && carquet_schema_node_is_leaf(n)) { leaf++; if (leaf == c) { node = n; break; } } } }
            size_t slot = node ? user_slot(node) : 0;
            int reads = 1 + (int)r.below(4);
            for (int q = 0; q < reads && slot; q++) {
                int64_t remaining = cq::column_remaining(cr);
                int64_t maxv = r.below(3) == 0 ? 1 + r.below(8) : remaining > 0 && remaining < 5000 && r.below(2) ? remaining + (int64_t)r.below(3) : 1 + (int64_t)r.below(300);
                if (slot * (size_t)maxv > (64u << 20)) continue;
                exec::Buf vals(slot * (size_t)maxv), defs(2 * (size_t)maxv), reps(2 * (size_t)maxv);
                bool want_defs = r.below(4) != 0, want_reps = r.below(2) != 0;
                int64_t n = cq::column_read_batch(cr, vals.get(), maxv, want_defs ? (int16_t*)defs.get() : nullptr, want_reps ? (int16_t*)reps.get() : nullptr);
                SIM_CHECK(n <= maxv, "contract.read_count_exceeds_max", "read_batch(max %lld) returned %lld", (long long)maxv, (long long)n);
                if (out) {
                    mixi(n);
                    if (n > 0) {
                        if (want_defs) mixb(defs.get(), 2 * (size_t)n);
                        if (want_reps) mixb(reps.get(), 2 * (size_t)n);
                        int md = node ? carquet_schema_node_max_def_level(node) : 0;
                        int64_t nn = -1;
                        if (md == 0) nn = n; else if (want_defs) { nn = 0; const int16_t* d = (const int16_t*)defs.get(); for (int64_t i = 0; i < n; i++) nn += d[i] == md; }
                        if (nn >= 0 && node && (int)carquet_schema_node_physical_type(node) != T_BA) mixb(vals.get(), slot * (size_t)nn);
                    }
                }
                if (n > 0 && node && (int)carquet_schema_node_physical_type(node) == T_BA) {
                    // returned byte arrays must lie in memory the library owns: dereference a few (ASan / guard page decide)
                    int64_t chk = std::min<int64_t>(n, 6); volatile uint8_t sink = 0;
                    // only as many slots as rows are non-null are defined; without level buffers we cannot know, so only check when all delivered rows are present or levels were requested
                    for (int64_t i = 0; i < chk; i++) { carquet_byte_array_t ba; memcpy(&ba, vals.get() + (size_t)i * slot, sizeof ba);
                        bool slot_defined = carquet_schema_node_repetition(node) == CARQUET_REPETITION_REQUIRED && carquet_schema_node_max_def_level(node) == 0;
                        if (!slot_defined) continue;
                        SIM_CHECK(ba.length >= 0, "contract.negative_byte_array_length", "read_batch returned OK and byte array %lld has length %d", (long long)i, ba.length);
                        if (ba.length > 0) { SIM_CHECK(ba.data != nullptr, "contract.null_byte_array", "byte array %lld has length %d and a NULL pointer", (long long)i, ba.length); sink ^= ba.data[0]; sink ^= ba.data[(size_t)ba.length - 1]; } }
                    (void)sink;
                }
                if (n <= 0) break;
            }
            if (r.below(3) == 0) { int64_t ask = (int64_t)r.below(500); int64_t sk = cq::column_skip(cr, ask); SIM_CHECK(sk <= ask, "contract.skip_exceeds_request", "column_skip(%lld) returned %lld", (long long)ask, (long long)sk); mixi(sk); }      // negative: error (hostile file)
            (void)cq::column_has_next(cr);
            if (r.below(3) == 0) open_cols.push_back(cr); else cq::column_reader_free(cr);
        } else if (k <= 8) {    // batch reader
            if (ncols <= 0) continue;
            carquet_batch_reader_config_t bc; carquet_batch_reader_config_init(&bc);
            bc.batch_size = 1 + (int32_t)r.below(r.below(3) ? 64 : 70000); bc.num_threads = 1;
            std::vector<int32_t> proj; if (r.below(2)) { size_t np = 1 + r.below(4); for (size_t q = 0; q < np; q++) proj.push_back((int32_t)r.below((uint32_t)std::min(ncols, 64))); bc.column_indices = proj.data(); bc.num_columns = (int32_t)proj.size(); }
            carquet_error_t err; memset(&err, 0, sizeof err); memset(err.message, 0x7F, sizeof err.message);
            carquet_batch_reader_t* br = cq::batch_reader_create(rd, &bc, &err);
            if (!br) { exec::check_error_struct(err, "batch_reader_create"); continue; }
            int nb = 1 + (int)r.below(6);
            for (int q = 0; q < nb; q++) {
                carquet_row_batch_t* b = nullptr;
                carquet_status_t st = cq::batch_reader_next(br, &b);
                if (st != CARQUET_OK || !b) { if (b) cq::row_batch_free(b); if (r.below(2)) break; SIM_COUNT("probe.batch_next_called_again_after_error"); continue; }   // calling next() again after an error is a valid call
                int64_t nr = carquet_row_batch_num_rows(b); int32_t nc = carquet_row_batch_num_columns(b);
                mixi(nr); mixi(nc);
                for (int32_t ci = -1; ci <= nc; ci++) {
                    const void* data = nullptr; const uint8_t* bm = nullptr; int64_t nv = 0;
                    carquet_status_t cs = carquet_row_batch_column(b, ci, &data, &bm, &nv);
                    if (ci < 0 || ci >= nc) { SIM_CHECK(cs != CARQUET_OK, "contract.out_of_range_index_accepted", "row_batch_column(%d of %d) returned OK", ci, nc); continue; }
                    if (cs != CARQUET_OK) continue;
                    // a user trusts num_values: touch the first and last slot and the bitmap
                    if (nv > 0 && data) { volatile uint8_t sink = ((const uint8_t*)data)[0]; (void)sink; }
                    if (nv > 0 && bm) { volatile uint8_t sink = bm[0] ^ bm[(size_t)(nv - 1) / 8]; (void)sink; }
                    mixi(nv); if (out && nv > 0 && bm) { mixb(bm, (size_t)nv / 8); if (nv % 8) mixi(bm[(size_t)nv / 8] & ((1 << (nv % 8)) - 1)); }
                    (void)nr;
                    // a user goes by the bitmap: the values of the rows it marks present are looked at (which bit value means
                    // "present" is learnt from a column that cannot hold nulls - every bit of its bitmap is the "present" value)
                    int32_t fc = proj.empty() ? ci : proj[(size_t)ci];
                    const carquet_schema_node_t* bnode = nullptr;
                    { int ne = carquet_schema_num_elements(s), leaf = -1; for (int i = 0; i < ne && i < 20000; i++) { const carquet_schema_node_t* n = carquet_schema_get_element(s, i); if (n && carquet_schema_node_is_leaf(n)) { leaf++; if (leaf == fc) { bnode = n; break; } } } }
                    if (!bnode || nv <= 0 || nv > (1 << 22) || !data) continue;
                    if (bm && carquet_schema_node_max_def_level(bnode) == 0 && present_bit < 0) present_bit = bm[0] & 1;
                    int64_t nn = -1;
                    if (!bm || carquet_schema_node_max_def_level(bnode) == 0) nn = nv;
                    else if (present_bit >= 0) { nn = 0; for (int64_t j = 0; j < nv; j++) nn += ((bm[j / 8] >> (j % 8)) & 1) == present_bit; }
                    if (nn < 0) continue;
                    size_t bslot = user_slot(bnode);
                    if (!bslot) continue;
                    if ((int)carquet_schema_node_physical_type(bnode) == T_BA) {
                        volatile uint8_t sink = 0; int64_t chk = std::min<int64_t>(nn, 64);
                        for (int64_t j = 0; j < chk; j++) { carquet_byte_array_t ba; memcpy(&ba, (const uint8_t*)data + (size_t)j * bslot, sizeof ba);
                            SIM_CHECK(ba.length >= 0, "contract.negative_byte_array_length", "batch column %d: byte array %lld of a row the bitmap marks present has length %d", ci, (long long)j, ba.length);
                            if (ba.length > 0) { SIM_CHECK(ba.data != nullptr, "contract.null_byte_array", "batch column %d: byte array %lld has length %d and a NULL pointer", ci, (long long)j, ba.length); sink ^= ba.data[0]; sink ^= ba.data[(size_t)ba.length - 1]; } }
                        (void)sink;
                    } else mixb(data, bslot * (size_t)nn);
                }
                cq::row_batch_free(b);
            }
            if (r.below(4) == 0) open_brs.push_back(br); else cq::batch_reader_free(br);
        } else if (k <= 10) {   // statistics / pruning
            carquet_column_statistics_t cs; memset(&cs, 0, sizeof cs);
            carquet_status_t st = cq::reader_column_statistics(rd, g, c, &cs);
            if (!in_range) SIM_CHECK(st != CARQUET_OK, "contract.out_of_range_index_accepted", "column_statistics(rg=%d of %d, col=%d of %d) returned OK", g, nrgs, c, ncols);
            if (st == CARQUET_OK && cs.has_min_max) { volatile uint8_t sink = 0; if (cs.min_value_size > 0) sink ^= ((const uint8_t*)cs.min_value)[(size_t)cs.min_value_size - 1]; if (cs.max_value_size > 0) sink ^= ((const uint8_t*)cs.max_value)[(size_t)cs.max_value_size - 1]; (void)sink; }
            bool mm = true;
            int32_t psz = (int32_t)(r.below(2) ? 8 : 1 + r.below(16));
            exec::Buf pb((size_t)psz); uint8_t* probe = pb.get(); for (int32_t q = 0; q < psz; q++) probe[q] = (uint8_t)(q + 1);     // exactly value_size bytes: reading more is an over-read
            st = cq::reader_row_group_matches(rd, g, c, (carquet_compare_op_t)r.below(6), probe, psz, &mm);
            if (!in_range) SIM_CHECK(st != CARQUET_OK, "contract.out_of_range_index_accepted", "row_group_matches(rg=%d of %d, col=%d of %d) returned OK", g, nrgs, c, ncols);
            { int32_t out[8]; int32_t n = cq::reader_filter_row_groups(rd, c, (carquet_compare_op_t)r.below(6), probe, psz, out, 8); SIM_CHECK(n <= 8, "contract.filter_overflows_output", "filter_row_groups(max 8) returned %d", n);
              if (c < 0 || c >= ncols) SIM_CHECK(n < 0, "contract.out_of_range_index_accepted", "filter_row_groups(col=%d of %d) returned %d instead of an error", c, ncols, n); }
        } else if (k == 11) {
            carquet_row_group_metadata_t md; carquet_status_t st = cq::reader_row_group_metadata(rd, g, &md);
            if (g < 0 || g >= nrgs) SIM_CHECK(st != CARQUET_OK, "contract.out_of_range_index_accepted", "row_group_metadata(%d of %d) returned OK", g, nrgs);
            (void)carquet_reader_can_zero_copy(rd, g, c);
        } else if (k == 12) {   // schema accessors incl. out-of-range element index
            int ne = carquet_schema_num_elements(s);
            for (int q = 0; q < 6; q++) { int32_t i = (int32_t)r.below((uint32_t)std::max(ne, 1) + 2) - 1; const carquet_schema_node_t* n = carquet_schema_get_element(s, i);
                if (i < 0 || i >= ne) { SIM_CHECK(n == nullptr, "contract.out_of_range_index_accepted", "schema_get_element(%d of %d) returned an element", i, ne); continue; }
                if (!n) continue;
                const char* nm = carquet_schema_node_name(n); if (nm) { volatile size_t l = strlen(nm); (void)l; }
                (void)carquet_schema_node_is_leaf(n); (void)carquet_schema_node_repetition(n); (void)carquet_schema_node_max_def_level(n); (void)carquet_schema_node_logical_type(n); }
            (void)carquet_schema_find_column(s, "n1");
        } else {                // release something early
            if (!open_cols.empty()) { cq::column_reader_free(open_cols.back()); open_cols.pop_back(); }
        }
    }
    // close everything in a seeded legal order (children before the reader)
    while (!open_cols.empty() || !open_brs.empty()) {
        if (!open_cols.empty() && (open_brs.empty() || r.below(2))) { size_t i = r.below((uint32_t)open_cols.size()); cq::column_reader_free(open_cols[i]); open_cols.erase(open_cols.begin() + (long)i); }
        else { size_t i = r.below((uint32_t)open_brs.size()); cq::batch_reader_free(open_brs[i]); open_brs.erase(open_brs.begin() + (long)i); }
    }
    o.reset();
    sim::set_call_budget(0, 0);
}

void run_c04(sim::RunCtx& ctx) {
    gen::g_row_cap = 400;
    validfile::VF vf; validfile::Opts vo; vo.small = sim::draw(3) != 0;
    common::apply_benign_knobs();
    const std::string path = SIMDISK "c04.parquet", hpath = SIMDISK "c04-hostile.parquet";
    uint32_t kind = sim::draw(10);           // 0..3 footer mutation, 4..5 planted page lies, 6 payload damage, 7 block faults, 8 garbage, 9 stream faults on a valid file
    uint32_t rs = sim::draw(0xFFFFFFFFu);
    sim::Rng r; r.seed(rs, 4);
    std::string what;
    std::vector<uint8_t> img;
    bool verify = sim::draw(2) == 0;
    if (kind == 8) { img = garbage_file(r); what = "garbage with magics"; ctx.sample = what; ctx.shape = rs; ctx.nontrivial = true; }
    else {
        if (kind == 4 || kind == 5) vo.force_source = 0;     // lies are planted by the peer writer
        if (!validfile::make(vf, path, vo)) { ctx.refusal = true; return; }
        validfile::finish(vf, ctx);
        img = vf.bytes;
    }
    ctx.sample = (kind == 8 ? std::string("garbage") : vf.desc) + sim::fmt(" || hostile kind %u (details only when the run survives)", kind);
    if (common::plan_only()) return;
    if (kind <= 3) { if (!mutate_footer(img, r, what)) what = "footer not parseable"; if (r.below(4) == 0) block_faults(img, r, what); }
    else if (kind == 4 || kind == 5) {
        // re-emit the same table with 1-3 planted inconsistencies (offsets stay coherent, so the damage reaches the decoder behind it)
        Table t = vf.table; peergen::LayoutOpts lo; (void)lo;
        ref::Layout L;
        // regenerate a layout deterministically from the PRNG (not the tape): simple pages, random dictionary use
        L.codec = peergen::PEER_CODECS[r.below(5)]; L.rng_seed = r.next();
        for (auto& rg : t.rgs) for (size_t c = 0; c < t.cols.size(); c++) { ref::ChunkLayout cl; size_t n = rg.cols[c].def.size(); if (n) { size_t cut = 1 + r.below((uint32_t)n); size_t at = cut; while (at < n && rg.cols[c].rep[at] != 0) at++; cl.page_entries.push_back(at); if (at < n) cl.page_entries.push_back(n - at); }
            cl.dict = r.below(2); cl.dict_tag = r.below(2) ? 8 : 2; cl.crc = r.below(2); cl.plain_first = cl.dict && r.below(4) == 0 ? 1 : 0; cl.level_policy = (int)r.below(4); cl.index_policy = (int)r.below(4); cl.chunk_stats = (int)r.below(4); cl.dict_offset_present = r.below(4) != 0; L.chunks.push_back(cl); }
        int nl = 1 + (int)r.below(3);
        for (int q = 0; q < nl && !L.chunks.empty(); q++) {
            ref::Lie lie; lie.chunk = r.below(3) == 0 ? L.chunks.size() - 1 : r.below((uint32_t)L.chunks.size()); lie.page = (int)r.below(3);
            if (r.below(3) == 0) { auto& cl = L.chunks[lie.chunk]; lie.page = (int)cl.page_entries.size() - 1 + (cl.dict ? 1 : 0); if (lie.page < 0) lie.page = 0; }   // the last page of the chunk (of the file, for the last chunk)
            static const std::vector<std::vector<int>> PATHS = {{1}, {2}, {3}, {4}, {5, 1}, {5, 2}, {5, 3}, {5, 4}, {7, 1}, {7, 2}, {8, 1}};
            uint32_t w = r.below(14);
            if (w < 11 && r.below(3) == 0) { lie.path = PATHS[w]; lie.relative = true; static const int64_t D[] = {1, -1, 2, -2, 3, 4, 7, 8, 16, 31, 64, 100, 255, -8, 1000, -1000}; lie.value = D[r.below(16)]; }
            else if (w < 11) { lie.path = PATHS[w]; lie.value = boundary_value(r, 8, img.size(), img.size()); if (w < 4 || r.below(2)) lie.value = (int32_t)lie.value; if (lie.path.size() == 1 && lie.path[0] == 1) lie.value = (int64_t)r.below(5); if (lie.path == std::vector<int>{5, 2}) lie.value = (int64_t)r.below(12); }
            else if (r.below(6) == 0) { lie.body_kind = 4; static const int64_t Z[] = {9, 300, 5000, 70000, 400000}; lie.value = Z[r.below(5)]; }
            else { lie.body_kind = (int)(w - 10); lie.value = lie.body_kind == 1 ? (int64_t)r.below(256) : boundary_value(r, 4, img.size(), img.size()); }
            L.lies.push_back(lie);
            what += sim::fmt(" lie(chunk%zu page%d %s=%lld)", lie.chunk, lie.page, lie.body_kind ? (lie.body_kind == 1 ? "bit_width" : lie.body_kind == 2 ? "def_len" : lie.body_kind == 3 ? "rep_len" : "zero_bytes") : sim::fmt("path%d%s", lie.path[0], lie.path.size() > 1 ? sim::fmt(".%d", lie.path[1]).c_str() : "").c_str(), (long long)lie.value);
        }
        // near-miss sizes: a page (or its declared uncompressed size) that ends a little before / exactly at / a little past the
        // end of the file needs the real offsets, so emit once without lies to learn them
        if (r.below(3) == 0 && !L.chunks.empty()) {
            ref::Layout L0 = L; L0.lies.clear();
            ref::Written W0 = ref::write_file(t, L0);
            size_t c = r.below(2) ? L.chunks.size() - 1 : r.below((uint32_t)L.chunks.size());
            if (!W0.chunks[c].page_bodies.empty()) {
                size_t pg = r.below((uint32_t)W0.chunks[c].page_bodies.size());
                int64_t to_eof = (int64_t)W0.bytes.size() - (int64_t)W0.chunks[c].page_bodies[pg].first;
                static const int64_t NEAR[] = {0, 1, -1, 2, 7, 8, 9, 12, 13, 64, 255};
                ref::Lie lie; lie.chunk = c; lie.page = (int)pg; lie.path = {r.below(4) ? 3 : 2};
                uint32_t w = r.below(4);
                lie.value = to_eof + (w == 0 ? NEAR[r.below(11)] : w == 1 ? (int64_t)r.below(400) : w == 2 ? (int64_t)r.below(6000) : -(int64_t)r.below(40));
                L.lies.push_back(lie);
                what += sim::fmt(" lie(chunk%zu page%zu size=to_eof%+lld)", c, pg, (long long)(lie.value - to_eof));
            }
        }
        // levels beyond the column's maximum (they fit the bit width when max+1 is not a power of two): such an entry is neither "present"
        // nor a legal null - no value is stored for it
        if (r.below(2) == 0) {
            std::vector<size_t> cand; for (size_t c = 0; c < t.cols.size(); c++) { int m = t.cols[c].max_def; if (m > 0 && ((m + 1) & m) != 0) cand.push_back(c); }
            if (!cand.empty() && !t.rgs.empty()) {
                size_t c = cand[r.below((uint32_t)cand.size())]; size_t g = r.below((uint32_t)t.rgs.size()); Chunk& ch = t.rgs[g].cols[c];
                int m = t.cols[c].max_def; int top = 1; while (top <= m) top <<= 1; top -= 1;      // largest value the level bit width can hold
                size_t hits = 0;
                std::vector<std::string> kept; size_t vi = 0;
                for (size_t i = 0; i < ch.def.size(); i++) {
                    bool present = ch.def[i] == m; bool bump = r.below(4) == 0;
                    if (bump) { ch.def[i] = (int16_t)(m + 1 + (int)r.below((uint32_t)(top - m))); hits++; }
                    if (present) { if (!bump) kept.push_back(ch.vals[vi]); vi++; }
                }
                ch.vals = kept;
                if (hits) what += sim::fmt(" levels>max(rg%zu col%zu max_def %d, %zu entries)", g, c, m, hits);
            }
        }
        ref::Written W = ref::write_file(t, L);
        img.assign(W.bytes.begin(), W.bytes.end());
        if (r.below(5) == 0) mutate_footer(img, r, what);
    } else if (kind == 6) {
        // payload damage inside page bodies; verification off (or pages without CRC) so that it reaches decompressors and decoders
        ref::Parsed P = vf.from_carquet ? vf.parsed : ref::parse_file(vf.bytes.data(), vf.bytes.size());
        std::vector<std::pair<uint64_t, uint32_t>> bodies; for (auto& ci : P.chunks) for (auto& pg : ci.pages) if (pg.comp_len) bodies.push_back({pg.body_off, pg.comp_len});
        int nd = 1 + (int)r.below(4);
        for (int q = 0; q < nd && !bodies.empty(); q++) { auto& b = bodies[r.below((uint32_t)bodies.size())]; size_t at = (size_t)b.first + r.below(b.second); if (r.below(2)) img[at] ^= (uint8_t)(1u << r.below(8)); else img[at] = (uint8_t)r.next(); what += sim::fmt(" payload@%zu", at); }
        verify = r.below(8) == 0;
    } else if (kind == 7) { int nf = 1 + (int)r.below(3); for (int q = 0; q < nf; q++) block_faults(img, r, what); }
    else if (kind == 9) what = "valid file, input stream faults";
    ctx.sample = (kind == 8 ? std::string() : vf.desc + " || ") + "hostile:" + what + (verify ? " verify=on" : " verify=off");
    if (sim::L.keep) fprintf(stderr, "SIM-PLAN %s (image %zu bytes)\n", ctx.sample.c_str(), img.size());
    sim::disk_put(hpath, img);
    sim::L.bytes(img.data(), img.size());
    uint64_t evals = 0;
    for (int mode = 0; mode < 3; mode++) {
        sim::reset_fault_plans();
        if (mode == 0 && (kind == 9 || r.below(10) == 0)) {      // fread path: stream failures
            uint32_t f = r.below(4);
            if (f == 0) sim::srcplan.eio_at_read = (int64_t)r.below(12); else if (f == 1) sim::srcplan.fail_at_seek = (int64_t)r.below(12); else if (f == 2) sim::srcplan.early_eof_at = (int64_t)r.below((uint32_t)img.size() + 1); else sim::srcplan.fopen_fail_at = 0;
        }
        if (mode == 1 && (kind == 9 || r.below(10) == 0)) sim::srcplan.mmap_path_fault = 1 + (int)r.below(3);      // mmap path: open / fstat / mmap itself fails
        bool differential = r.below(4) == 0;
        sim::Rng r_before = r; sim::SrcPlan sp_before = sim::srcplan;
        uint64_t h1 = 1469598103934665603ull, h2 = h1;
        exercise(hpath, img.size(), mode, verify, r, evals, &h1);
        if (differential) {
            // same history once more with different garbage in fresh heap blocks: what the calls hand back must not depend on it
            std::string leak0; SIM_CHECK(sim::ledger_leaks(&leak0) == 0, "resource.leak", "%s: after closing every handle of a hostile file: %s", exec::mode_name(mode), leak0.c_str());
            sim::reset_fault_plans(); sim::srcplan = sp_before;
            uint8_t dirt0 = sim::allocplan.dirt; sim::allocplan.dirt = (uint8_t)(dirt0 ^ 0x5A);
            sim::Rng r2 = r_before; uint64_t ev2 = 0;
            exercise(hpath, img.size(), mode, verify, r2, ev2, &h2);
            sim::allocplan.dirt = dirt0;
            SIM_CHECK(h1 == h2, "uninitialised.result_depends_on_heap_garbage", "%s: the same call history on the same image returned different levels/values/counts when fresh heap memory was filled with 0x%02x instead of 0x%02x: something handed to the caller was never written by the library", exec::mode_name(mode), dirt0 ^ 0x5A, dirt0);
            SIM_COUNT("probe.heap_garbage_differential_run");
        }
        std::string leak;
        SIM_CHECK(sim::ledger_leaks(&leak) == 0, "resource.leak", "%s: after closing every handle of a hostile file: %s", exec::mode_name(mode), leak.c_str());
        sim::world_check_closed();
        if (sim::alloc.cap_refusals) SIM_COUNT("probe.huge_allocation_refused_and_handled");
    }
    ctx.evals = evals ? evals : 1;
}
}  // namespace

namespace sim {
void register_c04() {
    Property p;
    p.id = "C04"; p.level = "exploration";
    p.rule = "one run = one hostile image derived from a valid one (peer- or carquet-written) by 1-3 storage faults: footer field mutation through the peer's Thrift value tree (boundary/random scalars, list length changes, dropped/renumbered/retyped fields, strings, nesting bombs up to 30000 levels, footer length), planted page-header/body inconsistencies emitted with coherent offsets (page type, sizes, crc, num_values, encodings, dictionary size, index bit width, level-block lengths, levels above the column's maximum), payload damage with verification off, lost/duplicated/spliced/zeroed blocks, truncation, bit flips, or pure garbage between valid magics; plus input-stream faults (EIO, failed seek, early EOF, fopen failure) on the fread path and failing open/fstat/mmap on the mmap path; each image is opened through the three transports and, if it opens, driven by a seeded history of every public reader call (out-of-range indices, exact-size caller buffers sized from the public schema accessors, batch reader whose values are looked at for every row its bitmap marks present, statistics/pruning, schema accessors, seeded release order); one evaluation = one API operation on a hostile handle; oracle: ASan/UBSan/guard pages, per-call tick budget c0 + c1*(image bytes + bytes granted by the allocator), error contract, ledger empty and all streams/mappings released";
    p.quick_runs = 60000; p.thorough_runs = 3000000;
    p.run = run_c04;
    p.assumptions = {"tick budget per API call: 4e6 + 3000 x (image bytes + 4096 + bytes granted to the library since the handle's transport was opened + live bytes) basic blocks; allocations above 64 MiB (or 256 MiB live) are refused by the simulated allocator, which bounds the budget",
                     "time spent inside zlib/zstd/libc is invisible to the tick counter; a 90 s wall-clock watchdog is the backstop and such a verdict is labelled hang:wallclock",
                     "caller buffers hold exactly max_values x size(schema physical type) bytes, as the public header tells users to size them"};
    register_property(p);
}
}
