#include "../core/sim.h"
namespace sim {
#define DECL(x) void register_##x() __attribute__((weak));
DECL(c01) DECL(c02) DECL(c03) DECL(c04) DECL(c05) DECL(c06) DECL(c07) DECL(c14) DECL(c16) DECL(c17) DECL(c18) DECL(c19)
void register_all_properties() {
#define REG(x) if (register_##x) register_##x();
    REG(c01) REG(c02) REG(c03) REG(c04) REG(c05) REG(c06) REG(c07) REG(c14) REG(c16) REG(c17) REG(c18) REG(c19)
}
}
