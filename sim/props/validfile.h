// Produces a valid image on the sim disk (from the peer writer or from carquet's own writer) together with
// its model table and per-chunk page layout.
#pragma once
#include "common.h"
#include "peercmp.h"
#include "../model/peergen.h"
#include "peerfile.h"

namespace validfile {
using namespace model;

struct VF {
    Table table;                                   // what the file means (row groups as stored, incl. empty ones)
    std::vector<std::vector<size_t>> pages;        // [rg*ncols + col] -> entries per data page
    bool from_carquet = false;
    int codec = 0;
    std::string desc;
    bool has_repeated = false;
    std::vector<uint8_t> bytes;
    ref::Written written;                          // peer files: page body spans etc.
    ref::Parsed parsed;                            // carquet files: peer-reader view (page spans, offsets)
};

struct Opts { bool allow_nested = true; bool allow_carquet = true; bool bias_zero_copy = false; bool flat_only = false; bool stats = true; bool small = false; bool force_crc = false; int force_source = -1; bool wide_footer = false; };      // wide_footer: peer file whose footer outgrows the reader's first metadata arena block

static inline bool make(VF& vf, const std::string& path, const Opts& o) {
    bool carquet = o.wide_footer ? false : o.force_source >= 0 ? o.force_source == 1 : (o.allow_carquet && sim::draw(3) == 2);
    if (carquet) {
        gen::FlatOpts fo; fo.allow_wide = false; if (o.small) { fo.allow_big = false; fo.max_cols = 4; fo.max_rgs = 2; }
        gen::WritePlan p = gen::gen_write_plan(fo);
        if (o.bias_zero_copy && sim::draw(2)) { p.codec = 0; if (p.page_size > 4096) p.page_size = 64 + 64 * sim::draw(8); }
        exec::WriteOutcome w = exec::run_writer(p, path);
        if (!w.all_ok) return false;
        vf.parsed = ref::parse_file(w.image.data(), w.image.size());
        if (!vf.parsed.ok) return false;             // C05's business, not this property's
        vf.table = vf.parsed.table;                  // as stored (empty row groups included as the file has them)
        vf.table.root = p.table.root;
        // the stored table must equal the model (C01/C05 decide that); here we only need a trustworthy description
        try { peercmp::compare_parsed_with_table(vf.parsed, p.table, "carquet-file"); } catch (sim::Violation&) { return false; }
        for (auto& ci : vf.parsed.chunks) { std::vector<size_t> pe; for (auto& pg : ci.pages) if (pg.type == 0) pe.push_back(pg.n_entries); vf.pages.push_back(pe); }
        vf.from_carquet = true; vf.codec = p.codec; vf.desc = "carquet-written: " + p.describe();
        vf.bytes = w.image;
        SIM_COUNT("probe.file_from_carquet_writer");
        return true;
    }
    Table t;
    bool nested = !o.wide_footer && o.allow_nested && !o.flat_only && sim::draw(10) < 5;
    if (o.wide_footer) {
        // 60-100 columns x 3-4 row groups of 0-2 rows: the parsed metadata (one chunk record per column and row group, with
        // statistics, paths and encodings) needs more than one arena block, so block allocations happen while the footer is parsed
        t.root.name = "schema"; t.root.leaf = false;
        int ncols = 60 + (int)sim::draw(41), nrg = 3 + (int)sim::draw(2);
        for (int i = 0; i < ncols; i++) { Node n; n.leaf = true; n.name = "wide_column_with_a_long_name_" + std::to_string(i); n.type = peergen::ALLTYPES[sim::draw(8)]; n.rep = sim::draw(2) ? OPT : REQ; n.tlen = n.type == T_FLBA ? 4 : 0; t.root.kids.push_back(n); }
        derive_leaves(t);
        for (int g = 0; g < nrg; g++) { RowGroup rg; rg.rows = (int64_t)sim::draw(3); rg.cols.resize(t.cols.size()); for (size_t c = 0; c < t.cols.size(); c++) gen::fill_chunk(rg.cols[c], t.cols[c], rg.rows); t.rgs.push_back(rg); }
    }
    else if (nested) { peergen::SchemaOpts so; if (o.small) { so.max_nodes = 12; so.max_depth = 3; } t = peergen::gen_nested_table(so, o.small ? 2 : 3); }
    else t = peergen::gen_flat_any(o.small ? 4 : 6, o.small ? 2 : 3, !o.small);
    peergen::LayoutOpts lo; lo.stats = o.stats;
    ref::Layout L = peergen::gen_layout(t, lo);
    if (o.force_crc) for (auto& cl : L.chunks) cl.crc = true;
    if (o.bias_zero_copy && sim::draw(2)) { L.codec = 0; for (auto& cl : L.chunks) if (sim::draw(2)) cl.dict = false; }
    vf.written = peerfile::emit(t, L, path, true);
    peerfile::probes(t, L);
    vf.table = t; vf.codec = L.codec;
    for (auto& cl : L.chunks) vf.pages.push_back(cl.page_entries);
    vf.desc = peergen::describe(t, L);
    vf.bytes.assign(vf.written.bytes.begin(), vf.written.bytes.end());
    SIM_COUNT("probe.file_from_peer_writer");
    return true;
}

static inline void finish(VF& vf, sim::RunCtx& ctx) {
    for (auto& c : vf.table.cols) if (c.max_rep > 0) vf.has_repeated = true;
    std::string sh = sim::fmt("%d/%d/%zu/%zu", (int)vf.from_carquet, vf.codec, vf.table.cols.size(), vf.table.rgs.size());
    for (auto& c : vf.table.cols) sh += sim::fmt(";%d.%d.%d", c.type, c.max_def, c.max_rep);
    for (auto& pe : vf.pages) sh += sim::fmt(":%zu", std::min<size_t>(pe.size(), 5));
    ctx.shape = sim::fnv(sh.data(), sh.size());
    int64_t rows = 0; for (auto& rg : vf.table.rgs) rows += rg.rows;
    ctx.nontrivial = rows > 0;
    ctx.sample = vf.desc;
}

}  // namespace validfile
