// C14 - page damage is always detected when checksum verification is on (and handled safely when it is off);
// CRCs interoperate with zlib's IEEE CRC-32 in both directions as far as the file layer computes them.
#include "common.h"
#include "readhist.h"
#include "validfile.h"
#include "schedgen.h"

namespace {
using namespace model;

struct PageSpan { int rg, col; uint64_t off; uint32_t len; size_t first_entry; bool dict; };

void apply_damage(std::vector<uint8_t>& img, const PageSpan& pg, int kind, uint64_t pos, uint32_t arg) {
    // kind 0: flip bit `pos` of the body; 1: set byte `pos` to a different value; 2: burst of `arg` (2..32) flipped bits starting at bit pos*8 (clipped)
    if (kind == 0) img[pg.off + pos / 8] ^= (uint8_t)(1u << (pos % 8));
    else if (kind == 1) img[pg.off + pos] = (uint8_t)(img[pg.off + pos] ^ (uint8_t)(1 + arg % 255));
    else { uint64_t b0 = pos * 8 + (arg >> 8) % 8; uint32_t n = 2 + (arg & 0xFF) % 31; bool any = false;
        for (uint32_t i = 0; i < n; i++) { uint64_t b = b0 + i; if (b >= (uint64_t)pg.len * 8) break; if (i == 0 || i == n - 1 || ((arg >> (i % 20)) & 1)) { img[pg.off + b / 8] ^= (uint8_t)(1u << (b % 8)); any = true; } }
        if (!any) img[pg.off + pos] ^= 1; }
}

void run_c14(sim::RunCtx& ctx) {
    gen::g_row_cap = 60;
    validfile::VF vf; validfile::Opts vo; vo.small = true; vo.force_crc = true; vo.allow_nested = sim::draw(4) == 0;
    common::apply_benign_knobs();
    const std::string path = SIMDISK "c14.parquet", dpath = SIMDISK "c14-damaged.parquet";
    if (!validfile::make(vf, path, vo)) { ctx.refusal = true; SIM_COUNT("refusal.no_valid_file"); return; }
    validfile::finish(vf, ctx);
    uint32_t rs = sim::draw(0xFFFFFFFFu);
    // 1 run in 4: the undamaged image is also verified by 2-4 caller tasks at once on a cold library (lazy CRC tables built inside the schedule)
    bool concurrent = sim::draw(4) == 3; int K = 0; sim::SchedParams sp; std::vector<int> kmode;
    if (concurrent) { K = 2 + (int)sim::draw(3); sp = schedgen::gen(); if (sp.policy == 0) sp.policy = 1 + (int)sim::draw(4); for (int k = 0; k < K; k++) kmode.push_back((int)sim::draw(3)); }
    if (common::plan_only()) return;
    const Table& t = vf.table;
    ref::Parsed P = vf.from_carquet ? vf.parsed : ref::parse_file(vf.bytes.data(), vf.bytes.size());
    if (!P.ok) sim::harness_bug("C14: valid file does not parse: " + P.error);
    std::vector<PageSpan> pages; uint64_t page_bytes = 0;
    for (auto& ci : P.chunks) for (auto& pg : ci.pages) { if (!pg.has_crc || pg.comp_len == 0) continue; if (pg.type == 0 && pg.n_entries == 0) continue;      // a page without rows (peer files only): a reader that has delivered every row never needs to look at it
        pages.push_back({ci.rg, ci.col, pg.body_off, pg.comp_len, pg.first_entry, pg.type == 2}); page_bytes += pg.comp_len; if (pg.type == 2) SIM_COUNT("probe.dictionary_page_with_crc"); }
    // ---- the undamaged image verifies in every transport (CRC written by carquet or by zlib on the peer side)
    for (int mode = 0; mode < 3; mode++) {
        auto o = exec::open_image(path, mode, true);
        SIM_CHECK(o->r != nullptr, "open.valid_file_rejected", "%s: undamaged file does not open", exec::mode_name(mode));
        for (size_t g = 0; g < t.rgs.size(); g++) for (size_t c = 0; c < t.cols.size(); c++) {
            exec::ReadChunk rc = exec::read_chunk_whole(o->r, (int)g, (int)c, t.cols[c].type, t.cols[c].tlen, t.cols[c].max_def, (int64_t)t.rgs[g].cols[c].entries());
            SIM_CHECK(rc.ok, "crc.false_alarm_on_intact_file", "%s rg%zu col%zu: reading an undamaged file with verify_checksums=true fails (CRC written by %s)", exec::mode_name(mode), g, c, vf.from_carquet ? "carquet" : "zlib crc32 on the peer side");
            exec::compare_chunk(rc, t.rgs[g].cols[c], t.cols[c], exec::mode_name(mode), (int)g, (int)c);
        }
    }
    if (concurrent) {
        sim::make_library_cold();
        sim::sched_begin(sp);
        for (int k = 0; k < K; k++) sim::sched_spawn([&, k]() {
            auto o = exec::open_image(path, kmode[(size_t)k], true);
            SIM_CHECK(o->r != nullptr, "open.valid_file_rejected", "task %d: undamaged file does not open", k);
            for (size_t g = 0; g < t.rgs.size(); g++) for (size_t c = 0; c < t.cols.size(); c++) {
                exec::ReadChunk rc = exec::read_chunk_whole(o->r, (int)g, (int)c, t.cols[c].type, t.cols[c].tlen, t.cols[c].max_def, (int64_t)t.rgs[g].cols[c].entries());
                SIM_CHECK(rc.ok, "crc.false_alarm_on_intact_file", "task %d of %d (%s) rg%zu col%zu: concurrent first use of the library: reading an undamaged file with verify_checksums=true fails", k, K, exec::mode_name(kmode[(size_t)k]), g, c);
                exec::compare_chunk(rc, t.rgs[g].cols[c], t.cols[c], "concurrent", (int)g, (int)c);
            }
        });
        sim::sched_join_all();
        sim::SchedStats ss = sim::sched_stats();
        sim::sched_end();
        sim::check_pending_violation();
        if (ss.switches) SIM_COUNT("probe.concurrent_cold_verification_interleaved");
        SIM_COUNT("probe.concurrent_cold_verification");
    }
    if (pages.empty()) { ctx.evals = 1; return; }
    sim::Rng r; r.seed(rs, 14);
    bool exhaustive = page_bytes <= 8192;
    uint64_t evals = 0; int64_t idx = 0;
    const std::vector<uint8_t>& image = vf.bytes;
    // bound the work per image: beyond ~45 000 (quick) / 400 000 (thorough) damaged reads an even sample is taken
    uint64_t planned = 0; for (auto& pg : pages) planned += (uint64_t)pg.len * (ctx.thorough ? 24 + 6 : 8 + 2 + 6);
    // every damaged read re-opens the image (footer parse), so the allowance shrinks with the image size
    const uint64_t cap = (ctx.thorough ? 400000ull : 45000ull) * 2048 / std::max<uint64_t>(2048, image.size());
    const uint32_t keep_permille = planned <= cap ? 1000 : (uint32_t)(cap * 1000 / planned);
    if (keep_permille < 1000) { exhaustive = false; SIM_COUNT("probe.damage_enumeration_sampled"); }
    if (exhaustive) SIM_COUNT("probe.damage_enumeration_exhaustive");
    auto one = [&](const PageSpan& pg, int kind, uint64_t pos, uint32_t arg, int mode) {
        int64_t my = idx++;
        if (ctx.focus >= 0 && ctx.focus2 != my) return;
        uint64_t dh = sim::fnv(&my, sizeof my, 0x9E3779B97F4A7C15ull ^ rs);   // per-damage choices must not depend on which other damages ran
        if (keep_permille < 1000 && ctx.focus < 0 && (dh >> 48) % 1000 >= keep_permille) return;
        sim::set_focus(14, my);
        ctx.viol_focus = 14; ctx.viol_focus2 = my;
        std::vector<uint8_t> img = image;
        apply_damage(img, pg, kind, pos, arg);
        if (memcmp(img.data() + pg.off, image.data() + pg.off, pg.len) == 0) return;
        sim::disk_put(dpath, img);
        if (sim::L.keep && ctx.focus >= 0) fprintf(stderr, "SIM-PLAN damage #%lld: kind %d at body offset %llu (arg %u) of the %s page of rg%d col%d, stored bytes [%llu,+%u), first entry %zu, transport %d\n", (long long)my, kind, (unsigned long long)(kind == 0 ? pos / 8 : pos), arg, pg.dict ? "dictionary" : "data", pg.rg, pg.col, (unsigned long long)pg.off, pg.len, pg.first_entry, mode);
        const Col& c = t.cols[(size_t)pg.col]; const Chunk& want = t.rgs[(size_t)pg.rg].cols[(size_t)pg.col];
        static const char* KN[] = {"bit flip", "byte set", "burst"};
        {
            auto o = exec::open_image(dpath, mode, true);
            SIM_CHECK(o->r != nullptr, "damage.open_failed", "%s: file with a damaged page body (footer intact) does not open", exec::mode_name(mode));
            exec::ReadChunk rc = exec::read_chunk_whole(o->r, pg.rg, pg.col, c.type, c.tlen, c.max_def, (int64_t)want.entries());
            size_t limit = pg.dict ? 0 : pg.first_entry;
            SIM_CHECK(rc.ch.def.size() <= limit, "damage.data_of_damaged_page_delivered", "%s rg%d col%d (%s): %s at body offset %llu of the %s page (stored bytes [%llu,+%u), first entry %zu): verify_checksums=true yet %zu entries were delivered, i.e. rows of the damaged page",
                      exec::mode_name(mode), pg.rg, pg.col, type_name(c.type), KN[kind], (unsigned long long)(kind == 0 ? pos / 8 : pos), pg.dict ? "dictionary" : "data", (unsigned long long)pg.off, pg.len, pg.first_entry, rc.ch.def.size());
            SIM_CHECK(!rc.ok, "damage.not_reported", "%s rg%d col%d (%s): %s in the %s page at [%llu,+%u): reading stopped after %zu entries without reporting an error", exec::mode_name(mode), pg.rg, pg.col, type_name(c.type), KN[kind], pg.dict ? "dictionary" : "data", (unsigned long long)pg.off, pg.len, rc.ch.def.size());
            exec::compare_chunk_prefix(rc, want, c, exec::mode_name(mode), pg.rg, pg.col);
            evals++;
            // sometimes also through the batch reader: everything delivered is correct and an error is eventually reported
            if (!vf.has_repeated && dh % 24 == 0) {
                readhist::BatchCfg cfg; cfg.batch_size = 1 + (int32_t)((dh >> 16) % 40); cfg.num_threads = 1; cfg.proj_mode = 0; for (size_t k = 0; k < t.cols.size(); k++) cfg.cols.push_back((int32_t)k);
                readhist::Polarity pol; bool err = false;
                readhist::run_batch_reader(o->r, t, cfg, exec::mode_name(mode), pol, nullptr, nullptr, nullptr, &err);
                SIM_CHECK(err, "damage.batch_reader_not_reported", "%s: batch reader read a file with a damaged page to the end without an error", exec::mode_name(mode));
                SIM_COUNT("probe.damage_seen_by_batch_reader"); evals++;
            }
        }
        if ((dh >> 32) % 12 == 0) {       // verification off: only safety is required (ASan / guard pages / tick budget)
            auto o = exec::open_image(dpath, mode, false);
            if (o->r) {
                exec::ReadChunk rc = exec::read_chunk_whole(o->r, pg.rg, pg.col, c.type, c.tlen, c.max_def, (int64_t)want.entries());
                // memory-safe also means: whatever is handed back was written by the library - the same read with different garbage in fresh heap blocks agrees
                o.reset();
                uint8_t dirt0 = sim::allocplan.dirt; sim::allocplan.dirt = (uint8_t)(dirt0 ^ 0x5A);
                auto o2 = exec::open_image(dpath, mode, false);
                if (o2->r) {
                    exec::ReadChunk rc2 = exec::read_chunk_whole(o2->r, pg.rg, pg.col, c.type, c.tlen, c.max_def, (int64_t)want.entries());
                    sim::allocplan.dirt = dirt0;
                    SIM_CHECK(rc.ok == rc2.ok && rc.ch.def == rc2.ch.def && rc.ch.rep == rc2.ch.rep && rc.ch.vals == rc2.ch.vals, "uninitialised.result_depends_on_heap_garbage",
                              "%s rg%d col%d (%s): %s at body offset %llu, verification off: two reads of the same damaged file returned different levels/values (%zu vs %zu entries) when fresh heap memory held different garbage",
                              exec::mode_name(mode), pg.rg, pg.col, type_name(c.type), KN[kind], (unsigned long long)(kind == 0 ? pos / 8 : pos), rc.ch.def.size(), rc2.ch.def.size());
                }
                sim::allocplan.dirt = dirt0;
            }
            SIM_COUNT("probe.damage_read_without_verification"); evals++;
        }
        SIM_COUNT(kind == 0 ? "fault.bitflip" : kind == 1 ? "fault.byteset" : "fault.burst");
    };
    for (auto& pg : pages) {
        for (uint64_t bit = 0; bit < (uint64_t)pg.len * 8; bit++) {
            bool edge = bit < 64 * 8 || bit >= ((uint64_t)pg.len > 64 ? ((uint64_t)pg.len - 64) * 8 : 0);
            if (!exhaustive && !edge && r.below(16) != 0) { idx += 3; continue; }
            one(pg, 0, bit, 0, (int)(bit % 3));
            if ((exhaustive && ctx.thorough) || (bit & 7) == 0) { one(pg, 0, bit, 0, (int)((bit + 1) % 3)); one(pg, 0, bit, 0, (int)((bit + 2) % 3)); } else idx += 2;
        }
        for (uint64_t b = 0; b < pg.len; b++) { uint32_t a = (uint32_t)r.next(); for (int mode = 0; mode < 3; mode++) one(pg, 1, b, a, mode); }
        for (uint64_t b = 0; b < pg.len; b++) { uint32_t a = (uint32_t)r.next(); for (int mode = 0; mode < 3; mode++) one(pg, 2, b, a, mode); }
    }
    ctx.viol_focus = -1; ctx.viol_focus2 = -1;
    common::end_of_run_checks();
    ctx.evals = evals ? evals : 1;
}
}  // namespace

namespace sim {
void register_c14() {
    Property p;
    p.id = "C14"; p.level = "fault_enumeration";
    p.rule = "per seeded image (carquet-written with all codecs and small pages, or peer-written with dictionary pages and zlib-computed CRCs) every page body is damaged in turn: every single bit (when page bytes <= 8 KiB, else the first/last 64 bytes of each page plus a 1/16 sample; quick tier: each bit in one transport in rotation and bit 0 of every byte in all three, thorough tier: every bit in all three), every byte set to a different seeded value x 3 transports, a seeded 2-32 bit burst at every byte offset x 3 transports, all with verify_checksums=true: no entry of the damaged page (for a dictionary page: of the chunk) may be delivered, everything delivered before is a correct prefix, and the read must end in an error; 1/24 of the damages also go through the batch reader, 1/12 are re-read with verification off (safety only: sanitizers, and two reads under different heap garbage must agree); the undamaged image must verify in all transports, and in 1 run of 4 also when 2-4 caller tasks verify it at once on a cold library under a seeded schedule (lazy CRC tables); one evaluation = one damaged read";
    p.quick_runs = 160; p.thorough_runs = 12000;
    p.run = run_c14; p.recheck = 12;
    p.assumptions = {"only pages that carry a CRC are damaged (carquet always writes one; the peer is forced to)",
                     "the column reader may return the intact rows of earlier pages before failing; the failing call may be a later one ('up to' semantics)",
                     "the CRC function itself (all lengths/alignments, carquet_crc32_update composition) is a pure function not reachable beyond page CRCs: decided only as far as the file layer computes them (writer CRC == zlib in C05, zlib CRC verifies in carquet here)"};
    register_property(p);
}
}
