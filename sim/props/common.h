// Helpers shared by the property drivers.
#pragma once
#include "../core/sim.h"
#include "../core/cq.h"
#include "../seams/seams.h"
#include "../model/table.h"
#include "../model/gen.h"
#include "../model/exec.h"
#include <cstdlib>

namespace common {
using namespace model;

static inline bool plan_only() { static int v = -1; if (v < 0) v = getenv("SIM_PLAN_ONLY") ? 1 : 0; return v == 1; }

// knobs that must not change any result: CPU level, allocator contents/movement, stdio buffering
static inline void apply_benign_knobs() {
    static const int VB[] = {0, 1, 2, 2, 2, 2};
    static const size_t VS[] = {0, 0, 64, 512, 4096, 65536};
    uint32_t k = sim::draw(6);
    sim::sinkplan.vbuf_mode = VB[k]; sim::sinkplan.vbuf_size = VS[k];
    k = sim::draw(6);
    sim::srcplan.vbuf_mode = VB[k]; sim::srcplan.vbuf_size = VS[k];
    sim::allocplan.dirt = (uint8_t)(0xA5 ^ sim::draw(256));
    sim::allocplan.realloc_moves = sim::draw(2) == 1;
    int cap = 3 - (int)sim::draw(4);
    sim::set_cpu_cap(cap);
    sim::make_library_cold();
    sim::L.ev("knobs", sim::sinkplan.vbuf_mode, (int64_t)sim::sinkplan.vbuf_size, cap);
}

static inline int bucket(int64_t n) { int b = 0; while (n > 0) { b++; n >>= 1; } return b; }

static inline void plan_tags_and_shape(sim::RunCtx& ctx, const gen::WritePlan& p) {
    std::string sh = sim::fmt("%d/%lld/%d", p.codec, (long long)p.page_size, (int)p.path_mode);
    int64_t total_rows = 0; bool probe = false;
    for (size_t g = 0; g < p.rgs.size(); g++) {
        total_rows += p.table.rgs[g].rows;
        std::vector<int> nb(p.table.cols.size(), 0);
        for (auto& b : p.rgs[g].batches) {
            nb[(size_t)b.col]++;
            const Col& c = p.table.cols[(size_t)b.col];
            if (c.type == T_BOOL && b.count % 8 != 0 && b.start + b.count < p.table.rgs[g].rows) { ctx.tag("bool_batch_not_multiple_of_8"); SIM_COUNT("probe.bool_batch_not_multiple_of_8"); probe = true; }
            if (c.rep == OPT && !b.pass_def && b.count > 0) { ctx.tag("optional_without_def_levels"); SIM_COUNT("probe.optional_without_def_levels"); probe = true; }
            if (b.count == 0) { ctx.tag("zero_row_batch"); SIM_COUNT("probe.zero_row_batch"); }
        }
        for (size_t c = 0; c < p.table.cols.size(); c++) {
            sh += sim::fmt(";%d%d%d.%d.%d", p.table.cols[c].type, p.table.cols[c].rep, p.table.cols[c].tlen, std::min(nb[c], 6), bucket(p.table.rgs[g].rows));
            if (nb[c] >= 2) { SIM_COUNT("probe.two_batches_one_column"); probe = true; if (p.table.cols[c].rep == OPT) ctx.tag("optional_multi_batch"); }
            if (p.table.cols[c].rep == OPT && p.table.rgs[g].rows > 0) { SIM_COUNT("probe.nullable_column"); probe = true; }
            if (p.table.cols[c].type == T_BA && p.table.rgs[g].rows > 0) { SIM_COUNT("probe.byte_array_column"); probe = true; }
        }
        if (p.table.rgs[g].rows == 0) { ctx.tag("empty_row_group"); SIM_COUNT("probe.empty_row_group"); }
    }
    if (p.rgs.size() > 1) { SIM_COUNT("probe.several_row_groups"); probe = true; }
    if (p.page_size < 65536 && total_rows > 40) { SIM_COUNT("probe.small_pages_many_rows"); probe = true; }
    if (p.codec == 5) ctx.tag("codec_lz4_legacy_tag");
    ctx.shape = sim::fnv(sh.data(), sh.size());
    ctx.nontrivial = total_rows > 0 && probe;
}

// after the last handle is released: nothing may be left allocated or open
static inline void end_of_run_checks() {
    std::string what;
    size_t leaks = sim::ledger_leaks(&what);
    SIM_CHECK(leaks == 0, "resource.leak", "allocation ledger not empty after all handles were released: %s", what.c_str());
    sim::world_check_closed();
}

}  // namespace common
