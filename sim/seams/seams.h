// The simulated world's seams: disk + stdio/mmap layer, allocator, tick clock,
// CPU cap, scheduler entry points. All link-time (--wrap) except the three
// guarded hooks in /repo (CARQUET_VERIF).
#pragma once
#include <cstdint>
#include <cstdio>
#include <string>
#include <vector>
#include <map>

namespace sim {

// ---------------------------------------------------------------- disk
struct JournalOp { uint64_t off; uint32_t len; };
struct SimFile {
    std::vector<uint8_t> data;
    std::vector<JournalOp> journal;   // writes as delivered by stdio to the sink
};
struct Disk {
    std::map<std::string, SimFile> files;
};
extern Disk D;
#define SIMDISK "/simdisk/"

// writer-side fault plan (applies to every sink stream opened in this run)
struct SinkPlan {
    int64_t eio_at_op = -1;       // k-th sink write (0-based) returns error
    int eio_errno = 5;            // errno of that one failing write (EIO by default; EINTR/EAGAIN look transient to retry loops)
    int64_t enospc_at_byte = -1;  // sink accepts bytes below this offset, then short write + error forever
    bool close_fail = false;      // cookie close returns error
    bool flush_fail = false;      // the write issued from inside fflush/fclose fails
    int vbuf_mode = 0;            // 0 default, 1 unbuffered, 2 full with vbuf_size, 3 line-buffered with vbuf_size
    size_t vbuf_size = 0;
};
struct SrcPlan {
    int64_t eio_at_read = -1;     // k-th source read callback fails
    int64_t fail_at_seek = -1;    // k-th source seek callback fails
    int64_t early_eof_at = -1;    // source pretends to end at this offset (reads only)
    int64_t fopen_fail_at = -1;   // k-th fopen of a simdisk path returns NULL/ENOMEM
    int mmap_path_fault = 0;      // mmap transport: 1 open() fails (EMFILE), 2 fstat() fails (EIO), 3 mmap() fails (ENOMEM)
    int vbuf_mode = 0; size_t vbuf_size = 0;
};
struct IoStats {
    uint64_t sink_writes = 0, sink_bytes = 0, sink_seeks = 0, sink_closes = 0;
    uint64_t src_reads = 0, src_seeks = 0, fopens = 0, mmaps = 0, munmaps = 0;
    uint64_t fwrite_calls = 0, fflush_calls = 0, fclose_calls = 0, fread_calls = 0, fseek_calls = 0;
    uint64_t fsyncs = 0;
    bool sink_fault_fired = false, src_fault_fired = false;
    int in_flush = 0;
    int open_streams = 0, open_fds = 0, live_maps = 0;
};
extern SinkPlan sinkplan;
extern SrcPlan srcplan;
extern IoStats io;

// harness-side helpers (never counted as events)
FILE* open_sink_stream(const std::string& path);          // FILE* mode writer: cookie stream on a fresh disk file
int close_stream_real(FILE* f);                           // harness closes a stream it owns
std::vector<uint8_t>& disk_file(const std::string& path); // creates if missing
bool disk_has(const std::string& path);
void disk_put(const std::string& path, const std::vector<uint8_t>& bytes);

// ---------------------------------------------------------------- allocator
struct AllocPlan {
    int64_t fail_at = -1;         // k-th tracked request (0-based) fails
    uint32_t fail_prob = 0;       // per 65536, each tracked request fails with this probability (seeded)
    uint64_t prob_seed = 0;
    uint8_t dirt = 0xA5;          // fill pattern for fresh memory
    bool realloc_moves = false;   // buggify: realloc always moves, old block poisoned/freed
    int64_t zstd_dctx_fail_at = -1; // k-th ZSTD_createDCtx returns NULL
};
struct AllocStats {
    uint64_t requests = 0;        // tracked requests in this run
    uint64_t live_bytes = 0, peak_bytes = 0, granted_bytes = 0;
    uint64_t fired = 0;           // injected failures that fired
    uint64_t cap_refusals = 0;
    int64_t fired_in_api = -1;    // api sequence number during which the first failure fired
    std::string fired_api_name;
};
extern AllocPlan allocplan;
extern AllocStats alloc;
size_t ledger_leaks(std::string* describe = nullptr);  // live non-lifetime tracked blocks
void ledger_forget_all();                              // after a violation: stop tracking leftovers

// ---------------------------------------------------------------- api scope / ticks
extern uint64_t g_ticks;            // basic blocks executed inside carquet (trace-pc callback)
extern uint64_t g_tick_limit;       // absolute tick value at which the run is declared hung (0 = none)
extern uint64_t g_api_seq;          // number of API calls so far in this run
struct ApiScope {
    const char* name; uint64_t t0; uint64_t granted0;
    ApiScope(const char* n);
    ~ApiScope();
    void ret(int64_t v);
};
extern thread_local int tl_api_depth;
const char* current_api();
uint64_t api_ticks_last();          // ticks consumed by the last finished API call
uint64_t api_granted_last();        // bytes granted by allocator during the last API call
// tick budget for every following top-level API call: limit = base + c1 * bytes granted during the call
void set_call_budget(uint64_t base, uint64_t c1);
void set_next_preempt_tick(uint64_t t);
// enumeration drivers announce the fault point they are executing (reported if the process dies there)
void set_focus(int64_t a, int64_t b);

// CPU cap knob + cold library
void set_cpu_cap(int level);        // 0..3
void make_library_cold();
void zstd_thread_reset();         // drop the calling thread's cached ZSTD context (guarded hook)

// coverage map (shared across workers)
void cov_attach(uint8_t* shared_map, size_t size);
size_t cov_count();

// between the fault points of an enumeration: fresh fault plans and counters, same disk and knobs
void reset_fault_plans();
// violations noticed inside wrapped calls are parked and re-raised by the driver
void set_pending_violation(const char* clause, const char* detail);
void check_pending_violation();
// world reset at start of every run
void world_reset();
// to be called at the end of a run: verifies no stream/fd/mapping the library opened is still open
void world_check_closed();

// ---------------------------------------------------------------- scheduler hooks (simomp.cc)
void yield_point(int site);         // potential preemption point (I/O call, loop chunk, tick)
enum { SITE_IO = 1, SITE_FSEEK = 2, SITE_FREAD = 3, SITE_ALLOC = 4, SITE_LOOP = 5, SITE_TICK = 6, SITE_LOCK = 7 };
extern bool g_sched_active;
extern uint64_t g_next_preempt_tick;  // trace-pc compares against this

}  // namespace sim

// exit codes of a worker that cannot continue
#define EXIT_ASAN 77
#define EXIT_HANG 78
#define EXIT_HARNESS 79
