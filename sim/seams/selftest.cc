// Self-test of the descriptor-level part of the simulated file layer (simrun --selftest).
// The pinned carquet tree only uses stdio + open/fstat/mmap; these calls exist so that a correct
// refactoring (pread-based reader, fsync before close, write-to-temp-and-rename, stat for the size)
// keeps meeting the same simulated disk instead of raising false alarms.
#include "seams.h"
#include <fcntl.h>
#include <sys/stat.h>
#include <unistd.h>
#include <cstdio>
#include <cstring>

namespace sim {
#define ST_REQ(c) do { if (!(c)) { fprintf(stderr, "selftest failed at %s:%d: %s\n", __FILE__, __LINE__, #c); return 1; } } while (0)
int seams_selftest() {
    world_reset();
    const char* A = SIMDISK "st-a.bin"; const char* B = SIMDISK "st-b.bin";
    // raw descriptor writes reach the simulated disk
    int fd = open(A, O_WRONLY | O_CREAT | O_TRUNC, 0644);
    ST_REQ(fd >= 0);
    ST_REQ(write(fd, "hello ", 6) == 6 && write(fd, "world", 5) == 5);
    ST_REQ(fsync(fd) == 0 && fdatasync(fd) == 0);
    ST_REQ(close(fd) == 0);
    ST_REQ(disk_has(A) && disk_file(A).size() == 11 && memcmp(disk_file(A).data(), "hello world", 11) == 0);
    struct stat st;
    ST_REQ(stat(A, &st) == 0 && st.st_size == 11 && access(A, R_OK) == 0 && access(B, R_OK) != 0);
    // rename, then descriptor reads
    ST_REQ(rename(A, B) == 0 && !disk_has(A) && disk_has(B));
    fd = open(B, O_RDONLY);
    ST_REQ(fd >= 0);
    char buf[16] = {0};
    ST_REQ(pread(fd, buf, 5, 6) == 5 && memcmp(buf, "world", 5) == 0);
    ST_REQ(read(fd, buf, 5) == 5 && memcmp(buf, "hello", 5) == 0);
    ST_REQ(lseek(fd, 0, SEEK_CUR) == 5 && lseek(fd, -1, SEEK_END) == 10);
    ST_REQ(read(fd, buf, 8) == 1 && buf[0] == 'd' && read(fd, buf, 8) == 0);
    ST_REQ(fstat(fd, &st) == 0 && st.st_size == 11);
    ST_REQ(close(fd) == 0);
    // injected read faults reach descriptor reads too
    srcplan.eio_at_read = (int64_t)io.src_reads;
    fd = open(B, O_RDONLY);
    ST_REQ(fd >= 0 && pread(fd, buf, 4, 0) == -1 && io.src_fault_fired);
    srcplan = SrcPlan();
    ST_REQ(pread(fd, buf, 4, 0) == 4);
    ST_REQ(close(fd) == 0);
    // sink faults reach descriptor writes
    sinkplan.enospc_at_byte = 3;
    fd = open(A, O_WRONLY | O_CREAT | O_TRUNC, 0644);
    ST_REQ(fd >= 0);
    ssize_t w = write(fd, "abcdef", 6);
    ST_REQ(w == 3 || w == -1);
    ST_REQ(io.sink_fault_fired);
    close(fd);
    sinkplan = SinkPlan();
    ST_REQ(disk_file(A).size() <= 3);
    // fileno on simulated streams
    FILE* f = fopen(B, "rb");
    ST_REQ(f != nullptr);
    int sfd = fileno(f);
    ST_REQ(sfd >= 0 && fileno(f) == sfd && fstat(sfd, &st) == 0 && st.st_size == 11);
    ST_REQ(fseeko(f, 6, SEEK_SET) == 0 && ftello(f) == 6 && fread(buf, 1, 5, f) == 5 && memcmp(buf, "world", 5) == 0);
    ST_REQ(pread(sfd, buf, 2, 0) == 2 && memcmp(buf, "he", 2) == 0);
    ST_REQ(fclose(f) == 0);
    ST_REQ(fstat(sfd, &st) != 0);               // the descriptor died with the stream
    ST_REQ(unlink(B) == 0 && !disk_has(B));
    ST_REQ(io.open_fds == 0 && io.open_streams == 0);
    world_reset();
    printf("selftest ok\n");
    return 0;
}
}
