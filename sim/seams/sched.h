// Seeded scheduler over the simulated OpenMP runtime and caller tasks.
#pragma once
#include <cstdint>
#include <functional>
#include <vector>

namespace sim {

struct SchedParams {
    int policy = 0;                       // 0 run-to-completion, 1 random, 2 round-robin, 3 seek-stealer, 4 priorities with change points
    uint32_t switch_num = 1, switch_den = 4;   // policy 1/4: probability of a switch at a yield point
    std::vector<uint64_t> preempt_ticks;  // basic-block preemption points, relative to the start of each parallel region / task set
    int cores = 4;                        // what omp_get_max_threads() reports
};
struct SchedStats {
    uint64_t yields = 0, switches = 0, tick_preemptions = 0, regions = 0, tasks = 0, seek_read_split = 0, split_before_fread = 0, lazy_init_interleaved = 0;
};

void sched_begin(const SchedParams& p);   // from now on GOMP_parallel creates real teams and yield points may switch tasks
void sched_end();
int sched_spawn(std::function<void()> body);   // a caller task (an "application thread" with its own reader handles)
void sched_join_all();                         // run tasks until all caller tasks finished; re-throws their first violation
SchedStats sched_stats();
bool sched_poisoned();                         // a run ended while tasks were still in flight: the process must not run another one

}  // namespace sim
