// Link-time seams: stdio + mmap layer over the simulated disk, allocator with
// ledger/failure injection, tick clock from -fsanitize-coverage=trace-pc.
// Compiled WITHOUT coverage instrumentation.
#include "seams.h"
#include "../core/sim.h"
#include <cerrno>
#include <cstdarg>
#include <cstdlib>
#include <cstring>
#include <unordered_map>
#include <fcntl.h>
#include <unistd.h>
#include <sys/mman.h>
#include <sys/stat.h>

extern "C" {
FILE* __real_fopen(const char*, const char*);
int __real_fclose(FILE*);
size_t __real_fread(void*, size_t, size_t, FILE*);
size_t __real_fwrite(const void*, size_t, size_t, FILE*);
int __real_fseek(FILE*, long, int);
long __real_ftell(FILE*);
int __real_fflush(FILE*);
int __real_remove(const char*);
int __real_open(const char*, int, ...);
int __real_close(int);
int __real_fstat(int, struct stat*);
void* __real_mmap(void*, size_t, int, int, int, off_t);
int __real_munmap(void*, size_t);
int __real_madvise(void*, size_t, int);
void* __real_malloc(size_t);
void* __real_calloc(size_t, size_t);
void* __real_realloc(void*, size_t);
void __real_free(void*);
char* __real_strdup(const char*);
int __real_posix_memalign(void**, size_t, size_t);
void* __real_aligned_alloc(size_t, size_t);
void* __real_ZSTD_createDCtx(void);
size_t __real_ZSTD_decompressDCtx(void*, void*, size_t, const void*, size_t);
int __real_fileno(FILE*);
int __real_fsync(int);
int __real_fdatasync(int);
int __real_posix_fadvise(int, off_t, off_t, int);
ssize_t __real_read(int, void*, size_t);
ssize_t __real_pread(int, void*, size_t, off_t);
ssize_t __real_write(int, const void*, size_t);
off_t __real_lseek(int, off_t, int);
int __real_stat(const char*, struct stat*);
int __real_access(const char*, int);
int __real_rename(const char*, const char*);
int __real_unlink(const char*);
int __real_fseeko(FILE*, off_t, int);
off_t __real_ftello(FILE*);
// guarded hooks in /repo
void carquet_verif_set_cpu_cap(int level);
void carquet_verif_reset_detect(void);
void carquet_verif_reset_dispatch(void);
void carquet_verif_reset_crc32(void);
void carquet_verif_zstd_thread_reset(void);
}

extern "C" void __sanitizer_print_stack_trace(void);

namespace sim {

// violations noticed inside wrapped calls (C frames on the stack: cannot throw there); drivers poll after API calls
static std::string g_pending_clause, g_pending_detail;
void set_pending_violation(const char* clause, const char* detail) { if (g_pending_clause.empty()) { g_pending_clause = clause; g_pending_detail = detail; } }
void check_pending_violation() { if (!g_pending_clause.empty()) { std::string c = g_pending_clause, d = g_pending_detail; g_pending_clause.clear(); g_pending_detail.clear(); fail(c, d); } }

static std::unordered_map<void*, int>* g_dctx_busy;   // ZSTD contexts currently inside a decompress call

Disk D;
SinkPlan sinkplan;
SrcPlan srcplan;
IoStats io;
AllocPlan allocplan;
AllocStats alloc;
uint64_t g_ticks = 0, g_tick_limit = 0, g_api_seq = 0;
thread_local int tl_api_depth = 0;
static thread_local int tl_lifetime = 0;
static const char* g_cur_api = "";
static uint64_t g_last_api_ticks = 0, g_last_api_granted = 0;
bool g_sched_active = false;
uint64_t g_next_preempt_tick = ~0ull;
static uint64_t g_next_event_tick = ~0ull;
static uint64_t g_zstd_dctx_calls = 0;

// ------------------------------------------------------------------ cookies
struct Cookie {
    std::string path;
    uint64_t pos = 0;
    bool sink = false;
};
static std::unordered_map<FILE*, Cookie*> g_streams;

static bool is_sim_path(const char* p) { return p && strncmp(p, SIMDISK, strlen(SIMDISK)) == 0; }

static SimFile* file_of(Cookie* c) {
    auto it = D.files.find(c->path);
    return it == D.files.end() ? nullptr : &it->second;
}

static ssize_t ck_write(void* cv, const char* buf, size_t n) {
    Cookie* c = (Cookie*)cv;
    SimFile* f = file_of(c);
    uint64_t k = io.sink_writes++;
    L.ev("sink.write", (int64_t)c->pos, (int64_t)n, io.in_flush);
    if (!f) { errno = EIO; return 0; }
    if (sinkplan.eio_at_op >= 0 && (int64_t)k == sinkplan.eio_at_op) {
        io.sink_fault_fired = true; SIM_COUNT("fault.sink_eio"); if (sinkplan.eio_errno != EIO) SIM_COUNT("fault.sink_eio_transient_errno"); errno = sinkplan.eio_errno; return 0;
    }
    if (sinkplan.flush_fail && io.in_flush > 0) {
        io.sink_fault_fired = true; SIM_COUNT("fault.sink_flush_fail"); errno = EIO; return 0;
    }
    size_t take = n;
    if (sinkplan.enospc_at_byte >= 0 && c->pos + n > (uint64_t)sinkplan.enospc_at_byte) {
        take = c->pos >= (uint64_t)sinkplan.enospc_at_byte ? 0 : (size_t)(sinkplan.enospc_at_byte - c->pos);
        io.sink_fault_fired = true; SIM_COUNT("fault.sink_enospc"); errno = ENOSPC;
    }
    if (take) {
        if (f->data.size() < c->pos + take) f->data.resize(c->pos + take);
        memcpy(f->data.data() + c->pos, buf, take);
        f->journal.push_back({c->pos, (uint32_t)take});
        c->pos += take;
        io.sink_bytes += take;
    }
    return (ssize_t)take;
}

static ssize_t ck_read(void* cv, char* buf, size_t n) {
    Cookie* c = (Cookie*)cv;
    SimFile* f = file_of(c);
    uint64_t k = io.src_reads++;
    if (!f) { errno = EIO; return -1; }
    if (srcplan.eio_at_read >= 0 && (int64_t)k == srcplan.eio_at_read) {
        io.src_fault_fired = true; SIM_COUNT("fault.read_eio"); errno = EIO;
        L.ev("src.read", (int64_t)c->pos, (int64_t)n, -1);
        return -1;
    }
    uint64_t size = f->data.size();
    if (srcplan.early_eof_at >= 0 && (uint64_t)srcplan.early_eof_at < size) {
        size = (uint64_t)srcplan.early_eof_at;
        if (c->pos + n > size) { io.src_fault_fired = true; SIM_COUNT("fault.early_eof"); }
    }
    size_t take = c->pos >= size ? 0 : (size_t)std::min<uint64_t>(n, size - c->pos);
    if (take) memcpy(buf, f->data.data() + c->pos, take);
    L.ev("src.read", (int64_t)c->pos, (int64_t)n, (int64_t)take);
    c->pos += take;
    return (ssize_t)take;
}

static int ck_seek(void* cv, off64_t* off, int whence) {
    Cookie* c = (Cookie*)cv;
    SimFile* f = file_of(c);
    if (!f) { errno = EIO; return -1; }
    if (c->sink) io.sink_seeks++;
    else {
        uint64_t k = io.src_seeks++;
        if (srcplan.fail_at_seek >= 0 && (int64_t)k == srcplan.fail_at_seek) {
            io.src_fault_fired = true; SIM_COUNT("fault.seek_fail"); errno = EIO; return -1;
        }
    }
    int64_t base = whence == SEEK_SET ? 0 : whence == SEEK_CUR ? (int64_t)c->pos : (int64_t)f->data.size();
    int64_t np = base + *off;
    if (np < 0) { errno = EINVAL; return -1; }
    c->pos = (uint64_t)np;
    *off = np;
    return 0;
}

static int ck_close(void* cv) {
    Cookie* c = (Cookie*)cv;
    int r = 0;
    if (c->sink) {
        io.sink_closes++;
        if (sinkplan.close_fail) { io.sink_fault_fired = true; SIM_COUNT("fault.sink_close_fail"); errno = EIO; r = -1; }
    }
    L.ev("stream.close", c->sink, r);
    delete c;
    return r;
}

static FILE* make_stream(const std::string& path, bool sink, int vmode, size_t vsize) {
    Cookie* c = new Cookie;
    c->path = path; c->sink = sink;
    cookie_io_functions_t fn;
    fn.read = sink ? nullptr : ck_read;
    fn.write = sink ? ck_write : nullptr;
    fn.seek = ck_seek;
    fn.close = ck_close;
    FILE* f = fopencookie(c, sink ? "wb" : "rb", fn);
    if (!f) { delete c; return nullptr; }
    if (vmode == 1) setvbuf(f, nullptr, _IONBF, 0);
    else if (vmode == 2) setvbuf(f, nullptr, _IOFBF, vsize);
    else if (vmode == 3) setvbuf(f, nullptr, _IOLBF, vsize ? vsize : 4096);   // line-buffered (a tty/pty-like or user-configured stream): a write ending in '\n' flushes from inside fwrite
    g_streams[f] = c;
    io.open_streams++;
    return f;
}

FILE* open_sink_stream(const std::string& path) {
    D.files[path] = SimFile();
    return make_stream(path, true, sinkplan.vbuf_mode, sinkplan.vbuf_size);
}
int close_stream_real(FILE* f) {
    auto it = g_streams.find(f);
    if (it != g_streams.end()) { g_streams.erase(it); io.open_streams--; }
    return __real_fclose(f);
}
std::vector<uint8_t>& disk_file(const std::string& path) { return D.files[path].data; }
bool disk_has(const std::string& path) { return D.files.count(path) != 0; }
void disk_put(const std::string& path, const std::vector<uint8_t>& bytes) {
    SimFile f; f.data = bytes; D.files[path] = f;
}

// ------------------------------------------------------------------ mmap registry
struct MapRec { uint8_t* base; size_t total; uint8_t* ptr; size_t len; bool live; };
static std::vector<MapRec> g_maps;
// a simulated descriptor: from open() on a simulated path (reads go to the disk image through the same fault plan as
// stream reads; a descriptor opened for writing owns an unbuffered sink stream, so raw write() meets the same sink
// faults as fwrite), or from fileno() on a simulated stream (bound = that stream; not counted as an open descriptor)
struct FdRec { std::string path; uint64_t pos = 0; FILE* bound = nullptr; FILE* wstream = nullptr; };
static std::map<int, FdRec> g_fds;
static int g_next_fd = 1000000;

static MapRec* find_map(void* p) {
    for (auto& m : g_maps) if (m.ptr == p) return &m;
    return nullptr;
}

// ------------------------------------------------------------------ allocator
struct Ent { size_t size; bool lifetime; };
static std::unordered_map<void*, Ent>* g_ledger;   // heap-allocated once, never destroyed
static Rng g_alloc_rng;
static bool g_alloc_rng_seeded = false;
static const size_t CAP_SINGLE = 64ull << 20, CAP_LIVE = 256ull << 20;

static inline std::unordered_map<void*, Ent>& ledger() {
    if (!g_ledger) g_ledger = new std::unordered_map<void*, Ent>();
    return *g_ledger;
}

static bool should_fail(size_t size) {
    uint64_t k = alloc.requests++;
    L.ev("alloc", (int64_t)size);
    bool f = false;
    if (allocplan.fail_at >= 0 && (int64_t)k == allocplan.fail_at) f = true;
    if (!f && allocplan.fail_prob) {
        if (!g_alloc_rng_seeded) { g_alloc_rng.seed(allocplan.prob_seed, 77); g_alloc_rng_seeded = true; }
        if ((g_alloc_rng.next() & 0xFFFF) < allocplan.fail_prob) f = true;
    }
    if (f) {
        alloc.fired++;
        if (alloc.fired_in_api < 0) { alloc.fired_in_api = (int64_t)g_api_seq; alloc.fired_api_name = g_cur_api; }
        SIM_COUNT("fault.alloc_fail");
        L.ev("alloc.fail", (int64_t)k);
        if (L.keep) { fprintf(stderr, "SIM-FAULT: allocation request #%llu (%zu bytes) fails here:\n", (unsigned long long)k, size); __sanitizer_print_stack_trace(); }
        return true;
    }
    if (size > CAP_SINGLE || alloc.live_bytes + size > CAP_LIVE) {
        alloc.cap_refusals++; SIM_COUNT("fault.alloc_cap_refusal");
        L.ev("alloc.cap", (int64_t)size);
        return true;
    }
    return false;
}

static void* tracked_alloc(size_t size, bool zero) {
    // allocations owned by a process-lifetime object (per-thread ZSTD context) depend on the worker's
    // history, not on the run: they are neither events nor numbered fault sites
    if (tl_lifetime == 0 && should_fail(size)) { errno = ENOMEM; return nullptr; }
    void* p = nullptr;
    size_t asz = size ? size : 1;
    if (__real_posix_memalign(&p, 64, asz) != 0 || !p) { errno = ENOMEM; return nullptr; }
    memset(p, zero ? 0 : allocplan.dirt, asz);
    ledger()[p] = Ent{size, tl_lifetime > 0};
    alloc.live_bytes += size; alloc.granted_bytes += size;
    if (alloc.live_bytes > alloc.peak_bytes) alloc.peak_bytes = alloc.live_bytes;
    return p;
}

size_t ledger_leaks(std::string* describe) {
    size_t n = 0; size_t bytes = 0;
    for (auto& kv : ledger()) if (!kv.second.lifetime) { n++; bytes += kv.second.size; }
    if (describe && n) *describe = fmt("%zu blocks / %zu bytes still allocated", n, bytes);
    return n;
}
void ledger_forget_all() {
    auto& l = ledger();
    for (auto it = l.begin(); it != l.end();) { if (!it->second.lifetime) it = l.erase(it); else ++it; }
    alloc.live_bytes = 0;
}

// ------------------------------------------------------------------ api scope
static uint64_t g_budget_base = 0, g_budget_c1 = 0, g_api_t0 = 0, g_api_g0 = 0;
void set_call_budget(uint64_t base, uint64_t c1) { g_budget_base = base; g_budget_c1 = c1; }

static void recompute_next_event() {
    g_next_event_tick = g_tick_limit && g_tick_limit < g_next_preempt_tick ? g_tick_limit : g_next_preempt_tick;
}

ApiScope::ApiScope(const char* n) : name(n) {
    heartbeat();
    if (tl_api_depth++ == 0) {
        g_cur_api = n; g_api_seq++;
        t0 = g_api_t0 = g_ticks; granted0 = g_api_g0 = alloc.granted_bytes;
        if (g_budget_base) { g_tick_limit = g_ticks + g_budget_base; recompute_next_event(); }
    } else { t0 = g_ticks; granted0 = alloc.granted_bytes; }
}
ApiScope::~ApiScope() {
    if (--tl_api_depth == 0) {
        g_last_api_ticks = g_ticks - t0; g_last_api_granted = alloc.granted_bytes - granted0;
        if (g_tick_limit) { g_tick_limit = 0; recompute_next_event(); }
        g_cur_api = "";
    }
}
void ApiScope::ret(int64_t v) { L.ev(name, v); }
const char* current_api() { return g_cur_api; }
uint64_t api_ticks_last() { return g_last_api_ticks; }
uint64_t api_granted_last() { return g_last_api_granted; }

void set_cpu_cap(int level) { carquet_verif_set_cpu_cap(level); }
void zstd_thread_reset() { carquet_verif_zstd_thread_reset(); }
void make_library_cold() {
    carquet_verif_zstd_thread_reset();      // the calling thread's cached context (pool threads reset theirs per task)
    carquet_verif_reset_detect();
    carquet_verif_reset_dispatch();
    carquet_verif_reset_crc32();
}

// ------------------------------------------------------------------ coverage
static uint8_t g_cov_private[1 << 20];
static uint8_t* g_cov = g_cov_private;
static size_t g_cov_mask = (1 << 20) - 1;
void cov_attach(uint8_t* m, size_t size) { g_cov = m; g_cov_mask = size - 1; }
size_t cov_count() { size_t n = 0; for (size_t i = 0; i <= g_cov_mask; i++) n += g_cov[i] != 0; return n; }

// current fault point of an enumeration driver; printed when the process dies so that the parent can attribute the crash
static int64_t g_focus_a = -1, g_focus_b = -1;
static void print_focus() {
    char msg[96];
    int n = snprintf(msg, sizeof msg, "SIM-FOCUS %lld %lld\n", (long long)g_focus_a, (long long)g_focus_b);
    if (write(2, msg, (size_t)n) < 0) {}
}
extern "C" void __sanitizer_set_death_callback(void (*)(void));
void set_focus(int64_t a, int64_t b) {
    static bool installed = false;
    if (!installed) { __sanitizer_set_death_callback(print_focus); installed = true; }
    g_focus_a = a; g_focus_b = b;
    heartbeat();
}

void set_next_preempt_tick(uint64_t t) { g_next_preempt_tick = t; recompute_next_event(); }

static void tick_slow() {
    if (g_tick_limit && g_ticks >= g_tick_limit) {
        // budget depends on memory granted during the call: re-evaluate before declaring a hang
        // work may legitimately be proportional to memory the library was granted for this handle in an EARLIER call
        // (decode buffers are reused), so the allowance counts everything granted since the fault plans were last
        // reset plus what is live now - still bounded by the allocator caps
        uint64_t lim = g_api_t0 + g_budget_base + g_budget_c1 * (alloc.granted_bytes + alloc.live_bytes);
        if (g_ticks >= lim) {
            char msg[256];
            int n = snprintf(msg, sizeof msg, "SIM-HANG api=%s ticks=%llu budget=%llu\n", g_cur_api,
                             (unsigned long long)(g_ticks - g_api_t0), (unsigned long long)(lim - g_api_t0));
            if (write(2, msg, (size_t)n) < 0) {}
            print_focus();
            if (L.keep) __sanitizer_print_stack_trace();      // verbose replay: where the budget ran out
            _exit(EXIT_HANG);
        }
        g_tick_limit = lim; recompute_next_event();
    }
    if (g_sched_active && g_ticks >= g_next_preempt_tick) {
        g_next_preempt_tick = ~0ull; recompute_next_event();
        yield_point(SITE_TICK);
    }
}

void world_reset() {
    for (auto& kv : g_streams) __real_fclose(kv.first);   // leftovers of an aborted run
    g_streams.clear();
    for (auto& m : g_maps) __real_munmap(m.base, m.total);
    g_maps.clear();
    g_fds.clear();
    D.files.clear();
    sinkplan = SinkPlan(); srcplan = SrcPlan(); io = IoStats();
    allocplan = AllocPlan(); alloc = AllocStats();
    g_alloc_rng_seeded = false;
    ledger_forget_all();
    g_ticks = 0; g_tick_limit = 0; g_api_seq = 0; g_budget_base = 0; g_budget_c1 = 0;
    g_next_preempt_tick = ~0ull; recompute_next_event();
    g_zstd_dctx_calls = 0;
    g_cur_api = "";
    g_focus_a = g_focus_b = -1;
    g_pending_clause.clear(); g_pending_detail.clear();
    if (g_dctx_busy) g_dctx_busy->clear();
}

// between the fault points of an enumeration: fresh plans and counters, same disk
void reset_fault_plans() {
    int open_streams = io.open_streams, open_fds = io.open_fds, live_maps = io.live_maps;
    int vm = sinkplan.vbuf_mode; size_t vs = sinkplan.vbuf_size; int rvm = srcplan.vbuf_mode; size_t rvs = srcplan.vbuf_size;
    sinkplan = SinkPlan(); srcplan = SrcPlan(); io = IoStats();
    sinkplan.vbuf_mode = vm; sinkplan.vbuf_size = vs; srcplan.vbuf_mode = rvm; srcplan.vbuf_size = rvs;
    io.open_streams = open_streams; io.open_fds = open_fds; io.live_maps = live_maps;
    uint8_t dirt = allocplan.dirt; bool rm = allocplan.realloc_moves;
    allocplan = AllocPlan(); allocplan.dirt = dirt; allocplan.realloc_moves = rm;
    uint64_t live = alloc.live_bytes;
    alloc = AllocStats(); alloc.live_bytes = live;
    g_alloc_rng_seeded = false;
    g_zstd_dctx_calls = 0;
    g_api_seq = 0;
}

void world_check_closed() {
    check_pending_violation();
    SIM_CHECK(io.open_streams == 0, "resource.stream_left_open", "%d simulated streams still open", io.open_streams);
    SIM_CHECK(io.open_fds == 0, "resource.fd_left_open", "%d simulated fds still open", io.open_fds);
    SIM_CHECK(io.live_maps == 0, "resource.mapping_left", "%d simulated mappings still mapped", io.live_maps);
}

}  // namespace sim

using namespace sim;

// ====================================================================== wrappers
extern "C" {

__attribute__((no_sanitize("address"))) void __sanitizer_cov_trace_pc(void) {
    g_ticks++;
    g_cov[((uintptr_t)__builtin_return_address(0)) & g_cov_mask] = 1;
    if (__builtin_expect(g_ticks >= g_next_event_tick, 0)) tick_slow();
}

static void unbind_stream_fds(FILE* f) {
    for (auto it = g_fds.begin(); it != g_fds.end();) { if (it->second.bound == f) it = g_fds.erase(it); else ++it; }
}

FILE* __wrap_fopen(const char* path, const char* mode) {
    if (!is_sim_path(path)) return __real_fopen(path, mode);
    yield_point(SITE_IO);
    uint64_t k = io.fopens++;
    bool w = strchr(mode, 'w') != nullptr;
    if (srcplan.fopen_fail_at >= 0 && (int64_t)k == srcplan.fopen_fail_at) {
        io.src_fault_fired = true; SIM_COUNT("fault.fopen_fail"); errno = ENOMEM;
        L.ev("fopen", w, -1); return nullptr;
    }
    if (w) {
        D.files[path] = SimFile();
        FILE* f = make_stream(path, true, sinkplan.vbuf_mode, sinkplan.vbuf_size);
        L.ev("fopen", 1, f != nullptr);
        return f;
    }
    if (!D.files.count(path)) { errno = ENOENT; L.ev("fopen", 0, 0); return nullptr; }
    FILE* f = make_stream(path, false, srcplan.vbuf_mode, srcplan.vbuf_size);
    L.ev("fopen", 0, f != nullptr);
    return f;
}

int __wrap_fclose(FILE* f) {
    auto it = g_streams.find(f);
    if (it == g_streams.end()) return __real_fclose(f);
    yield_point(SITE_IO);
    g_streams.erase(it); io.open_streams--;
    unbind_stream_fds(f);
    io.fclose_calls++;
    io.in_flush++;
    int r = __real_fclose(f);
    io.in_flush--;
    L.ev("fclose", r);
    return r;
}

size_t __wrap_fread(void* p, size_t sz, size_t n, FILE* f) {
    if (!g_streams.count(f)) return __real_fread(p, sz, n, f);
    yield_point(SITE_FREAD);
    io.fread_calls++;
    size_t r = __real_fread(p, sz, n, f);
    L.ev("fread", (int64_t)(sz * n), (int64_t)r);
    return r;
}

size_t __wrap_fwrite(const void* p, size_t sz, size_t n, FILE* f) {
    if (!g_streams.count(f)) return __real_fwrite(p, sz, n, f);
    yield_point(SITE_IO);
    io.fwrite_calls++;
    size_t r = __real_fwrite(p, sz, n, f);
    L.ev("fwrite", (int64_t)(sz * n), (int64_t)r);
    return r;
}

int __wrap_fseek(FILE* f, long off, int whence) {
    if (!g_streams.count(f)) return __real_fseek(f, off, whence);
    yield_point(SITE_FSEEK);
    io.fseek_calls++;
    int r = __real_fseek(f, off, whence);
    L.ev("fseek", off, whence, r);
    return r;
}

long __wrap_ftell(FILE* f) {
    if (!g_streams.count(f)) return __real_ftell(f);
    long r = __real_ftell(f);
    L.ev("ftell", r);
    return r;
}

int __wrap_fflush(FILE* f) {
    if (!f || !g_streams.count(f)) return __real_fflush(f);
    yield_point(SITE_IO);
    io.fflush_calls++;
    io.in_flush++;
    int r = __real_fflush(f);
    io.in_flush--;
    L.ev("fflush", r);
    return r;
}

int __wrap_remove(const char* path) {
    if (!is_sim_path(path)) return __real_remove(path);
    bool had = D.files.erase(path) != 0;
    L.ev("remove", had);
    if (!had) { errno = ENOENT; return -1; }
    return 0;
}

int __wrap_open(const char* path, int flags, ...) {
    if (!is_sim_path(path)) {
        mode_t mode = 0;
        if (flags & O_CREAT) { va_list ap; va_start(ap, flags); mode = va_arg(ap, mode_t); va_end(ap); }
        return __real_open(path, flags, mode);
    }
    yield_point(SITE_IO);
    if (srcplan.mmap_path_fault == 1) { io.src_fault_fired = true; SIM_COUNT("fault.open_fail"); errno = EMFILE; L.ev("open", -2); return -1; }
    bool wr = (flags & O_ACCMODE) != O_RDONLY;
    if (wr && (flags & (O_CREAT | O_TRUNC))) { if ((flags & O_TRUNC) || !D.files.count(path)) D.files[path] = SimFile(); }
    if (!D.files.count(path)) { errno = ENOENT; L.ev("open", -1); return -1; }
    int fd = g_next_fd++;
    FdRec rec; rec.path = path;
    if (wr) { rec.wstream = make_stream(path, true, 1, 0); if (!rec.wstream) { errno = ENOMEM; return -1; } if (flags & O_APPEND) __real_fseeko(rec.wstream, 0, SEEK_END); }
    g_fds[fd] = rec;
    io.open_fds++;
    L.ev("open", 1);
    return fd;
}

int __wrap_close(int fd) {
    auto it = g_fds.find(fd);
    if (it == g_fds.end()) return __real_close(fd);
    int r = 0;
    if (it->second.bound) { errno = EBADF; L.ev("close", -1); return -1; }     // closing the descriptor under a live stream
    if (it->second.wstream) { FILE* w = it->second.wstream; it->second.wstream = nullptr; io.in_flush++; r = close_stream_real(w); io.in_flush--; }
    g_fds.erase(it); io.open_fds--;
    L.ev("close", r);
    return r;
}

// ---- descriptor-level calls a correct refactoring might start to use (none is used by the pinned tree)
int __wrap_fileno(FILE* f) {
    auto st = g_streams.find(f);
    if (st == g_streams.end()) return __real_fileno(f);
    for (auto& kv : g_fds) if (kv.second.bound == f) return kv.first;
    int fd = g_next_fd++;
    FdRec r; r.path = st->second->path; r.bound = f;
    g_fds[fd] = r;
    L.ev("fileno", 1);
    return fd;
}
int __wrap_fsync(int fd) {
    if (!g_fds.count(fd)) return __real_fsync(fd);
    yield_point(SITE_IO); io.fsyncs++; L.ev("fsync", 0);
    return 0;
}
int __wrap_fdatasync(int fd) {
    if (!g_fds.count(fd)) return __real_fdatasync(fd);
    yield_point(SITE_IO); io.fsyncs++; L.ev("fdatasync", 0);
    return 0;
}
int __wrap_posix_fadvise(int fd, off_t off, off_t len, int advice) {
    if (!g_fds.count(fd)) return __real_posix_fadvise(fd, off, len, advice);
    return 0;
}
static ssize_t fd_read_at(FdRec& r, void* buf, size_t n, uint64_t pos) {
    Cookie c; c.path = r.path; c.pos = pos; c.sink = false;
    return ck_read(&c, (char*)buf, n);            // same numbered read faults (EIO, early EOF) as stream reads
}
ssize_t __wrap_read(int fd, void* buf, size_t n) {
    auto it = g_fds.find(fd);
    if (it == g_fds.end()) return __real_read(fd, buf, n);
    yield_point(SITE_FREAD);
    ssize_t k = fd_read_at(it->second, buf, n, it->second.pos);
    if (k > 0) it->second.pos += (uint64_t)k;
    return k;
}
ssize_t __wrap_pread(int fd, void* buf, size_t n, off_t off) {
    auto it = g_fds.find(fd);
    if (it == g_fds.end()) return __real_pread(fd, buf, n, off);
    yield_point(SITE_FREAD);
    if (off < 0) { errno = EINVAL; return -1; }
    return fd_read_at(it->second, buf, n, (uint64_t)off);
}
ssize_t __wrap_write(int fd, const void* buf, size_t n) {
    auto it = g_fds.find(fd);
    if (it == g_fds.end()) return __real_write(fd, buf, n);
    if (!it->second.wstream) { errno = EBADF; return -1; }
    yield_point(SITE_IO);
    size_t k = __real_fwrite(buf, 1, n, it->second.wstream);     // unbuffered: reaches ck_write at once
    L.ev("write", (int64_t)n, (int64_t)k);
    if (k == 0 && n) return -1;
    return (ssize_t)k;
}
off_t __wrap_lseek(int fd, off_t off, int whence) {
    auto it = g_fds.find(fd);
    if (it == g_fds.end()) return __real_lseek(fd, off, whence);
    if (it->second.wstream) { if (__real_fseeko(it->second.wstream, off, whence) != 0) return -1; return __real_ftello(it->second.wstream); }
    auto f = D.files.find(it->second.path);
    if (f == D.files.end()) { errno = EIO; return -1; }
    int64_t base = whence == SEEK_SET ? 0 : whence == SEEK_CUR ? (int64_t)it->second.pos : (int64_t)f->second.data.size();
    int64_t np = base + off;
    if (np < 0) { errno = EINVAL; return -1; }
    it->second.pos = (uint64_t)np;
    L.ev("lseek", np);
    return (off_t)np;
}
static int sim_stat(const char* path, struct stat* st) {
    auto f = D.files.find(path);
    if (f == D.files.end()) { errno = ENOENT; return -1; }
    memset(st, 0, sizeof *st);
    st->st_size = (off_t)f->second.data.size(); st->st_mode = S_IFREG | 0644; st->st_nlink = 1; st->st_blksize = 4096;
    return 0;
}
int __wrap_stat(const char* path, struct stat* st) {
    if (!is_sim_path(path)) return __real_stat(path, st);
    return sim_stat(path, st);
}
int __wrap_access(const char* path, int mode) {
    if (!is_sim_path(path)) return __real_access(path, mode);
    if (!D.files.count(path)) { errno = ENOENT; return -1; }
    return 0;
}
int __wrap_rename(const char* from, const char* to) {
    if (!is_sim_path(from) && !is_sim_path(to)) return __real_rename(from, to);
    if (!is_sim_path(from) || !is_sim_path(to)) { errno = EXDEV; return -1; }
    auto f = D.files.find(from);
    if (f == D.files.end()) { errno = ENOENT; return -1; }
    SimFile moved = f->second; D.files.erase(f); D.files[to] = moved;
    for (auto& kv : g_streams) if (kv.second->path == from) kv.second->path = to;      // open streams follow the inode
    for (auto& kv : g_fds) if (kv.second.path == from) kv.second.path = to;
    L.ev("rename", 0);
    return 0;
}
int __wrap_unlink(const char* path) {
    if (!is_sim_path(path)) return __real_unlink(path);
    return __wrap_remove(path);
}
int __wrap_fseeko(FILE* f, off_t off, int whence) {
    if (!g_streams.count(f)) return __real_fseeko(f, off, whence);
    yield_point(SITE_FSEEK);
    io.fseek_calls++;
    int r = __real_fseeko(f, off, whence);
    L.ev("fseek", (int64_t)off, whence, r);
    return r;
}
off_t __wrap_ftello(FILE* f) {
    if (!g_streams.count(f)) return __real_ftello(f);
    off_t r = __real_ftello(f);
    L.ev("ftell", (int64_t)r);
    return r;
}

int __wrap_fstat(int fd, struct stat* st) {
    auto it = g_fds.find(fd);
    if (it == g_fds.end()) return __real_fstat(fd, st);
    if (srcplan.mmap_path_fault == 2) { io.src_fault_fired = true; SIM_COUNT("fault.fstat_fail"); errno = EIO; L.ev("fstat", -1); return -1; }
    memset(st, 0, sizeof *st);
    auto f = D.files.find(it->second.path);
    if (f == D.files.end()) { errno = EIO; return -1; }
    st->st_size = (off_t)f->second.data.size();
    st->st_mode = S_IFREG | 0644;
    L.ev("fstat", (int64_t)st->st_size);
    return 0;
}

void* __wrap_mmap(void* addr, size_t len, int prot, int flags, int fd, off_t off) {
    auto it = g_fds.find(fd);
    if (it == g_fds.end()) return __real_mmap(addr, len, prot, flags, fd, off);
    yield_point(SITE_IO);
    io.mmaps++;
    if (srcplan.mmap_path_fault == 3) { io.src_fault_fired = true; SIM_COUNT("fault.mmap_fail"); errno = ENOMEM; L.ev("mmap", 0, -2); return MAP_FAILED; }
    if (len == 0) { errno = EINVAL; L.ev("mmap", 0, -1); return MAP_FAILED; }
    auto f = D.files.find(it->second.path);
    if (f == D.files.end()) { errno = EIO; return MAP_FAILED; }
    const size_t PG = 4096;
    size_t data_pages = (len + PG - 1) / PG * PG;
    size_t total = data_pages + PG;
    uint8_t* base = (uint8_t*)__real_mmap(nullptr, total, PROT_READ | PROT_WRITE, MAP_PRIVATE | MAP_ANONYMOUS, -1, 0);
    if (base == MAP_FAILED) return MAP_FAILED;
    memset(base, 0xEE, data_pages);
    uint8_t* ptr = base + (data_pages - len);     // last byte of the file is the last byte before the guard page
    size_t n = std::min(len, f->second.data.size());
    if (n) memcpy(ptr, f->second.data.data(), n);
    mprotect(base, data_pages, PROT_READ);
    mprotect(base + data_pages, PG, PROT_NONE);
    g_maps.push_back(MapRec{base, total, ptr, len, true});
    io.live_maps++;
    L.ev("mmap", (int64_t)len, 1);
    return ptr;
}

int __wrap_munmap(void* p, size_t len) {
    MapRec* m = find_map(p);
    if (!m) return __real_munmap(p, len);
    if (m->live) { m->live = false; io.live_maps--; io.munmaps++; }
    mprotect(m->base, m->total, PROT_NONE);       // use after unmap faults for the rest of the run
    L.ev("munmap", (int64_t)len);
    return 0;
}

int __wrap_madvise(void* p, size_t len, int advice) {
    if (find_map(p)) return 0;
    return __real_madvise(p, len, advice);
}

// ---------------------------------------------------------------- allocator
void* __wrap_malloc(size_t size) {
    if (tl_api_depth == 0) return __real_malloc(size);
    return tracked_alloc(size, false);
}

void* __wrap_calloc(size_t n, size_t sz) {
    if (tl_api_depth == 0) return __real_calloc(n, sz);
    size_t total;
    if (__builtin_mul_overflow(n, sz, &total)) { alloc.requests++; errno = ENOMEM; return nullptr; }
    return tracked_alloc(total, true);
}

void __wrap_free(void* p) {
    if (!p) return;
    if (g_ledger) {
        auto it = g_ledger->find(p);
        if (it != g_ledger->end()) {
            alloc.live_bytes -= std::min<uint64_t>(alloc.live_bytes, it->second.size);
            g_ledger->erase(it);
        }
    }
    __real_free(p);
}

void* __wrap_realloc(void* p, size_t size) {
    if (!p) return __wrap_malloc(size);
    auto& l = ledger();
    auto it = l.find(p);
    if (it == l.end()) {
        if (tl_api_depth == 0) return __real_realloc(p, size);
        // block from outside the tracked world grown inside: move it into the ledger
        void* q = tracked_alloc(size, false);
        if (!q) return nullptr;
        // size of the old block is unknown to us; ASan knows
        extern size_t __sanitizer_get_allocated_size(const volatile void*);
        size_t old = __sanitizer_get_allocated_size(p);
        memcpy(q, p, std::min(old, size));
        __real_free(p);
        return q;
    }
    if (size == 0) { __wrap_free(p); return nullptr; }
    size_t old = it->second.size;
    bool lifetime = it->second.lifetime;
    if (tl_api_depth > 0 && !lifetime && tl_lifetime == 0 && should_fail(size)) { errno = ENOMEM; return nullptr; }
    if (!allocplan.realloc_moves && size <= old) {
        alloc.live_bytes -= (old - size);
        it->second.size = size;
        return p;
    }
    void* q = nullptr;
    if (__real_posix_memalign(&q, 64, size) != 0 || !q) { errno = ENOMEM; return nullptr; }
    memcpy(q, p, std::min(old, size));
    if (size > old) memset((uint8_t*)q + old, allocplan.dirt, size - old);
    l.erase(it);
    l[q] = Ent{size, lifetime};
    alloc.live_bytes += size; alloc.live_bytes -= std::min<uint64_t>(alloc.live_bytes, old);
    alloc.granted_bytes += size > old ? size - old : 0;
    if (alloc.live_bytes > alloc.peak_bytes) alloc.peak_bytes = alloc.live_bytes;
    __real_free(p);
    return q;
}

char* __wrap_strdup(const char* s) {
    if (tl_api_depth == 0) return __real_strdup(s);
    size_t n = strlen(s) + 1;
    char* p = (char*)tracked_alloc(n, false);
    if (p) memcpy(p, s, n);
    return p;
}

int __wrap_posix_memalign(void** out, size_t align, size_t size) {
    if (tl_api_depth == 0) return __real_posix_memalign(out, align, size);
    void* p = tracked_alloc(size, false);
    if (!p) return ENOMEM;
    *out = p;
    return 0;
}

void* __wrap_aligned_alloc(size_t align, size_t size) {
    if (tl_api_depth == 0) return __real_aligned_alloc(align, size);
    return tracked_alloc(size, false);
}

// A ZSTD_DCtx must not be used by two threads at once. The real call is atomic under the serialising scheduler
// (zstd is not instrumented), so non-atomicity is simulated here: mark the context busy, offer a context switch,
// and a second task entering with the same context while it is busy is a concurrent use.
size_t __wrap_ZSTD_decompressDCtx(void* ctx, void* dst, size_t cap, const void* src, size_t n) {
    if (!g_dctx_busy) g_dctx_busy = new std::unordered_map<void*, int>();
    int& busy = (*g_dctx_busy)[ctx];
    if (busy > 0) { set_pending_violation("zstd_context_shared", "one ZSTD decompression context is used by two tasks at the same time"); }
    busy++;
    if (g_sched_active) yield_point(SITE_IO);
    tl_lifetime++;                       // the context may grow its own workspace
    size_t r = __real_ZSTD_decompressDCtx(ctx, dst, cap, src, n);
    tl_lifetime--;
    (*g_dctx_busy)[ctx]--;
    return r;
}

void* __wrap_ZSTD_createDCtx(void) {
    uint64_t k = g_zstd_dctx_calls++;
    if (allocplan.zstd_dctx_fail_at >= 0 && (int64_t)k == allocplan.zstd_dctx_fail_at) {
        alloc.fired++; SIM_COUNT("fault.zstd_dctx_null");
        if (alloc.fired_in_api < 0) { alloc.fired_in_api = (int64_t)g_api_seq; alloc.fired_api_name = current_api(); }
        return nullptr;
    }
    tl_lifetime++;
    void* r = __real_ZSTD_createDCtx();
    tl_lifetime--;
    return r;
}

// ASan defaults: distinct exit code, no LeakSanitizer (the ledger decides leaks exactly)
__attribute__((used, visibility("default"))) const char* __asan_default_options(void) {
    return "exitcode=77:detect_leaks=0:abort_on_error=0:allocator_may_return_null=1:handle_segv=1:detect_stack_use_after_return=0";
}
__attribute__((used, visibility("default"))) const char* __ubsan_default_options(void) {
    return "halt_on_error=1:exitcode=77:print_stacktrace=1";
}

}  // extern "C"
