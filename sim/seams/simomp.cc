// Simulated OpenMP runtime (GOMP ABI as emitted by gcc 12) + seeded scheduler.
//
// Worker "threads" are real pthreads from a persistent pool (so __thread
// storage behaves as under libgomp) but exactly ONE task is runnable at any
// instant: a baton is passed under a mutex. Who runs next is the only
// nondeterminism and every such decision is a draw from the choice tape.
// Yield points: wrapped libc calls, GOMP loop chunk hand-out, pre-drawn tick
// indices (basic-block preemption through the trace-pc callback).
// When no scheduled region is active the runtime degenerates to a team of one.
#include "seams.h"
#include "sched.h"
#include "../core/sim.h"
#include <algorithm>
#include <condition_variable>
#include <mutex>
#include <pthread.h>
#include <unistd.h>
#include <vector>

namespace sim {

int g_sim_cores = 4;

namespace {

struct Team {
    int n = 1; int remaining = 0; struct Task* master = nullptr;
    bool ws_init = false; long next = 0, end = 0, incr = 1, chunk = 1; int ws_ended = 0;   // dynamic work share
};
struct Task {
    int id = 0;
    bool pool_thread = false;
    std::condition_variable cv;
    enum St { IDLE, READY, BLOCKED } st = IDLE;
    std::function<void()> work;
    Team* team = nullptr;                 // team this task is a *worker* of (null for main and caller tasks)
    uint32_t prio = 0;
    Violation* viol = nullptr;
    int wait_kind = 0;                    // 0 none, 1 team join, 2 callers join, 3 critical section, 4 loop barrier
};

std::mutex M;
Task g_main;                              // the run's main task (the harness thread)
std::vector<Task*> g_tasks;               // active tasks of the current scheduled run (main first)
std::vector<Task*> g_pool;                // persistent pool threads
Task* g_current = nullptr;
thread_local Task* tl_task = nullptr;
thread_local Team* tl_team = nullptr;     // team of the innermost parallel region this thread executes
thread_local int tl_tid = 0;
SchedParams g_params;
SchedStats g_stats;
uint64_t g_sched_hash = 0;
std::vector<uint64_t> g_preempt_ticks;
size_t g_preempt_next = 0;
uint64_t g_region_tick0 = 0;
int g_callers_running = 0, g_next_id = 1;
bool g_last_was_fseek = false;
bool g_poisoned = false;
Task* g_critical_owner = nullptr;

void mix_sched(uint64_t a, uint64_t b, uint64_t c) { g_sched_hash ^= a * 0x9E3779B97F4A7C15ull + b * 0xC2B2AE3D27D4EB4Full + c; g_sched_hash *= 1099511628211ull; g_sched_hash ^= g_sched_hash >> 29; }

std::vector<Task*> ready_tasks(Task* except) {
    std::vector<Task*> r;
    for (auto* t : g_tasks) if (t->st == Task::READY && t != except) r.push_back(t);
    return r;
}

void arm_next_preempt() {
    if (g_sched_active && g_preempt_next < g_preempt_ticks.size()) set_next_preempt_tick(g_region_tick0 + g_preempt_ticks[g_preempt_next]);
    else set_next_preempt_tick(~0ull);
}
void start_region_clock() { g_region_tick0 = g_ticks; g_preempt_next = 0; arm_next_preempt(); }

void switch_to(std::unique_lock<std::mutex>& lk, Task* me, Task* next, int site) {
    g_stats.switches++;
    mix_sched((uint64_t)next->id, (uint64_t)site, g_ticks - g_region_tick0);
    L.ev("sched.switch", me->id, next->id, site);
    g_current = next;
    next->cv.notify_one();
    me->cv.wait(lk, [&] { return g_current == me; });
}

Task* pick_any_ready(Task* me) {
    auto r = ready_tasks(me);
    if (r.empty()) return nullptr;
    return r[r.size() > 1 ? draw((uint32_t)r.size()) : 0];
}

[[noreturn]] void deadlock(const char* what) {
    char msg[200]; int n = snprintf(msg, sizeof msg, "SIM-HANG api=%s deadlock: no runnable task while %s\n", current_api(), what);
    if (write(2, msg, (size_t)n) < 0) {}
    _exit(EXIT_HANG);
}

template <class Cond> void block_until(Task* me, Cond cond, const char* what, int kind) {
    std::unique_lock<std::mutex> lk(M);
    while (!cond()) {
        me->st = Task::BLOCKED; me->wait_kind = kind;
        Task* next = pick_any_ready(me);
        if (!next) deadlock(what);
        switch_to(lk, me, next, 8);
        me->st = Task::READY; me->wait_kind = 0;
    }
}

void pool_thread_main(Task* me) {
    tl_task = me;
    std::unique_lock<std::mutex> lk(M);
    for (;;) {
        me->cv.wait(lk, [&] { return g_current == me && me->st == Task::READY && me->work; });
        std::function<void()> w = me->work;
        lk.unlock();
        try { w(); } catch (Violation& v) { me->viol = new Violation(v); }
        lk.lock();
        me->work = nullptr;
        me->st = Task::IDLE;
        g_tasks.erase(std::remove(g_tasks.begin(), g_tasks.end(), me), g_tasks.end());
        if (me->team) { Team* tm = me->team; me->team = nullptr; if (--tm->remaining == 0 && tm->master->st == Task::BLOCKED && tm->master->wait_kind == 1) tm->master->st = Task::READY; }
        else { if (--g_callers_running == 0 && g_main.st == Task::BLOCKED && g_main.wait_kind == 2) g_main.st = Task::READY; }
        Task* next = pick_any_ready(me);
        if (!next) deadlock("a task finished");
        g_stats.switches++;
        mix_sched((uint64_t)next->id, 99, g_ticks - g_region_tick0);
        L.ev("sched.finish", me->id, next->id);
        g_current = next;
        next->cv.notify_one();
    }
}
void* pool_trampoline(void* p) { pool_thread_main((Task*)p); return nullptr; }

Task* acquire_pool_task() {
    for (auto* t : g_pool) if (t->st == Task::IDLE && !t->work) return t;
    Task* t = new Task; t->pool_thread = true;
    g_pool.push_back(t);
    pthread_t th; pthread_attr_t a; pthread_attr_init(&a); pthread_attr_setstacksize(&a, 8u << 20);   // glibc's default thread stack
    if (pthread_create(&th, &a, pool_trampoline, t) != 0) { fprintf(stderr, "HARNESS-BUG: pthread_create failed\n"); _exit(EXIT_HARNESS); }
    pthread_attr_destroy(&a);
    pthread_detach(th);
    return t;
}

Task* new_task(std::function<void()> work, Team* team) {
    Task* t = acquire_pool_task();
    // pool threads outlive runs: their cached per-thread ZSTD context must not leak history into the next task
    t->id = g_next_id++; t->team = team; t->viol = nullptr;
    t->work = [w = std::move(work)]() { zstd_thread_reset(); w(); zstd_thread_reset(); };
    t->st = Task::READY; t->prio = draw(1u << 16); t->wait_kind = 0;
    g_tasks.push_back(t);
    g_stats.tasks++;
    return t;
}

}  // namespace

// ---------------------------------------------------------------- public scheduler API
void sched_begin(const SchedParams& p) {
    std::unique_lock<std::mutex> lk(M);
    g_params = p; g_stats = SchedStats(); g_sched_hash = 1469598103934665603ull;
    g_preempt_ticks = p.preempt_ticks; std::sort(g_preempt_ticks.begin(), g_preempt_ticks.end());
    g_main.id = 0; g_main.st = Task::READY; g_main.team = nullptr; g_main.wait_kind = 0; g_main.prio = draw(1u << 16);
    tl_task = &g_main; g_current = &g_main;
    g_tasks.clear(); g_tasks.push_back(&g_main);
    g_callers_running = 0; g_next_id = 1; g_critical_owner = nullptr; g_last_was_fseek = false;
    g_sim_cores = p.cores > 0 ? p.cores : 4;
    g_sched_active = true;
    start_region_clock();
}

void sched_end() {
    std::unique_lock<std::mutex> lk(M);
    if (g_tasks.size() > 1) g_poisoned = true;      // tasks still in flight: this process cannot host another run
    g_sched_active = false;
    set_next_preempt_tick(~0ull);
}

SchedStats sched_stats() { return g_stats; }
bool sched_poisoned() { return g_poisoned; }

int sched_spawn(std::function<void()> body) {
    std::unique_lock<std::mutex> lk(M);
    g_callers_running++;
    Task* t = new_task(std::move(body), nullptr);
    return t->id;
}

void sched_join_all() {
    block_until(&g_main, [] { return g_callers_running == 0; }, "joining caller tasks", 2);
    Violation* first = nullptr;
    for (auto* t : g_pool) if (t->viol) { if (!first) first = t->viol; else delete t->viol; t->viol = nullptr; }
    if (first) { Violation v = *first; delete first; throw v; }
}

void sched_end_of_run(uint64_t* h) {
    *h = g_stats.switches ? g_sched_hash : 0;
    if (g_sched_active) sched_end();
    for (auto* t : g_pool) if (t->viol) { delete t->viol; t->viol = nullptr; }
}

// ---------------------------------------------------------------- yield points
void yield_point(int site) {
    if (!g_sched_active) return;
    Task* me = tl_task;
    if (!me || g_current != me) return;           // threads outside the simulation
    std::unique_lock<std::mutex> lk(M);
    g_stats.yields++;
    bool forced = false;
    if (site == SITE_TICK) { forced = true; g_preempt_next++; arm_next_preempt(); }
    bool was_fseek = g_last_was_fseek;
    g_last_was_fseek = site == SITE_FSEEK;
    auto r = ready_tasks(me);
    if (r.empty()) return;
    if (forced) g_stats.tick_preemptions++;
    bool sw = false;
    switch (g_params.policy) {
        case 0: sw = false; break;                                                        // run to completion
        case 1: sw = draw(g_params.switch_den) < g_params.switch_num; break;              // random at yield points
        case 2: sw = true; break;                                                          // round robin
        case 3: sw = (site == SITE_FREAD && was_fseek) || draw(16) == 1; break;            // seek stealer: between fseek and fread
        default: { for (auto* t : r) if (t->prio > me->prio) sw = true;                    // priorities with random change points (PCT style)
                   if (draw(g_params.switch_den) < g_params.switch_num) { me->prio = draw(1u << 16); for (auto* t : r) if (t->prio > me->prio) sw = true; } break; }
    }
    if (forced) sw = true;
    if (!sw) return;
    Task* next;
    if (g_params.policy == 2) { next = r[0]; for (auto* t : r) if (t->id > me->id) { next = t; break; } }
    else if (g_params.policy >= 4 && !forced) { next = r[0]; for (auto* t : r) if (t->prio > next->prio) next = t; }
    else next = r[r.size() > 1 ? draw((uint32_t)r.size()) : 0];
    if (site == SITE_FREAD && was_fseek) g_stats.seek_read_split++;
    switch_to(lk, me, next, site);
}

}  // namespace sim

// ======================================================================= GOMP ABI
using namespace sim;

extern "C" {

void GOMP_parallel(void (*fn)(void*), void* data, unsigned num_threads, unsigned /*flags*/) {
    Task* me = tl_task;
    Team* outer_team = tl_team; int outer_tid = tl_tid;
    bool scheduled = g_sched_active && me && g_current == me;
    int n = 1;
    if (scheduled) { n = num_threads ? (int)num_threads : g_sim_cores; if (n < 1) n = 1; if (n > 16) n = 16; }
    Team team; team.n = n; team.master = me; team.remaining = n - 1;
    if (n > 1) {
        std::unique_lock<std::mutex> lk(M);
        g_stats.regions++;
        Team* tp = &team;
        for (int i = 1; i < n; i++) new_task([fn, data, tp, i]() { tl_team = tp; tl_tid = i; tl_api_depth = 1; fn(data); tl_api_depth = 0; tl_team = nullptr; tl_tid = 0; }, tp);
        start_region_clock();
    }
    tl_team = &team; tl_tid = 0;
    if (n > 1) yield_point(SITE_LOOP);           // workers may start before the master
    fn(data);
    tl_team = outer_team; tl_tid = outer_tid;
    if (n > 1) block_until(me, [&team] { return team.remaining == 0; }, "joining an OpenMP team", 1);
}

static bool ws_next(Team* t, long* istart, long* iend) {
    if (t->incr > 0 ? t->next >= t->end : t->next <= t->end) return false;
    long s = t->next, e = s + t->chunk * t->incr;
    if (t->incr > 0 ? e > t->end : e < t->end) e = t->end;
    t->next = e; *istart = s; *iend = e;
    return true;
}

bool GOMP_loop_nonmonotonic_dynamic_start(long start, long end, long incr, long chunk, long* istart, long* iend) {
    Team* t = tl_team;
    static thread_local Team orphan;             // work-sharing loop outside any parallel region: team of one
    if (!t) { t = &orphan; t->n = 1; tl_team = t; }
    if (!t->ws_init) { t->ws_init = true; t->next = start; t->end = end; t->incr = incr ? incr : 1; t->chunk = chunk > 0 ? chunk : 1; t->ws_ended = 0; }
    yield_point(SITE_LOOP);
    return ws_next(t, istart, iend);
}
bool GOMP_loop_nonmonotonic_dynamic_next(long* istart, long* iend) {
    Team* t = tl_team;
    if (!t) return false;
    yield_point(SITE_LOOP);
    return ws_next(t, istart, iend);
}
bool GOMP_loop_dynamic_start(long s, long e, long i, long c, long* a, long* b) { return GOMP_loop_nonmonotonic_dynamic_start(s, e, i, c, a, b); }
bool GOMP_loop_dynamic_next(long* a, long* b) { return GOMP_loop_nonmonotonic_dynamic_next(a, b); }
bool GOMP_loop_nonmonotonic_guided_start(long s, long e, long i, long c, long* a, long* b) { return GOMP_loop_nonmonotonic_dynamic_start(s, e, i, c, a, b); }
bool GOMP_loop_nonmonotonic_guided_next(long* a, long* b) { return GOMP_loop_nonmonotonic_dynamic_next(a, b); }
bool GOMP_loop_guided_start(long s, long e, long i, long c, long* a, long* b) { return GOMP_loop_nonmonotonic_dynamic_start(s, e, i, c, a, b); }
bool GOMP_loop_guided_next(long* a, long* b) { return GOMP_loop_nonmonotonic_dynamic_next(a, b); }
bool GOMP_loop_runtime_start(long s, long e, long i, long* a, long* b) { return GOMP_loop_nonmonotonic_dynamic_start(s, e, i, 1, a, b); }
bool GOMP_loop_runtime_next(long* a, long* b) { return GOMP_loop_nonmonotonic_dynamic_next(a, b); }
bool GOMP_loop_static_start(long s, long e, long i, long c, long* a, long* b) { return GOMP_loop_nonmonotonic_dynamic_start(s, e, i, c > 0 ? c : 1, a, b); }
bool GOMP_loop_static_next(long* a, long* b) { return GOMP_loop_nonmonotonic_dynamic_next(a, b); }

void GOMP_loop_end_nowait(void) {
    Team* t = tl_team;
    if (!t) return;
    if (++t->ws_ended >= t->n) { t->ws_init = false; t->ws_ended = 0; }
}
void GOMP_loop_end(void) {
    // loop end with barrier: wait until every member of the team has finished the loop
    Team* t = tl_team;
    if (!t) return;
    Task* me = tl_task;
    if (t->n <= 1 || !g_sched_active || !me) { GOMP_loop_end_nowait(); return; }
    t->ws_ended++;
    block_until(me, [t] { return t->ws_ended >= t->n || !t->ws_init; }, "a loop-end barrier", 4);
    t->ws_init = false;
    { std::unique_lock<std::mutex> lk(M); for (auto* x : g_tasks) if (x->st == Task::BLOCKED && x->wait_kind == 4) x->st = Task::READY; }
}
void GOMP_barrier(void) { yield_point(SITE_LOCK); }

// critical sections / atomics: one runnable task at a time, so mutual exclusion only needs an owner record
void GOMP_critical_start(void) {
    Task* me = tl_task;
    if (!g_sched_active || !me || g_current != me) return;
    yield_point(SITE_LOCK);
    L.ev("critical.enter", me->id, g_critical_owner ? g_critical_owner->id : -1);
    if (g_critical_owner && g_critical_owner != me) block_until(me, [] { return g_critical_owner == nullptr; }, "entering a critical section", 3);
    g_critical_owner = me;
}
void GOMP_critical_end(void) {
    Task* me = tl_task;
    if (!g_sched_active || !me || g_current != me) return;
    std::unique_lock<std::mutex> lk(M);
    g_critical_owner = nullptr;
    for (auto* t : g_tasks) if (t->st == Task::BLOCKED && t->wait_kind == 3) t->st = Task::READY;   // waiters for the critical section re-check
}
void GOMP_critical_name_start(void** /*p*/) { GOMP_critical_start(); }
void GOMP_critical_name_end(void** /*p*/) { GOMP_critical_end(); }
void GOMP_atomic_start(void) { GOMP_critical_start(); }
void GOMP_atomic_end(void) { GOMP_critical_end(); }
bool GOMP_single_start(void) { return tl_tid == 0; }

int omp_get_max_threads(void) { return sim::g_sim_cores; }
int omp_get_thread_num(void) { return tl_tid; }
int omp_get_num_threads(void) { return tl_team ? tl_team->n : 1; }
int omp_in_parallel(void) { return tl_team && tl_team->n > 1; }
void omp_set_num_threads(int n) { if (n > 0) sim::g_sim_cores = n; }
int omp_get_num_procs(void) { return sim::g_sim_cores; }

}  // extern "C"
