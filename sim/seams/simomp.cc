// Simulated OpenMP runtime (GOMP ABI as emitted by gcc 12) + seeded scheduler.
// STAGE 1: serial runtime (team of one). Replaced by the baton-passing scheduler in stage 2.
#include "seams.h"
#include "../core/sim.h"

namespace sim {
void yield_point(int) {}
void sched_end_of_run(uint64_t* h) { *h = 0; }
int g_sim_cores = 4;
}

extern "C" {
static long g_it, g_end, g_incr, g_chunk;
void GOMP_parallel(void (*fn)(void*), void* data, unsigned, unsigned) { fn(data); }
bool GOMP_loop_nonmonotonic_dynamic_start(long start, long end, long incr, long chunk, long* istart, long* iend) {
    g_it = start; g_end = end; g_incr = incr; g_chunk = chunk;
    if (g_it >= g_end) return false;
    *istart = g_it; *iend = g_it + g_chunk * g_incr > g_end ? g_end : g_it + g_chunk * g_incr; g_it = *iend;
    return true;
}
bool GOMP_loop_nonmonotonic_dynamic_next(long* istart, long* iend) {
    if (g_it >= g_end) return false;
    *istart = g_it; *iend = g_it + g_chunk * g_incr > g_end ? g_end : g_it + g_chunk * g_incr; g_it = *iend;
    return true;
}
void GOMP_loop_end_nowait(void) {}
void GOMP_loop_end(void) {}
void GOMP_barrier(void) {}
int omp_get_max_threads(void) { return sim::g_sim_cores; }
int omp_get_thread_num(void) { return 0; }
int omp_get_num_threads(void) { return 1; }
}
