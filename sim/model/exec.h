// Executes plans against the real carquet API inside the simulated world.
#pragma once
#include "gen.h"
#include "../core/cq.h"
#include <memory>

namespace exec {
using namespace model;

static inline carquet_physical_type_t to_cq_type(int t) { return (carquet_physical_type_t)t; }
static inline carquet_compression_t to_cq_codec(int c) { return (carquet_compression_t)c; }

// in-memory width of one value slot in carquet's API buffers
static inline size_t slot_width(int type, int tlen) {
    switch (type) {
        case T_BOOL: return 1; case T_I32: case T_F32: return 4; case T_I64: case T_F64: return 8; case T_I96: return 12;
        case T_BA: return sizeof(carquet_byte_array_t); case T_FLBA: return (size_t)tlen; default: return 0;
    }
}

// exact-size heap buffer (ASan red zones on both sides), never NULL
// 64-byte aligned so that alignment-dependent code paths (and therefore tick counts and preemption points) are the
// same in every process; the block is exactly `bytes` long, so ASan's red zone starts right behind the last byte.
struct Buf {
    uint8_t* p = nullptr; size_t n;
    explicit Buf(size_t bytes, uint8_t fill = 0xCD) : n(bytes) {
        void* q = nullptr;
        if (posix_memalign(&q, 64, bytes ? bytes : 1) != 0 || !q) sim::harness_bug("harness allocation failed");
        p = (uint8_t*)q; memset(p, fill, bytes ? bytes : 1);
    }
    Buf(const Buf&) = delete; Buf& operator=(const Buf&) = delete;
    ~Buf() { free(p); }
    uint8_t* get() { return p; }
};

// pack model values [v0,v1) of a column into a carquet input buffer; keeps backing storage for byte arrays alive
struct Packed {
    Buf buf; std::vector<std::unique_ptr<Buf>> backing;
    Packed(size_t n) : buf(n) {}
};
static inline std::unique_ptr<Packed> pack_values(const Col& c, const std::vector<std::string>& vals, size_t v0, size_t v1) {
    size_t w = slot_width(c.type, c.tlen), n = v1 - v0;
    auto pk = std::make_unique<Packed>(w * n);
    uint8_t* out = pk->buf.get();
    for (size_t i = 0; i < n; i++) {
        const std::string& v = vals[v0 + i];
        if (c.type == T_BA) {
            carquet_byte_array_t ba;
            auto b = std::make_unique<Buf>(v.size());
            memcpy(b->get(), v.data(), v.size());
            ba.data = b->get(); ba.length = (int32_t)v.size();
            pk->backing.push_back(std::move(b));
            memcpy(out + i * w, &ba, sizeof ba);
        } else memcpy(out + i * w, v.data(), w);
    }
    return pk;
}

struct WriteOutcome {
    bool created = false;
    bool all_ok = false;            // every writer call returned OK
    carquet_status_t close_status = CARQUET_OK;
    int first_bad_call = -1;        // index of the first non-OK call
    carquet_status_t first_bad_status = CARQUET_OK;
    int calls = 0;
    std::vector<uint8_t> image;     // what the sink holds afterwards
    bool file_exists = false;
    std::string path;
};

static inline carquet_schema_t* build_schema(const Table& t, carquet_status_t* st) {
    carquet_error_t err = CARQUET_ERROR_INIT;
    carquet_schema_t* s = cq::schema_create(&err);
    if (!s) { *st = err.code ? err.code : CARQUET_ERROR_OUT_OF_MEMORY; return nullptr; }
    for (auto& c : t.cols) {
        carquet_logical_type_t lt; memset(&lt, 0, sizeof lt); bool has_lt = false;
        if (c.logical == 10) { has_lt = true; lt.id = CARQUET_LOGICAL_INTEGER; lt.params.integer.bit_width = (int8_t)c.lp1; lt.params.integer.is_signed = c.lp2 != 0; }
        carquet_status_t r = cq::schema_add_column(s, c.name.c_str(), to_cq_type(c.type), has_lt ? &lt : nullptr, (carquet_field_repetition_t)c.rep, c.tlen);
        if (r != CARQUET_OK) { *st = r; cq::schema_free(s); return nullptr; }
    }
    *st = CARQUET_OK;
    return s;
}

// An invalid writer call slipped into the history before writer call #g_bad_call_at (-1: none). It is not one of the plan's calls:
// kind 0: column index -1, 1: column index == number of columns. Its status lands in g_bad_call_status.
// kind 2: no extra call - instead the plan's write_batch #g_bad_call_at (if it has rows) is left out, so that the columns of that row group end up with different lengths.
inline int g_bad_call_at = -1, g_bad_call_kind = 0; inline carquet_status_t g_bad_call_status = CARQUET_OK; inline bool g_bad_call_made = false;

// abort_after >= 0: call carquet_writer_abort after that many writer calls (instead of continuing)
// on_error: 0 keep calling to the end (close), 1 abort right after the first non-OK call, 2 close right after it
static inline WriteOutcome run_writer(const gen::WritePlan& p, const std::string& path, int abort_after = -1, FILE** user_stream_out = nullptr, int on_error = 0) {
    WriteOutcome o; o.path = path;
    carquet_status_t st;
    carquet_schema_t* schema = build_schema(p.table, &st);
    if (!schema) { o.first_bad_call = 0; o.first_bad_status = st; return o; }
    carquet_writer_options_t opts;
    carquet_writer_options_init(&opts);
    opts.compression = to_cq_codec(p.codec);
    opts.page_size = p.page_size;
    if (!p.created_by.empty()) opts.created_by = p.created_by.c_str();
    carquet_error_t err = CARQUET_ERROR_INIT;
    FILE* stream = nullptr;
    carquet_writer_t* w;
    if (p.path_mode) w = cq::writer_create(path.c_str(), schema, &opts, &err);
    else { stream = sim::open_sink_stream(path); w = cq::writer_create_file(stream, schema, &opts, &err); }
    if (!w) {
        o.first_bad_call = 0; o.first_bad_status = err.code ? err.code : CARQUET_ERROR_INTERNAL;
        cq::schema_free(schema);
        if (stream) sim::close_stream_real(stream);
        o.file_exists = sim::disk_has(path);
        if (o.file_exists) o.image = sim::disk_file(path);
        return o;
    }
    o.created = true;
    bool ok = true; int call = 0; bool aborted = false;
    auto note = [&](carquet_status_t r) { if (r != CARQUET_OK && o.first_bad_call < 0) { o.first_bad_call = call; o.first_bad_status = r; ok = false; } call++; };
    for (size_t g = 0; g < p.rgs.size() && !aborted; g++) {
        const RowGroup& rg = p.table.rgs[g];
        // value index of each row start per column (dense values)
        std::vector<std::vector<size_t>> vidx(p.table.cols.size());
        for (size_t c = 0; c < p.table.cols.size(); c++) {
            auto& ch = rg.cols[c]; auto& v = vidx[c]; v.resize(ch.def.size() + 1); size_t k = 0;
            for (size_t i = 0; i < ch.def.size(); i++) { v[i] = k; if (ch.def[i] == p.table.cols[c].max_def) k++; }
            v[ch.def.size()] = k;
        }
        for (auto& b : p.rgs[g].batches) {
            if (abort_after >= 0 && call >= abort_after) { aborted = true; break; }
            const Col& c = p.table.cols[(size_t)b.col];
            const Chunk& ch = rg.cols[(size_t)b.col];
            size_t v0 = vidx[(size_t)b.col][(size_t)b.start], v1 = vidx[(size_t)b.col][(size_t)(b.start + b.count)];
            auto pk = pack_values(c, ch.vals, v0, v1);
            std::unique_ptr<int16_t[]> defs;
            if (b.pass_def) { defs.reset(new int16_t[b.count ? b.count : 1]); for (int64_t i = 0; i < b.count; i++) defs[(size_t)i] = ch.def[(size_t)(b.start + i)]; }
            if (g_bad_call_at == call && !g_bad_call_made && g_bad_call_kind == 2) {
                // only when the column keeps rows from its other batches in this row group (a column that receives nothing at all is
                // something the library's own test suite does and expects to succeed)
                int64_t others = 0; for (auto& b2 : p.rgs[g].batches) if (b2.col == b.col && &b2 != &b) others += b2.count;
                if (b.count > 0 && (others > 0 || b.col == 0)) { g_bad_call_made = true; call++; continue; }      // column 0 is the writer's row reference: it may also lose its only batch
            } else if (g_bad_call_at == call && !g_bad_call_made) {
                g_bad_call_made = true;
                int32_t bc = g_bad_call_kind == 0 ? -1 : g_bad_call_kind == 1 ? (int32_t)p.table.cols.size() : b.col;
                g_bad_call_status = cq::writer_write_batch(w, bc, pk->buf.get(), b.count, defs.get(), nullptr);
            }
            std::unique_ptr<int16_t[]> reps;
            if (b.pass_rep) { reps.reset(new int16_t[b.count ? b.count : 1]); for (int64_t i = 0; i < b.count; i++) reps[(size_t)i] = ch.rep[(size_t)(b.start + i)]; }
            note(cq::writer_write_batch(w, b.col, pk->buf.get(), b.count, defs.get(), reps.get()));
            if (!ok && on_error) break;
        }
        if (!ok && on_error) break;
        if (aborted) break;
        if (g + 1 < p.rgs.size() || p.explicit_new_rg_last) {
            if (abort_after >= 0 && call >= abort_after) { aborted = true; break; }
            note(cq::writer_new_row_group(w));
            if (!ok && on_error) break;
        }
    }
    if (abort_after >= 0 && call >= abort_after) aborted = true;
    if (!ok && on_error == 1) aborted = true;
    if (aborted) { cq::writer_abort(w); }
    else { o.close_status = cq::writer_close(w); note(o.close_status); }
    o.calls = call;
    o.all_ok = ok && !aborted;
    cq::schema_free(schema);
    if (stream) { if (user_stream_out) *user_stream_out = stream; else sim::close_stream_real(stream); }
    o.file_exists = sim::disk_has(path);
    if (o.file_exists) o.image = sim::disk_file(path);
    return o;
}

// ---------------------------------------------------------------- reading through carquet
enum Mode { M_FREAD = 0, M_MMAP = 1, M_BUFFER = 2 };
static inline const char* mode_name(int m) { return m == 0 ? "fread" : m == 1 ? "mmap" : "buffer"; }

struct Opened {
    carquet_reader_t* r = nullptr;
    std::unique_ptr<Buf> buf;      // buffer mode: exact-size copy
    carquet_error_t err;
    int mode;
    ~Opened() { if (r) cq::reader_close(r); }
};

static inline std::unique_ptr<Opened> open_image(const std::string& path, int mode, bool verify_crc = true) {
    auto o = std::make_unique<Opened>();
    o->mode = mode;
    carquet_reader_options_t ro; carquet_reader_options_init(&ro);
    ro.verify_checksums = verify_crc;
    ro.use_mmap = mode == M_MMAP;
    memset(&o->err, 0, sizeof o->err);
    memset(o->err.message, 0x7F, sizeof o->err.message);   // detect non-terminated messages
    o->err.code = CARQUET_OK;
    if (mode == M_BUFFER) {
        auto& d = sim::disk_file(path);
        o->buf = std::make_unique<Buf>(d.size());
        if (!d.empty()) memcpy(o->buf->get(), d.data(), d.size());
        o->r = cq::reader_open_buffer(o->buf->get(), d.size(), &ro, &o->err);
    } else o->r = cq::reader_open(path.c_str(), &ro, &o->err);
    return o;
}

// error-struct contract after a NULL/failed call
static inline void check_error_struct(const carquet_error_t& e, const char* what) {
    SIM_CHECK(e.code != CARQUET_OK, "error_contract.code_ok_on_failure", "%s failed but error.code == OK", what);
    SIM_CHECK(memchr(e.message, 0, sizeof e.message) != nullptr, "error_contract.message_not_terminated", "%s: error.message not NUL-terminated", what);
}

// read one chunk completely with a single large read_batch; returns false on error
struct ReadChunk { Chunk ch; int64_t reported = 0; bool ok = false; int errors = 0; };

static inline void unpack_values(int type, int tlen, const uint8_t* buf, size_t count, std::vector<std::string>& out) {
    size_t w = slot_width(type, tlen);
    for (size_t i = 0; i < count; i++) {
        if (type == T_BA) {
            carquet_byte_array_t ba; memcpy(&ba, buf + i * w, sizeof ba);
            SIM_CHECK(ba.length >= 0, "read.negative_byte_array_length", "byte array %zu has length %d", i, ba.length);
            out.emplace_back((const char*)ba.data, (size_t)ba.length);      // dereference under ASan
        } else out.emplace_back((const char*)buf + i * w, w);
    }
}

static inline ReadChunk read_chunk_whole(carquet_reader_t* r, int rg, int col, int type, int tlen, int max_def, int64_t expect_entries, int retries = 0) {
    ReadChunk rc;
    carquet_error_t err = CARQUET_ERROR_INIT;
    carquet_column_reader_t* cr = cq::reader_get_column(r, rg, col, &err);
    if (!cr) return rc;
    int64_t cap = expect_entries + 3;
    Buf vals(slot_width(type, tlen) * (size_t)cap);
    Buf defs(sizeof(int16_t) * (size_t)cap, 0x7E), reps(sizeof(int16_t) * (size_t)cap, 0x7E);
    rc.ok = true;
    // "up to max_values": keep asking until the reader says 0 (end) or fails
    for (int guard = 0; guard < 100000; guard++) {
        int64_t want = cap - (int64_t)rc.ch.def.size();
        if (want <= 0) break;
        int64_t n = cq::column_read_batch(cr, vals.get(), want, (int16_t*)defs.get(), (int16_t*)reps.get());
        // retries > 0: a caller that keeps reading after a failed call (transient fault); what later calls deliver must continue the sequence
        if (n < 0) { rc.ok = false; if (++rc.errors > retries) break; continue; }
        if (n == 0) break;
        SIM_CHECK(n <= want, "read.count_exceeds_max_values", "read_batch(max=%lld) returned %lld", (long long)want, (long long)n);
        rc.reported += n;
        int16_t* d = (int16_t*)defs.get(); int16_t* rp = (int16_t*)reps.get();
        size_t nn = 0;
        for (int64_t i = 0; i < n; i++) { rc.ch.def.push_back(d[i]); rc.ch.rep.push_back(rp[i]); nn += d[i] == max_def; }
        unpack_values(type, tlen, vals.get(), nn, rc.ch.vals);
    }
    cq::column_reader_free(cr);
    return rc;
}

// compare what carquet delivered for a chunk with the model
static inline void compare_chunk(const ReadChunk& got, const Chunk& want, const Col& c, const char* where, int rg, int col) {
    SIM_CHECK(got.ok, "read.error_on_valid_file", "%s rg%d col%d (%s): read_batch reported an error on a valid file", where, rg, col, type_name(c.type));
    SIM_CHECK(got.ch.def.size() == want.def.size(), "read.row_count", "%s rg%d col%d (%s%s): %zu entries read, %zu written", where, rg, col,
              type_name(c.type), c.rep == OPT ? "?" : "", got.ch.def.size(), want.def.size());
    for (size_t i = 0; i < want.def.size(); i++)
        SIM_CHECK(got.ch.def[i] == want.def[i], "read.null_positions", "%s rg%d col%d (%s): def level of row %zu is %d, written %d", where, rg, col,
                  type_name(c.type), i, got.ch.def[i], want.def[i]);
    for (size_t i = 0; i < want.rep.size(); i++)
        SIM_CHECK(got.ch.rep[i] == want.rep[i], "read.rep_levels", "%s rg%d col%d (%s): rep level of entry %zu is %d, expected %d", where, rg, col,
                  type_name(c.type), i, got.ch.rep[i], want.rep[i]);
    SIM_CHECK(got.ch.vals.size() == want.vals.size(), "read.value_count", "%s rg%d col%d: %zu non-null values read, %zu written", where, rg, col,
              got.ch.vals.size(), want.vals.size());
    for (size_t i = 0; i < want.vals.size(); i++)
        SIM_CHECK(got.ch.vals[i] == want.vals[i], "read.value_mismatch", "%s rg%d col%d (%s): non-null value #%zu read %s, written %s", where, rg, col,
                  type_name(c.type), i, sim::hex(got.ch.vals[i].data(), got.ch.vals[i].size(), 24).c_str(),
                  sim::hex(want.vals[i].data(), want.vals[i].size(), 24).c_str());
}

// after a reported error: whatever was delivered before it must still be a correct prefix of the chunk
static inline void compare_chunk_prefix(const ReadChunk& got, const Chunk& want, const Col& c, const char* where, int rg, int col) {
    SIM_CHECK(got.ch.def.size() <= want.def.size(), "read.row_count", "%s rg%d col%d: %zu entries delivered, chunk has %zu", where, rg, col, got.ch.def.size(), want.def.size());
    for (size_t i = 0; i < got.ch.def.size(); i++) SIM_CHECK(got.ch.def[i] == want.def[i], "read.null_positions", "%s rg%d col%d (%s): def level of row %zu is %d, file says %d (rows delivered before an error)", where, rg, col, type_name(c.type), i, got.ch.def[i], want.def[i]);
    SIM_CHECK(got.ch.vals.size() <= want.vals.size(), "read.value_count", "%s rg%d col%d: too many values", where, rg, col);
    for (size_t i = 0; i < got.ch.vals.size(); i++) SIM_CHECK(got.ch.vals[i] == want.vals[i], "read.value_mismatch", "%s rg%d col%d (%s): value #%zu delivered before an error is %s, file says %s", where, rg, col, type_name(c.type), i,
        sim::hex(got.ch.vals[i].data(), got.ch.vals[i].size(), 24).c_str(), sim::hex(want.vals[i].data(), want.vals[i].size(), 24).c_str());
}

// metadata + schema + full content of an opened reader against the model table (non-empty row groups only)
static inline void compare_reader_with_table(carquet_reader_t* r, const Table& t, const char* where) {
    int64_t total = 0; std::vector<const RowGroup*> want;
    for (auto& g : t.rgs) { total += g.rows; if (g.rows > 0) want.push_back(&g); }
    SIM_CHECK(carquet_reader_num_rows(r) == total, "meta.num_rows", "%s: num_rows %lld, written %lld", where, (long long)carquet_reader_num_rows(r), (long long)total);
    SIM_CHECK(carquet_reader_num_columns(r) == (int32_t)t.cols.size(), "meta.num_columns", "%s: num_columns %d, schema has %zu", where, carquet_reader_num_columns(r), t.cols.size());
    const carquet_schema_t* s = carquet_reader_schema(r);
    SIM_CHECK(s != nullptr, "meta.schema_null", "%s: schema is NULL", where);
    SIM_CHECK(carquet_schema_num_columns(s) == (int32_t)t.cols.size(), "schema.num_columns", "%s: schema num_columns %d vs %zu", where, carquet_schema_num_columns(s), t.cols.size());
    SIM_CHECK(carquet_schema_num_elements(s) == (int32_t)count_nodes(t.root), "schema.num_elements", "%s: %d elements vs %d", where, carquet_schema_num_elements(s), count_nodes(t.root));
    for (size_t c = 0; c < t.cols.size(); c++) {
        const carquet_schema_node_t* n = carquet_schema_get_element(s, (int32_t)c + 1);
        SIM_CHECK(n != nullptr, "schema.element_null", "%s: element %zu NULL", where, c + 1);
        SIM_CHECK(t.cols[c].name == carquet_schema_node_name(n), "schema.name", "%s: column %zu name differs", where, c);
        SIM_CHECK((int)carquet_schema_node_physical_type(n) == t.cols[c].type, "schema.type", "%s: column %zu type %d vs %d", where, c, (int)carquet_schema_node_physical_type(n), t.cols[c].type);
        SIM_CHECK((int)carquet_schema_node_repetition(n) == t.cols[c].rep, "schema.repetition", "%s: column %zu repetition %d vs %d", where, c, (int)carquet_schema_node_repetition(n), t.cols[c].rep);
        if (t.cols[c].type == T_FLBA) SIM_CHECK(carquet_schema_node_type_length(n) == t.cols[c].tlen, "schema.type_length", "%s: column %zu type_length %d vs %d", where, c, carquet_schema_node_type_length(n), t.cols[c].tlen);
        SIM_CHECK(carquet_schema_find_column(s, t.cols[c].name.c_str()) == (int32_t)c, "schema.find_column", "%s: find_column of column %zu returned %d", where, c, carquet_schema_find_column(s, t.cols[c].name.c_str()));
    }
    int nrg = carquet_reader_num_row_groups(r);
    size_t k = 0;
    for (int g = 0; g < nrg; g++) {
        carquet_row_group_metadata_t md;
        SIM_CHECK(cq::reader_row_group_metadata(r, g, &md) == CARQUET_OK, "meta.row_group_metadata", "%s: row_group_metadata(%d) failed", where, g);
        if (md.num_rows == 0) continue;
        SIM_CHECK(k < want.size(), "meta.row_group_partition", "%s: more non-empty row groups than written (%zu)", where, want.size());
        SIM_CHECK(md.num_rows == want[k]->rows, "meta.row_group_partition", "%s: non-empty row group %zu has %lld rows, written %lld", where, k, (long long)md.num_rows, (long long)want[k]->rows);
        for (size_t c = 0; c < t.cols.size(); c++) {
            ReadChunk rc = read_chunk_whole(r, g, (int)c, t.cols[c].type, t.cols[c].tlen, t.cols[c].max_def, (int64_t)want[k]->cols[c].entries());
            compare_chunk(rc, want[k]->cols[c], t.cols[c], where, g, (int)c);
        }
        k++;
    }
    SIM_CHECK(k == want.size(), "meta.row_group_partition", "%s: %zu non-empty row groups, written %zu", where, k, want.size());
}

}  // namespace exec
