// Generators for files of the simulated foreign writer: nested schemas, Dremel
// shredding of random records, layout plans with the peer's buggify points.
#pragma once
#include "gen.h"
#include "../ref/writer.h"

namespace peergen {
using namespace model;
using sim::draw; using sim::range;

static const int ALLTYPES[] = {T_I32, T_I64, T_F64, T_BA, T_BOOL, T_F32, T_FLBA, T_I96};

struct SchemaOpts { int max_depth = 5; int max_nodes = 40; bool nested = true; bool repeated = true; };

// a spec-conforming logical-type annotation for a leaf (the annotation never changes the stored values)
static inline void gen_logical(Node& n) {
    uint32_t k = draw(6);
    auto decimal = [&](int maxp) { n.logical = 5; n.lp2 = 1 + (int)draw((uint32_t)maxp); n.lp1 = (int)draw((uint32_t)n.lp2 + 1); };
    switch (n.type) {
        case T_BA: { static const int L[] = {1, 4, 12, 13, 1}; if (k == 5) decimal(30); else n.logical = L[k]; break; }
        case T_I32:
            if (k == 0) n.logical = 6;
            else if (k <= 2) { n.logical = 10; static const int BW[] = {8, 16, 32}; n.lp1 = BW[draw(3)]; n.lp2 = (int)draw(2); }
            else if (k == 3) { n.logical = 7; n.lp1 = (int)draw(2); n.lp2 = 1; }
            else if (k == 4) decimal(9);
            break;
        case T_I64:
            if (k <= 1) { n.logical = 8; n.lp1 = (int)draw(2); n.lp2 = 1 + (int)draw(3); }
            else if (k == 2) { n.logical = 7; n.lp1 = (int)draw(2); n.lp2 = 2 + (int)draw(2); }
            else if (k == 3) { n.logical = 10; n.lp1 = 64; n.lp2 = (int)draw(2); }
            else if (k == 4) decimal(18);
            break;
        case T_FLBA:
            if (k <= 1) { n.logical = 14; n.tlen = 16; } else if (k == 2) { n.logical = 15; n.tlen = 2; } else if (k <= 4) decimal(2 * n.tlen);
            break;
        default: break;      // UNKNOWN (always-null column) is not generated: the annotated columns here hold values
    }
    // annotations that have a legacy converted_type twin are sometimes stated through it alone
    bool twin = n.logical == 1 || n.logical == 4 || n.logical == 5 || n.logical == 6 || n.logical == 12 || n.logical == 13 || n.logical == 10 ||
                ((n.logical == 7 || n.logical == 8) && n.lp1 == 1 && n.lp2 <= 2);
    if (twin && draw(3) == 0) n.converted_only = true;
}

static inline void gen_node(Node& n, int depth, int& budget, const SchemaOpts& o, int& counter, bool force_leaf) {
    n.name = (draw(8) == 7 ? std::string("n.") : std::string("n")) + std::to_string(counter++);
    uint32_t rk = draw(o.repeated ? 4 : 3);
    n.rep = rk == 0 ? REQ : rk == 3 ? REPEATED : (rk == 1 ? OPT : REQ);
    bool group = o.nested && !force_leaf && depth < o.max_depth && budget > 2 && draw(3) == 2;
    if (!group) {
        n.leaf = true; n.type = ALLTYPES[draw(8)]; n.tlen = n.type == T_FLBA ? range(1, 16) : 0;
        if (draw(3) == 0) gen_logical(n);
        return;
    }
    n.leaf = false;
    int kids = 1 + (int)draw(4);
    for (int k = 0; k < kids && budget > 0; k++) {
        budget--;
        Node kid;
        // bias: group as last child, sibling groups after deep ones
        gen_node(kid, depth + 1, budget, o, counter, false);
        n.kids.push_back(kid);
    }
    if (n.kids.empty()) { n.leaf = true; n.type = T_I32; }
}

static inline void gen_schema(Table& t, const SchemaOpts& o) {
    t.root = Node(); t.root.name = draw(4) == 3 ? "root" : "schema"; t.root.leaf = false; t.root.rep = REQ;
    int budget = 1 + (int)draw((uint32_t)o.max_nodes), counter = 0;
    int top = 1 + (int)draw(5);
    for (int k = 0; k < top && budget > 0; k++) { budget--; Node kid; gen_node(kid, 1, budget, o, counter, false); t.root.kids.push_back(kid); }
    if (t.root.kids.empty()) { Node kid; kid.name = "only"; kid.type = T_I32; t.root.kids.push_back(kid); }
    derive_leaves(t);
}

// ---- shredding of randomly generated records (generation and shredding in one pass)
struct Shredder {
    Table& t; RowGroup& rg; gen::Src src; std::vector<int> modes; std::vector<uint32_t> cards;
    size_t leaf_cursor = 0;
    // leaf index ranges per node are computed on the fly by walking in schema order
    void emit_null_subtree(const Node& n, int def, int rep, size_t& leaf) {
        if (n.leaf) { rg.cols[leaf].def.push_back((int16_t)def); rg.cols[leaf].rep.push_back((int16_t)rep); leaf++; return; }
        for (auto& k : n.kids) emit_null_subtree(k, def, rep, leaf);
    }
    static size_t leaves_under(const Node& n) { if (n.leaf) return 1; size_t s = 0; for (auto& k : n.kids) s += leaves_under(k); return s; }
    void field(const Node& n, int r_in, int d_parent, int rdepth_parent, size_t leaf0, int presence_bias) {
        int d_self = d_parent + (n.rep != REQ), rdepth = rdepth_parent + (n.rep == REPEATED);
        uint32_t count = 1;
        if (n.rep == OPT) count = src.d((uint32_t)presence_bias) != 0;
        else if (n.rep == REPEATED) { uint32_t k = src.d(6); count = k < 2 ? 0 : k < 4 ? 1 : k == 4 ? 2 : 3 + src.d(3); }
        if (count == 0) { size_t leaf = leaf0; emit_null_subtree(n, d_parent, r_in, leaf); return; }
        for (uint32_t i = 0; i < count; i++) {
            int r = i == 0 ? r_in : rdepth;
            if (n.leaf) {
                Chunk& ch = rg.cols[leaf0];
                ch.def.push_back((int16_t)d_self); ch.rep.push_back((int16_t)r);
                ch.vals.push_back(gen::gen_value(src, n.type, n.tlen, modes[leaf0], cards[leaf0]));
            } else {
                size_t leaf = leaf0;
                for (auto& k : n.kids) { field(k, r, d_self, rdepth, leaf, presence_bias); leaf += leaves_under(k); }
            }
        }
    }
};

static inline void fill_row_group(Table& t, RowGroup& rg, int64_t rows) {
    rg.rows = rows; rg.cols.assign(t.cols.size(), Chunk());
    sim::Rng r = sim::sub_rng();
    Shredder sh{t, rg, gen::Src{rows > 24 ? &r : nullptr}, {}, {}};
    for (size_t c = 0; c < t.cols.size(); c++) { sh.modes.push_back((int)draw(3)); sh.cards.push_back(1 + draw(5) * draw(5)); }
    int bias = 2 + (int)draw(4);
    for (int64_t i = 0; i < rows; i++) {
        size_t leaf = 0;
        for (auto& k : t.root.kids) { sh.field(k, 0, 0, 0, leaf, bias); leaf += Shredder::leaves_under(k); }
    }
}

// flat table over all eight physical types (peer side may also write INT96)
static inline Table gen_flat_any(int max_cols, int max_rgs, bool allow_big) {
    Table t; t.root.name = "schema"; t.root.leaf = false;
    int ncols = 1 + (int)draw((uint32_t)max_cols);
    for (int i = 0; i < ncols; i++) { Node n; n.leaf = true; n.name = gen::gen_name(i); n.type = ALLTYPES[draw(8)]; n.rep = draw(2) ? OPT : REQ; n.tlen = n.type == T_FLBA ? range(1, 20) : 0; t.root.kids.push_back(n); }
    derive_leaves(t);
    int nrg = 1 + (int)draw((uint32_t)max_rgs);
    for (int g = 0; g < nrg; g++) {
        RowGroup rg; rg.rows = gen::gen_rows(allow_big && ncols <= 3); rg.cols.resize(t.cols.size());
        for (size_t c = 0; c < t.cols.size(); c++) gen::fill_chunk(rg.cols[c], t.cols[c], rg.rows);
        t.rgs.push_back(rg);
    }
    return t;
}

static inline Table gen_nested_table(const SchemaOpts& o, int max_rgs) {
    Table t; gen_schema(t, o);
    int nrg = 1 + (int)draw((uint32_t)max_rgs);
    for (int g = 0; g < nrg; g++) { RowGroup rg; int64_t rows = draw(10) < 8 ? draw(30) : 30 + draw(400); fill_row_group(t, rg, rows); t.rgs.push_back(rg); }
    return t;
}

// split a chunk's entries into pages at record boundaries (rep == 0)
static inline void maybe_empty_page(std::vector<size_t>& out) {
    // a data page with num_values = 0 is legal (nothing in the format sets a minimum): first, in the middle or last
    if (draw(8) != 7) return;
    size_t at = draw((uint32_t)out.size() + 1);
    out.insert(out.begin() + (long)at, 0);
}

static inline std::vector<size_t> gen_page_split(const Chunk& ch, bool simple) {
    std::vector<size_t> out; size_t n = ch.def.size();
    if (n == 0) return out;           // no data page for an empty chunk
    if (simple) { out.push_back(n); return out; }
    if (draw(3) == 0) { out.push_back(n); maybe_empty_page(out); return out; }
    size_t target = 1 + draw(4) * draw(40) + draw(9);
    // data page v1 does not have to start at a record boundary (only v2 and page-indexed files do): writers that cut by size or count
    // split lists across pages
    bool mid_record = draw(4) == 0;
    size_t start = 0;
    for (size_t i = 1; i <= n; i++) {
        if (i == n) { out.push_back(i - start); break; }
        if ((ch.rep[i] == 0 || mid_record) && i - start >= target) { out.push_back(i - start); start = i; if (draw(4) == 0) target = 1 + draw(60); }
    }
    maybe_empty_page(out);
    return out;
}

struct LayoutOpts { bool allow_unsupported = false; bool stats = true; bool simple_pages = false; };
static const int PEER_CODECS[] = {0, 1, 6, 2, 7};

static inline ref::Layout gen_layout(const Table& t, const LayoutOpts& lo) {
    ref::Layout L;
    L.codec = PEER_CODECS[draw(5)];
    L.rng_seed = draw(0xFFFFFFFFu);
    L.long_form = draw(6) == 5; L.junk_fields = draw(4) == 3; L.kv_meta = draw(4) == 3; L.exotic_snappy = draw(3) == 2;
    L.column_orders = draw(4) != 3; L.ordinals = draw(4) != 3; L.version = draw(2) ? 2 : 1;
    if (draw(5) == 4) L.root_rep = (int)draw(3);
    if (draw(5) == 4) L.created_by = draw(2) ? "" : "parquet-mr version 1.12.3 (build f8dced182c4c1fbdec6ccb3185537b5a01e6ed6b)";
    for (auto& rg : t.rgs) for (size_t c = 0; c < t.cols.size(); c++) {
        ref::ChunkLayout cl;
        cl.page_entries = gen_page_split(rg.cols[c], lo.simple_pages);
        cl.dict = draw(2) == 1; cl.dict_tag = draw(2) ? 8 : 2; cl.dict_page_enc = draw(2) ? 2 : 0;
        cl.fallback_after = cl.dict && draw(5) == 4 ? (int)draw((uint32_t)cl.page_entries.size() + 1) : -1;
        cl.plain_first = cl.dict && draw(6) == 5 ? 1 + (int)draw(2) : 0;
        cl.extra_index_bits = draw(6) == 5 ? (int)draw(5) : 0;
        cl.level_policy = (int)draw(4); cl.index_policy = (int)draw(4);
        cl.crc = draw(2) == 1; cl.dict_offset_present = draw(4) != 3;
        cl.chunk_stats = lo.stats ? (int)draw(4) : 0; cl.page_stats = draw(4) == 3; cl.nan_policy = (int)draw(2);
        cl.file_offset_mode = (int)draw(3); cl.shuffle_dict = draw(3) == 2;
        L.chunks.push_back(cl);
    }
    return L;
}

static inline std::string describe(const Table& t, const ref::Layout& L) {
    std::string s = sim::fmt("peer codec=%d%s%s%s cols=[", L.codec, L.long_form ? " longform" : "", L.junk_fields ? " junk" : "", L.exotic_snappy ? " exotic-snappy" : ""); if (L.root_rep >= 0) s += sim::fmt(" rootrep=%d", L.root_rep);
    for (size_t i = 0; i < t.cols.size() && i < 10; i++) { auto& c = t.cols[i]; s += sim::fmt("%s%s d%d r%d", i ? "," : "", type_name(c.type), c.max_def, c.max_rep); }
    if (t.cols.size() > 10) s += sim::fmt(",..%zu", t.cols.size());
    s += "] chunks=[";
    size_t li = 0;
    for (size_t g = 0; g < t.rgs.size(); g++) for (size_t c = 0; c < t.cols.size(); c++, li++) {
        if (li >= 12) { s += "..."; g = t.rgs.size(); break; }
        auto& cl = L.chunks[li];
        s += sim::fmt("%srg%zu.c%zu:%zu entries/%zu pages%s%s lp%d ip%d", li ? " " : "", g, c, t.rgs[g].cols[c].def.size(), cl.page_entries.size(), cl.dict ? sim::fmt(" dict%d", cl.dict_tag).c_str() : "", cl.crc ? " crc" : "", cl.level_policy, cl.index_policy);
        if (cl.unsupported) s += sim::fmt(" UNSUPPORTED%d", cl.unsupported);
    }
    s += "]";
    return s;
}

}  // namespace peergen
