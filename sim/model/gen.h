// Seeded generators (all draws go through the choice tape; 0 is always the
// simplest choice so that tape shrinking simplifies the plan).
#pragma once
#include "table.h"
#include "../core/sim.h"
#include <cmath>

namespace sim { bool avoid_known(const char* tag); }

namespace gen {
using namespace model;
using sim::draw; using sim::range; using sim::chance;

static inline std::string le32(uint32_t v) { return std::string((const char*)&v, 4); }
static inline std::string le64(uint64_t v) { return std::string((const char*)&v, 8); }

// boundary-biased value of a given type, from a PRNG (bulk) or the tape (small tables)
struct Src {
    sim::Rng* bulk;   // null => tape
    uint32_t d(uint32_t n) { return bulk ? bulk->below(n) : draw(n); }
    uint64_t d64() { return bulk ? bulk->next() : sim::draw64(); }
};

static inline std::string gen_value(Src& s, int type, int tlen, int mode, uint32_t card) {
    // mode 0: small domain (dictionary-like / runs), 1: boundary-biased, 2: random
    switch (type) {
        case T_BOOL: return std::string(1, (char)s.d(2));
        case T_I32: {
            static const int32_t B[] = {0, 1, -1, INT32_MAX, INT32_MIN, 127, 128, 255, 256, 65535, 65536, -128, -129};
            int32_t v = mode == 0 ? (int32_t)s.d(card) : mode == 1 ? B[s.d(13)] : (int32_t)s.d64();
            return le32((uint32_t)v);
        }
        case T_I64: {
            static const int64_t B[] = {0, 1, -1, INT64_MAX, INT64_MIN, INT32_MAX, (int64_t)INT32_MAX + 1, INT32_MIN, (int64_t)INT32_MIN - 1};
            int64_t v = mode == 0 ? (int64_t)s.d(card) : mode == 1 ? B[s.d(9)] : (int64_t)s.d64();
            return le64((uint64_t)v);
        }
        case T_I96: { std::string v = le64(mode == 0 ? s.d(card) : s.d64()); v += le32(mode == 0 ? 0 : (uint32_t)s.d64()); return v; }
        case T_F32: {
            static const uint32_t B[] = {0x00000000u, 0x80000000u, 0x3f800000u, 0xbf800000u, 0x7f800000u, 0xff800000u,
                                         0x7fc00000u, 0xffc00001u, 0x7f800001u, 0x00000001u, 0x807fffffu, 0x7f7fffffu, 0xff7fffffu};
            uint32_t v;
            if (mode == 0) { float f = (float)s.d(card) * 0.5f; memcpy(&v, &f, 4); }
            else if (mode == 1) v = B[s.d(13)]; else v = (uint32_t)s.d64();
            return le32(v);
        }
        case T_F64: {
            static const uint64_t B[] = {0x0ull, 0x8000000000000000ull, 0x3ff0000000000000ull, 0xbff0000000000000ull,
                                         0x7ff0000000000000ull, 0xfff0000000000000ull, 0x7ff8000000000000ull, 0xfff8000000000001ull,
                                         0x7ff0000000000001ull, 0x1ull, 0x800fffffffffffffull, 0x7fefffffffffffffull, 0xffefffffffffffffull};
            uint64_t v;
            if (mode == 0) { double f = (double)s.d(card) * 0.25; memcpy(&v, &f, 8); }
            else if (mode == 1) v = B[s.d(13)]; else v = s.d64();
            return le64(v);
        }
        case T_BA: {
            if (mode == 0) { std::string v = "v"; v += std::to_string(s.d(card)); return v; }
            uint32_t k = s.d(12);
            if (k == 0) return "";
            if (k == 1) return std::string(1, (char)s.d(256));
            if (k == 2) return "PAR1";
            if (k == 3) return std::string("\x15\x00\x15\x10\x15\x10PAR1", 10);
            if (k == 4) return std::string(s.d(40) + 1, (char)0xFF);
            if (k == 5) return std::string(s.d(300) + 100, (char)('a' + s.d(26)));
            if (k == 6) { std::string v(4, 0); uint32_t L = s.d(70000); memcpy(&v[0], &L, 4); return v; }  // looks like a length word
            if (k == 7 && s.d(48) == 0) {      // lengths around allocator / arena block sizes
                static const uint32_t BASE[] = {65536, 4096, 65536, 131072};
                return std::string(BASE[s.d(4)] - 8 + s.d(12), (char)(s.d(2) ? 0xFF : 'q'));
            }
            size_t n = s.d(24);
            std::string v(n, 0);
            for (auto& c : v) c = (char)s.d(256);
            return v;
        }
        case T_FLBA: {
            std::string v((size_t)tlen, 0);
            if (mode == 0) { uint32_t x = s.d(card); for (int i = 0; i < tlen; i++) v[(size_t)i] = (char)(x + i); }
            else if (mode == 1) { char c = (char)(s.d(2) ? 0xFF : 0x00); for (auto& ch : v) ch = c; }
            else for (auto& c : v) c = (char)s.d(256);
            return v;
        }
    }
    return "";
}

// run-length driven null structure: returns def levels (0/1) for n rows
static inline std::vector<int16_t> gen_nulls(Src& s, int64_t n, int style) {
    // style 0: none null, 1: all null, 2: alternating, 3: runs with spikes at group boundaries, 4: random
    std::vector<int16_t> d((size_t)n, 1);
    if (style == 0) return d;
    if (style == 1) { std::fill(d.begin(), d.end(), 0); return d; }
    if (style == 2) { for (int64_t i = 0; i < n; i++) d[(size_t)i] = (int16_t)(i & 1); return d; }
    if (style == 4) { for (auto& x : d) x = (int16_t)s.d(2); return d; }
    static const int RL[] = {1, 1, 2, 3, 7, 8, 9, 15, 16, 17, 24, 63, 64, 65, 5, 12};
    int64_t i = 0; int16_t cur = (int16_t)s.d(2);
    while (i < n) {
        int64_t len = RL[s.d(16)];
        for (int64_t k = 0; k < len && i < n; k++) d[(size_t)i++] = cur;
        cur = (int16_t)!cur;
    }
    return d;
}

static inline std::string gen_name(int i) {
    uint32_t k = draw(10);
    std::string base;
    if (k <= 5) base = "c";
    else if (k == 6) base = "col with spaces ";
    else if (k == 7) base = std::string("\xc3\xa9\xe2\x82\xac", 5);       // non-ASCII UTF-8
    else if (k == 8) base = std::string(300, 'n');
    else base = ".";
    return base + std::to_string(i);
}

static const int WRITABLE[] = {T_I32, T_I64, T_F64, T_BA, T_BOOL, T_F32, T_FLBA};

static inline Node gen_flat_leaf(int i, bool allow_optional, bool allow_unsigned = false, bool allow_repeated = false, bool allow_int96 = false) {
    Node n; n.leaf = true;
    n.name = gen_name(i);
    n.type = WRITABLE[draw(7)];
    n.rep = allow_optional && draw(2) ? OPT : REQ;
    n.tlen = n.type == T_FLBA ? range(1, 20) : 0;
    // INT96: the schema builder takes it, the writer refuses its batches (NOT_IMPLEMENTED) - a history with a refused call
    if (allow_int96 && draw(80) == 0) n.type = T_I96;
    // a top-level REPEATED leaf (a list per row): the writer API takes repetition levels for it
    if (allow_repeated && draw(5) == 0) n.rep = REPEATED;
    // an integer column annotated as unsigned: same bits, but statistics and predicates order them as unsigned numbers
    if (allow_unsigned && (n.type == T_I32 || n.type == T_I64) && draw(4) == 0) { n.logical = 10; n.lp1 = n.type == T_I32 ? 32 : 64; n.lp2 = 0; }
    return n;
}

// flat table: schema + rows per row group + content
struct FlatOpts { int max_cols = 8; int max_rgs = 4; bool allow_big = true; bool allow_wide = true; bool allow_optional = true; bool allow_medium = true; bool allow_unsigned = false; bool allow_repeated = false; bool allow_int96 = false; };

static inline void fill_chunk(Chunk& ch, const Col& c, int64_t rows) {
    if (c.max_rep > 0) {      // top-level REPEATED leaf: a list of 0..4 values per row (max_def 1, max_rep 1)
        ch.def.clear(); ch.rep.clear(); ch.vals.clear();
        bool bulk = rows > 48; sim::Rng r; if (bulk) r = sim::sub_rng(); Src s{bulk ? &r : nullptr};
        int mode = (int)draw(3); uint32_t card = 1 + draw(6) * draw(6);
        for (int64_t i = 0; i < rows; i++) {
            uint32_t k = s.d(6); uint32_t n = k < 2 ? 0 : k < 4 ? 1 : k == 4 ? 2 : 3 + s.d(2);
            if (n == 0) { ch.def.push_back(0); ch.rep.push_back(0); continue; }
            for (uint32_t q = 0; q < n; q++) { ch.def.push_back(1); ch.rep.push_back(q ? 1 : 0); ch.vals.push_back(gen_value(s, c.type, c.tlen, mode, card)); }
        }
        return;
    }
    ch.def.clear(); ch.rep.assign((size_t)rows, 0); ch.vals.clear();
    bool bulk = rows > 48;
    sim::Rng r;
    if (bulk) r = sim::sub_rng();
    Src s{bulk ? &r : nullptr};
    int style = c.rep == OPT ? (int)draw(5) : 0;
    if (c.rep == OPT) ch.def = gen_nulls(s, rows, style); else ch.def.assign((size_t)rows, 0);
    int mode = (int)draw(3);
    uint32_t card = 1 + draw(6) * draw(6);
    int maxd = c.max_def;
    // long runs of equal values now and then (dictionary / RLE friendly)
    bool runs = draw(3) == 1;
    std::string prev; int64_t left = 0;
    for (int64_t i = 0; i < rows; i++) {
        if (ch.def[(size_t)i] != maxd) continue;
        if (runs && left > 0) { ch.vals.push_back(prev); left--; continue; }
        prev = gen_value(s, c.type, c.tlen, mode, card);
        ch.vals.push_back(prev);
        if (runs) left = s.d(20);
    }
}

inline int64_t g_row_cap = 0;     // drivers that enumerate faults per scenario keep tables small (0 = no cap)
static inline int64_t gen_rows_uncapped(bool allow_big);
static inline int64_t gen_rows(bool allow_big) { int64_t r = gen_rows_uncapped(allow_big); return g_row_cap && r > g_row_cap ? r % (g_row_cap + 1) : r; }
static inline int64_t gen_rows_uncapped(bool allow_big) {
    uint32_t k = draw(20);
    if (k < 14) return draw(40);                  // 0..39 (0 = simplest)
    if (k < 18) return 40 + draw(360);
    if (k == 18 || !allow_big) return 400 + draw(1600);
    return 2000 + draw(68000);
}

// One or two REQUIRED fixed-width columns whose byte stream repeats with a period that sits on an LZ window
// boundary (32 KiB / 64 KiB +-1 element): back-references at exactly the largest distance a compressor's
// offset field can or cannot hold. Values are distinct within a period, so no nearer match exists.
static inline Table gen_window_table() {
    Table t; t.root.name = "schema"; t.root.leaf = false; t.want_big_pages = true;
    static const int FT[] = {T_I32, T_I64, T_F64, T_F32, T_FLBA};
    static const int64_t W[] = {65536, 32768, 65535, 65537, 32769, 131072, 65532, 65540};
    int ncols = 1 + (int)draw(2);
    int64_t rows = 0; std::vector<int64_t> period;
    for (int i = 0; i < ncols; i++) {
        Node n; n.leaf = true; n.name = "w" + std::to_string(i); n.type = FT[draw(5)]; n.rep = REQ; n.tlen = n.type == T_FLBA ? 16 : 0;
        t.root.kids.push_back(n);
        int64_t width = fixed_width(n.type, n.tlen), w = W[draw(8)];
        int64_t per = std::max<int64_t>(1, (w + (draw(2) ? width - 1 : 0)) / width);
        period.push_back(per);
        rows = std::max(rows, per * 2 + (int64_t)draw(300));
    }
    derive_leaves(t);
    RowGroup rg; rg.rows = rows; rg.cols.resize(t.cols.size());
    for (size_t c = 0; c < t.cols.size(); c++) {
        Chunk& ch = rg.cols[c]; ch.def.assign((size_t)rows, 0); ch.rep.assign((size_t)rows, 0);
        uint32_t base = draw(1000), mul = 1 + 2 * draw(4);
        int width = fixed_width(t.cols[c].type, t.cols[c].tlen);
        for (int64_t i = 0; i < rows; i++) {
            uint64_t x = (uint64_t)base + (uint64_t)(i % period[c]) * mul;
            std::string v((size_t)width, '\0');
            if (t.cols[c].type == T_F32) { float f = (float)x; memcpy(&v[0], &f, 4); }
            else if (t.cols[c].type == T_F64) { double f = (double)x * 0.5; memcpy(&v[0], &f, 8); }
            else memcpy(&v[0], &x, (size_t)std::min(width, 8));
            ch.vals.push_back(v);
        }
    }
    t.rgs.push_back(rg);
    return t;
}

static inline Table gen_flat_table(const FlatOpts& o) {
    if (o.allow_big && g_row_cap == 0 && draw(40) == 39) return gen_window_table();
    Table t;
    t.root.name = "schema"; t.root.leaf = false;
    int ncols = 1 + (int)draw((uint32_t)o.max_cols);
    if (o.allow_wide && draw(60) == 59) ncols = 70 + (int)draw(230);
    if (o.allow_wide && g_row_cap == 0 && draw(12000) == 11999) ncols = 9990 + (int)draw(20);      // around the 10000-element limit the footer parser sets itself
    else if (o.allow_medium && draw(12) == 11) ncols = 9 + (int)draw(12);      // 9..20: crosses the 15-element Thrift list-header switch
    for (int i = 0; i < ncols; i++) t.root.kids.push_back(gen_flat_leaf(i, o.allow_optional, o.allow_unsigned, o.allow_repeated, o.allow_int96));
    derive_leaves(t);
    int nrg = 1 + (int)draw((uint32_t)o.max_rgs);
    if (o.allow_medium && draw(16) == 15) nrg = 5 + (int)draw(14);                 // 5..18 row groups
    if (ncols > 1000) nrg = 1;
    for (int g = 0; g < nrg; g++) {
        RowGroup rg;
        rg.rows = ncols > 1000 ? (int64_t)draw(3) : (ncols > 8 || nrg > 4) ? (int64_t)draw(20) : gen_rows(o.allow_big && ncols <= 4);
        rg.cols.resize(t.cols.size());
        for (size_t c = 0; c < t.cols.size(); c++) fill_chunk(rg.cols[c], t.cols[c], rg.rows);
        t.rgs.push_back(rg);
    }
    return t;
}

// ---------------------------------------------------------------- write plan (history of writer calls)
struct Batch { int col; int64_t start, count; bool pass_def; bool pass_rep = false; };      // start/count in level entries (= rows unless the column is REPEATED)
struct RgPlan { std::vector<Batch> batches; };
struct WritePlan {
    Table table;
    int codec = 0;                 // parquet codec id: 0,1,2,5,6 (+7)
    int64_t page_size = 1 << 20;
    std::string created_by;
    bool path_mode = true;
    bool explicit_new_rg_last = false;   // call new_row_group() also after the last group (before close)
    std::vector<RgPlan> rgs;
    std::string describe() const;
};

static const int CODECS[] = {0, 1, 6, 2, 5, 7};   // UNCOMPRESSED first (simplest)
static const int64_t PAGE_SIZES[] = {1 << 20, 64, 100, 256, 1024, 4096, 65536, 300, 8192};

static inline std::vector<int64_t> gen_composition(int64_t rows) {
    // random composition of `rows` into batch sizes (incl. zero-row and tiny batches)
    std::vector<int64_t> parts;
    if (rows == 0) { if (draw(2)) parts.push_back(0); return parts; }
    if (draw(3) == 0) { parts.push_back(rows); return parts; }   // single batch: simplest
    int64_t left = rows;
    while (left > 0) {
        uint32_t k = draw(8);
        int64_t n = k == 0 ? 0 : k <= 3 ? 1 + draw(8) : k <= 5 ? 1 + draw(40) : 1 + (int64_t)draw((uint32_t)std::min<int64_t>(left, 4000));
        if (n > left) n = left;
        parts.push_back(n);
        left -= n;
        if (parts.size() > 200) { parts.push_back(left); break; }
    }
    return parts;
}

static inline WritePlan gen_write_plan(const FlatOpts& o) {
    WritePlan p;
    p.table = gen_flat_table(o);
    p.codec = CODECS[draw(6)];
    p.page_size = PAGE_SIZES[draw(9)];
    if (p.table.want_big_pages && draw(4) != 0) p.page_size = 1 << 20;
    p.created_by = draw(4) == 3 ? std::string(draw(200) + 1, 'x') : "";
    p.path_mode = draw(2) == 0;
    p.explicit_new_rg_last = draw(8) == 7;
    for (auto& rg : p.table.rgs) {
        RgPlan rp;
        // per column batches, then a random interleaving that keeps each column's order
        std::vector<std::vector<Batch>> per((size_t)p.table.cols.size());
        for (size_t c = 0; c < p.table.cols.size(); c++) {
            int64_t pos = 0;
            if (p.table.cols[c].max_rep > 0) {
                // whole records per call: row ranges translated into entry ranges
                std::vector<int64_t> row_at; for (size_t e = 0; e < rg.cols[c].rep.size(); e++) if (rg.cols[c].rep[e] == 0) row_at.push_back((int64_t)e);
                row_at.push_back((int64_t)rg.cols[c].rep.size());
                int64_t row = 0;
                for (auto n : gen_composition(rg.rows)) { Batch b{(int)c, row_at[(size_t)row], row_at[(size_t)(row + n)] - row_at[(size_t)row], true, true}; per[c].push_back(b); row += n; }
                continue;
            }
            for (auto n : gen_composition(rg.rows)) {
                Batch b{(int)c, pos, n, true};
                if (p.table.cols[c].rep == OPT) {
                    bool all_present = true;
                    for (int64_t i = pos; i < pos + n; i++) if (rg.cols[c].def[(size_t)i] != 1) all_present = false;
                    b.pass_def = !(all_present && draw(2));
                } else b.pass_def = false;
                per[c].push_back(b); pos += n;
            }
        }
        bool interleave = draw(2) == 1;
        std::vector<size_t> idx(per.size(), 0);
        size_t remaining = 0; for (auto& v : per) remaining += v.size();
        size_t cur = 0;
        while (remaining) {
            if (interleave) { cur = draw((uint32_t)per.size()); while (idx[cur] >= per[cur].size()) cur = (cur + 1) % per.size(); }
            else { while (idx[cur] >= per[cur].size()) cur++; }
            rp.batches.push_back(per[cur][idx[cur]++]); remaining--;
        }
        p.rgs.push_back(rp);
    }
    return p;
}

inline std::string WritePlan::describe() const {
    std::string s = sim::fmt("codec=%d page=%lld %s cols=[", codec, (long long)page_size, path_mode ? "path" : "FILE*");
    for (size_t i = 0; i < table.cols.size() && i < 12; i++) {
        auto& c = table.cols[i];
        s += sim::fmt("%s%s%s%s", i ? "," : "", type_name(c.type), c.rep == OPT ? "?" : c.rep == REPEATED ? "*" : "", c.type == T_FLBA ? sim::fmt("(%d)", c.tlen).c_str() : "");
    }
    if (table.cols.size() > 12) s += sim::fmt(",...%zu", table.cols.size());
    s += "] rgs=[";
    for (size_t g = 0; g < rgs.size(); g++) {
        s += sim::fmt("%s%lld rows:", g ? " | " : "", (long long)table.rgs[g].rows);
        size_t shown = 0;
        for (auto& b : rgs[g].batches) { if (shown++ > 24) { s += "..."; break; } s += sim::fmt(" w(c%d,%lld%s)", b.col, (long long)b.count, table.cols[(size_t)b.col].rep == OPT ? (b.pass_def ? ",def" : ",nodef") : b.pass_rep ? ",rep" : ""); }
    }
    s += "]";
    return s;
}

}  // namespace gen
