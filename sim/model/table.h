// Reference table model: what a Parquet file *means*, independent of carquet.
#pragma once
#include <cstdint>
#include <cstring>
#include <string>
#include <vector>

namespace model {

enum { T_BOOL = 0, T_I32 = 1, T_I64 = 2, T_I96 = 3, T_F32 = 4, T_F64 = 5, T_BA = 6, T_FLBA = 7 };
enum { REQ = 0, OPT = 1, REPEATED = 2 };

static inline const char* type_name(int t) {
    static const char* n[] = {"BOOLEAN", "INT32", "INT64", "INT96", "FLOAT", "DOUBLE", "BYTE_ARRAY", "FLBA"};
    return t >= 0 && t < 8 ? n[t] : "?";
}

// a schema node (for nested schemas of the peer); flat tables use only leaves under the root
struct Node {
    std::string name;
    bool leaf = true;
    int type = T_I32;       // leaves
    int rep = REQ;
    int tlen = 0;           // FLBA
    int logical = 0;        // 0 none, else the field id of the LogicalType union in parquet.thrift: 1 STRING 2 MAP 3 LIST 4 ENUM 5 DECIMAL 6 DATE
                            // 7 TIME 8 TIMESTAMP 10 INTEGER 11 UNKNOWN(null) 12 JSON 13 BSON 14 UUID 15 FLOAT16 (peer may annotate)
    bool converted_only = false;   // the file states the annotation through the legacy converted_type field only (no LogicalType), as parquet-mr < 1.11 / Spark <= 2.4 / Impala do
    int lp1 = 0, lp2 = 0;   // DECIMAL: scale, precision; TIME/TIMESTAMP: isAdjustedToUTC, unit (1 millis 2 micros 3 nanos); INTEGER: bitWidth, isSigned
    std::vector<Node> kids; // groups
};

// a leaf column as the reader sees it
struct Col {
    std::string name;       // leaf name
    std::vector<std::string> path;
    int type = T_I32;
    int rep = REQ;
    int tlen = 0;
    int max_def = 0, max_rep = 0;
    // the order statistics and predicates of this column use (parquet-format, LogicalTypes.md / ColumnOrder): 0 the physical type's own
    // (signed numbers, unsigned bytewise byte arrays), 1 unsigned integers (INTEGER(.., false)), 2 signed big-endian two's complement of
    // equal length (DECIMAL on FIXED_LEN_BYTE_ARRAY), 3 an order the peer does not implement (DECIMAL on BYTE_ARRAY, FLOAT16): it then states no min/max
    int order = 0;
    int logical = 0, lp1 = 0, lp2 = 0;   // annotation as on the Node
};

// one column chunk: one (def, rep) entry per level entry, values dense (only entries with def == max_def)
struct Chunk {
    std::vector<int16_t> def, rep;
    std::vector<std::string> vals;
    size_t entries() const { return def.size(); }
};

struct RowGroup {
    int64_t rows = 0;
    std::vector<Chunk> cols;
};

struct Table {
    Node root;                 // root.kids = top-level fields
    std::vector<Col> cols;     // leaves in depth-first order (derived from root)
    std::vector<RowGroup> rgs;
    bool want_big_pages = false;   // generator hint: content only bites when a page holds all of it (LZ window scenarios)
};

static inline int fixed_width(int type, int tlen) {
    switch (type) {
        case T_BOOL: return 1; case T_I32: case T_F32: return 4; case T_I64: case T_F64: return 8;
        case T_I96: return 12; case T_FLBA: return tlen; default: return -1;
    }
}

// derive leaves + levels from the tree (the textbook definition)
static inline void derive_leaves_rec(const Node& n, std::vector<std::string>& path, int def, int rep, std::vector<Col>& out) {
    int d = def + (n.rep != REQ ? 1 : 0), r = rep + (n.rep == REPEATED ? 1 : 0);
    path.push_back(n.name);
    if (n.leaf) {
        Col c; c.name = n.name; c.path = path; c.type = n.type; c.rep = n.rep; c.tlen = n.tlen; c.max_def = d; c.max_rep = r;
        c.logical = n.logical; c.lp1 = n.lp1; c.lp2 = n.lp2;
        if (n.logical == 10 && n.lp2 == 0) c.order = 1;
        else if (n.logical == 5 && n.type == T_FLBA) c.order = 2;
        else if ((n.logical == 5 && n.type == T_BA) || n.logical == 15) c.order = 3;
        out.push_back(c);
    } else for (auto& k : n.kids) derive_leaves_rec(k, path, d, r, out);
    path.pop_back();
}
static inline void derive_leaves(Table& t) {
    t.cols.clear();
    std::vector<std::string> path;
    for (auto& k : t.root.kids) derive_leaves_rec(k, path, 0, 0, t.cols);
}
static inline int count_nodes(const Node& n) { int c = 1; for (auto& k : n.kids) c += count_nodes(k); return c; }

static inline int64_t nonnull_count(const Chunk& c, int max_def) {
    int64_t n = 0; for (auto d : c.def) n += d == max_def; return n;
}

}  // namespace model
