#!/bin/sh
# Builds the unchanged library, builds the demo against it, runs it.
set -e
HERE=$(cd "$(dirname "$0")" && pwd)
WT=$(cd "$HERE/../.." && pwd)
cd "$WT"
cmake -G Ninja -B _build >/dev/null
cmake --build _build >/dev/null
cd "$HERE"
cc -std=c11 -O1 -g -w -I"$WT/include" demo.c "$WT/_build/libcarquet.a" -lzstd -lz -lm -fopenmp -lpthread -o demo
set +e
./demo
rc=$?
echo "exit code: $rc"
exit $rc
