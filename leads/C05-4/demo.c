/*
 * C05 finding 4: one write_batch() call always lands in ONE data page, however
 * large it is, so the 32-bit fields of the page header overflow.
 *
 * Table: one column `required boolean b`, 2^31 rows (all false), written with
 * a single carquet_writer_write_batch(w, 0, values, 2147483648, NULL, NULL).
 * (The input is a calloc()ed array that is only read, so it costs no physical
 * memory; the library itself needs about 3.5 GB while the call runs and the
 * resulting file is 256 MB.  Takes ~20 s.)
 *
 * close() returns OK.  DataPageHeader.num_values is an i32 in the format, so a
 * writer has to split such a batch over several pages; carquet stores
 * (int32_t)2147483648 = -2147483648.
 *
 * Exit 0 = property holds, 1 = violated, 2 = could not run (not enough memory).
 */
#include <carquet/carquet.h>
#include "pqcheck.h"

int main(void) {
    const char *path = "finding4.parquet";
    const int64_t N = (int64_t)1 << 31;
    carquet_error_t err = CARQUET_ERROR_INIT;
    carquet_schema_t *s = carquet_schema_create(&err);
    if (!s) return 2;
    if (carquet_schema_add_column(s, "b", CARQUET_PHYSICAL_BOOLEAN, NULL, CARQUET_REPETITION_REQUIRED, 0)) return 2;
    carquet_writer_options_t o; carquet_writer_options_init(&o);
    o.compression = CARQUET_COMPRESSION_UNCOMPRESSED;
    carquet_writer_t *w = carquet_writer_create(path, s, &o, &err);
    if (!w) return 2;

    uint8_t *values = calloc((size_t)N, 1);          /* untouched zero pages */
    if (!values) { printf("cannot reserve the input array\n"); return 2; }
    carquet_status_t st = carquet_writer_write_batch(w, 0, values, N, NULL, NULL);
    printf("write_batch(%lld booleans) -> %s\n", (long long)N, carquet_status_string(st));
    free(values);
    if (st != CARQUET_OK) { carquet_writer_abort(w); carquet_schema_free(s); return st == CARQUET_ERROR_OUT_OF_MEMORY ? 2 : 0; }
    st = carquet_writer_close(w);
    printf("close -> %s\n", carquet_status_string(st));
    carquet_schema_free(s);
    if (st != CARQUET_OK) { remove(path); return st == CARQUET_ERROR_OUT_OF_MEMORY ? 2 : 0; }

    {   /* show the first page header */
        FILE *fp = fopen(path, "rb"); uint8_t b[40]; size_t k = fread(b, 1, sizeof b, fp); fclose(fp);
        printf("file starts:"); for (size_t i = 0; i < k; i++) printf(" %02x", b[i]); printf("\n");
    }
    pq_file f; memset(&f, 0, sizeof f);
    int rc = 0;
    if (!pq_check(path, &f)) { printf("independent reader REJECTS the file: %s\n", f.err); rc = 1; }
    else if (f.num_rows != N || f.cols[0].n_values != N) { printf("independent reader recovers %lld rows / %lld values, %lld were written\n",
             (long long)f.num_rows, (long long)f.cols[0].n_values, (long long)N); rc = 1; }
    else printf("file is valid and holds %lld rows\n", (long long)f.num_rows);
    pq_free(&f);
    remove(path);
    printf(rc ? "RESULT: property VIOLATED\n" : "RESULT: property holds\n");
    return rc;
}
