#!/bin/sh
# Builds the library of this worktree as it is (plain and ASan/UBSan variants),
# builds the demos, runs them. Exit status: 0 = property holds, non-zero = violated.
HERE=$(cd "$(dirname "$0")" && pwd)
ROOT=$(cd "$HERE/../.." && pwd)
cd "$ROOT" || exit 2
cmake -G Ninja -B _build >/dev/null && cmake --build _build --target carquet >/dev/null || exit 2
cmake -G Ninja -B _build_asan -DCMAKE_C_FLAGS="-fsanitize=address,undefined -g -O1" \
      -DCMAKE_EXE_LINKER_FLAGS="-fsanitize=address,undefined" >/dev/null && \
cmake --build _build_asan --target carquet >/dev/null || exit 2
cd "$HERE" || exit 2
LIBS="-lzstd -lz -lm -fopenmp -lpthread"
gcc -g -O1 -fsanitize=address,undefined -I"$ROOT/include" demo.c "$ROOT/_build_asan/libcarquet.a" $LIBS -o demo || exit 2
gcc -g -O1 -fsanitize=address,undefined -I"$ROOT/include" demo_nested.c "$ROOT/_build_asan/libcarquet.a" $LIBS -o demo_nested_asan || exit 2
gcc -g -O1 -I"$ROOT/include" demo_nested.c "$ROOT/_build/libcarquet.a" $LIBS -o demo_nested_plain || exit 2

echo "== demo: REPEATED leaf (ASan build) =="
./demo; rc1=$?
echo "exit status: $rc1"
echo
echo "== demo_nested: leaf below an OPTIONAL group, schema taken from a reader (plain build) =="
./demo_nested_plain; rc2=$?
echo "exit status: $rc2"
echo
echo "== demo_nested (ASan build) =="
./demo_nested_asan 2>&1 | head -16; 
./demo_nested_asan >/dev/null 2>&1; rc3=$?
echo "exit status: $rc3"
[ $rc1 -eq 0 ] && [ $rc2 -eq 0 ] && [ $rc3 -eq 0 ]
