/*
 * C05 demo 1: a REPEATED leaf column is written without its definition-level
 * block, so the data page is not a valid Parquet v1 data page.
 *
 * Table (3 rows):   id   tags
 *                   1    [10, 20]
 *                   2    [30]
 *                   3    [40, 50, 60]
 * No list is empty or null here, so every (rep,def) pair has def == 1 and the
 * values array holds one entry per level: nothing about the call is unusual.
 *
 * exit 0: the independent reader accepts the file and recovers the table.
 * exit 1: property violated.
 */
#include <carquet/carquet.h>
#include "pqcheck.h"

int main(void) {
    setvbuf(stdout, NULL, _IONBF, 0);
    const char *path = "demo1.parquet";
    carquet_error_t err = CARQUET_ERROR_INIT;
    carquet_schema_t *schema = carquet_schema_create(&err);
    if (!schema) return 2;
    if (carquet_schema_add_column(schema, "id", CARQUET_PHYSICAL_INT32, NULL, CARQUET_REPETITION_REQUIRED, 0) != CARQUET_OK) return 2;
    if (carquet_schema_add_column(schema, "tags", CARQUET_PHYSICAL_INT32, NULL, CARQUET_REPETITION_REPEATED, 0) != CARQUET_OK) return 2;

    /* what the library itself says about the column */
    const carquet_schema_node_t *node = carquet_schema_get_element(schema, 2);
    printf("schema API: tags max_def_level=%d max_rep_level=%d\n",
           carquet_schema_node_max_def_level(node), carquet_schema_node_max_rep_level(node));

    carquet_writer_options_t opt; carquet_writer_options_init(&opt);
    opt.compression = CARQUET_COMPRESSION_UNCOMPRESSED;
    carquet_writer_t *w = carquet_writer_create(path, schema, &opt, &err);
    if (!w) return 2;

    int32_t ids[3] = {1, 2, 3};
    int32_t tags[6] = {10, 20, 30, 40, 50, 60};
    int16_t rep[6] = {0, 1, 0, 0, 1, 1};
    int16_t def[6] = {1, 1, 1, 1, 1, 1};
    carquet_status_t s1 = carquet_writer_write_batch(w, 0, ids, 3, NULL, NULL);
    carquet_status_t s2 = carquet_writer_write_batch(w, 1, tags, 6, def, rep);
    carquet_status_t s3 = carquet_writer_close(w);
    carquet_schema_free(schema);
    printf("write_batch(id)=%d write_batch(tags)=%d close=%d\n", s1, s2, s3);
    if (s1 != CARQUET_OK || s2 != CARQUET_OK || s3 != CARQUET_OK) {
        printf("writer refused the table: property not engaged\n");
        return 0;
    }

    pq_file_t f;
    int problems = pq_check_file(path, &f);
    int bad = problems;
    if (!problems) {
        pq_column_t *c = &f.col[1];
        if (c->nlevels != 6 || c->nvalues != 6 || memcmp(c->vals, tags, sizeof tags) ||
            memcmp(c->rep, rep, sizeof rep) || memcmp(c->def, def, sizeof def)) {
            printf("column 'tags' read back differently\n"); bad++;
        }
        if (f.num_rows != 3) { printf("num_rows %lld, want 3\n", (long long)f.num_rows); bad++; }
    }
    pq_free(&f);
    if (bad) { printf("FAIL: close returned OK but an independent reader rejects the file (%d problems)\n", bad); return 1; }
    printf("PASS\n");
    return 0;
}
