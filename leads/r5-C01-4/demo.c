/*
 * C01 demonstration (resource leak on the read side of the round trip):
 * every thread that reads a ZSTD-compressed page through the public API leaks
 * a ZSTD decompression context (about 96 KB of heap) when it terminates.
 *
 * The program writes two small files with the same table (ZSTD and, as a
 * control, UNCOMPRESSED), then lets N short-lived threads - one after the
 * other - open the file, read the column through carquet_column_read_batch,
 * verify the values, free the column reader and close the reader. Every
 * object the API handed out has been released when a thread ends. The heap in
 * use (mallinfo2().uordblks) is sampled before and after.
 *
 * exit 0: no per-thread growth; exit 1: the heap grows with every reader thread.
 * (Run it under -fsanitize=address as well: LeakSanitizer attributes the
 * leaked blocks to ZSTD_createDCtx called from carquet_zstd_decompress.)
 */
#include <carquet/carquet.h>
#include <malloc.h>
#include <pthread.h>
#include <stdint.h>
#include <stdio.h>
#include <stdlib.h>
#include <string.h>
#include <unistd.h>

#define ROWS 1000
static const char* g_path;

static void* reader_thread(void* arg) {
    (void)arg;
    carquet_error_t err = CARQUET_ERROR_INIT;
    carquet_reader_t* r = carquet_reader_open(g_path, NULL, &err);
    if (!r) return (void*)1;
    carquet_column_reader_t* c = carquet_reader_get_column(r, 0, 0, &err);
    if (!c) { carquet_reader_close(r); return (void*)1; }
    int32_t v[ROWS];
    int64_t n = carquet_column_read_batch(c, v, ROWS, NULL, NULL);
    intptr_t bad = (n != ROWS);
    for (int i = 0; i < ROWS && !bad; i++) if (v[i] != i * 3) bad = 1;
    carquet_column_reader_free(c);
    carquet_reader_close(r);
    return (void*)bad;
}

static void write_file(const char* path, carquet_compression_t codec) {
    carquet_error_t err = CARQUET_ERROR_INIT;
    carquet_schema_t* s = carquet_schema_create(&err);
    if (!s || carquet_schema_add_column(s, "a", CARQUET_PHYSICAL_INT32, NULL, CARQUET_REPETITION_REQUIRED, 0) != CARQUET_OK) exit(2);
    carquet_writer_options_t wo;
    carquet_writer_options_init(&wo);
    wo.compression = codec;
    carquet_writer_t* w = carquet_writer_create(path, s, &wo, &err);
    if (!w) exit(2);
    int32_t v[ROWS];
    for (int i = 0; i < ROWS; i++) v[i] = i * 3;
    if (carquet_writer_write_batch(w, 0, v, ROWS, NULL, NULL) != CARQUET_OK) exit(2);
    if (carquet_writer_close(w) != CARQUET_OK) exit(2);
    carquet_schema_free(s);
}

static long run_threads(const char* path, int n) {
    g_path = path;
    /* warm-up thread so that one-time allocations (stdio, libgomp, ...) do not count */
    pthread_t t; void* rv;
    pthread_create(&t, NULL, reader_thread, NULL); pthread_join(t, &rv);
    if (rv) { printf("reader thread failed\n"); exit(2); }
    size_t before = mallinfo2().uordblks;
    for (int i = 0; i < n; i++) {
        pthread_create(&t, NULL, reader_thread, NULL);
        pthread_join(t, &rv);
        if (rv) { printf("reader thread failed\n"); exit(2); }
    }
    size_t after = mallinfo2().uordblks;
    return (long)after - (long)before;
}

int main(int argc, char** argv) {
    const char* dir = argc > 1 ? argv[1] : ".";
    int n = 200;
    char pz[512], pu[512];
    snprintf(pz, sizeof pz, "%s/c01_leak_zstd.parquet", dir);
    snprintf(pu, sizeof pu, "%s/c01_leak_plain.parquet", dir);
    write_file(pz, CARQUET_COMPRESSION_ZSTD);
    write_file(pu, CARQUET_COMPRESSION_UNCOMPRESSED);

    long gu = run_threads(pu, n);
    long gz = run_threads(pz, n);
    printf("UNCOMPRESSED file: heap in use grew by %ld bytes over %d reader threads (%ld bytes/thread)\n", gu, n, gu / n);
    printf("ZSTD file        : heap in use grew by %ld bytes over %d reader threads (%ld bytes/thread)\n", gz, n, gz / n);
    unlink(pz); unlink(pu);
    if (gz / n > 4096) {
        printf("VIOLATION: each thread that read the ZSTD file left %ld bytes behind although it released everything the API gave it\n", gz / n);
        printf("RESULT: property violated\n");
        return 1;
    }
    printf("RESULT: property holds\n");
    return 0;
}
