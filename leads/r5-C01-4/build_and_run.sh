#!/bin/sh
# Builds the library in the worktree as it is, builds the demo, runs it.
# If the AddressSanitizer build of the library (_build_asan) exists, the demo is
# also run under LeakSanitizer to show where the leaked blocks come from.
set -e
HERE=$(cd "$(dirname "$0")" && pwd)
WT=$(cd "$HERE/../.." && pwd)
cd "$WT"
cmake -G Ninja -B _build >/dev/null
cmake --build _build >/dev/null
gcc -O1 -g -I"$WT/include" "$HERE/demo.c" "$WT/_build/libcarquet.a" -o "$HERE/demo" \
    -lzstd -lz -lm -fopenmp -lpthread
cd "$HERE"
set +e
./demo "$HERE"
rc=$?
echo "exit status: $rc"
if [ -f "$WT/_build_asan/libcarquet.a" ]; then
    echo "--- same program under AddressSanitizer/LeakSanitizer (first lines of the report)"
    gcc -O1 -g -fsanitize=address,undefined -I"$WT/include" "$HERE/demo.c" "$WT/_build_asan/libcarquet.a" \
        -o "$HERE/demo_asan" -lzstd -lz -lm -fopenmp -lpthread
    ./demo_asan "$HERE" 2>&1 | grep -A12 "LeakSanitizer" | head -20
fi
exit $rc
