#!/bin/sh
# Builds the library in the worktree as it is, builds the demo (one malloc made to fail
# through link-time interposition, -Wl,--wrap=malloc), runs it.
set -e
WT=/tmp/wt4/C01
cd "$WT"
cmake -G Ninja -B _build >/dev/null
cmake --build _build >/dev/null
cd "$WT/_finding/3"
cc -g -O1 -I"$WT/include" demo.c "$WT/_build/libcarquet.a" -Wl,--wrap=malloc -lzstd -lz -lm -fopenmp -lpthread -o demo
set +e
./demo
echo "demo exit status: $?"
