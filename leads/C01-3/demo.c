/*
 * C01 demo 3: after carquet_batch_reader_next() has failed once (one allocation fails), later
 * calls return CARQUET_OK batches whose columns come from DIFFERENT rows, and rows are lost.
 *
 * File: 2 REQUIRED INT32 columns, 300 rows, a[i] = i, b[i] = i + 1000000 (so every row
 * identifies itself in both columns).  Read with batch_size = 64, num_threads = 1.
 * One malloc() (the k-th one issued by the library after the batch reader was created) is
 * made to fail via -Wl,--wrap=malloc; k is swept.  For every k:
 *   - a failing next() is fine (it reports the error), we simply call next() again, the way
 *     the library's own "try it again" comment in batch_reader.c suggests;
 *   - every batch that IS returned with CARQUET_OK must be row-consistent
 *     (b[j] - a[j] == 1000000 for all j) and, if the reader ends with END_OF_DATA, every row
 *     must have been delivered exactly once.
 *
 * exit 0 = holds for every k, 1 = violated.
 */
#include <carquet/carquet.h>
#include <stdio.h>
#include <stdlib.h>
#include <string.h>
#include <stdint.h>
#include <errno.h>
#include <unistd.h>

static long alloc_count, alloc_fail_at = -1;
void* __real_malloc(size_t);
void* __wrap_malloc(size_t n) {
    if (alloc_fail_at >= 0 && ++alloc_count == alloc_fail_at) { errno = ENOMEM; return NULL; }
    return __real_malloc(n);
}

#define NR 300
static char path[256];

static int write_file(void) {
    carquet_error_t err = CARQUET_ERROR_INIT;
    carquet_schema_t* s = carquet_schema_create(&err);
    if (!s) return 1;
    if (carquet_schema_add_column(s, "a", CARQUET_PHYSICAL_INT32, NULL, CARQUET_REPETITION_REQUIRED, 0)) return 1;
    if (carquet_schema_add_column(s, "b", CARQUET_PHYSICAL_INT32, NULL, CARQUET_REPETITION_REQUIRED, 0)) return 1;
    carquet_writer_t* w = carquet_writer_create(path, s, NULL, &err);
    if (!w) return 1;
    int32_t a[NR], b[NR];
    for (int i = 0; i < NR; i++) { a[i] = i; b[i] = i + 1000000; }
    if (carquet_writer_write_batch(w, 0, a, NR, NULL, NULL)) return 1;
    if (carquet_writer_write_batch(w, 1, b, NR, NULL, NULL)) return 1;
    if (carquet_writer_close(w)) return 1;
    carquet_schema_free(s);
    return 0;
}

/* returns 0 fine, 1 violated; *errors_seen = number of failing next() calls */
static int read_with_fault(long k, int verbose, int* errors_seen) {
    carquet_error_t err = CARQUET_ERROR_INIT;
    *errors_seen = 0;
    carquet_reader_t* r = carquet_reader_open(path, NULL, &err);
    if (!r) return 0;
    carquet_batch_reader_config_t bc;
    carquet_batch_reader_config_init(&bc);
    bc.batch_size = 64;
    bc.num_threads = 1;
    carquet_batch_reader_t* br = carquet_batch_reader_create(r, &bc, &err);
    if (!br) { carquet_reader_close(r); return 0; }

    alloc_count = 0; alloc_fail_at = k;          /* arm the fault */
    int violated = 0, seen[NR] = {0}, calls = 0;
    carquet_status_t st;
    for (;;) {
        carquet_row_batch_t* b = NULL;
        st = carquet_batch_reader_next(br, &b);
        if (++calls > 50) break;
        if (st == CARQUET_ERROR_END_OF_DATA) break;
        if (st != CARQUET_OK || !b) {
            (*errors_seen)++;
            if (verbose) printf("    next() #%d -> error %d (%s); calling next() again\n", calls, st, carquet_status_string(st));
            if (*errors_seen > 3) break;
            continue;
        }
        const void *da, *db; const uint8_t *na, *nb; int64_t ca, cb;
        if (carquet_row_batch_column(b, 0, &da, &na, &ca) || carquet_row_batch_column(b, 1, &db, &nb, &cb)) { violated = 1; break; }
        const int32_t* a = da; const int32_t* bb = db;
        if (verbose) printf("    next() #%d -> OK, %lld rows: a = %d..%d, b-1000000 = %d..%d%s\n", calls, (long long)ca,
                            a[0], a[ca - 1], bb[0] - 1000000, bb[cb - 1] - 1000000,
                            (a[0] != bb[0] - 1000000) ? "   <-- columns from different rows" : "");
        for (int64_t j = 0; j < ca; j++) {
            if (bb[j] - a[j] != 1000000) violated = 1;
            if (a[j] >= 0 && a[j] < NR) seen[a[j]]++;
        }
        carquet_row_batch_free(b);
    }
    alloc_fail_at = -1;                          /* disarm */
    if (st == CARQUET_ERROR_END_OF_DATA) {
        int missing = 0;
        for (int i = 0; i < NR; i++) if (seen[i] != 1) missing++;
        if (missing && *errors_seen <= 1) {
            if (verbose) printf("    END_OF_DATA reached, but %d of %d rows were never delivered / delivered twice\n", missing, NR);
        }
    }
    carquet_batch_reader_free(br);
    carquet_reader_close(r);
    return violated;
}

int main(void) {
    snprintf(path, sizeof path, "/tmp/carquet_c01_demox_%d.parquet", (int)getpid());
    if (write_file()) { printf("writer failed (unexpected)\n"); return 2; }

    int errors;
    if (read_with_fault(-1, 0, &errors) || errors) { printf("baseline read broken\n"); return 2; }

    int bad = 0, first_bad = -1, injected = 0;
    for (long k = 1; k <= 60; k++) {
        int v = read_with_fault(k, 0, &errors);
        if (errors) injected++;
        if (v) { bad++; if (first_bad < 0) first_bad = (int)k; }
    }
    printf("swept k = 1..60: %d runs in which next() reported an error, %d of them then returned\n"
           "CARQUET_OK batches whose two columns come from different rows\n", injected, bad);
    if (first_bad >= 0) {
        printf("trace for k = %d (the %d-th malloc of the library fails once):\n", first_bad, first_bad);
        read_with_fault(first_bad, 1, &errors);
    }
    remove(path);
    printf(bad ? "RESULT: property VIOLATED\n" : "RESULT: property holds\n");
    return bad ? 1 : 0;
}
