#!/bin/sh
# Builds the library as it is in the worktree, builds the demo, runs it.
set -e
HERE=$(cd "$(dirname "$0")" && pwd)
ROOT=$(cd "$HERE/../.." && pwd)
cmake -G Ninja -S "$ROOT" -B "$ROOT/_build" >/dev/null
cmake --build "$ROOT/_build" --target carquet >/dev/null
cc -std=c11 -O1 -g -I"$ROOT/include" -o "$HERE/demo" "$HERE/demo.c" "$ROOT/_build/libcarquet.a" -lzstd -lz -lm -fopenmp -lpthread
cd "$HERE"
set +e
./demo
rc=$?
echo "demo exit code: $rc"
exit $rc
