/* Finding 4: every thread that decodes a ZSTD page leaks one ZSTD decompression
 * context (about 96 KB) when it exits.
 *
 * carquet.h: carquet_reader_get_column - "Thread-safe: Yes (multiple column
 * readers can be used concurrently)"; the obvious way to use that is one worker
 * thread per column / per request.  A ZSTD file written by any other writer
 * (pyarrow, Spark, DuckDB default to or commonly use ZSTD) is read correctly,
 * but each worker thread that touched a ZSTD page leaves 95,992 bytes behind that
 * nothing can free any more: the only pointer to the context is a thread-local
 * variable of the thread that has exited.
 *
 * exit 0: no growth; exit 1: leak. */
#include "pqfile.h"
#include <carquet/carquet.h>
#include <pthread.h>
#include <malloc.h>

static buf_t F;
#define N 100

static void* worker(void* a) {
    (void)a;
    carquet_error_t err = CARQUET_ERROR_INIT;
    carquet_reader_t* rd = carquet_reader_open_buffer(F.p, F.n, NULL, &err);
    if (!rd) return (void*)(intptr_t)-1;
    carquet_column_reader_t* col = carquet_reader_get_column(rd, 0, 0, &err);
    int32_t v[N]; int64_t got = col ? carquet_column_read_batch(col, v, N, NULL, NULL) : -1;
    for (int i = 0; i < N && got == N; i++) if (v[i] != i * 3) got = -3;
    if (col) carquet_column_reader_free(col);
    carquet_reader_close(rd);                 /* everything the API lets us release is released */
    return (void*)(intptr_t)got;
}

static int run_threads(int n) {
    for (int i = 0; i < n; i++) {
        pthread_t t; void* r;
        if (pthread_create(&t, NULL, worker, NULL)) return -1;
        pthread_join(t, &r);
        if ((intptr_t)r != N) { printf("worker read failed (%ld)\n", (long)(intptr_t)r); return -1; }
    }
    return 0;
}

static void build_file(int codec) {
    /* one REQUIRED INT32 column, one compressed PLAIN page */
    b_free(&F);
    b_put(&F, "PAR1", 4);
    buf_t body = { 0 }; for (int i = 0; i < N; i++) b_u32(&body, (uint32_t)(i * 3));
    page_opts_t po; memset(&po, 0, sizeof po); po.codec = codec;
    chunk_t k; memset(&k, 0, sizeof k);
    k.type = PT_INT32; k.codec = codec; k.num_values = N; k.data_page_offset = (int64_t)F.n;
    k.path[0] = "c"; k.path_len = 1; k.encodings[0] = ENC_PLAIN; k.n_enc = 1;
    size_t sz = pq_put_page(&F, PAGE_DATA, N, ENC_PLAIN, body.p, body.n, &po);
    k.total_compressed = k.total_uncompressed = (int64_t)sz;
    schema_el_t schema[2] = { { "schema", -1, 0, -1, 1, -1 }, { "c", PT_INT32, 0, REP_REQUIRED, 0, -1 } };
    int64_t rows = N; footer_opts_t fo; memset(&fo, 0, sizeof fo);
    pq_put_footer(&F, schema, 2, N, &k, 1, 1, &rows, &fo);
    b_free(&body);
}

static long growth_per_thread(int codec, const char* label) {
    build_file(codec);
    if (run_threads(5)) exit(2);              /* warm up: stacks, arenas, lookup tables */
    size_t h0 = mallinfo2().uordblks;
    if (run_threads(100)) exit(2);
    size_t h1 = mallinfo2().uordblks;
    if (run_threads(100)) exit(2);
    size_t h2 = mallinfo2().uordblks;
    printf("%s: heap in use after warm-up %zu, after 100 more reader threads %+ld, after 200 more %+ld  -> %ld bytes per finished thread\n",
           label, h0, (long)h1 - (long)h0, (long)h2 - (long)h0, ((long)h2 - (long)h0) / 200);
    return ((long)h2 - (long)h0) / 200;
}

int main(void) {
    carquet_status_t ist = carquet_init(); (void)ist;
    long g = growth_per_thread(CODEC_GZIP, "control, GZIP page");
    long z = growth_per_thread(CODEC_ZSTD, "ZSTD page        ");
    if (g > 10000) { printf("control grows too - setup problem\n"); return 2; }
    int bad = z > 10000;                      /* > 10 KB per thread cannot be bookkeeping noise */
    printf(bad ? "RESULT: violated - each thread that decoded a ZSTD page leaks its ZSTD_DCtx\n" : "RESULT: ok\n");
    return bad;
}
