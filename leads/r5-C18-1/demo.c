/*
 * C18 - "carquet_writer_abort at any point releases all resources and leaves
 * no file behind for path-based writers."
 *
 * carquet_writer_abort() does not remove the file the writer created; it calls
 * remove() on the *name* that was passed to carquet_writer_create(), resolved
 * again at abort time.  If that name no longer leads to the file that was
 * opened, the partly written file stays behind and something else is deleted.
 *
 *   case A: relative path, the process changes directory before the abort
 *   case B: the path is a symbolic link to the real output file
 *
 * Public API only.  Exit 0 = property holds, 1 = violated.
 */
#include <carquet/carquet.h>
#include <stdio.h>
#include <stdlib.h>
#include <string.h>
#include <unistd.h>
#include <sys/stat.h>

static carquet_schema_t *make_schema(void) {
    carquet_error_t err = CARQUET_ERROR_INIT;
    carquet_schema_t *sc = carquet_schema_create(&err);
    if (!sc || carquet_schema_add_column(sc, "a", CARQUET_PHYSICAL_INT32, NULL,
                                         CARQUET_REPETITION_REQUIRED, 0) != CARQUET_OK) {
        fprintf(stderr, "schema setup failed\n");
        exit(2);
    }
    return sc;
}

static long size_of(const char *p) {
    struct stat st;
    return lstat(p, &st) == 0 ? (long)st.st_size : -1;
}

static void put(const char *p, const char *text) {
    FILE *f = fopen(p, "wb");
    if (!f) { perror(p); exit(2); }
    fputs(text, f);
    fclose(f);
}

/* create a writer on `path`, write two row groups, return it un-closed */
static carquet_writer_t *start_writer(const char *path, carquet_schema_t *sc) {
    carquet_error_t err = CARQUET_ERROR_INIT;
    carquet_writer_t *w = carquet_writer_create(path, sc, NULL, &err);
    if (!w) { fprintf(stderr, "create failed: %s\n", err.message); exit(2); }
    int32_t a[100];
    for (int i = 0; i < 100; i++) a[i] = i;
    for (int rg = 0; rg < 2; rg++) {
        if (carquet_writer_write_batch(w, 0, a, 100, NULL, NULL) != CARQUET_OK ||
            carquet_writer_new_row_group(w) != CARQUET_OK) {
            fprintf(stderr, "write failed\n");
            exit(2);
        }
    }
    return w;
}

int main(void) {
    int violations = 0;
    char base[] = "c18_abort_XXXXXX";
    if (!mkdtemp(base)) { perror("mkdtemp"); return 2; }
    if (chdir(base) != 0) { perror("chdir"); return 2; }
    mkdir("out", 0755);
    mkdir("other", 0755);
    carquet_schema_t *sc = make_schema();

    /* ---------------- case A: relative path + chdir ---------------- */
    if (chdir("out") != 0) return 2;
    /* an unrelated, finished file of the same name lives in ../other */
    put("../other/table.parquet", "precious data of somebody else\n");
    carquet_writer_t *w = start_writer("table.parquet", sc);
    if (chdir("../other") != 0) return 2;      /* application moves on */
    carquet_writer_abort(w);
    if (chdir("..") != 0) return 2;

    long left = size_of("out/table.parquet");
    long other = size_of("other/table.parquet");
    printf("case A (chdir between create and abort):\n");
    printf("  out/table.parquet   after abort: %s (size %ld)\n",
           left >= 0 ? "STILL THERE" : "gone", left);
    printf("  other/table.parquet after abort: %s\n",
           other >= 0 ? "intact" : "DELETED (was never opened by the writer)");
    if (left >= 0) violations++;
    if (other < 0) violations++;

    /* ---------------- case B: path is a symbolic link ---------------- */
    unlink("out/table.parquet");
    mkdir("store", 0755);
    if (symlink("store/real.parquet", "latest.parquet") != 0) { perror("symlink"); return 2; }
    w = start_writer("latest.parquet", sc);    /* fopen follows the link */
    carquet_writer_abort(w);
    long target = size_of("store/real.parquet");
    long link = size_of("latest.parquet");
    printf("case B (output path is a symlink):\n");
    printf("  store/real.parquet after abort: %s (size %ld)\n",
           target >= 0 ? "STILL THERE" : "gone", target);
    printf("  latest.parquet (the link)     : %s\n", link >= 0 ? "kept" : "removed");
    if (target >= 0) violations++;

    carquet_schema_free(sc);
    printf("%s\n", violations ? "VIOLATION: carquet_writer_abort left the partly written file behind"
                              : "ok: nothing left behind");
    return violations ? 1 : 0;
}
