/* One required BYTE_ARRAY column "blob" holding three values of LEN bytes each
 * (think of images or documents).  The writer records exact min/max statistics
 * in the data page header, as the format allows (truncating them is optional),
 * so the Thrift page header is a little over 2*LEN bytes long.
 * The file is read for LEN = 100 KB (works) and LEN = 600 KB (header > 1 MiB). */
#include <carquet/carquet.h>
#include "pq.h"
#include <stdio.h>

static int run(size_t len, int use_mmap) {
    char path[64]; snprintf(path, sizeof path, "blob_%zu.parquet", len);
    uint8_t* v[3];
    for (int i = 0; i < 3; i++) { v[i] = (uint8_t*)malloc(len); memset(v[i], 'a' + i, len); }
    pq_buf f = {0}; pq_put(&f, "PAR1", 4);
    pq_buf body = {0};
    for (int i = 0; i < 3; i++) { pq_u32(&body, (uint32_t)len); pq_put(&body, v[i], len); }
    pq_chunk c; memset(&c, 0, sizeof c);
    c.type = 6; c.path[0] = "blob"; c.pathlen = 1; c.num_values = 3; c.encodings[0] = 0; c.encodings[1] = 3; c.nenc = 2;
    c.first_page_off = c.data_page_off = (int64_t)f.n;
    pq_data_page_ex(&f, 3, 0, &body, v[0], len, v[2], len);      /* min = "aaa..", max = "ccc.." */
    c.size = (int64_t)f.n - c.first_page_off;
    pq_elem el[2] = {{"schema", -1, -1, 0, 1}, {"blob", 0, 6, 0, 0}};
    pq_rowgroup rg = {3, &c, 1};
    pq_finish(&f, el, 2, &rg, 1);
    if (pq_save(&f, path)) return 2;
    free(f.p); free(body.p);

    carquet_error_t err = CARQUET_ERROR_INIT;
    carquet_reader_options_t o; carquet_reader_options_init(&o); o.use_mmap = use_mmap;
    carquet_reader_t* r = carquet_reader_open(path, &o, &err);
    if (!r) { printf("  open failed: %s\n", err.message); return 1; }
    carquet_column_reader_t* cr = carquet_reader_get_column(r, 0, 0, &err);
    carquet_byte_array_t out[3];
    int64_t n = carquet_column_read_batch(cr, out, 3, NULL, NULL);
    int bad = n != 3;
    for (int i = 0; i < n && !bad; i++) bad = out[i].length != (int32_t)len || memcmp(out[i].data, v[i], len) != 0;
    printf("  value length %7zu, %s: read_batch returned %lld -> %s\n", len, use_mmap ? "mmap " : "fread", (long long)n, bad ? "FAIL" : "ok");
    if (bad) {   /* show the library's own diagnosis through the batch reader status */
        carquet_batch_reader_t* br = carquet_batch_reader_create(r, NULL, &err); carquet_row_batch_t* b = NULL;
        carquet_status_t st = carquet_batch_reader_next(br, &b);
        printf("    batch reader status: %d (%s)\n", st, carquet_status_string(st));
        if (b) carquet_row_batch_free(b);
        carquet_batch_reader_free(br);
    }
    carquet_column_reader_free(cr); carquet_reader_close(r);
    for (int i = 0; i < 3; i++) free(v[i]);
    remove(path);
    return bad;
}

int main(void) {
    setvbuf(stdout, NULL, _IONBF, 0);
    if (carquet_init() != CARQUET_OK) return 2;
    int bad = 0;
    bad |= run(100 * 1000, 0); bad |= run(100 * 1000, 1);
    bad |= run(600 * 1000, 0); bad |= run(600 * 1000, 1);
    printf(bad ? "FAIL: a spec-valid file was rejected\n" : "OK\n");
    return bad;
}
