#!/bin/sh
# Builds the library in the worktree as it is, builds the demo, runs it.
set -e
HERE=$(cd "$(dirname "$0")" && pwd)
ROOT=$(cd "$HERE/../.." && pwd)
cd "$ROOT"
cmake -G Ninja -B _build >/dev/null
cmake --build _build --target carquet >/dev/null
cc -std=c11 -g -O1 -Wall -I"$ROOT/include" -o "$HERE/demo" "$HERE/demo.c" \
   "$ROOT/_build/libcarquet.a" -lzstd -lz -lm -fopenmp -lpthread
set +e
"$HERE/demo"
rc=$?
echo "exit code: $rc"
exit $rc
