/*
 * C16 finding 2: a NaN stored as a FLOAT/DOUBLE statistics bound makes
 * carquet prune row groups that hold matching rows.
 *
 * A writer that orders NaN above every number (IEEE-754 totalOrder, Java
 * Float.compare, Rust f32::total_cmp ...) records max = NaN for a chunk that
 * contains a NaN; min/max are then true bounds in that (total) order.  Such
 * files exist, which is why parquet.thrift obliges READERS: "If the min is a
 * NaN, it should be ignored. If the max is a NaN, it should be ignored."
 * carquet instead feeds the NaN to a three-way comparator that answers
 * "equal" for unordered operands.
 *
 * File built by hand: REQUIRED FLOAT (and, second file, DOUBLE) column,
 * statistics in min_value/max_value (fields 6/5), column_orders = TYPE_ORDER.
 * Ground truth by brute force over the rows read back through carquet.
 *
 * exit 0: no false negative; exit 1: a row group with a matching row pruned.
 */
#include <carquet/carquet.h>
#include <math.h>
#include <stdio.h>
#include <string.h>
#include "pqbuild.h"

#define NRG 3
#define PER 3
static const char* OPN[] = { "==", "!=", "<", "<=", ">", ">=" };

static int holds(int op, double v, double p) {
    switch (op) {
        case CARQUET_COMPARE_EQ: return v == p;
        case CARQUET_COMPARE_NE: return v != p;
        case CARQUET_COMPARE_LT: return v < p;
        case CARQUET_COMPARE_LE: return v <= p;
        case CARQUET_COMPARE_GT: return v > p;
        default:                 return v >= p;
    }
}
/* total order with NaN above everything, as the writer of the file uses it */
static int total_lt(double a, double b) {
    if (isnan(a)) return 0;
    if (isnan(b)) return 1;
    return a < b;
}

static int run(int is_double) {
    const double data[NRG][PER] = {
        { 1.0, (double)NAN, 3.0 },     /* min 1, max NaN */
        { 10.0, 20.0, 30.0 },          /* ordinary */
        { -5.0, 7.0, (double)NAN },    /* min -5, max NaN */
    };
    pq_buf pages[NRG]; pq_rg rgs[NRG];
    double dmin[NRG], dmax[NRG]; float fmin[NRG], fmax[NRG];
    memset(pages, 0, sizeof pages); memset(rgs, 0, sizeof rgs);
    for (int g = 0; g < NRG; g++) {
        double mn = data[g][0], mx = data[g][0];
        for (int i = 0; i < PER; i++) {
            if (is_double) { double d = data[g][i]; pq_put(&pages[g], &d, 8); }
            else { float f = (float)data[g][i]; pq_put(&pages[g], &f, 4); }
            if (total_lt(data[g][i], mn)) mn = data[g][i];
            if (total_lt(mx, data[g][i])) mx = data[g][i];
        }
        dmin[g] = mn; dmax[g] = mx; fmin[g] = (float)mn; fmax[g] = (float)mx;
        rgs[g].page = pages[g].p; rgs[g].page_len = pages[g].n; rgs[g].num_values = PER;
        rgs[g].has_stats = 1; rgs[g].deprecated = 0;
        rgs[g].min = is_double ? (void*)&dmin[g] : (void*)&fmin[g];
        rgs[g].max = is_double ? (void*)&dmax[g] : (void*)&fmax[g];
        rgs[g].min_len = rgs[g].max_len = is_double ? 8 : 4;
        rgs[g].has_null_count = 1;
    }
    pq_col col = { "x", is_double ? PQ_DOUBLE : PQ_FLOAT, 0, -1, 1, "hand-built (NaN sorts last)" };
    uint8_t* file; size_t file_len;
    pq_build(&col, rgs, NRG, &file, &file_len);

    carquet_error_t err = CARQUET_ERROR_INIT;
    carquet_reader_t* rd = carquet_reader_open_buffer(file, file_len, NULL, &err);
    if (!rd) { printf("SETUP: open failed: %s\n", err.message); return -1; }

    double rows[NRG][PER];
    for (int g = 0; g < NRG; g++) {
        carquet_column_reader_t* c = carquet_reader_get_column(rd, g, 0, &err);
        if (!c) { printf("SETUP: get_column: %s\n", err.message); return -1; }
        if (is_double) {
            if (carquet_column_read_batch(c, rows[g], PER, NULL, NULL) != PER) return -1;
        } else {
            float f[PER];
            if (carquet_column_read_batch(c, f, PER, NULL, NULL) != PER) return -1;
            for (int i = 0; i < PER; i++) rows[g][i] = f[i];
        }
        carquet_column_reader_free(c);
        carquet_column_statistics_t st;
        if (carquet_reader_column_statistics(rd, g, 0, &st) != CARQUET_OK || !st.has_min_max) return -1;
        double mn, mx;
        if (is_double) { memcpy(&mn, st.min_value, 8); memcpy(&mx, st.max_value, 8); }
        else { float a, b; memcpy(&a, st.min_value, 4); memcpy(&b, st.max_value, 4); mn = a; mx = b; }
        printf("%s rg%d rows {%g, %g, %g}  statistics min=%g max=%g\n", is_double ? "DOUBLE" : "FLOAT",
               g, rows[g][0], rows[g][1], rows[g][2], mn, mx);
    }

    const double probes[] = { -10.0, -5.0, 0.5, 1.0, 2.0, 3.0, 7.0, 25.0, 100.0 };
    int bad = 0;
    for (size_t p = 0; p < sizeof probes / sizeof *probes; p++) {
        double pd = probes[p]; float pf = (float)pd;
        const void* pv = is_double ? (const void*)&pd : (const void*)&pf;
        int32_t ps = is_double ? 8 : 4;
        for (int op = 0; op < 6; op++) {
            int32_t idx[NRG];
            int32_t n = carquet_reader_filter_row_groups(rd, 0, (carquet_compare_op_t)op, pv, ps, idx, NRG);
            for (int g = 0; g < NRG; g++) {
                int truth = 0;
                for (int i = 0; i < PER; i++) truth |= holds(op, rows[g][i], pd);
                bool mm = true;
                if (carquet_reader_row_group_matches(rd, g, 0, (carquet_compare_op_t)op, pv, ps, &mm) != CARQUET_OK) bad++;
                int listed = 0;
                for (int k = 0; k < n; k++) listed |= idx[k] == g;
                if (truth && (!mm || !listed)) {
                    printf("FALSE NEGATIVE: rg%d holds a row with x %s %g: row_group_matches=%d, in filter_row_groups list=%d\n",
                           g, OPN[op], pd, (int)mm, listed);
                    bad++;
                }
            }
        }
    }
    carquet_reader_close(rd);
    free(file);
    return bad;
}

int main(void) {
    int a = run(0), b = run(1);
    if (a < 0 || b < 0) { printf("RESULT: setup failed\n"); return 2; }
    if (a + b) { printf("RESULT: %d violations\n", a + b); return 1; }
    printf("RESULT: ok\n");
    return 0;
}
