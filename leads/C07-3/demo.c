/*
 * C07 finding 3: every thread that ever decompresses a ZSTD page gets its own
 * ZSTD_DCtx (src/compression/zstd.c, `static __thread ZSTD_DCtx* tls_dctx`),
 * and nothing ever frees it.  Worker threads do go away:
 *   (a) libgomp retires the surplus workers as soon as a later parallel region
 *       asks for fewer threads (num_threads 16 -> 2), and
 *   (b) a reader used from a short-lived application thread takes that
 *       thread's whole OpenMP team with it when the thread ends.
 * Each retired thread leaks its ~96 KB context, so memory use depends on the
 * num_threads history / on which thread used the reader, and grows without
 * bound in a thread-per-request program.
 *
 * Public API + pthreads; LeakSanitizer does the accounting
 * (__lsan_do_recoverable_leak_check() != 0  <=>  unreachable heap blocks).
 *
 * exit 0 = no leak, 1 = leak (property violated), 2 = setup problem.
 */
#define _GNU_SOURCE
#include <carquet/carquet.h>
#include <sanitizer/lsan_interface.h>
#include <pthread.h>
#include <stdio.h>
#include <stdlib.h>
#include <string.h>
#include <stdint.h>

#define ROWS 8000
#define NCOLS 16

static int write_file(const char* path, carquet_compression_t codec) {
    carquet_error_t err = CARQUET_ERROR_INIT;
    carquet_schema_t* s = carquet_schema_create(&err);
    if (!s) return 1;
    for (int c = 0; c < NCOLS; c++) {
        char name[8]; snprintf(name, sizeof name, "c%d", c);
        if (carquet_schema_add_column(s, name, CARQUET_PHYSICAL_INT64, NULL, CARQUET_REPETITION_REQUIRED, 0) != CARQUET_OK) return 1;
    }
    carquet_writer_options_t o;
    carquet_writer_options_init(&o);
    o.compression = codec;
    o.page_size = 8192;
    carquet_writer_t* w = carquet_writer_create(path, s, &o, &err);
    if (!w) return 1;
    int64_t* v = malloc(ROWS * sizeof *v);
    for (int c = 0; c < NCOLS; c++) {
        for (int i = 0; i < ROWS; i++) v[i] = (int64_t)i * (c + 3) % 1009;
        if (carquet_writer_write_batch(w, c, v, ROWS, NULL, NULL) != CARQUET_OK) return 1;
    }
    free(v);
    if (carquet_writer_close(w) != CARQUET_OK) return 1;
    carquet_schema_free(s);
    return 0;
}

/* read the whole file with the given num_threads; returns sum of column 0 or -1 */
static long long read_all(const char* path, int num_threads) {
    carquet_error_t err = CARQUET_ERROR_INIT;
    carquet_reader_t* rd = carquet_reader_open(path, NULL, &err);
    if (!rd) return -1;
    carquet_batch_reader_config_t cfg;
    carquet_batch_reader_config_init(&cfg);
    cfg.batch_size = 2000;
    cfg.num_threads = num_threads;
    carquet_batch_reader_t* br = carquet_batch_reader_create(rd, &cfg, &err);
    if (!br) { carquet_reader_close(rd); return -1; }
    long long sum = 0;
    for (;;) {
        carquet_row_batch_t* b = NULL;
        carquet_status_t st = carquet_batch_reader_next(br, &b);
        if (st == CARQUET_ERROR_END_OF_DATA) break;
        if (st != CARQUET_OK || !b) { sum = -1; break; }
        const void* d; const uint8_t* nb; int64_t nv;
        if (carquet_row_batch_column(b, 0, &d, &nb, &nv) != CARQUET_OK) { sum = -1; break; }
        for (int64_t i = 0; i < nv; i++) sum += ((const int64_t*)d)[i];
        carquet_row_batch_free(b);
    }
    carquet_batch_reader_free(br);
    carquet_reader_close(rd);
    return sum;
}

struct job { const char* path; int num_threads; long long sum; };
static void* request_thread(void* arg) {
    struct job* j = arg;
    j->sum = read_all(j->path, j->num_threads);
    return NULL;
}

static int scenario(const char* path, const char* what) {
    long long expect = read_all(path, 1);
    if (expect < 0) return 2;
    int wrong = 0;

    /* (a) the same (main) thread lowers num_threads from one reader to the next */
    for (int rep = 0; rep < 5; rep++) {
        if (read_all(path, 16) != expect) wrong++;
        if (read_all(path, 2) != expect) wrong++;      /* 14 pool threads are retired here */
    }
    /* (b) ten short-lived application threads, each reads the file with 4 workers */
    for (int rep = 0; rep < 10; rep++) {
        struct job j = { path, 4, 0 };
        pthread_t t;
        if (pthread_create(&t, NULL, request_thread, &j)) return 2;
        pthread_join(t, NULL);
        if (j.sum != expect) wrong++;
    }
    if (wrong) { printf("%s: content differs ?!\n", what); return 1; }

    fflush(stdout);
    int leaked = __lsan_do_recoverable_leak_check();
    printf("%s: content identical in all runs; leak check: %s\n", what, leaked ? "LEAKS (report above)" : "clean");
    return leaked ? 1 : 0;
}

int main(void) {
    const char* snappy = "/tmp/wt4/C07/_finding/3/demo_snappy.parquet";
    const char* zstd   = "/tmp/wt4/C07/_finding/3/demo_zstd.parquet";
    if (write_file(snappy, CARQUET_COMPRESSION_SNAPPY) || write_file(zstd, CARQUET_COMPRESSION_ZSTD)) {
        fprintf(stderr, "could not write the test files\n");
        return 2;
    }
    int control = scenario(snappy, "control, SNAPPY file");
    if (control != 0) { printf("control run is not clean - demonstration inconclusive\n"); return 2; }
    int rc = scenario(zstd, "ZSTD file");
    printf("%s\n", rc == 1 ? "PROPERTY VIOLATED (per-thread ZSTD contexts of retired threads are leaked)"
                           : rc == 0 ? "no leak" : "setup problem");
    return rc;
}
