#!/bin/sh
# Builds the unchanged library with ASan(+LSan)/UBSan, the demo, and runs it.
WT=/tmp/wt4/C07
cd "$WT" || exit 2
cmake -G Ninja -B _build_asan -DCMAKE_C_FLAGS="-fsanitize=address,undefined -g -O1" \
      -DCMAKE_EXE_LINKER_FLAGS="-fsanitize=address,undefined" >/dev/null \
  && cmake --build _build_asan --target carquet >/dev/null || exit 2
cd "$WT/_finding/3" || exit 2
gcc -g -O1 -fsanitize=address,undefined -fopenmp -I"$WT/include" demo.c \
    "$WT/_build_asan/libcarquet.a" -lzstd -lz -lm -lpthread -o demo || exit 2
# slow unwinder so that the allocation stacks go through libzstd back into carquet;
# leak check at exit is off because the demo runs the check itself
ASAN_OPTIONS=fast_unwind_on_malloc=0:detect_leaks=1:leak_check_at_exit=0 ./demo
