/*
 * C04 finding 4: the work and memory spent on a data page are governed by the
 * page header's num_values alone - it is never compared with the size of the
 * page body before buffers of that many rows are allocated AND written.
 *
 * The file below is 150-odd bytes. Its only page (REQUIRED INT64 column, PLAIN,
 * uncompressed, 16 bytes of payload = 2 values) claims num_values = 200,000,000.
 * For a REQUIRED fixed-width PLAIN page the claim is checkable at once
 * (200,000,000 * 8 bytes cannot fit in a 16-byte body); the zero-copy mmap
 * branch does check it, the decoding branch used by the fread path, by
 * compressed chunks and by carquet_reader_open_buffer on nullable/boolean/
 * byte-array columns does not. It allocates 1.6 GB + 0.4 GB + 0.4 GB, fills the
 * two level arrays (0.8 GB of page faults), and only then notices that the
 * values are not there. With num_values = INT32_MAX the same file costs 16 GB +
 * 8 GB and usually ends in the OOM killer instead of an error return.
 *
 * The demo measures the peak resident set and the CPU time around the failing
 * read and fails if a 150-byte input costs more than 64 MB / 1000 x its size.
 *
 * exit 0 = property holds, non-zero = violated.
 */
#include <carquet/carquet.h>
#include <stdio.h>
#include <stdlib.h>
#include <string.h>
#include <sys/resource.h>
#include <time.h>
#include <unistd.h>
#include "pqbuild.h"

#define CLAIMED 200000000

static long peak_rss_kb(void) {
    struct rusage ru;
    getrusage(RUSAGE_SELF, &ru);
    return ru.ru_maxrss;
}

static double cpu_seconds(void) {
    struct timespec ts;
    clock_gettime(CLOCK_PROCESS_CPUTIME_ID, &ts);
    return (double)ts.tv_sec + (double)ts.tv_nsec / 1e9;
}

int main(void) {
    const char* path = "/tmp/c04_finding4.parquet";

    tb_t pages; tb_init(&pages);
    uint8_t body[16] = {1, 0, 0, 0, 0, 0, 0, 0, 2, 0, 0, 0, 0, 0, 0, 0};   /* two INT64 values */
    pq_data_page(&pages, CLAIMED, ENC_PLAIN, body, sizeof body);
    pq_col_t col = {"x", PT_INT64, 0, REP_REQUIRED, 0, CLAIMED, pages.p, pages.n, 0, 0, NULL, 0, NULL, 0};
    tb_t f; tb_init(&f);
    pq_file(&f, &col, 1, CLAIMED);
    if (pq_write(path, &f) != 0) { perror("write"); return 2; }
    size_t file_size = f.n;
    tb_free(&f); tb_free(&pages);
    printf("input file: %zu bytes, page header claims %d values, page body holds 2\n", file_size, CLAIMED);

    carquet_error_t err = CARQUET_ERROR_INIT;
    carquet_reader_t* r = carquet_reader_open(path, NULL, &err);       /* fread path */
    if (!r) { printf("open reported an error (%s) - fine\n", err.message); unlink(path); return 0; }
    carquet_column_reader_t* c = carquet_reader_get_column(r, 0, 0, &err);
    if (!c) { printf("get_column reported an error (%s) - fine\n", err.message); carquet_reader_close(r); unlink(path); return 0; }

    int64_t values[4];
    long rss0 = peak_rss_kb();
    double t0 = cpu_seconds();
    int64_t n = carquet_column_read_batch(c, values, 4, NULL, NULL);
    double t1 = cpu_seconds();
    long rss1 = peak_rss_kb();

    printf("carquet_column_read_batch(max_values=4) returned %lld\n", (long long)n);
    printf("peak resident set: %ld MB before the call, %ld MB after; CPU time of the call: %.2f s\n",
           rss0 / 1024, rss1 / 1024, t1 - t0);

    carquet_column_reader_free(c);
    carquet_reader_close(r);
    unlink(path);

    long grown_kb = rss1 - rss0;
    long limit_kb = 64 * 1024;
    if (grown_kb > limit_kb) {
        printf("VIOLATION: reading %zu bytes of input touched %ld MB of memory (%.0f x the input size)\n",
               file_size, grown_kb / 1024, (double)grown_kb * 1024.0 / (double)file_size);
        printf("RESULT: property violated\n");
        return 1;
    }
    printf("RESULT: ok\n");
    return 0;
}
