#!/bin/sh
# Builds the unchanged library, builds the demo, runs it.
# Exit status 0 = property holds, non-zero = violated.
# (Needs about 0.8 GB of free memory for a moment - that is the defect.)
HERE=$(cd "$(dirname "$0")" && pwd)
WT=$(cd "$HERE/../.." && pwd)
cd "$WT" || exit 2
cmake -G Ninja -B _build >/dev/null && cmake --build _build --target carquet >/dev/null || exit 2
cd "$HERE" || exit 2
gcc -g -O1 -w -I"$WT/include" demo.c "$WT/_build/libcarquet.a" -lzstd -lz -lm -fopenmp -lpthread -o demo_plain || exit 2
./demo_plain; rc=$?
echo "exit status: $rc"
exit $rc
