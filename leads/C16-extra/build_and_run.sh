#!/bin/sh
# Additional confirmed observations (beyond the four numbered findings).
HERE=$(cd "$(dirname "$0")" && pwd)
WT=$(cd "$HERE/../.." && pwd)
set -e
cmake -G Ninja -S "$WT" -B "$WT/_build" >/dev/null
cmake --build "$WT/_build" --target carquet >/dev/null
LIBS="-lzstd -lz -lm -fopenmp -lpthread"
cc -std=c11 -O1 -g -I"$WT/include" "$HERE/demo_boolean.c" "$WT/_build/libcarquet.a" $LIBS -o "$HERE/demo_boolean"
cc -std=c11 -O1 -g -I"$WT/include" "$HERE/demo_nullcount_after_failed_batch.c" "$WT/_build/libcarquet.a" \
   -Wl,--wrap=malloc -Wl,--wrap=calloc -Wl,--wrap=realloc $LIBS -o "$HERE/demo_nullcount"
set +e
echo "== BOOLEAN column statistics =="; "$HERE/demo_boolean"; r1=$?; echo "exit code: $r1"
echo "== page null_count after a failed, then repeated, write_batch =="; (cd "$HERE" && ./demo_nullcount); r2=$?; echo "exit code: $r2"
[ $r1 -eq 0 ] && [ $r2 -eq 0 ]
