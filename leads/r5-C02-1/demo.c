/* C02 / batch reader: "delivers the same rows for every batch_size".
 *
 * A valid file whose single row group holds 70,000,000 rows of a REQUIRED BYTE_ARRAY column
 * (one distinct value, dictionary-encoded: 70 data pages of 1,000,000 rows, each a single RLE run,
 * the whole file is about 1.5 kB).  Row groups with this many rows are what size-based writers
 * (parquet-mr: parquet.block.size is in bytes) produce for highly compressible columns.
 *
 * With batch_size = 1,000,000 the batch reader delivers all 70,000,000 rows.
 * With batch_size = INT32_MAX ("give me the row group in one batch") - or any batch_size above
 * 67,108,864 - the first call fails with CARQUET_ERROR_DECODE, and so does every later call.
 *
 * exit 0: both batch sizes deliver the same 70,000,000 rows; exit 1: they do not.
 */
#include <carquet/carquet.h>
#include <limits.h>
#include "pq.h"

#define PAGES 70
#define PAGE_ROWS 1000000
#define TOTAL ((int64_t)PAGES * PAGE_ROWS)

static int64_t run(carquet_reader_t* rd, int32_t batch_size, carquet_status_t* last) {
    carquet_error_t err = CARQUET_ERROR_INIT;
    carquet_batch_reader_config_t cfg;
    carquet_batch_reader_config_init(&cfg);
    cfg.batch_size = batch_size;
    carquet_batch_reader_t* br = carquet_batch_reader_create(rd, &cfg, &err);
    if (!br) { printf("  create failed: %s\n", err.message); *last = err.code; return -1; }
    int64_t rows = 0, bad = 0;
    carquet_row_batch_t* b = NULL;
    carquet_status_t st;
    while ((st = carquet_batch_reader_next(br, &b)) == CARQUET_OK && b) {
        const void* data; const uint8_t* nulls; int64_t n;
        if (carquet_row_batch_column(b, 0, &data, &nulls, &n) != CARQUET_OK) { bad++; break; }
        const carquet_byte_array_t* v = data;
        for (int64_t i = 0; i < n; i++) if (v[i].length != 5 || memcmp(v[i].data, "hello", 5) != 0) bad++;
        rows += n;
        carquet_row_batch_free(b); b = NULL;
    }
    *last = st;
    carquet_batch_reader_free(br);
    return bad ? -2 : rows;
}

int main(void) {
    static int rows[PAGE_ROWS];                /* all rows: value 0 */
    static pq_page pages[PAGES];
    for (int p = 0; p < PAGES; p++) { pages[p].nrows = PAGE_ROWS; pages[p].dict = 1; pages[p].bitpacked = 0; }
    pq_val hello = { (const uint8_t*)"hello", 5 };
    pq_col col; memset(&col, 0, sizeof col);
    col.name = "s"; col.type = PQ_BYTE_ARRAY; col.repetition = PQ_REQUIRED;
    col.nrows_total = TOTAL; col.rows = rows; col.rows_repeat_per_page = 1;
    col.vals = &hello; col.nvals = 1; col.pages = pages; col.npages = PAGES;
    col.has_dict_page = 1; col.dict_offset_in_meta = 1;
    pq_buf f = pq_build_file(&col, 1, TOTAL, 0);
    const char* path = "finding1.parquet";
    if (pq_save(&f, path)) { printf("cannot write %s\n", path); return 2; }
    printf("file: %zu bytes, 1 row group, %lld rows\n", f.n, (long long)TOTAL);

    carquet_error_t err = CARQUET_ERROR_INIT;
    carquet_reader_t* rd = carquet_reader_open(path, NULL, &err);
    if (!rd) { printf("open failed: %s\n", err.message); return 2; }
    printf("reader: %lld rows, %d row group(s)\n", (long long)carquet_reader_num_rows(rd), carquet_reader_num_row_groups(rd));

    carquet_status_t st1, st2, st3;
    int64_t a = run(rd, 1000000, &st1);
    printf("batch_size=1000000    : %lld rows delivered, final status %d (%s)\n", (long long)a, st1, carquet_status_string(st1));
    int64_t b = run(rd, INT32_MAX, &st2);
    printf("batch_size=INT32_MAX  : %lld rows delivered, final status %d (%s)\n", (long long)b, st2, carquet_status_string(st2));
    int64_t c = run(rd, 67108865, &st3);
    printf("batch_size=67108865   : %lld rows delivered, final status %d (%s)\n", (long long)c, st3, carquet_status_string(st3));
    carquet_reader_close(rd);
    free(f.p);
    if (a == TOTAL && b == TOTAL && c == TOTAL) { printf("OK: same rows for every batch_size\n"); return 0; }
    printf("VIOLATION: the rows delivered depend on batch_size\n");
    return 1;
}
