#!/bin/sh
# Builds the library in the worktree as it is, then the demo, then runs it.
set -e
HERE=$(cd "$(dirname "$0")" && pwd)
ROOT=$(cd "$HERE/../.." && pwd)
cd "$ROOT"
cmake -G Ninja -B _build >/dev/null
cmake --build _build >/dev/null
cc -g -O1 -I"$ROOT/include" -I"$HERE" "$HERE/demo.c" "$ROOT/_build/libcarquet.a" \
   -lzstd -lz -lm -fopenmp -lpthread -o "$HERE/demo"
set +e
"$HERE/demo"
rc=$?
echo "exit code: $rc"
exit $rc
