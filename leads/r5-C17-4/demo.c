/*
 * C17 finding 4: nesting deeper than 100 is accepted for the schema but refused
 * as soon as the file has a row group.
 *
 * message schema { required group g1 { required group g2 { ... required int32 leaf } } }
 * with the leaf at nesting depth D (path_in_schema has D components).
 * For each D two valid files are built by hand: one with the schema only (no
 * row groups) and one with a row group holding one row (leaf = 42, one PLAIN
 * uncompressed v1 data page).
 *
 * The schema validator accepts depth <= 128 (CARQUET_MAX_SCHEMA_DEPTH), so both
 * files must open and expose one column with def/rep 0/0 up to D = 128.
 *
 * exit 0: property holds; 1: violated.
 */
#include <carquet/carquet.h>
#include "pqdata.h"

static int open_and_check(const char* path, int D, int with_data) {
    carquet_error_t err = CARQUET_ERROR_INIT;
    carquet_reader_t* r = carquet_reader_open(path, NULL, &err);
    if (!r) { printf("open FAILED: [%d] %s\n", (int)err.code, err.message); return 1; }
    const carquet_schema_t* s = carquet_reader_schema(r);
    int bad = 0;
    if (carquet_schema_num_columns(s) != 1 || carquet_schema_num_elements(s) != D + 1) bad = 1;
    const carquet_schema_node_t* leaf = carquet_schema_get_element(s, D);
    if (!leaf || !carquet_schema_node_is_leaf(leaf) ||
        carquet_schema_node_max_def_level(leaf) != 0 || carquet_schema_node_max_rep_level(leaf) != 0) bad = 1;
    int32_t v = 0; int64_t n = -1;
    if (with_data) {
        carquet_column_reader_t* c = carquet_reader_get_column(r, 0, 0, &err);
        if (!c) { printf("get_column FAILED: %s\n", err.message); carquet_reader_close(r); return 1; }
        n = carquet_column_read_batch(c, &v, 1, NULL, NULL);
        if (n != 1 || v != 42) bad = 1;
        carquet_column_reader_free(c);
    }
    printf("opened: %d elements, %d column%s", carquet_schema_num_elements(s), carquet_schema_num_columns(s),
           with_data ? "" : "\n");
    if (with_data) printf(", read %lld value(s): %d\n", (long long)n, v);
    carquet_reader_close(r);
    return bad;
}

int main(void) {
    int bad = 0;
    const char* path = "/tmp/c17_finding4.parquet";
    const int depths[] = { 100, 101, 128 };
    for (int k = 0; k < 3; k++) {
        int D = depths[k];
        static pq_elem e[140]; static char names[140][8]; const char* p[140];
        e[0] = (pq_elem)PQ_ROOT(1);
        for (int i = 1; i < D; i++) { sprintf(names[i], "g%d", i); e[i] = (pq_elem)PQ_GROUP(names[i], 0, 1); p[i - 1] = names[i]; }
        e[D] = (pq_elem)PQ_LEAF("leaf", 1, 0); p[D - 1] = "leaf";

        printf("depth %3d, schema only      : ", D);
        pq_write_file(path, e, D + 1, NULL, 0, 0, NULL, 0);
        int b1 = open_and_check(path, D, 0);

        int32_t vals[] = {42};
        pq_buf body = {0};
        size_t sz = pq_int32_page(&body, NULL, NULL, 1, 0, 0, vals, 1);
        pq_buf rg = {0};
        pq_list(&rg, T_STRUCT, 1);                          /* row_groups: 1 */
        int last = 0;
        pq_field(&rg, &last, 1, T_LIST); pq_list(&rg, T_STRUCT, 1);   /* columns: 1 */
        pq_chunk(&rg, p, D, 4, (int64_t)sz, 1);
        pq_i64f(&rg, &last, 2, (int64_t)sz);                /* total_byte_size */
        pq_i64f(&rg, &last, 3, 1);                          /* num_rows */
        pq_stop(&rg);
        printf("depth %3d, one row group    : ", D);
        pq_write_file(path, e, D + 1, rg.p, rg.n, 1, body.p, body.n);
        int b2 = open_and_check(path, D, 1);
        free(body.p); free(rg.p);
        if (b1 || b2) bad = 1;
    }
    remove(path);
    printf(bad ? "VIOLATION: a schema the reader accepts cannot be read once the file has data\n" : "ok\n");
    return bad;
}
