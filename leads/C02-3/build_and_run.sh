#!/bin/sh
# Builds the library of this worktree as it is, then the demonstration, then runs it.
set -e
HERE=$(cd "$(dirname "$0")" && pwd)
WT=$(cd "$HERE/../.." && pwd)
cd "$WT"
cmake -G Ninja -B _build >/dev/null
cmake --build _build --target carquet >/dev/null
cd "$HERE"
cc -O1 -g -I"$WT/include" demo.c "$WT/_build/libcarquet.a" -lzstd -lz -lm -fopenmp -lpthread -o demo
set +e
OMP_NUM_THREADS=1 ./demo
rc=$?
echo "demo exit code: $rc"
exit $rc
