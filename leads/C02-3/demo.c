/*
 * Finding 3: a data page with num_values = 0 (legal: the format puts no lower
 * bound on DataPageHeader.num_values; parquet-mr and Arrow read such files)
 * breaks the cursor: read_batch() returns 0 or -1 although remaining() > 0,
 * skip(n) advances by less than min(n, remaining), the batch reader fails with
 * CARQUET_ERROR_DECODE, and the fread and mmap paths disagree with each other.
 *
 * The file is hand-built from the format specification (pqb.h): one REQUIRED
 * INT32 column, 10 rows 0..9, UNCOMPRESSED, PLAIN, v1 pages:
 *    layout A:  [5 values] [0 values] [5 values]
 *    layout B:  [0 values] [5 values] [5 values]
 * Public API only. exit 0 = all consumers obtain the 10 rows, 1 = not.
 */
#include <carquet/carquet.h>
#include "pqb.h"
#include <stdio.h>

static void plain_i32(pqb_buf* b, int start, int n) { for (int i = 0; i < n; i++) pqb_u32le(b, (uint32_t)(start + i)); }

static pqb_buf build(int empty_first) {
    pqb_buf f = {0}, body = {0};
    pqb_begin(&f);
    pqb_col c = { "a", PQ_INT32, 0, 0 /*REQUIRED*/, 10, 0, 0, -1, 0, 0 };
    c.chunk_start = c.data_offset = (int64_t)f.n;
    if (empty_first) pqb_data_page(&f, 0, NULL, ENC_PLAIN, NULL, 0);
    plain_i32(&body, 0, 5); pqb_data_page(&f, 5, NULL, ENC_PLAIN, body.d, body.n);
    if (!empty_first) pqb_data_page(&f, 0, NULL, ENC_PLAIN, NULL, 0);
    body.n = 0; plain_i32(&body, 5, 5); pqb_data_page(&f, 5, NULL, ENC_PLAIN, body.d, body.n);
    c.chunk_size = (int64_t)f.n - c.chunk_start;
    pqb_finish(&f, &c, 1, 10);
    free(body.d);
    return f;
}

static carquet_reader_t* open_mode(int mode, const pqb_buf* f, const char* path) {
    carquet_error_t err = CARQUET_ERROR_INIT;
    carquet_reader_options_t o; carquet_reader_options_init(&o); o.use_mmap = (mode == 1);
    carquet_reader_t* r = mode == 2 ? carquet_reader_open_buffer(f->d, f->n, &o, &err)
                                    : carquet_reader_open(path, &o, &err);
    if (!r) { printf("open failed: %s\n", err.message); exit(2); }
    return r;
}

int main(void) {
    static const char* modes[] = { "fread ", "mmap  ", "buffer" };
    int bad = 0;
    for (int layout = 0; layout < 2; layout++) {
        pqb_buf f = build(layout);
        const char* path = layout ? "finding3_B.parquet" : "finding3_A.parquet";
        if (pqb_save(&f, path) != 0) return 2;
        printf("layout %s\n", layout ? "B: [0][5][5]" : "A: [5][0][5]");
        for (int mode = 0; mode < 3; mode++) {
            carquet_error_t err = CARQUET_ERROR_INIT;
            carquet_reader_t* r = open_mode(mode, &f, path);

            /* 1. the documented loop: while ((n = read_batch(...)) > 0) */
            carquet_column_reader_t* col = carquet_reader_get_column(r, 0, 0, &err);
            if (!col) return 2;
            int32_t v[32]; int64_t n, total = 0, first = -2; int ok = 1;
            while ((n = carquet_column_read_batch(col, v + total, 32 - total, NULL, NULL)) > 0) { if (first == -2) first = n; total += n; }
            if (first == -2) first = n;
            for (int i = 0; i < total; i++) if (v[i] != i) ok = 0;
            printf("  %s column reader: first read_batch(32) -> %lld, loop got %lld of 10 rows, then remaining()=%lld has_next()=%d%s\n",
                   modes[mode], (long long)first, (long long)total, (long long)carquet_column_remaining(col),
                   (int)carquet_column_has_next(col), (total == 10 && ok && first == 10) ? "" : "   <-- WRONG");
            if (!(total == 10 && ok && first == 10)) bad++;
            carquet_column_reader_free(col);

            /* 2. skip(10) on a fresh reader must advance by min(10, remaining) = 10 */
            col = carquet_reader_get_column(r, 0, 0, &err);
            int64_t sk = carquet_column_skip(col, 10);
            printf("  %s skip(10) -> %lld, remaining()=%lld%s\n", modes[mode], (long long)sk,
                   (long long)carquet_column_remaining(col), sk == 10 ? "" : "   <-- WRONG");
            if (sk != 10) bad++;
            carquet_column_reader_free(col);

            /* 3. batch reader */
            carquet_batch_reader_config_t cfg; carquet_batch_reader_config_init(&cfg); cfg.num_threads = 1;
            carquet_batch_reader_t* br = carquet_batch_reader_create(r, &cfg, &err);
            carquet_row_batch_t* b = NULL;
            carquet_status_t st = carquet_batch_reader_next(br, &b);
            long long rows = (st == CARQUET_OK && b) ? (long long)carquet_row_batch_num_rows(b) : -1;
            printf("  %s batch reader: next() -> status %d, rows %lld%s\n", modes[mode], (int)st, rows, rows == 10 ? "" : "   <-- WRONG");
            if (rows != 10) bad++;
            carquet_row_batch_free(b);
            carquet_batch_reader_free(br);
            carquet_reader_close(r);
        }
        free(f.d);
    }
    printf("deviations: %d\n", bad);
    return bad ? 1 : 0;
}
