#!/bin/sh
# Builds the library of this worktree as it is (ASan+UBSan), builds the demo, runs it.
set -e
HERE=$(cd "$(dirname "$0")" && pwd)
WT=$(cd "$HERE/../.." && pwd)
cd "$WT"
cmake -G Ninja -B _build_asan -DCMAKE_C_FLAGS="-fsanitize=address,undefined -g -O1" \
      -DCMAKE_EXE_LINKER_FLAGS="-fsanitize=address,undefined" >/dev/null
cmake --build _build_asan --target carquet >/dev/null
cd "$HERE"
gcc -g -O1 -fsanitize=address,undefined -I"$WT/include" demo.c "$WT/_build_asan/libcarquet.a" -o demo \
    -Wl,--wrap=malloc,--wrap=calloc,--wrap=realloc,--wrap=free,--wrap=strdup \
    -lzstd -lz -lm -fopenmp -lpthread
set +e
./demo
rc=$?
echo "demo exit status: $rc"
exit $rc
