/*
 * C19 finding 4: carquet_writer_new_row_group() writes the row group's bytes to
 * the file BEFORE it makes the allocations for the row group's metadata.  If one
 * of those allocations fails it returns an error, but the bytes stay in the file
 * while the writer's file offset and row-group list are not advanced and the
 * row group stays "current".  Whatever flushes that row group next (the same
 * call repeated, or carquet_writer_close()) writes the bytes a second time and
 * records offsets that ignore the first copy, so everything written afterwards
 * is recorded at the wrong file position.  All later calls and close() report
 * CARQUET_OK.
 *
 * Table: one REQUIRED INT32 column, row group 0 = 50 rows (values 0..49),
 * row group 1 = 50 rows (values 1000..1049).
 * For every k the k-th allocation request of
 *     writer_create, write_batch, new_row_group (repeated once if it fails),
 *     write_batch, close
 * fails.  Property: when close() reports success the file reads back to the
 * intended table.
 *
 * Exit 0 = property holds, 1 = violated.
 */
#include <carquet/carquet.h>
#include "fi.h"
#include <stdint.h>
#include <stdbool.h>
#include <unistd.h>
#include <sys/stat.h>

#define ROWS 50
static const char* PATH = "/tmp/c19_f4.parquet";

static int write_table(int* nrg_failed) {
    carquet_error_t err = CARQUET_ERROR_INIT;
    *nrg_failed = 0;
    carquet_schema_t* s = carquet_schema_create(&err);
    if (!s) return 1;
    if (carquet_schema_add_column(s, "a", CARQUET_PHYSICAL_INT32, NULL, CARQUET_REPETITION_REQUIRED, 0) != CARQUET_OK) {
        carquet_schema_free(s); return 1;
    }
    carquet_writer_t* w = carquet_writer_create(PATH, s, NULL, &err);
    if (!w) { carquet_schema_free(s); return 1; }
    int32_t v[ROWS];
    int rc = 0;
    for (int i = 0; i < ROWS; i++) v[i] = i;
    if (carquet_writer_write_batch(w, 0, v, ROWS, NULL, NULL) != CARQUET_OK) rc = 1;
    if (!rc) {
        carquet_status_t st = carquet_writer_new_row_group(w);
        if (st != CARQUET_OK) {
            *nrg_failed = 1;
            st = carquet_writer_new_row_group(w);      /* try once more */
            if (st != CARQUET_OK) rc = 1;
        }
    }
    for (int i = 0; i < ROWS; i++) v[i] = 1000 + i;
    if (!rc && carquet_writer_write_batch(w, 0, v, ROWS, NULL, NULL) != CARQUET_OK) rc = 1;
    if (rc) { carquet_writer_abort(w); carquet_schema_free(s); return 1; }
    carquet_status_t st = carquet_writer_close(w);
    carquet_schema_free(s);
    return st == CARQUET_OK ? 0 : 1;
}

static int verify(char* why, size_t n) {
    carquet_error_t err = CARQUET_ERROR_INIT;
    carquet_reader_t* rd = carquet_reader_open(PATH, NULL, &err);
    if (!rd) { snprintf(why, n, "file cannot be opened: %s", err.message); return 1; }
    int bad = 0;
    if (carquet_reader_num_row_groups(rd) != 2 || carquet_reader_num_rows(rd) != 2 * ROWS) {
        snprintf(why, n, "%d row groups, %lld rows (expected 2, %d)", carquet_reader_num_row_groups(rd),
                 (long long)carquet_reader_num_rows(rd), 2 * ROWS);
        bad = 1;
    }
    for (int g = 0; g < 2 && !bad; g++) {
        carquet_column_reader_t* cr = carquet_reader_get_column(rd, g, 0, &err);
        if (!cr) { snprintf(why, n, "row group %d: cannot open column: %s", g, err.message); bad = 1; break; }
        int32_t v[2 * ROWS];
        int64_t got = carquet_column_read_batch(cr, v, 2 * ROWS, NULL, NULL);
        if (got != ROWS) { snprintf(why, n, "row group %d: read returned %lld (expected %d)", g, (long long)got, ROWS); bad = 1; }
        for (int i = 0; i < ROWS && !bad; i++)
            if (v[i] != g * 1000 + i) { snprintf(why, n, "row group %d row %d: value %d, expected %d", g, i, v[i], g * 1000 + i); bad = 1; }
        carquet_column_reader_free(cr);
    }
    carquet_reader_close(rd);
    return bad;
}

int main(void) {
    char why[256]; int f;
    if (write_table(&f) != 0 || verify(why, sizeof why) != 0) { printf("fault-free run failed\n"); return 3; }
    struct stat st0; stat(PATH, &st0);
    int bad = 0, points = 0;
    for (long k = 1; k < 10000; k++) {
        long live0 = fi_live;
        unlink(PATH);
        fi_arm(k);
        int r = write_table(&f);
        int fired = fi_fired;
        fi_disarm();
        if (fi_live != live0) { printf("k=%ld: leak\n", k); bad++; }
        if (!fired) { points = (int)(k - 1); break; }
        if (r == 0) {
            struct stat st; stat(PATH, &st);
            if (verify(why, sizeof why) != 0) {
                printf("k=%ld: new_row_group failed once%s, every other call and close() returned CARQUET_OK; "
                       "file is %lld bytes (fault-free: %lld) and: %s\n", k, f ? " and succeeded when repeated" : "",
                       (long long)st.st_size, (long long)st0.st_size, why);
                bad++;
            }
        }
    }
    unlink(PATH);
    printf("%d allocation points, %d of them end in a wrong file although close() reported success\n", points, bad);
    printf(bad ? "PROPERTY VIOLATED\n" : "property holds\n");
    return bad ? 1 : 0;
}
