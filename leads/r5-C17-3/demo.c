/*
 * C17 finding 3: carquet_schema_add_group.
 *
 * The sequence below is the example from include/carquet/carquet.h (doc of
 * carquet_schema_add_group), verbatim:
 *
 *   // Create nested schema: { address: { street: string, city: string } }
 *   int32_t address_idx = carquet_schema_add_group(schema, "address", OPTIONAL, 0);
 *   carquet_schema_add_column(schema, "street", BYTE_ARRAY, NULL, REQUIRED, address_idx);
 *   carquet_schema_add_column(schema, "city",   BYTE_ARRAY, NULL, REQUIRED, address_idx);
 *
 * Checks: (1) the schema the builder reports is a tree in the sense of the
 * property (every group's child count covers its children, levels follow the
 * path), (2) what the builder reports is what a file written from it states.
 *
 * exit 0: property holds; 1: violated.
 */
#include <carquet/carquet.h>
#include <stdio.h>
#include <string.h>

static void dump(const char* title, const carquet_schema_t* s) {
    printf("%s: %d elements, %d columns\n", title, carquet_schema_num_elements(s), carquet_schema_num_columns(s));
    for (int i = 0; i < carquet_schema_num_elements(s); i++) {
        const carquet_schema_node_t* n = carquet_schema_get_element(s, i);
        if (carquet_schema_node_is_leaf(n))
            printf("   [%d] leaf  %-8s rep=%d def=%d type_length=%d\n", i, carquet_schema_node_name(n),
                   (int)carquet_schema_node_repetition(n), carquet_schema_node_max_def_level(n),
                   carquet_schema_node_type_length(n));
        else
            printf("   [%d] group %-8s rep=%d\n", i, carquet_schema_node_name(n), (int)carquet_schema_node_repetition(n));
    }
}

int main(void) {
    int bad = 0;
    carquet_error_t err = CARQUET_ERROR_INIT;
    carquet_schema_t* schema = carquet_schema_create(&err);
    if (!schema) return 2;

    int32_t address_idx = carquet_schema_add_group(schema, "address", CARQUET_REPETITION_OPTIONAL, 0);
    printf("add_group -> %d\n", address_idx);
    if (address_idx < 0) { printf("add_group refused (that would be fine)\n"); return 0; }
    if (carquet_schema_add_column(schema, "street", CARQUET_PHYSICAL_BYTE_ARRAY, NULL, CARQUET_REPETITION_REQUIRED, address_idx) != CARQUET_OK) return 2;
    if (carquet_schema_add_column(schema, "city", CARQUET_PHYSICAL_BYTE_ARRAY, NULL, CARQUET_REPETITION_REQUIRED, address_idx) != CARQUET_OK) return 2;
    dump("builder", schema);

    int f1 = carquet_schema_find_column(schema, "address.street");
    int f2 = carquet_schema_find_column(schema, "address.city");
    printf("builder: find_column(\"address.street\") = %d, (\"address.city\") = %d   (documented: nested under address)\n", f1, f2);
    if (f1 != 0 || f2 != 1) { printf("  -> the columns are not children of the group\n"); bad = 1; }
    const carquet_schema_node_t* street = carquet_schema_get_element(schema, 2);
    if (carquet_schema_node_max_def_level(street) != 1) {
        printf("  -> street: max_def_level %d, a REQUIRED leaf below an OPTIONAL group has 1\n", carquet_schema_node_max_def_level(street));
        bad = 1;
    }
    if (carquet_schema_node_type_length(street) != 0) {
        printf("  -> street: the group index went into type_length (%d) of a BYTE_ARRAY column\n", carquet_schema_node_type_length(street));
        bad = 1;
    }

    /* write a file from the schema and compare what the file states */
    const char* path = "/tmp/c17_finding3.parquet";
    carquet_writer_t* w = carquet_writer_create(path, schema, NULL, &err);
    if (!w) { printf("writer_create: %s\n", err.message); return 1; }
    carquet_byte_array_t v[1] = { { (uint8_t*)"x", 1 } };
    carquet_status_t st = carquet_writer_write_batch(w, 0, v, 1, NULL, NULL);
    if (st == CARQUET_OK) st = carquet_writer_write_batch(w, 1, v, 1, NULL, NULL);
    if (st == CARQUET_OK) st = carquet_writer_close(w); else carquet_writer_abort(w);
    printf("write + close -> %d\n", st);
    if (st != CARQUET_OK) { printf("  (an error here would have been acceptable)\n"); carquet_schema_free(schema); return bad; }

    carquet_reader_t* r = carquet_reader_open(path, NULL, &err);
    if (!r) { printf("reader_open of the written file: %s\n", err.message); return 1; }
    const carquet_schema_t* fs = carquet_reader_schema(r);
    dump("file   ", fs);
    if (carquet_schema_num_elements(fs) != carquet_schema_num_elements(schema)) {
        printf("  -> builder reported %d elements, the file written from it states %d: the group was dropped silently\n",
               carquet_schema_num_elements(schema), carquet_schema_num_elements(fs));
        bad = 1;
    }
    carquet_reader_close(r);
    carquet_schema_free(schema);
    remove(path);
    printf(bad ? "VIOLATION\n" : "ok\n");
    return bad;
}
