/* C02 / batch reader on a table without columns.
 *
 * A Parquet file whose schema is only the root group (a table with no columns) is legal; the
 * library itself says so (commit "a schema that is only the root has no columns") and reports
 * num_columns == 0 for it.  Such a file can still have row groups: as far as I know Arrow C++ (pyarrow
 * pq.write_table(pa.table({}), ...)) appends one row group with 0 rows for an empty table, and a
 * RowGroup with num_rows > 0 and an empty column list is what a projection-free "SELECT count" style
 * export produces.
 *
 * Expected from carquet_batch_reader_next(): either batches without columns whose row counts add up
 * to num_rows, or CARQUET_ERROR_END_OF_DATA.  Observed: CARQUET_ERROR_OUT_OF_MEMORY on every call
 * (no memory shortage involved), for the 0-row and the 3-row variant alike.
 *
 * exit 0: every file is read to END_OF_DATA with the right row count; exit 1: otherwise.
 */
#include <carquet/carquet.h>
#include "pq.h"

static int check(int64_t rows_in_group) {
    char path[64]; snprintf(path, sizeof path, "finding3_%lld_rows.parquet", (long long)rows_in_group);
    pq_buf f = pq_build_file(NULL, 0, rows_in_group, 1);   /* no columns, one row group */
    if (pq_save(&f, path)) return 2;
    free(f.p);
    carquet_error_t err = CARQUET_ERROR_INIT;
    carquet_reader_t* rd = carquet_reader_open(path, NULL, &err);
    if (!rd) { printf("%s: open failed: %s\n", path, err.message); return 1; }
    printf("%s: num_columns=%d num_row_groups=%d num_rows=%lld\n", path, carquet_reader_num_columns(rd),
           carquet_reader_num_row_groups(rd), (long long)carquet_reader_num_rows(rd));
    carquet_batch_reader_t* br = carquet_batch_reader_create(rd, NULL, &err);
    if (!br) { printf("  batch reader create failed: %s\n", err.message); carquet_reader_close(rd); return 1; }
    int64_t rows = 0; int bad = 0;
    for (int call = 0; call < 10; call++) {
        carquet_row_batch_t* b = NULL;
        carquet_status_t st = carquet_batch_reader_next(br, &b);
        printf("  next() #%d -> %d (%s)%s\n", call + 1, st, carquet_status_string(st), b ? "" : ", no batch");
        if (st == CARQUET_ERROR_END_OF_DATA) break;
        if (st != CARQUET_OK) { bad = 1; if (call >= 2) break; continue; }
        if (b) { rows += carquet_row_batch_num_rows(b); carquet_row_batch_free(b); }
    }
    if (!bad && rows != rows_in_group) { printf("  delivered %lld rows, expected %lld\n", (long long)rows, (long long)rows_in_group); bad = 1; }
    carquet_batch_reader_free(br);
    carquet_reader_close(rd);
    return bad;
}

int main(void) {
    int bad = check(0) | check(3);
    if (bad) { printf("VIOLATION: a valid file without columns cannot be read through the batch reader\n"); return 1; }
    printf("OK\n");
    return 0;
}
