#!/bin/sh
# Builds the library in the worktree as it is with ASan+UBSan, builds the demonstration, runs it.
# UBSAN_OPTIONS=halt_on_error=1 turns the report into a non-zero exit.
set -e
HERE="$(cd "$(dirname "$0")" && pwd)"
ROOT="$(cd "$HERE/../.." && pwd)"
cd "$ROOT"
cmake -G Ninja -B _build_asan -DCMAKE_C_FLAGS="-fsanitize=address,undefined -g -O1" -DCMAKE_EXE_LINKER_FLAGS="-fsanitize=address,undefined" >/dev/null
cmake --build _build_asan --target carquet >/dev/null
cd "$HERE"
gcc -O1 -g -fsanitize=address,undefined -I"$ROOT/include" demo.c "$ROOT/_build_asan/libcarquet.a" -lzstd -lz -lm -fopenmp -lpthread -o demo
set +e
UBSAN_OPTIONS=halt_on_error=1:print_stacktrace=1 ./demo
rc=$?
echo "demo exit status: $rc"
exit $rc
