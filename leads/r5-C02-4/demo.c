/* C02 / column reader, memory-mapped path: a chunk whose FIRST data page holds no values.
 *
 * A data page with num_values = 0 is legal (the library says so itself: "a data page without values
 * (legal, if unusual) is stepped over").  For a REQUIRED fixed-width column in an uncompressed chunk
 * read through mmap (or carquet_reader_open_buffer) the page takes the zero-copy path of
 * load_next_page_mmap().  With an empty first page no level buffers have been allocated yet
 * (decoded_capacity == 0, num_values == 0, so the allocation is skipped) and the path then calls
 *
 *     memset(reader->decoded_def_levels, 0, sizeof(int16_t) * num_values);   // NULL, 0
 *     memset(reader->decoded_rep_levels, 0, sizeof(int16_t) * num_values);   // NULL, 0
 *
 * Passing a null pointer to memset is undefined behaviour even for length 0 (C11 7.24.1p2, and glibc
 * declares the argument nonnull, so optimisers may assume the pointer is not null afterwards).
 * UBSan reports it.  The same file read with fread never reaches this code.
 *
 * Build the library and this file with -fsanitize=undefined -fno-sanitize-recover=undefined:
 * exit 0 = the 10 rows are read without a report, abort = undefined behaviour detected.
 */
#include <carquet/carquet.h>
#include "pq.h"

int main(void) {
    static int rows[10]; static uint8_t vb[10][8]; static pq_val vals[10];
    for (int i = 0; i < 10; i++) { rows[i] = i; vb[i][0] = (uint8_t)(i + 1); vals[i].p = vb[i]; vals[i].len = 0; }
    static const pq_page pages[] = { {0, 0, 0}, {10, 0, 0} };      /* empty page, then 10 rows, both PLAIN */
    pq_col col; memset(&col, 0, sizeof col);
    col.name = "x"; col.type = PQ_INT64; col.repetition = PQ_REQUIRED; col.nrows = 10; col.rows = rows;
    col.vals = vals; col.nvals = 10; col.pages = pages; col.npages = 2;
    pq_buf f = pq_build_file(&col, 1, 10, 0);
    const char* path = "finding4.parquet";
    if (pq_save(&f, path)) return 2;
    free(f.p);

    for (int use_mmap = 0; use_mmap < 2; use_mmap++) {
        carquet_error_t err = CARQUET_ERROR_INIT;
        carquet_reader_options_t ro; carquet_reader_options_init(&ro); ro.use_mmap = use_mmap;
        carquet_reader_t* rd = carquet_reader_open(path, &ro, &err);
        if (!rd) { printf("open: %s\n", err.message); return 2; }
        carquet_column_reader_t* cr = carquet_reader_get_column(rd, 0, 0, &err);
        if (!cr) { printf("get_column: %s\n", err.message); return 2; }
        int64_t v[10];
        printf("%s: reading ...\n", use_mmap ? "mmap " : "fread"); fflush(stdout);
        int64_t n = carquet_column_read_batch(cr, v, 10, NULL, NULL);
        printf("%s: read_batch(10) = %lld, first value %lld\n", use_mmap ? "mmap " : "fread", (long long)n, n > 0 ? (long long)v[0] : -1LL);
        if (n != 10) return 1;
        carquet_column_reader_free(cr);
        carquet_reader_close(rd);
    }
    printf("OK (no undefined behaviour reported)\n");
    return 0;
}
