/*
 * C01 demo 4: the writer happily produces files that carquet's own reader refuses to open,
 * because the footer parser has hard limits the writer does not know about.
 *
 *   A. flat schema with 10000 REQUIRED INT32 columns, 1 row      (control: 9999 columns)
 *   B. 1 column, 100001 row groups of 1 row each                 (control: 100000 row groups)
 *
 * All schema/writer calls return CARQUET_OK in every case.
 * exit 0 = every file re-opens and has the shape that was written, 1 = not.
 */
#include <carquet/carquet.h>
#include <stdio.h>
#include <stdlib.h>
#include <string.h>
#include <stdint.h>
#include <unistd.h>

static char path[256];

/* returns 0 ok, 1 property violated, 2 writer-side problem */
static int roundtrip(int ncols, int nrgs) {
    carquet_error_t err = CARQUET_ERROR_INIT;
    printf("%d column(s), %d row group(s) of 1 row:\n", ncols, nrgs);
    carquet_schema_t* s = carquet_schema_create(&err);
    if (!s) return 2;
    for (int c = 0; c < ncols; c++) {
        char name[32];
        snprintf(name, sizeof name, "c%d", c);
        if (carquet_schema_add_column(s, name, CARQUET_PHYSICAL_INT32, NULL,
                                      CARQUET_REPETITION_REQUIRED, 0) != CARQUET_OK) {
            printf("  schema_add_column failed at %d\n", c); return 2;
        }
    }
    carquet_writer_t* w = carquet_writer_create(path, s, NULL, &err);
    if (!w) { printf("  writer_create failed: %s\n", err.message); return 2; }
    for (int g = 0; g < nrgs; g++) {
        for (int c = 0; c < ncols; c++) {
            int32_t v = g * 7 + c;
            carquet_status_t st = carquet_writer_write_batch(w, c, &v, 1, NULL, NULL);
            if (st != CARQUET_OK) { printf("  write_batch -> %d\n", st); return 2; }
        }
        carquet_status_t st = carquet_writer_new_row_group(w);
        if (st != CARQUET_OK) { printf("  new_row_group -> %d\n", st); return 2; }
    }
    carquet_status_t st = carquet_writer_close(w);
    carquet_schema_free(s);
    if (st != CARQUET_OK) { printf("  close -> %d\n", st); return 2; }
    printf("  all writer calls returned CARQUET_OK\n");

    carquet_reader_t* r = carquet_reader_open(path, NULL, &err);
    if (!r) {
        printf("  re-open FAILED: [%d] %s\n", err.code, err.message);
        return 1;
    }
    int rc = 0;
    printf("  re-opened: rows=%lld columns=%d row_groups=%d\n",
           (long long)carquet_reader_num_rows(r), carquet_reader_num_columns(r),
           carquet_reader_num_row_groups(r));
    if (carquet_reader_num_rows(r) != nrgs || carquet_reader_num_columns(r) != ncols ||
        carquet_reader_num_row_groups(r) != nrgs) rc = 1;
    if (!rc) {   /* spot-check the last value */
        carquet_column_reader_t* c = carquet_reader_get_column(r, nrgs - 1, ncols - 1, &err);
        int32_t v = -1;
        if (!c || carquet_column_read_batch(c, &v, 1, NULL, NULL) != 1 ||
            v != (nrgs - 1) * 7 + (ncols - 1)) rc = 1;
        carquet_column_reader_free(c);
    }
    carquet_reader_close(r);
    return rc;
}

int main(void) {
    snprintf(path, sizeof path, "/tmp/carquet_c01_demo4_%d.parquet", (int)getpid());
    int a0 = roundtrip(9999, 1);
    int a1 = roundtrip(10000, 1);
    int b0 = roundtrip(1, 100000);
    int b1 = roundtrip(1, 100001);
    remove(path);
    printf("A control  9999 columns      : %s\n", a0 ? "FAILED" : "ok");
    printf("A case    10000 columns      : %s\n", a1 ? "FAILED" : "ok");
    printf("B control 100000 row groups  : %s\n", b0 ? "FAILED" : "ok");
    printf("B case    100001 row groups  : %s\n", b1 ? "FAILED" : "ok");
    if (a0 == 2 || a1 == 2 || b0 == 2 || b1 == 2) { printf("RESULT: inconclusive\n"); return 2; }
    int violated = a0 || a1 || b0 || b1;
    printf(violated ? "RESULT: property VIOLATED\n" : "RESULT: property holds\n");
    return violated;
}
