#!/bin/sh
# Builds the library of this worktree as it is (ASan/UBSan variant), builds the demo, runs it.
# Exit status: 0 = property holds, non-zero = violated.
HERE=$(cd "$(dirname "$0")" && pwd)
ROOT=$(cd "$HERE/../.." && pwd)
cd "$ROOT" || exit 2
cmake -G Ninja -B _build_asan -DCMAKE_C_FLAGS="-fsanitize=address,undefined -g -O1" \
      -DCMAKE_EXE_LINKER_FLAGS="-fsanitize=address,undefined" >/dev/null && \
cmake --build _build_asan --target carquet >/dev/null || exit 2
cd "$HERE" || exit 2
gcc -g -O1 -fsanitize=address,undefined -I"$ROOT/include" demo.c "$ROOT/_build_asan/libcarquet.a" \
    -lzstd -lz -lm -fopenmp -lpthread -o demo || exit 2
./demo; rc=$?
echo "exit status: $rc"
exit $rc
