/*
 * C05 demo 2: page statistics of unsigned integer columns are computed with a
 * signed comparison, so min_value/max_value do not bound the page's values in
 * the order the format defines for the column (UINT_32 / UINT_64: unsigned).
 *
 * Table: one REQUIRED INT32 column annotated INTEGER(32, unsigned) holding
 *        1, 3000000000, 7       and one INT64 / INTEGER(64, unsigned) holding
 *        5, 18000000000000000000, 9
 *
 * exit 0: every value lies within [min_value, max_value] (unsigned order).
 * exit 1: property violated.
 */
#include <carquet/carquet.h>
#include "pqcheck.h"

int main(void) {
    setvbuf(stdout, NULL, _IONBF, 0);
    const char *path = "demo2.parquet";
    carquet_error_t err = CARQUET_ERROR_INIT;
    carquet_schema_t *schema = carquet_schema_create(&err);
    if (!schema) return 2;
    carquet_logical_type_t u32; memset(&u32, 0, sizeof u32);
    u32.id = CARQUET_LOGICAL_INTEGER; u32.params.integer.bit_width = 32; u32.params.integer.is_signed = false;
    carquet_logical_type_t u64 = u32; u64.params.integer.bit_width = 64;
    if (carquet_schema_add_column(schema, "u32", CARQUET_PHYSICAL_INT32, &u32, CARQUET_REPETITION_REQUIRED, 0) != CARQUET_OK) return 2;
    if (carquet_schema_add_column(schema, "u64", CARQUET_PHYSICAL_INT64, &u64, CARQUET_REPETITION_REQUIRED, 0) != CARQUET_OK) return 2;

    carquet_writer_options_t opt; carquet_writer_options_init(&opt);
    carquet_writer_t *w = carquet_writer_create(path, schema, &opt, &err);
    if (!w) return 2;
    uint32_t a[3] = {1u, 3000000000u, 7u};
    uint64_t b[3] = {5u, 18000000000000000000ull, 9u};
    carquet_status_t s1 = carquet_writer_write_batch(w, 0, a, 3, NULL, NULL);
    carquet_status_t s2 = carquet_writer_write_batch(w, 1, b, 3, NULL, NULL);
    carquet_status_t s3 = carquet_writer_close(w);
    carquet_schema_free(schema);
    printf("write_batch=%d,%d close=%d\n", s1, s2, s3);
    if (s1 || s2 || s3) { printf("writer reported an error: property not engaged\n"); return 0; }

    pq_file_t f;
    int problems = pq_check_file(path, &f);
    if (f.n_leaf == 2 && f.col && f.col[0].has_stats0 && f.col[1].has_stats0) {
        uint32_t mn, mx; memcpy(&mn, f.col[0].min0, 4); memcpy(&mx, f.col[0].max0, 4);
        uint64_t mn8, mx8; memcpy(&mn8, f.col[1].min0, 8); memcpy(&mx8, f.col[1].max0, 8);
        printf("schema in file: u32 logical INTEGER(bitWidth=%d, isSigned=%d), u64 INTEGER(%d, %d)\n",
               f.el[1].lt_int_bits, f.el[1].lt_int_signed, f.el[2].lt_int_bits, f.el[2].lt_int_signed);
        printf("u32 page statistics: min_value=%u max_value=%u   (values 1, 3000000000, 7)\n", mn, mx);
        printf("u64 page statistics: min_value=%llu max_value=%llu   (values 5, 18000000000000000000, 9)\n",
               (unsigned long long)mn8, (unsigned long long)mx8);
    }
    int content_ok = problems ? 0 : (f.col[0].nvalues == 3 && !memcmp(f.col[0].vals, a, sizeof a) && f.col[1].nvalues == 3 && !memcmp(f.col[1].vals, b, sizeof b));
    pq_free(&f);
    if (problems) { printf("FAIL: %d problems reported by the independent reader\n", problems); return 1; }
    if (!content_ok) { printf("FAIL: content differs\n"); return 1; }
    printf("PASS\n");
    return 0;
}
