/*
 * Pruning must not discard row groups that contain a matching row.
 *
 * Hand-built, format-conforming files whose chunk statistics are TRUE bounds
 * in the order the Parquet format defines for the column's type
 * (column_orders = TYPE_ORDER):
 *   A. INT32 annotated UINT_32 / INTEGER(32, unsigned)  -> unsigned order
 *   B. INT64 annotated UINT_64 / INTEGER(64, unsigned)  -> unsigned order
 *   C. FIXED_LEN_BYTE_ARRAY(4) annotated DECIMAL(9,0)   -> signed numeric order
 *      of the big-endian two's-complement value
 *
 * Every file is first read back through carquet's column reader (so the file
 * is one carquet itself accepts and decodes to the intended values); then for
 * all six operators and probes at / between / beyond the bounds,
 * row_group_matches and filter_row_groups are compared with a brute-force
 * ground truth over the decoded rows.
 *
 * exit 0: no false negative, exit 1: some matching row group was pruned.
 */
#include <carquet/carquet.h>
#include <stdio.h>
#include <inttypes.h>
#include "pq_build.h"

static int failures = 0;
static const char* opname[] = { "==", "!=", "<", "<=", ">", ">=" };

static bool truth_cmp(int c, carquet_compare_op_t op) {
    switch (op) {
        case CARQUET_COMPARE_EQ: return c == 0;
        case CARQUET_COMPARE_NE: return c != 0;
        case CARQUET_COMPARE_LT: return c < 0;
        case CARQUET_COMPARE_LE: return c <= 0;
        case CARQUET_COMPARE_GT: return c > 0;
        default:                 return c >= 0;
    }
}

static carquet_reader_t* open_built(pq_buf* f, const char* path) {
    FILE* fp = fopen(path, "wb");
    if (!fp || fwrite(f->p, 1, f->n, fp) != f->n) { perror(path); exit(2); }
    fclose(fp);
    carquet_error_t err = CARQUET_ERROR_INIT;
    carquet_reader_t* rd = carquet_reader_open(path, NULL, &err);
    if (!rd) { printf("cannot open %s: %s\n", path, err.message); exit(2); }
    return rd;
}

/* read back a whole chunk of fixed-width values */
static int64_t read_chunk(carquet_reader_t* rd, int rg, void* out, int64_t max) {
    carquet_error_t err = CARQUET_ERROR_INIT;
    carquet_column_reader_t* col = carquet_reader_get_column(rd, rg, 0, &err);
    if (!col) { printf("get_column: %s\n", err.message); exit(2); }
    int64_t n = carquet_column_read_batch(col, out, max, NULL, NULL);
    carquet_column_reader_free(col);
    return n;
}

/* ---- generic driver: vals[rg][k] as uint64 keys ordered by `cmp` ---- */
typedef int (*keycmp)(uint64_t a, uint64_t b);
static int cmp_u(uint64_t a, uint64_t b) { return (a > b) - (a < b); }
static int cmp_s(uint64_t a, uint64_t b) { return ((int64_t)a > (int64_t)b) - ((int64_t)a < (int64_t)b); }

static void drive(const char* label, carquet_reader_t* rd, int ngroups,
                  uint64_t keys[][4], const int* nvals, keycmp cmp,
                  const uint64_t* probes, int nprobes,
                  void (*encode)(uint64_t key, uint8_t* out), int width) {
    int shown = 0;
    for (int p = 0; p < nprobes; p++) for (int op = 0; op < 6; op++) {
        uint8_t probe[8];
        encode(probes[p], probe);
        bool expect[8]; int nexp = 0;
        for (int r = 0; r < ngroups; r++) {
            expect[r] = false;
            for (int k = 0; k < nvals[r]; k++)
                if (truth_cmp(cmp(keys[r][k], probes[p]), (carquet_compare_op_t)op)) expect[r] = true;
            nexp += expect[r];
            bool mm = true;
            carquet_status_t st = carquet_reader_row_group_matches(
                rd, r, 0, (carquet_compare_op_t)op, probe, width, &mm);
            if (st == CARQUET_OK && expect[r] && !mm) {
                if (shown++ < 6)
                    printf("%s: FALSE NEGATIVE row group %d, predicate x %s %" PRId64 " (0x%" PRIx64 ")\n",
                           label, r, opname[op], (int64_t)probes[p], probes[p]);
                failures++;
            }
        }
        int32_t idx[8];
        int32_t n = carquet_reader_filter_row_groups(rd, 0, (carquet_compare_op_t)op, probe, width, idx, 8);
        for (int r = 0; r < ngroups; r++) {
            if (!expect[r]) continue;
            bool found = false;
            for (int i = 0; i < n; i++) if (idx[i] == r) found = true;
            if (!found) {
                if (shown++ < 6)
                    printf("%s: filter_row_groups dropped matching row group %d for x %s %" PRId64 "\n",
                           label, r, opname[op], (int64_t)probes[p]);
                failures++;
            }
        }
    }
}

static void enc_le32(uint64_t k, uint8_t* o) { uint32_t v = (uint32_t)k; memcpy(o, &v, 4); }
static void enc_le64(uint64_t k, uint8_t* o) { memcpy(o, &k, 8); }
static void enc_be32(uint64_t k, uint8_t* o) {
    uint32_t v = (uint32_t)(int32_t)(int64_t)k;
    o[0] = (uint8_t)(v >> 24); o[1] = (uint8_t)(v >> 16); o[2] = (uint8_t)(v >> 8); o[3] = (uint8_t)v;
}

static void build_and_check(const char* label, const char* path, pq_column* col,
                            int ngroups, uint64_t keys[][4], const int* nvals,
                            keycmp cmp, void (*encode)(uint64_t, uint8_t*), int width,
                            const uint64_t* probes, int nprobes) {
    static uint8_t pages[8][64], mins[8][8], maxs[8][8];
    pq_group g[8];
    for (int r = 0; r < ngroups; r++) {
        uint64_t mn = keys[r][0], mx = keys[r][0];
        for (int k = 0; k < nvals[r]; k++) {
            encode(keys[r][k], pages[r] + k * width);
            if (cmp(keys[r][k], mn) < 0) mn = keys[r][k];
            if (cmp(keys[r][k], mx) > 0) mx = keys[r][k];
        }
        encode(mn, mins[r]); encode(mx, maxs[r]);
        g[r].page_values = pages[r]; g[r].page_bytes = (size_t)(nvals[r] * width);
        g[r].num_values = nvals[r];
        g[r].min = mins[r]; g[r].min_len = (size_t)width;
        g[r].max = maxs[r]; g[r].max_len = (size_t)width;
    }
    pq_buf f = {0};
    pq_build_file(&f, col, g, ngroups);
    carquet_reader_t* rd = open_built(&f, path);

    /* the file decodes to exactly the intended rows */
    for (int r = 0; r < ngroups; r++) {
        uint8_t back[64];
        int64_t n = read_chunk(rd, r, back, 4);
        if (n != nvals[r] || memcmp(back, pages[r], (size_t)(nvals[r] * width)) != 0) {
            printf("%s: read-back of row group %d failed (n=%" PRId64 ")\n", label, r, n);
            exit(2);
        }
    }
    printf("%s: file %s opened and read back correctly (%d row groups)\n", label, path, ngroups);
    drive(label, rd, ngroups, keys, nvals, cmp, probes, nprobes, encode, width);
    carquet_reader_close(rd);
    free(f.p);
}

int main(int argc, char** argv) {
    const char* dir = argc > 1 ? argv[1] : ".";
    char path[512];

    /* A: UINT_32 */
    {
        uint64_t keys[3][4] = { {1u, 2000000000u, 3000000000u}, {10, 20, 30}, {2500000000u, 4000000000u} };
        int nv[3] = {3, 3, 2};
        uint64_t probes[] = {0, 1, 5, 10, 30, 31, 2000000000u, 2147483647u, 2147483648u,
                             2500000000u, 3000000000u, 3000000001u, 4000000000u, 4294967295u};
        pq_column c = { PT_INT32, 0, CT_UINT_32, LT_INTEGER, 32, 0, 0, 0, 0 };
        snprintf(path, sizeof path, "%s/uint32.parquet", dir);
        build_and_check("UINT_32", path, &c, 3, keys, nv, cmp_u, enc_le32, 4,
                        probes, (int)(sizeof probes / sizeof probes[0]));
    }
    /* B: UINT_64 */
    {
        uint64_t keys[2][4] = { {7u, 0x7fffffffffffffffULL, 0xfffffffffffffff0ULL}, {100, 200} };
        int nv[2] = {3, 2};
        uint64_t probes[] = {0, 7, 8, 100, 150, 200, 0x7fffffffffffffffULL, 0x8000000000000000ULL,
                             0xfffffffffffffff0ULL, 0xffffffffffffffffULL};
        pq_column c = { PT_INT64, 0, CT_UINT_64, LT_INTEGER, 64, 0, 0, 0, 0 };
        snprintf(path, sizeof path, "%s/uint64.parquet", dir);
        build_and_check("UINT_64", path, &c, 2, keys, nv, cmp_u, enc_le64, 8,
                        probes, (int)(sizeof probes / sizeof probes[0]));
    }
    /* C: DECIMAL(9,0) in FIXED_LEN_BYTE_ARRAY(4) */
    {
        uint64_t keys[3][4] = { {(uint64_t)-1, 0, 1}, {(uint64_t)-300, (uint64_t)-200}, {5, 700} };
        int nv[3] = {3, 2, 2};
        uint64_t probes[] = {(uint64_t)-301, (uint64_t)-300, (uint64_t)-250, (uint64_t)-200,
                             (uint64_t)-2, (uint64_t)-1, 0, 1, 2, 5, 6, 700, 701};
        pq_column c = { PT_FLBA, 4, CT_DECIMAL, LT_DECIMAL, 0, 0, 0, 9, 0 };
        snprintf(path, sizeof path, "%s/decimal_flba.parquet", dir);
        build_and_check("DECIMAL/FLBA", path, &c, 3, keys, nv, cmp_s, enc_be32, 4,
                        probes, (int)(sizeof probes / sizeof probes[0]));
    }
    printf("false negatives: %d\n", failures);
    return failures ? 1 : 0;
}
