#!/bin/sh
# Builds the library of this worktree as it is, then the demo, then runs it.
set -e
HERE=$(cd "$(dirname "$0")" && pwd)
WT=$(cd "$HERE/../.." && pwd)
cmake -G Ninja -S "$WT" -B "$WT/_build" >/dev/null
cmake --build "$WT/_build" --target carquet >/dev/null
cc -std=c11 -O1 -g -I"$WT/include" "$HERE/demo.c" "$WT/_build/libcarquet.a" \
   -lzstd -lz -lm -fopenmp -lpthread -o "$HERE/demo"
set +e
"$HERE/demo" "$HERE"
rc=$?
echo "exit code: $rc"
exit $rc
