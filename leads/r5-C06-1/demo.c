/* Finding 1: a GZIP-compressed page that consists of two gzip members (RFC 1952
 * section 2.2; parquet-format Compression.md: "Readers should support reading
 * pages containing multiple GZIP members") cannot be read.
 *
 * The file is built by an independent writer (pq.h / pqfile.h, nothing from
 * carquet) and is verified here with zlib itself before carquet sees it.
 *
 * exit 0: carquet returned the stored values;  exit 1: property violated. */
#include "pqfile.h"
#include <carquet/carquet.h>

#define N 1000

/* reference decoder for the page body: inflate all members (what zlib's own gzread / `gzip -d` do) */
static size_t inflate_all_members(const uint8_t* in, size_t n, uint8_t* out, size_t cap) {
    size_t produced = 0; int members = 0;
    while (n > 0) {
        z_stream s; memset(&s, 0, sizeof s);
        inflateInit2(&s, 15 + 16);
        s.next_in = (Bytef*)in; s.avail_in = (uInt)n; s.next_out = out + produced; s.avail_out = (uInt)(cap - produced);
        int r = inflate(&s, Z_FINISH);
        if (r != Z_STREAM_END) { inflateEnd(&s); return 0; }
        produced += s.total_out; in += s.total_in; n -= s.total_in; members++;
        inflateEnd(&s);
    }
    printf("reference check: page body = %d gzip members, inflates to %zu bytes\n", members, produced);
    return produced;
}

static buf_t build_file(int members, int32_t* expect) {
    buf_t f = { 0 }; b_put(&f, "PAR1", 4);
    /* one REQUIRED INT32 column "c", one row group, one PLAIN data page */
    buf_t body = { 0 };
    for (int i = 0; i < N; i++) { expect[i] = i * 7 - 3; b_u32(&body, (uint32_t)expect[i]); }
    page_opts_t po; memset(&po, 0, sizeof po);
    po.codec = CODEC_GZIP; po.cvariant = members == 2 ? 1 : 0; po.crc = 1;
    chunk_t k; memset(&k, 0, sizeof k);
    k.type = PT_INT32; k.codec = CODEC_GZIP; k.num_values = N; k.data_page_offset = (int64_t)f.n;
    k.path[0] = "c"; k.path_len = 1; k.encodings[0] = ENC_PLAIN; k.encodings[1] = ENC_RLE; k.n_enc = 2;
    size_t page_start = f.n;
    size_t sz = pq_put_page(&f, PAGE_DATA, N, ENC_PLAIN, body.p, body.n, &po);
    k.total_compressed = (int64_t)sz; k.total_uncompressed = (int64_t)(sz + 0);
    if (members == 2) {
        /* the stored body is the last bytes of the page; check it with zlib */
        /* find the body: header length = sz - compressed size; recompute the compressed size */
        buf_t comp = { 0 }; pq_compress(CODEC_GZIP, 1, body.p, body.n, &comp);
        uint8_t* tmp = (uint8_t*)malloc(body.n);
        size_t got = inflate_all_members(f.p + page_start + sz - comp.n, comp.n, tmp, body.n);
        if (got != body.n || memcmp(tmp, body.p, body.n)) { printf("test bug: reference inflate failed\n"); exit(2); }
        free(tmp); b_free(&comp);
    }
    schema_el_t schema[2] = { { "schema", -1, 0, -1, 1, -1 }, { "c", PT_INT32, 0, REP_REQUIRED, 0, -1 } };
    int64_t rows = N; footer_opts_t fo; memset(&fo, 0, sizeof fo);
    pq_put_footer(&f, schema, 2, N, &k, 1, 1, &rows, &fo);
    b_free(&body);
    return f;
}

static int read_back(const buf_t* f, const int32_t* expect, const char* label) {
    int bad = 0;
    const char* path = "finding1.parquet"; pq_save(f, path);
    for (int mode = 0; mode < 3; mode++) {
        carquet_error_t err = CARQUET_ERROR_INIT;
        carquet_reader_options_t o; carquet_reader_options_init(&o); o.use_mmap = mode == 1;
        carquet_reader_t* rd = mode == 2 ? carquet_reader_open_buffer(f->p, f->n, NULL, &err) : carquet_reader_open(path, &o, &err);
        const char* how = mode == 0 ? "fread" : mode == 1 ? "mmap" : "buffer";
        if (!rd) { printf("%s/%s: open failed: %s\n", label, how, err.message); bad = 1; continue; }
        carquet_column_reader_t* col = carquet_reader_get_column(rd, 0, 0, &err);
        int32_t vals[N]; int16_t d[N], r[N];
        int64_t got = col ? carquet_column_read_batch(col, vals, N, d, r) : -2;
        if (got != N) { printf("%s/%s: carquet_column_read_batch returned %lld, expected %d\n", label, how, (long long)got, N); bad = 1; }
        else if (memcmp(vals, expect, sizeof vals)) { printf("%s/%s: WRONG VALUES\n", label, how); bad = 1; }
        else printf("%s/%s: %d values read back correctly\n", label, how, N);
        if (col) carquet_column_reader_free(col);
        /* the batch reader */
        carquet_batch_reader_t* br = carquet_batch_reader_create(rd, NULL, &err);
        carquet_row_batch_t* b = NULL;
        carquet_status_t st = br ? carquet_batch_reader_next(br, &b) : CARQUET_ERROR_INVALID_STATE;
        if (st != CARQUET_OK || !b || carquet_row_batch_num_rows(b) != N) { printf("%s/%s: carquet_batch_reader_next -> %s\n", label, how, carquet_status_string(st)); bad = 1; }
        if (b) carquet_row_batch_free(b);
        if (br) carquet_batch_reader_free(br);
        carquet_reader_close(rd);
    }
    remove(path);
    return bad;
}

int main(void) {
    carquet_status_t ist = carquet_init(); (void)ist;
    int32_t expect[N];
    buf_t one = build_file(1, expect);
    int bad1 = read_back(&one, expect, "control: page = one gzip member ");
    if (bad1) { printf("control failed - test setup problem\n"); return 2; }
    buf_t two = build_file(2, expect);
    int bad2 = read_back(&two, expect, "page = two gzip members");
    printf(bad2 ? "RESULT: property violated (valid GZIP page rejected)\n" : "RESULT: ok\n");
    return bad2 ? 1 : 0;
}
