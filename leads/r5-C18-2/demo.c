/*
 * C18 - a path-based writer that is given up leaves no file behind.
 *
 * carquet_writer_create() opens (creates/truncates) the output file first and
 * copies the path afterwards.  When that copy cannot be allocated the function
 * closes the stream and returns NULL - but the file it has just created stays
 * on disk.  The caller never got a writer handle, so there is nothing it could
 * pass to carquet_writer_abort(); every other failure inside
 * carquet_writer_create() (column registration) does go through
 * carquet_writer_abort() and removes the file.
 *
 * One allocation fault is injected with -Wl,--wrap=strdup: the strdup() of the
 * output path fails once.  Public API otherwise.
 * Exit 0 = property holds, 1 = violated.
 */
#include <carquet/carquet.h>
#include <stdio.h>
#include <stdlib.h>
#include <string.h>
#include <unistd.h>
#include <sys/stat.h>

static const char *fail_for;     /* strdup of exactly this string fails ... */
static int failures_left;        /* ... this many times */
static int injected;

char *__real_strdup(const char *s);
char *__wrap_strdup(const char *s) {
    if (failures_left > 0 && fail_for && strcmp(s, fail_for) == 0) {
        failures_left--;
        injected++;
        return NULL;
    }
    return __real_strdup(s);
}

int main(void) {
    char dir[] = "c18_create_XXXXXX";
    if (!mkdtemp(dir)) { perror("mkdtemp"); return 2; }
    char path[256];
    snprintf(path, sizeof path, "%s/out.parquet", dir);

    carquet_error_t err = CARQUET_ERROR_INIT;
    carquet_schema_t *sc = carquet_schema_create(&err);
    if (!sc || carquet_schema_add_column(sc, "a", CARQUET_PHYSICAL_INT32, NULL,
                                         CARQUET_REPETITION_REQUIRED, 0) != CARQUET_OK) {
        fprintf(stderr, "schema setup failed\n");
        return 2;
    }

    fail_for = path;
    failures_left = 1;
    carquet_writer_t *w = carquet_writer_create(path, sc, NULL, &err);
    failures_left = 0;

    printf("allocation faults injected: %d\n", injected);
    if (w) {
        printf("carquet_writer_create succeeded (fault not reached) - nothing to check\n");
        carquet_writer_abort(w);
        carquet_schema_free(sc);
        return injected ? 1 : 0;
    }
    printf("carquet_writer_create returned NULL: code %d (%s)\n", (int)err.code, err.message);

    struct stat st;
    int exists = stat(path, &st) == 0;
    printf("%s after the failed create: %s", path, exists ? "EXISTS" : "absent");
    if (exists) printf(" (size %ld)", (long)st.st_size);
    printf("\n");

    carquet_schema_free(sc);
    if (exists) {
        printf("VIOLATION: no writer was handed out, yet a file was left behind\n");
        return 1;
    }
    printf("ok\n");
    return 0;
}
