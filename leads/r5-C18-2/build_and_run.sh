#!/bin/sh
# Builds the library in the worktree as it is, builds the demo, runs it.
set -e
ROOT=$(cd "$(dirname "$0")/../.." && pwd)
HERE=$(cd "$(dirname "$0")" && pwd)
cd "$ROOT"
cmake -G Ninja -B _build >/dev/null
cmake --build _build --target carquet >/dev/null
cc -g -O1 -Wall -I"$ROOT/include" "$HERE/demo.c" "$ROOT/_build/libcarquet.a" \
   -Wl,--wrap=strdup -lzstd -lz -lm -fopenmp -lpthread -o "$HERE/demo"
set +e
cd "$HERE"   # scratch directories are created next to the demo
"$HERE/demo"
rc=$?
echo "demo exit code: $rc"
exit $rc
