/*
 * C03 finding 3: a column chunk that starts with a data page without values
 * (num_values = 0, legal - see the library's own commit 74bf458) makes the
 * zero-copy page loader of the mmap / buffer path call
 * memset(NULL, 0, 0) twice (undefined behaviour, reported by UBSan); the
 * stdio path reads the same bytes without touching unallocated buffers.
 *
 * File (hand-built, valid): one REQUIRED INT32 column, uncompressed,
 *   page 0: data page v1, num_values = 0, empty body
 *   page 1: data page v1, PLAIN, 4 values {10, 11, 12, 13}
 *
 * Run with UBSAN_OPTIONS=halt_on_error=1 (build_and_run.sh does): the
 * process aborts inside load_next_page_mmap on the mmap path. Without a
 * sanitizer the demo exits 0 (with glibc the call happens to be harmless).
 */
#include "pqgen.h"
#include <carquet/carquet.h>
#include <unistd.h>

int main(void) {
    buf_t f = {0};
    b_put(&f, "PAR1", 4);
    pqchunk_t ck; memset(&ck, 0, sizeof ck);
    ck.num_values = 4; ck.data_page_offset = (int64_t)f.n;
    pghdr_t h0 = {0, 0, ENC_PLAIN, 0, 0, 0};
    write_page(&f, &h0, (const uint8_t*)"", 0);
    buf_t body = {0}; for (uint32_t i = 0; i < 4; i++) b_u32le(&body, 10 + i);
    pghdr_t h1 = {0, 4, ENC_PLAIN, 0, 0, 0};
    write_page(&f, &h1, body.p, body.n); free(body.p);
    ck.total_size = (int64_t)f.n - 4;
    pqcol_t col = {"v", T_I32, 0, 0};
    int64_t rows = 4;
    write_footer(&f, &col, 1, 1, &rows, &ck);

    char path[128]; snprintf(path, sizeof path, "/tmp/c03_f3_%d.parquet", (int)getpid());
    FILE* fp = fopen(path, "wb"); if (!fp) { perror("fopen"); return 2; }
    fwrite(f.p, 1, f.n, fp); fclose(fp);

    const char* nm[3] = {"fread", "mmap", "buffer"};
    int bad = 0;
    for (int k = 0; k < 3; k++) {
        carquet_reader_options_t o; carquet_reader_options_init(&o); o.use_mmap = (k == 1);
        carquet_error_t err = CARQUET_ERROR_INIT;
        carquet_reader_t* rd = k == 2 ? carquet_reader_open_buffer(f.p, f.n, &o, &err) : carquet_reader_open(path, &o, &err);
        if (!rd) { printf("%s: open failed: %s\n", nm[k], err.message); bad = 1; continue; }
        carquet_column_reader_t* cr = carquet_reader_get_column(rd, 0, 0, &err);
        int32_t v[4] = {0};
        printf("%-6s: reading ...\n", nm[k]); fflush(stdout);
        int64_t got = cr ? carquet_column_read_batch(cr, v, 4, NULL, NULL) : -1;
        printf("%-6s: got %lld values: %d %d %d %d\n", nm[k], (long long)got, v[0], v[1], v[2], v[3]);
        if (got != 4 || v[0] != 10 || v[3] != 13) bad = 1;
        carquet_column_reader_free(cr);
        carquet_reader_close(rd);
    }
    unlink(path); free(f.p);
    printf(bad ? "RESULT: wrong values\n" : "RESULT: values ok (look for UBSan reports above)\n");
    return bad;
}
