#!/bin/sh
# Builds the library in the worktree as it is, builds the demo, runs it.
set -e
HERE=$(cd "$(dirname "$0")" && pwd)
WT=$(cd "$HERE/../.." && pwd)
cd "$WT"
cmake -G Ninja -B _build >/dev/null
cmake --build _build >/dev/null
gcc -O1 -g -I"$WT/include" "$HERE/demo.c" "$WT/_build/libcarquet.a" -o "$HERE/demo" \
    -lzstd -lz -lm -fopenmp -lpthread
cd "$HERE"
set +e
./demo "$HERE/c01_ragged.parquet"
rc=$?
echo "exit status: $rc"
exit $rc
