/*
 * C01 demonstration: the writer completes, with CARQUET_OK from every call,
 * a row group whose columns were given different numbers of rows.
 *
 * carquet.h says "All columns must be written the same number of rows before
 * closing or starting a new row group" (and repeats it as a @warning on
 * carquet_writer_new_row_group and carquet_writer_close). The writer keeps a
 * per-column row counter (column_values_written) but never looks at it: the
 * row count of the row group is simply whatever column 0 received.
 *
 * Case A: column 0 gets 3 rows, column 1 gets 5 rows.
 * Case B: column 0 gets 5 rows, column 1 gets 3 rows.
 *
 * exit 0: the writer reports the inconsistency from some call (property holds:
 *         no OK file is produced), or the table that comes back is the one
 *         written; exit 1: all calls OK and the file does not hold one table.
 */
#include <carquet/carquet.h>
#include <stdio.h>
#include <stdlib.h>
#include <string.h>
#include <unistd.h>

static int run_case(const char* path, const char* label, int rows0, int rows1) {
    carquet_error_t err = CARQUET_ERROR_INIT;
    int32_t a[5] = {10, 11, 12, 13, 14};
    int32_t b[5] = {20, 21, 22, 23, 24};
    int bad = 0;

    printf("--- case %s: column 0 <- %d rows, column 1 <- %d rows\n", label, rows0, rows1);
    carquet_schema_t* schema = carquet_schema_create(&err);
    if (!schema ||
        carquet_schema_add_column(schema, "a", CARQUET_PHYSICAL_INT32, NULL, CARQUET_REPETITION_REQUIRED, 0) != CARQUET_OK ||
        carquet_schema_add_column(schema, "b", CARQUET_PHYSICAL_INT32, NULL, CARQUET_REPETITION_REQUIRED, 0) != CARQUET_OK) exit(2);
    carquet_writer_t* w = carquet_writer_create(path, schema, NULL, &err);
    if (!w) exit(2);

    carquet_status_t s1 = carquet_writer_write_batch(w, 0, a, rows0, NULL, NULL);
    carquet_status_t s2 = carquet_writer_write_batch(w, 1, b, rows1, NULL, NULL);
    carquet_status_t s3 = carquet_writer_new_row_group(w);
    carquet_status_t s4 = carquet_writer_close(w);
    printf("write_batch(col 0) -> %d, write_batch(col 1) -> %d, new_row_group -> %d, close -> %d\n", s1, s2, s3, s4);
    if (s1 || s2 || s3 || s4) {
        printf("the writer reported the inconsistent row group: fine\n");
        carquet_schema_free(schema);
        unlink(path);
        return 0;
    }

    carquet_reader_t* r = carquet_reader_open(path, NULL, &err);
    if (!r) { printf("VIOLATION: all writer calls OK, file does not re-open: %s\n", err.message); carquet_schema_free(schema); unlink(path); return 1; }
    carquet_row_group_metadata_t md;
    if (carquet_reader_row_group_metadata(r, 0, &md) != CARQUET_OK) exit(2);
    printf("file: num_rows=%lld, row group 0 num_rows=%lld\n", (long long)carquet_reader_num_rows(r), (long long)md.num_rows);

    /* column reader */
    int64_t colrows[2];
    for (int c = 0; c < 2; c++) {
        carquet_column_reader_t* cr = carquet_reader_get_column(r, 0, c, &err);
        if (!cr) { printf("get_column %d failed: %s\n", c, err.message); bad = 1; colrows[c] = -1; continue; }
        int32_t out[16];
        colrows[c] = carquet_column_read_batch(cr, out, 16, NULL, NULL);
        printf("column reader: column %d delivers %lld rows\n", c, (long long)colrows[c]);
        carquet_column_reader_free(cr);
    }
    if (colrows[0] != md.num_rows || colrows[1] != md.num_rows) {
        printf("VIOLATION: the row group says %lld rows, its columns hold %lld and %lld values\n",
               (long long)md.num_rows, (long long)colrows[0], (long long)colrows[1]);
        bad = 1;
    }

    /* batch reader */
    carquet_batch_reader_t* br = carquet_batch_reader_create(r, NULL, &err);
    if (!br) exit(2);
    carquet_row_batch_t* batch = NULL;
    carquet_status_t st = carquet_batch_reader_next(br, &batch);
    if (st == CARQUET_OK && batch) {
        const void* d; const uint8_t* bm; int64_t n0 = -1, n1 = -1;
        (void)!carquet_row_batch_column(batch, 0, &d, &bm, &n0);
        (void)!carquet_row_batch_column(batch, 1, &d, &bm, &n1);
        printf("batch reader : OK, %lld rows, column 0 has %lld values, column 1 has %lld values\n",
               (long long)carquet_row_batch_num_rows(batch), (long long)n0, (long long)n1);
        if (n0 != rows0 || n1 != rows1) {
            printf("VIOLATION: values accepted by the writer (%d and %d) are silently missing from the batch\n", rows0, rows1);
            bad = 1;
        }
        carquet_row_batch_free(batch);
    } else {
        printf("batch reader : carquet_batch_reader_next -> %d (%s)\n", st, carquet_status_string(st));
        printf("VIOLATION: all writer calls OK, but the file cannot be read as a table\n");
        bad = 1;
    }
    carquet_batch_reader_free(br);
    carquet_reader_close(r);
    carquet_schema_free(schema);
    unlink(path);
    return bad;
}

int main(int argc, char** argv) {
    const char* path = argc > 1 ? argv[1] : "c01_ragged.parquet";
    int bad = 0;
    bad |= run_case(path, "A", 3, 5);
    bad |= run_case(path, "B", 5, 3);
    printf(bad ? "RESULT: property violated\n" : "RESULT: property holds\n");
    return bad;
}
