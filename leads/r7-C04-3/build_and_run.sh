#!/bin/sh
set -e
cd "$(dirname "$0")"
ROOT=../..
[ -f $ROOT/_build/libcarquet.a ] || (cd $ROOT && cmake -G Ninja -B _build >/dev/null && cmake --build _build >/dev/null)
gcc -O1 -g -I$ROOT/include demo.c $ROOT/_build/libcarquet.a \
    -Wl,--wrap=malloc,--wrap=calloc,--wrap=realloc \
    -lzstd -lz -lm -fopenmp -lpthread -o demo
rc=0; ./demo || rc=$?
echo "exit code $rc"
exit $rc
