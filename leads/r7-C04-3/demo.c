/* Finding 3: the work and memory of one read call are bounded by a number in
 * the page header, not by the size of the input.
 *
 * Hand-built file of about 120 bytes: one REQUIRED column, uncompressed, one
 * PLAIN data page whose header says num_values = 20,000,000 and whose body is
 * 8 bytes. For a REQUIRED column with PLAIN encoding the body must hold
 * num_values fixed-width values (num_values/8 bytes for BOOLEAN), so the page
 * contradicts itself and can be refused after looking at two integers.
 *
 * The memory-mapped zero-copy path does exactly that ("Page body too small
 * for its declared values"). The standard path (always taken on the fread
 * path; on the mapping/buffer path for BOOLEAN, BYTE_ARRAY, compressed or
 * nullable columns) first allocates three arrays of num_values elements and
 * fills two of them, and only then finds out that the values are missing.
 *
 * malloc/calloc/realloc are interposed (-Wl,--wrap) only to MEASURE what the
 * library asks for during the call; nothing is failed.
 *
 * Budget used below: 4096 bytes requested per byte of input file (generous;
 * a well-formed PLAIN page needs about 1-3x its own size).
 *
 * exit 0: every call stayed within the budget
 * exit 1: some call exceeded it
 */
#include "pq.h"
#include <carquet/carquet.h>
#include <time.h>

void* __real_malloc(size_t); void* __real_calloc(size_t, size_t); void* __real_realloc(void*, size_t);
static int g_armed; static unsigned long long g_requested;
void* __wrap_malloc(size_t n) { if (g_armed) g_requested += n; return __real_malloc(n); }
void* __wrap_calloc(size_t a, size_t b) { if (g_armed) g_requested += a * b; return __real_calloc(a, b); }
void* __wrap_realloc(void* p, size_t n) { if (g_armed) g_requested += n; return __real_realloc(p, n); }

static double now(void) { struct timespec t; clock_gettime(CLOCK_MONOTONIC, &t); return t.tv_sec + t.tv_nsec / 1e9; }

#define CLAIMED 20000000

static void build(buf_t* f, int type) {
    b_put(f, "PAR1", 4);
    pq_col_t c = {0};
    c.type = c.chunk_type = type; c.repetition = REP_REQUIRED; c.codec = CODEC_NONE;
    c.num_values = CLAIMED; c.num_rows = CLAIMED; c.data_page_offset = 4;
    uint8_t body[8] = { 1, 0, 0, 0, 2, 0, 0, 0 };
    pq_page_header(f, PAGE_DATA, 8, 8, CLAIMED, ENC_PLAIN);
    b_put(f, body, 8);
    pq_footer(f, &c);
}

int main(void) {
    int violations = 0;
    static const int types[] = { PT_INT32, PT_BOOLEAN };
    static const char* tnames[] = { "INT32", "BOOLEAN" };
    for (int t = 0; t < 2; t++) {
        buf_t f = {0};
        build(&f, types[t]);
        const char* path = t == 0 ? "claims_20M_int32.parquet" : "claims_20M_boolean.parquet";
        pq_write_file(path, &f);
        unsigned long long budget = 4096ull * f.n;
        printf("%s column, file of %zu bytes, page header claims %d values in an 8-byte body; budget %llu bytes\n",
               tnames[t], f.n, CLAIMED, budget);
        for (int mode = 0; mode < 3; mode++) {
            carquet_error_t err = CARQUET_ERROR_INIT;
            carquet_reader_options_t opt; carquet_reader_options_init(&opt);
            carquet_reader_t* r;
            if (mode == 0) r = carquet_reader_open(path, &opt, &err);
            else if (mode == 1) { opt.use_mmap = true; r = carquet_reader_open(path, &opt, &err); }
            else r = carquet_reader_open_buffer(f.p, f.n, &opt, &err);
            if (!r) { printf("open failed: %s\n", err.message); return 2; }
            const char* mname = mode == 0 ? "fread " : mode == 1 ? "mmap  " : "buffer";

            /* column reader */
            carquet_column_reader_t* col = carquet_reader_get_column(r, 0, 0, &err);
            if (!col) { printf("get_column failed: %s\n", err.message); return 2; }
            int32_t vals[4];
            g_requested = 0; g_armed = 1;
            double t0 = now();
            int64_t n = carquet_column_read_batch(col, vals, 4, NULL, NULL);
            double dt = now() - t0;
            g_armed = 0;
            printf("  %s carquet_column_read_batch(4)  -> %lld, requested %llu bytes (%.0fx the file), %.3f s%s\n",
                   mname, (long long)n, g_requested, (double)g_requested / (double)f.n, dt,
                   g_requested > budget ? "   <-- VIOLATION" : "");
            if (g_requested > budget) violations++;
            carquet_column_reader_free(col);

            /* batch reader, one batch of 4 rows */
            carquet_batch_reader_config_t cfg; carquet_batch_reader_config_init(&cfg);
            cfg.batch_size = 4; cfg.num_threads = 1;
            carquet_batch_reader_t* br = carquet_batch_reader_create(r, &cfg, &err);
            if (!br) { printf("batch reader failed: %s\n", err.message); return 2; }
            carquet_row_batch_t* b = NULL;
            g_requested = 0; g_armed = 1;
            t0 = now();
            carquet_status_t st = carquet_batch_reader_next(br, &b);
            dt = now() - t0;
            g_armed = 0;
            printf("  %s carquet_batch_reader_next(4 rows) -> status %d, requested %llu bytes (%.0fx the file), %.3f s%s\n",
                   mname, (int)st, g_requested, (double)g_requested / (double)f.n, dt,
                   g_requested > budget ? "   <-- VIOLATION" : "");
            if (g_requested > budget) violations++;
            if (st == CARQUET_OK) carquet_row_batch_free(b);
            carquet_batch_reader_free(br);
            carquet_reader_close(r);
        }
        free(f.p);
    }
    printf("%d violation(s)\n", violations);
    return violations ? 1 : 0;
}
