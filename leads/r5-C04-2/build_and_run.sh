#!/bin/sh
# Finding 2: builds the unchanged library with AddressSanitizer, builds the demo, runs it.
# Exit status: 0 = property holds, non-zero = violated (ASan aborts the program).
set -e
W=/tmp/wt5/C04
cd "$W"
cmake -G Ninja -B _build_asan -DCMAKE_C_FLAGS="-fsanitize=address,undefined -g -O1" \
      -DCMAKE_EXE_LINKER_FLAGS="-fsanitize=address,undefined" >/dev/null
cmake --build _build_asan --target carquet >/dev/null
cd "$W/_finding/2"
gcc -g -O1 -fsanitize=address,undefined -I"$W/include" -o demo demo.c \
    "$W/_build_asan/libcarquet.a" -lzstd -lz -lm -fopenmp -lpthread
./demo
