/*
 * Finding 2: carquet_batch_reader_next() reads col_readers[0] of a batch reader
 * that has no columns.
 *
 * The file is a VALID Parquet file of a table without columns: the schema is
 * only the root group (num_children = 0), there are no row groups, num_rows = 0.
 * carquet accepts it (carquet_reader_num_columns() == 0), creates a batch
 * reader for it, and the first next() correctly returns END_OF_DATA.  Any
 * further next() - a caller that polls until END_OF_DATA twice, or simply
 * calls again - evaluates batch_reader->col_readers[0], an 8-byte read from the
 * zero-byte block returned by calloc(0, sizeof(ptr)).
 *
 * Variant (b): the same schema with one row group that has zero columns and
 * five rows: the first next() reports CARQUET_ERROR_OUT_OF_MEMORY although
 * nothing ran out of memory, the second one performs the same out-of-bounds read.
 *
 * Build with AddressSanitizer: the program aborts with heap-buffer-overflow.
 * exit 0: property holds.
 */
#include <carquet/carquet.h>
#include "pqb.h"

static void build_file(pqb_t* file, int with_row_group) {
    pqb_init(file);
    pqb_put(file, "PAR1", 4);
    size_t footer_start = file->len;
    t_struct_begin(file);
    t_i32(file, 1, 1);                                  /* version */
    t_list(file, 2, T_STRUCT, 1);                       /* schema: root only */
    pq_schema_elem(file, "schema", -1, 0, -1, 0);
    t_i64(file, 3, with_row_group ? 5 : 0);             /* num_rows */
    t_list(file, 4, T_STRUCT, with_row_group ? 1 : 0);  /* row_groups */
    if (with_row_group) {
        t_struct_begin(file);
        t_list(file, 1, T_STRUCT, 0);                   /* columns: none */
        t_i64(file, 2, 0);                              /* total_byte_size */
        t_i64(file, 3, 5);                              /* num_rows */
        t_struct_end(file);
    }
    t_str(file, 6, "demo");
    t_struct_end(file);
    pq_finish_file(file, footer_start);
}

static int run(int with_row_group) {
    pqb_t file; build_file(&file, with_row_group);
    /* exact-size heap copy so that any read outside the input is caught too */
    uint8_t* exact = (uint8_t*)malloc(file.len);
    memcpy(exact, file.p, file.len);

    carquet_error_t err = CARQUET_ERROR_INIT;
    carquet_reader_t* r = carquet_reader_open_buffer(exact, file.len, NULL, &err);
    if (!r) { printf("  open refused: %s\n", err.message); free(exact); pqb_free(&file); return 0; }
    printf("  opened: %d columns, %d row groups, %lld rows\n",
           carquet_reader_num_columns(r), carquet_reader_num_row_groups(r),
           (long long)carquet_reader_num_rows(r));

    carquet_batch_reader_config_t cfg; carquet_batch_reader_config_init(&cfg);
    cfg.num_threads = 1;
    carquet_batch_reader_t* br = carquet_batch_reader_create(r, &cfg, &err);
    if (!br) { printf("  batch reader refused: %s\n", err.message); carquet_reader_close(r); free(exact); pqb_free(&file); return 0; }

    int bad = 0;
    for (int call = 1; call <= 3; call++) {
        carquet_row_batch_t* batch = NULL;
        carquet_status_t st = carquet_batch_reader_next(br, &batch);
        printf("  next() #%d -> %d (%s)\n", call, (int)st, carquet_status_string(st));
        if (st == CARQUET_ERROR_OUT_OF_MEMORY) bad = 1;   /* nothing ran out of memory */
        if (batch) carquet_row_batch_free(batch);
    }
    carquet_batch_reader_free(br);
    carquet_reader_close(r);
    free(exact);
    pqb_free(&file);
    return bad;
}

int main(void) {
    setvbuf(stdout, NULL, _IONBF, 0);
    int bad = 0;
    printf("[a] root-only schema, no row groups (valid empty table)\n");
    bad |= run(0);
    printf("[b] root-only schema, one row group without columns\n");
    bad |= run(1);
    printf(bad ? "RESULT: property violated\n" : "RESULT: property holds\n");
    return bad;
}
