/*
 * C01 demo 2: null positions read back through the batch reader are inverted with
 * respect to the documented meaning of the null bitmap.
 *
 * include/carquet/carquet.h (carquet_row_batch_column):
 *     "null_bitmap Null bitmap (1 bit per value, set = not null)"
 *     "bool is_null = null_bitmap && !(null_bitmap[i / 8] & (1 << (i % 8)));"
 * README.md: "null_bitmap: bit i is 1 if value i is NOT null"
 *
 * The demo writes 20 rows into
 *     col 0  "opt"  OPTIONAL INT32, rows 1,4,5,11,19 are null
 *     col 1  "req"  REQUIRED INT32 (can never be null)
 * re-opens the file, reads it with the batch reader and classifies every row with the
 * is_null formula quoted above.  The low-level column reader is used as a cross-check
 * (it returns the definition levels that were written).
 *
 * exit 0 = null positions read back as written, 1 = not.
 */
#include <carquet/carquet.h>
#include <stdio.h>
#include <stdlib.h>
#include <string.h>
#include <stdint.h>
#include <unistd.h>

#define N 20

static bool documented_is_null(const uint8_t* null_bitmap, int64_t i) {
    /* verbatim from the header documentation */
    bool is_null = null_bitmap && !(null_bitmap[i / 8] & (1 << (i % 8)));
    return is_null;
}

int main(void) {
    char path[256];
    snprintf(path, sizeof path, "/tmp/carquet_c01_demo2_%d.parquet", (int)getpid());
    carquet_error_t err = CARQUET_ERROR_INIT;

    int written_null[N] = {0};
    written_null[1] = written_null[4] = written_null[5] = written_null[11] = written_null[19] = 1;

    /* ---- write ---- */
    carquet_schema_t* s = carquet_schema_create(&err);
    if (!s) return 2;
    if (carquet_schema_add_column(s, "opt", CARQUET_PHYSICAL_INT32, NULL, CARQUET_REPETITION_OPTIONAL, 0) != CARQUET_OK) return 2;
    if (carquet_schema_add_column(s, "req", CARQUET_PHYSICAL_INT32, NULL, CARQUET_REPETITION_REQUIRED, 0) != CARQUET_OK) return 2;
    carquet_writer_t* w = carquet_writer_create(path, s, NULL, &err);
    if (!w) return 2;
    int32_t dense[N]; int16_t def[N]; int32_t req[N]; int k = 0;
    for (int i = 0; i < N; i++) {
        def[i] = written_null[i] ? 0 : 1;
        if (!written_null[i]) dense[k++] = 100 + i;
        req[i] = 1000 + i;
    }
    if (carquet_writer_write_batch(w, 0, dense, N, def, NULL) != CARQUET_OK) return 2;
    if (carquet_writer_write_batch(w, 1, req, N, NULL, NULL) != CARQUET_OK) return 2;
    if (carquet_writer_close(w) != CARQUET_OK) return 2;
    carquet_schema_free(s);

    /* ---- read back: low-level column reader (cross-check) ---- */
    carquet_reader_t* r = carquet_reader_open(path, NULL, &err);
    if (!r) { printf("open failed: %s\n", err.message); return 2; }
    {
        carquet_column_reader_t* c = carquet_reader_get_column(r, 0, 0, &err);
        int32_t v[N]; int16_t d[N];
        int64_t n = carquet_column_read_batch(c, v, N, d, NULL);
        printf("column reader  opt: ");
        for (int i = 0; i < n; i++) printf("%c", d[i] == 1 ? '.' : 'N');
        printf("   (N = null)\n");
        carquet_column_reader_free(c);
    }

    /* ---- read back: batch reader, documented bitmap semantics ---- */
    int mismatches = 0;
    carquet_batch_reader_t* br = carquet_batch_reader_create(r, NULL, &err);
    if (!br) return 2;
    carquet_row_batch_t* b = NULL;
    int64_t row0 = 0;
    while (carquet_batch_reader_next(br, &b) == CARQUET_OK && b) {
        int64_t rows = carquet_row_batch_num_rows(b);
        for (int col = 0; col < 2; col++) {
            const void* data; const uint8_t* bitmap; int64_t nv;
            if (carquet_row_batch_column(b, col, &data, &bitmap, &nv) != CARQUET_OK) return 2;
            printf("batch reader   %s: ", col == 0 ? "opt" : "req");
            for (int64_t i = 0; i < nv; i++) {
                bool isn = documented_is_null(bitmap, i);
                bool expect = (col == 0) ? written_null[row0 + i] : false;
                printf("%c", isn ? 'N' : '.');
                if (isn != expect) mismatches++;
            }
            printf("   bitmap bytes:");
            for (int64_t i = 0; i < (nv + 7) / 8; i++) printf(" %02x", bitmap[i]);
            printf("\n");
        }
        row0 += rows;
        carquet_row_batch_free(b); b = NULL;
    }
    printf("written        opt: ");
    for (int i = 0; i < N; i++) printf("%c", written_null[i] ? 'N' : '.');
    printf("\nwritten        req: ");
    for (int i = 0; i < N; i++) printf(".");
    printf("\n");
    carquet_batch_reader_free(br);
    carquet_reader_close(r);
    remove(path);

    printf("rows whose null-ness differs from what was written: %d of %d\n", mismatches, 2 * N);
    printf(mismatches ? "RESULT: property VIOLATED\n" : "RESULT: property holds\n");
    return mismatches ? 1 : 0;
}
