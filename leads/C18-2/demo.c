/*
 * C18 demonstration 2: a write error on the caller's FILE* is swallowed
 * completely - every writer call, including carquet_writer_close, returns
 * CARQUET_OK, yet bytes are missing from the sink.
 *
 * Condition: the FILE handed to carquet_writer_create_file() is line
 * buffered (setvbuf(_IOLBF), or any stream glibc makes line buffered by
 * default, i.e. a tty/pty) and a chunk that the writer passes to fwrite()
 * ends in the byte 0x0A.  A row group ends with the last value of the last
 * column, so a text column whose lines end in '\n' is enough.
 *
 * For such a chunk glibc copies all of it into the buffer, tries to flush,
 * and when write(2) fails it sets the stream's error flag, DROPS the buffer
 * and still makes fwrite() return the full count ("the data is in the buffer
 * and therefore written as far as fwrite is concerned", libio/iofwrite.c).
 * A later fflush() has nothing left to flush and returns 0.  Only ferror()
 * still knows - and the writer never looks at it.
 *
 * The sink is a fopencookie() stream whose K-th write fails once with ENOSPC
 * (every K of the fault-free write history is tried).
 *
 * exit 0 = property holds, exit 1 = violated.
 */
#define _GNU_SOURCE
#include <stdio.h>
#include <stdlib.h>
#include <string.h>
#include <errno.h>
#include <carquet/carquet.h>

typedef struct {
    unsigned char* data; size_t len, cap;
    int nwrites;      /* write operations seen so far        */
    int fail_at;      /* index of the operation that fails   */
    int failed;       /* set when the failure was delivered  */
} sink_t;

static ssize_t sink_write(void* c, const char* buf, size_t n) {
    sink_t* s = c;
    if (s->nwrites++ == s->fail_at) { s->failed = 1; errno = ENOSPC; return 0; }
    if (s->len + n > s->cap) { s->cap = (s->len + n) * 2; s->data = realloc(s->data, s->cap); }
    memcpy(s->data + s->len, buf, n); s->len += n;
    return (ssize_t)n;
}
static int sink_close(void* c) { (void)c; return 0; }

#define ROWS 40
#define RGS  3

/* Returns 1 if any carquet writer call returned non-OK, else 0. */
static int write_table(sink_t* s, int fail_at, int* ferror_at_end) {
    memset(s, 0, sizeof *s); s->fail_at = fail_at;
    cookie_io_functions_t io = { .write = sink_write, .close = sink_close };
    FILE* f = fopencookie(s, "wb", io);
    setvbuf(f, NULL, _IOLBF, 0);                     /* the condition */

    carquet_error_t err = CARQUET_ERROR_INIT;
    carquet_schema_t* sc = carquet_schema_create(&err);
    if (carquet_schema_add_column(sc, "id", CARQUET_PHYSICAL_INT32, NULL, CARQUET_REPETITION_REQUIRED, 0) ||
        carquet_schema_add_column(sc, "line", CARQUET_PHYSICAL_BYTE_ARRAY, NULL, CARQUET_REPETITION_REQUIRED, 0)) exit(2);
    carquet_writer_t* w = carquet_writer_create_file(f, sc, NULL, &err);
    if (!w) exit(2);

    int32_t ids[ROWS]; carquet_byte_array_t lines[ROWS]; char text[ROWS][32];
    int reported = 0;
    for (int g = 0; g < RGS && !reported; g++) {
        for (int i = 0; i < ROWS; i++) {
            ids[i] = g * ROWS + i;
            lines[i].length = snprintf(text[i], sizeof text[i], "log line %d\n", g * ROWS + i);
            lines[i].data = (uint8_t*)text[i];
        }
        if (carquet_writer_write_batch(w, 0, ids, ROWS, NULL, NULL) != CARQUET_OK) { reported = 1; break; }
        if (carquet_writer_write_batch(w, 1, lines, ROWS, NULL, NULL) != CARQUET_OK) { reported = 1; break; }
        if (g + 1 < RGS && carquet_writer_new_row_group(w) != CARQUET_OK) { reported = 1; break; }
    }
    if (reported) carquet_writer_abort(w);
    else if (carquet_writer_close(w) != CARQUET_OK) reported = 1;

    *ferror_at_end = ferror(f);
    fclose(f);
    carquet_schema_free(sc);
    return reported;
}

int main(void) {
    sink_t ref; int fe;
    if (write_table(&ref, -1, &fe)) { fprintf(stderr, "fault-free run failed\n"); return 2; }
    printf("fault-free run: %d write operations, %zu bytes\n", ref.nwrites, ref.len);

    int bad = 0;
    for (int k = 0; k < ref.nwrites; k++) {
        sink_t s;
        int reported = write_table(&s, k, &fe);
        int complete = s.len == ref.len && memcmp(s.data, ref.data, ref.len) == 0;
        printf("write op #%d fails with ENOSPC: some writer call non-OK: %s; ferror(stream)=%d; sink got %zu of %zu bytes",
               k, reported ? "yes" : "NO", fe != 0, s.len, ref.len);
        if (s.failed && !reported && !complete) {
            carquet_error_t err = CARQUET_ERROR_INIT;
            carquet_reader_t* r = carquet_reader_open_buffer(s.data, s.len, NULL, &err);
            printf("  <-- VIOLATION (the damaged output %s)", r ? "even opens as a Parquet file" : "does not open");
            if (r) carquet_reader_close(r);
            bad = 1;
        }
        printf("\n");
        free(s.data);
    }
    free(ref.data);
    if (bad) { printf("RESULT: VIOLATION - the sink failed, no writer call reported it, close returned CARQUET_OK\n"); return 1; }
    printf("RESULT: ok\n");
    return 0;
}
