/*
 * C07 demo: independent readers used from different threads - what is left
 * behind when the threads are gone.
 *
 * A ZSTD file is written through the public API. Then, ROUNDS times, a thread
 * is started that opens its OWN reader on the file, reads every batch
 * (num_threads = 4), frees the batches, the batch reader and the reader, and
 * exits; the main thread joins it. After a warm-up, every round does exactly
 * the same work and releases every handle the API gave it, so the amount of
 * live heap memory must not depend on how many threads have come and gone.
 *
 * All allocations are forced into glibc's main arena (M_ARENA_MAX=1) so that
 * mallinfo2().uordblks is the exact number of live heap bytes of the process.
 *
 * Exit 0: live heap after the last round == live heap after the warm-up
 *         (a small tolerance is allowed).
 * Exit 1: live heap grows with the number of threads that used a reader.
 */
#include <carquet/carquet.h>
#include <malloc.h>
#include <pthread.h>
#include <stdint.h>
#include <stdio.h>
#include <stdlib.h>
#include <string.h>

#define NROWS 20000
#define NCOLS 8
#define WARMUP 5
#define ROUNDS 60

static const char* PATH = "c07_zstd_leak_demo.parquet";
static carquet_compression_t g_codec = CARQUET_COMPRESSION_ZSTD;

static int write_file(void) {
    carquet_error_t err = CARQUET_ERROR_INIT;
    carquet_schema_t* s = carquet_schema_create(&err);
    if (!s) return 1;
    for (int c = 0; c < NCOLS; c++) {
        char name[16]; snprintf(name, sizeof name, "c%d", c);
        if (carquet_schema_add_column(s, name, CARQUET_PHYSICAL_INT64, NULL, CARQUET_REPETITION_REQUIRED, 0) != CARQUET_OK) return 1;
    }
    carquet_writer_options_t wo; carquet_writer_options_init(&wo);
    wo.compression = g_codec;
    wo.page_size = 16384;
    carquet_writer_t* w = carquet_writer_create(PATH, s, &wo, &err);
    if (!w) return 1;
    int64_t* v = malloc(sizeof(int64_t) * NROWS);
    for (int c = 0; c < NCOLS; c++) {
        for (int i = 0; i < NROWS; i++) v[i] = (int64_t)(i % 1000) * (c + 3);
        if (carquet_writer_write_batch(w, c, v, NROWS, NULL, NULL) != CARQUET_OK) return 1;
    }
    free(v);
    if (carquet_writer_close(w) != CARQUET_OK) return 1;
    carquet_schema_free(s);
    return 0;
}

static void* reader_thread(void* arg) {
    int64_t* rows = arg; *rows = -1;
    carquet_error_t err = CARQUET_ERROR_INIT;
    carquet_reader_t* rd = carquet_reader_open(PATH, NULL, &err);
    if (!rd) return NULL;
    carquet_batch_reader_config_t cfg; carquet_batch_reader_config_init(&cfg);
    cfg.batch_size = 4096; cfg.num_threads = 4;
    carquet_batch_reader_t* br = carquet_batch_reader_create(rd, &cfg, &err);
    if (!br) { carquet_reader_close(rd); return NULL; }
    int64_t n = 0;
    for (;;) {
        carquet_row_batch_t* b = NULL;
        carquet_status_t st = carquet_batch_reader_next(br, &b);
        if (st != CARQUET_OK || !b) break;
        n += carquet_row_batch_num_rows(b);
        carquet_row_batch_free(b);
    }
    carquet_batch_reader_free(br);
    carquet_reader_close(rd);
    *rows = n;
    return NULL;
}

static size_t live_heap(void) { struct mallinfo2 mi = mallinfo2(); return mi.uordblks + mi.hblkhd; }

int main(int argc, char** argv) {
    mallopt(M_ARENA_MAX, 1);
    /* "./demo control": same program, SNAPPY instead of ZSTD - shows that the
     * growth is not the threads themselves but what ZSTD decompression leaves. */
    if (argc > 1 && strcmp(argv[1], "control") == 0) g_codec = CARQUET_COMPRESSION_SNAPPY;
    printf("codec: %s\n", g_codec == CARQUET_COMPRESSION_ZSTD ? "ZSTD" : "SNAPPY (control)");
    if (write_file()) { fprintf(stderr, "could not write the test file\n"); return 2; }

    size_t after_warmup = 0;
    for (int r = 1; r <= WARMUP + ROUNDS; r++) {
        pthread_t t; int64_t rows = 0;
        if (pthread_create(&t, NULL, reader_thread, &rows)) return 2;
        pthread_join(t, NULL);
        if (rows != NROWS) { printf("round %d: read %lld rows instead of %d\n", r, (long long)rows, NROWS); return 2; }
        if (r == WARMUP) after_warmup = live_heap();
        if (r == WARMUP || (r - WARMUP) % 10 == 0)
            printf("after %3d reader threads have come and gone: %9zu bytes of heap still live\n", r, live_heap());
    }
    size_t at_end = live_heap();
    remove(PATH);
    long growth = (long)at_end - (long)after_warmup;
    printf("growth over %d further threads: %ld bytes (%ld bytes per thread)\n", ROUNDS, growth, growth / ROUNDS);
    if (growth > 64 * 1024) {
        printf("FAIL: every thread that used a reader leaves memory behind that nothing can free\n");
        return 1;
    }
    printf("OK\n");
    return 0;
}
