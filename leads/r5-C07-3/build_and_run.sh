#!/bin/sh
# Builds the library as it is (default configuration, OpenMP found), builds the
# demo, runs the control (SNAPPY: must be flat) and then the demo (ZSTD).
# WITH_LSAN=1 additionally links the demo against an AddressSanitizer build of
# the library so that LeakSanitizer names the leaked objects and who made them.
HERE=$(cd "$(dirname "$0")" && pwd)
ROOT=$(cd "$HERE/../.." && pwd)
set -e
cd "$ROOT"
cmake -G Ninja -B _build >/dev/null
cmake --build _build --target carquet >/dev/null
cc -O1 -g -I"$ROOT/include" "$HERE/demo.c" "$ROOT/_build/libcarquet.a" \
   -lzstd -lz -lm -fopenmp -lpthread -o "$HERE/demo"
cd "$HERE"
OMP_WAIT_POLICY=passive; export OMP_WAIT_POLICY    # only to be gentle on a busy machine
set +e
./demo control
echo "control exit status: $?"
echo
./demo
rc=$?
echo "demo exit status: $rc"
if [ "${WITH_LSAN:-0}" = "1" ]; then
    echo
    echo "--- LeakSanitizer view of the same program ---"
    cd "$ROOT"
    cmake -G Ninja -B _build_asan -DCMAKE_C_FLAGS="-fsanitize=address,undefined -g -O1" \
          -DCMAKE_EXE_LINKER_FLAGS="-fsanitize=address,undefined" >/dev/null
    cmake --build _build_asan --target carquet >/dev/null
    cc -O1 -g -fsanitize=address,undefined -I"$ROOT/include" "$HERE/demo.c" "$ROOT/_build_asan/libcarquet.a" \
       -lzstd -lz -lm -fopenmp -lpthread -o "$HERE/demo_asan"
    cd "$HERE"
    ./demo_asan 2>&1 | grep -A12 "LeakSanitizer" | head -30
fi
exit $rc
