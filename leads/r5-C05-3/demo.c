/*
 * C05 demo 3: RowGroup.num_rows / FileMetaData.num_rows are the number of
 * LEVELS handed to column 0, not the number of rows. With a REPEATED first
 * column the row counts in the footer do not add up with the other columns.
 *
 * Table (3 rows):   tags (col 0, REPEATED INT32)   id (col 1, REQUIRED INT32)
 *                   [10, 20]                        1
 *                   [30]                            2
 *                   [40, 50, 60]                    3
 *
 * The check uses only the footer counters, the page header counts of the
 * REQUIRED column and the repetition-level block of 'tags' (which is the first
 * block of the page and decodes fine), so it is independent of finding 1.
 *
 * exit 0: num_rows == 3 everywhere.   exit 1: property violated.
 */
#include <carquet/carquet.h>
#include "pqcheck.h"

int main(void) {
    setvbuf(stdout, NULL, _IONBF, 0);
    const char *path = "demo3.parquet";
    carquet_error_t err = CARQUET_ERROR_INIT;
    carquet_schema_t *schema = carquet_schema_create(&err);
    if (!schema) return 2;
    if (carquet_schema_add_column(schema, "tags", CARQUET_PHYSICAL_INT32, NULL, CARQUET_REPETITION_REPEATED, 0) != CARQUET_OK) return 2;
    if (carquet_schema_add_column(schema, "id", CARQUET_PHYSICAL_INT32, NULL, CARQUET_REPETITION_REQUIRED, 0) != CARQUET_OK) return 2;
    carquet_writer_options_t opt; carquet_writer_options_init(&opt);
    carquet_writer_t *w = carquet_writer_create(path, schema, &opt, &err);
    if (!w) return 2;
    int32_t tags[6] = {10, 20, 30, 40, 50, 60};
    int16_t rep[6] = {0, 1, 0, 0, 1, 1};
    int16_t def[6] = {1, 1, 1, 1, 1, 1};
    int32_t ids[3] = {1, 2, 3};
    carquet_status_t s1 = carquet_writer_write_batch(w, 0, tags, 6, def, rep);
    carquet_status_t s2 = carquet_writer_write_batch(w, 1, ids, 3, NULL, NULL);
    carquet_status_t s3 = carquet_writer_close(w);
    carquet_schema_free(schema);
    printf("write_batch(tags)=%d write_batch(id)=%d close=%d\n", s1, s2, s3);
    if (s1 || s2 || s3) { printf("writer reported an error: property not engaged\n"); return 0; }

    pq_file_t f;
    pq_verbose = 0;                       /* judge by the counters below only */
    pq_check_file(path, &f);
    if (f.n_rg != 1 || f.n_leaf != 2) { printf("unexpected footer shape\n"); return 1; }
    printf("FileMetaData.num_rows            = %lld\n", (long long)f.num_rows);
    printf("RowGroup[0].num_rows             = %lld\n", (long long)f.rg[0].num_rows);
    printf("records in 'tags' (rep level 0)  = %lld\n", (long long)f.rg[0].chunk_records[0]);
    printf("values in REQUIRED column 'id'   = %lld\n", (long long)f.rg[0].chunk_num_values[1]);
    int bad = 0;
    if (f.num_rows != 3) bad++;
    if (f.rg[0].num_rows != 3) bad++;
    if (f.rg[0].chunk_records[0] != f.rg[0].num_rows) bad++;
    if (f.rg[0].chunk_num_values[1] != f.rg[0].num_rows) bad++;
    pq_free(&f);
    if (bad) { printf("FAIL: the table has 3 rows; the row counts of the file do not add up\n"); return 1; }
    printf("PASS\n");
    return 0;
}
