/*
 * C18 demonstration 3: carquet_writer_create() fails (returns NULL, so the
 * caller has nothing to pass to carquet_writer_abort) but leaves the output
 * file behind.
 *
 * One allocation is made to fail through link-time interposition
 * (-Wl,--wrap=strdup): the copy of the path that carquet_writer_create takes
 * right after it has fopen()ed - i.e. created/truncated - the output file.
 * All other failure points of create (tried below as well via --wrap of
 * malloc/calloc/realloc) clean up; this one only fclose()s.
 *
 * exit 0 = no file is left behind by a failed create, exit 1 = violated.
 */
#define _GNU_SOURCE
#include <stdio.h>
#include <stdlib.h>
#include <string.h>
#include <unistd.h>
#include <sys/stat.h>
#include <carquet/carquet.h>

static long counter, fail_at = -1; static int armed;
void* __real_malloc(size_t); void* __real_calloc(size_t, size_t);
void* __real_realloc(void*, size_t); char* __real_strdup(const char*);
static int hit(void) { return armed && counter++ == fail_at; }
void* __wrap_malloc(size_t n)            { return hit() ? NULL : __real_malloc(n); }
void* __wrap_calloc(size_t a, size_t b)  { return hit() ? NULL : __real_calloc(a, b); }
void* __wrap_realloc(void* p, size_t n)  { return hit() ? NULL : __real_realloc(p, n); }
char* __wrap_strdup(const char* s)       { return hit() ? NULL : __real_strdup(s); }

static const char* PATH = "c18_demo3.parquet";
static int exists(void) { struct stat st; return stat(PATH, &st) == 0; }

int main(void) {
    carquet_error_t err = CARQUET_ERROR_INIT;
    carquet_schema_t* sc = carquet_schema_create(&err);
    if (!sc || carquet_schema_add_column(sc, "a", CARQUET_PHYSICAL_INT32, NULL, CARQUET_REPETITION_REQUIRED, 0) ||
        carquet_schema_add_column(sc, "b", CARQUET_PHYSICAL_DOUBLE, NULL, CARQUET_REPETITION_OPTIONAL, 0)) return 2;

    /* how many allocations does a successful create make? */
    unlink(PATH);
    armed = 1; counter = 0; fail_at = -1;
    carquet_writer_t* w = carquet_writer_create(PATH, sc, NULL, &err);
    armed = 0;
    long total = counter;
    if (!w) return 2;
    carquet_writer_abort(w);
    printf("successful create: %ld allocations; after abort the file %s\n", total, exists() ? "EXISTS" : "is gone");
    int bad = exists();
    unlink(PATH);

    for (long k = 0; k < total; k++) {
        armed = 1; counter = 0; fail_at = k;
        w = carquet_writer_create(PATH, sc, NULL, &err);
        armed = 0;
        if (w) { printf("allocation #%ld failing: create still succeeded\n", k); carquet_writer_abort(w); unlink(PATH); continue; }
        int left = exists();
        printf("allocation #%ld failing: create -> NULL (%s); output file %s\n", k,
               carquet_status_string(err.code), left ? "LEFT BEHIND  <-- VIOLATION" : "not present");
        if (left) bad = 1;
        unlink(PATH);
    }
    carquet_schema_free(sc);
    if (bad) { printf("RESULT: VIOLATION - a failed carquet_writer_create left a file behind that nobody can abort\n"); return 1; }
    printf("RESULT: ok\n");
    return 0;
}
