/*
 * NaN and min/max statistics of FLOAT / DOUBLE columns.
 *
 * Step 1 (producer): feed {1.0, 5.0, NaN} - in every order - to carquet's
 *   statistics builder and look at the bounds it builds.  A bound has to
 *   satisfy  min <= v <= max  for every non-NaN value v of the column.
 *
 * Step 2 (consumer): put exactly the statistics carquet built into the
 *   ColumnMetaData of an otherwise ordinary, format-conforming file that
 *   holds those rows, and ask carquet's own reader to prune row groups.
 *   The Parquet format (parquet.thrift, ColumnOrder/TYPE_ORDER) obliges
 *   readers: "If the min is a NaN, it should be ignored. If the max is a NaN,
 *   it should be ignored."  Files with such bounds exist (writers that use a
 *   total order, e.g. older parquet-mr / Impala, and carquet's own builder).
 *
 * exit 0: bounds are real bounds and no matching row group is pruned
 * exit 1: otherwise
 */
#include <carquet/carquet.h>
#include "thrift/parquet_types.h"
#include <math.h>
#include <stdio.h>
#include "pq_build.h"

typedef struct carquet_statistics_builder carquet_statistics_builder_t;
carquet_statistics_builder_t* carquet_statistics_builder_create(carquet_physical_type_t, int32_t);
void carquet_statistics_builder_destroy(carquet_statistics_builder_t*);
carquet_status_t carquet_statistics_add_values(carquet_statistics_builder_t*, const void*, int64_t);
carquet_status_t carquet_statistics_build(const carquet_statistics_builder_t*, carquet_arena_t*, parquet_statistics_t*);

static const char* opname[] = { "==", "!=", "<", "<=", ">", ">=" };
static int bad = 0;

static bool holds(double v, int op, double p) {
    switch (op) { case 0: return v == p; case 1: return v != p; case 2: return v < p;
                  case 3: return v <= p; case 4: return v > p; default: return v >= p; }
}

static void one_order(const double* rows, int n, const char* label) {
    /* ---- step 1: producer ---- */
    carquet_statistics_builder_t* b = carquet_statistics_builder_create(CARQUET_PHYSICAL_DOUBLE, 0);
    (void)carquet_statistics_add_values(b, rows, n);
    parquet_statistics_t s;
    (void)carquet_statistics_build(b, NULL, &s);
    double mn, mx;
    memcpy(&mn, s.min_value, 8); memcpy(&mx, s.max_value, 8);
    printf("%s: builder -> min=%g max=%g\n", label, mn, mx);
    for (int i = 0; i < n; i++) {
        if (isnan(rows[i])) continue;
        if (!(mn <= rows[i]) || !(rows[i] <= mx)) {
            printf("  VIOLATION: min <= %g <= max does not hold for the built statistics\n", rows[i]);
            bad++;
        }
    }

    /* ---- step 2: consumer, driven by exactly these statistics ---- */
    pq_group g = { rows, (size_t)n * 8, n, s.min_value, 8, s.max_value, 8 };
    pq_column c = { PT_DOUBLE, 0, CT_NONE, LT_NONE, 0, 0, 0, 0, 0 };
    pq_buf f = {0};
    pq_build_file(&f, &c, &g, 1);
    carquet_error_t err = CARQUET_ERROR_INIT;
    carquet_reader_t* rd = carquet_reader_open_buffer(f.p, f.n, NULL, &err);
    if (!rd) { printf("open failed: %s\n", err.message); exit(2); }
    carquet_column_reader_t* col = carquet_reader_get_column(rd, 0, 0, &err);
    double back[8];
    int64_t got = col ? carquet_column_read_batch(col, back, 8, NULL, NULL) : -1;
    if (got != n || memcmp(back, rows, (size_t)n * 8) != 0) { printf("read-back failed\n"); exit(2); }
    carquet_column_reader_free(col);

    static const double probes[] = { 0.0, 1.0, 2.0, 5.0, 6.0 };
    for (int p = 0; p < 5; p++) for (int op = 0; op < 6; op++) {
        bool truth = false;
        for (int i = 0; i < n; i++) if (holds(rows[i], op, probes[p])) truth = true;
        bool mm = true;
        carquet_status_t st = carquet_reader_row_group_matches(
            rd, 0, 0, (carquet_compare_op_t)op, &probes[p], 8, &mm);
        int32_t idx[1];
        int32_t cnt = carquet_reader_filter_row_groups(
            rd, 0, (carquet_compare_op_t)op, &probes[p], 8, idx, 1);
        if (st == CARQUET_OK && truth && (!mm || cnt != 1)) {
            printf("  FALSE NEGATIVE: x %s %g pruned (might_match=%d, filter_row_groups=%d) "
                   "although a row satisfies it\n", opname[op], probes[p], (int)mm, (int)cnt);
            bad++;
        }
    }
    carquet_reader_close(rd);
    free(f.p); free(s.min_value); free(s.max_value);
    carquet_statistics_builder_destroy(b);
}

int main(void) {
    const double a[] = { 1.0, 5.0, NAN }, b[] = { NAN, 1.0, 5.0 }, c[] = { 1.0, NAN, 5.0 };
    one_order(a, 3, "{1, 5, NaN}");
    one_order(b, 3, "{NaN, 1, 5}");
    one_order(c, 3, "{1, NaN, 5}");
    printf("violations: %d\n", bad);
    return bad ? 1 : 0;
}
