/*
 * C17 finding 4: carquet_schema_add_column() does not check the copy of the
 * column name.  The names live in the schema's arena; when the arena's first
 * block (64 KB) is full, the next name needs a new block, and if that single
 * malloc() fails, carquet_arena_strdup() returns NULL - and add_column stores
 * the NULL, bumps all counters and returns CARQUET_OK.
 *
 * After that "successful" call the builder schema no longer reports what was
 * put in: the node's name is NULL (the header promises "never NULL" and even
 * declares the accessor returns_nonnull), find_column() cannot find the column,
 * and carquet_writer_create() on the schema dereferences the NULL (strdup) and
 * crashes.
 *
 * One fault is injected with -Wl,--wrap=malloc: the first allocation of an
 * arena block (>= 60000 bytes) made from inside carquet_schema_add_column.
 *
 * Exit 0 = property holds (the call either fails cleanly or the schema is
 * intact), non-zero / crash = violated.
 */
#include <carquet/carquet.h>
#include <stdio.h>
#include <stdlib.h>
#include <string.h>

static int armed = 0, fired = 0;
void *__real_malloc(size_t n);
void *__wrap_malloc(size_t n) {
    if (armed && !fired && n >= 60000) { fired = 1; return NULL; }
    return __real_malloc(n);
}

#define NCOLS 40
#define NAMELEN 2000          /* long names only to get past 64 KB quickly; 7000
                                 ten-character names do the same */
#define PATH "/tmp/wt4/C17/_finding/4/oom.parquet"

static void make_name(char *buf, int i) {
    memset(buf, 'a' + i % 26, NAMELEN);
    buf[NAMELEN] = 0;
    char head[16];
    int n = snprintf(head, sizeof head, "col%04d_", i);
    memcpy(buf, head, (size_t)n);
}

int main(void) {
    setvbuf(stdout, NULL, _IONBF, 0);
    carquet_error_t err = CARQUET_ERROR_INIT;
    carquet_schema_t *s = carquet_schema_create(&err);
    if (!s) return 2;

    static char name[NAMELEN + 1];
    int added = 0, bad = 0;
    int orig[NCOLS];              /* loop index of the k-th accepted column */
    for (int i = 0; i < NCOLS; i++) {
        make_name(name, i);
        int was_fired = fired;
        armed = 1;
        carquet_status_t st = carquet_schema_add_column(s, name, CARQUET_PHYSICAL_INT32, NULL,
                                                        CARQUET_REPETITION_OPTIONAL, 0);
        armed = 0;
        int injected_here = fired && !was_fired;
        if (injected_here)
            printf("column %d: malloc of the new arena block failed inside add_column -> status %d (%s)\n",
                   i, st, st == CARQUET_OK ? "CARQUET_OK" : "error");
        if (st != CARQUET_OK) continue;      /* a clean failure is fine */
        orig[added++] = i;
    }
    if (!fired) { printf("injection never fired - demo inconclusive\n"); return 2; }

    printf("builder: num_columns=%d, %d add_column calls returned CARQUET_OK\n",
           carquet_schema_num_columns(s), added);
    if (carquet_schema_num_columns(s) != added) bad = 1;

    /* every column that was accepted must be reported back intact */
    for (int c = 0; c < carquet_schema_num_columns(s) && c < NCOLS; c++) {
        const carquet_schema_node_t *nd = carquet_schema_get_element(s, c + 1);
        /* volatile: the accessor is declared returns_nonnull, the compiler would
         * otherwise delete the NULL test */
        const char *volatile nmv = carquet_schema_node_name(nd);
        const char *nm = nmv;
        make_name(name, c < added ? orig[c] : c);
        if (!nm) {
            printf("  column %d: add_column returned CARQUET_OK, but carquet_schema_node_name() = NULL   <-- WRONG\n", c);
            bad = 1;
        } else if (strcmp(nm, name) != 0) {
            printf("  column %d: wrong name   <-- WRONG\n", c);
            bad = 1;
        }
        int f = carquet_schema_find_column(s, name);
        if (f != c) {
            printf("  column %d: find_column(its name) = %d (expected %d)   <-- WRONG\n", c, f, c);
            bad = 1;
        }
    }

    printf("handing the schema to carquet_writer_create() ...\n");
    carquet_writer_t *w = carquet_writer_create(PATH, s, NULL, &err);
    if (w) { printf("writer created\n"); carquet_writer_abort(w); }
    else printf("writer_create failed cleanly: %s\n", err.message);
    remove(PATH);
    carquet_schema_free(s);
    printf(bad ? "VIOLATION: builder schema does not report the names it accepted\n" : "ok\n");
    return bad;
}
