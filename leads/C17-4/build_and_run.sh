#!/bin/sh
# Builds the library in the worktree as it is, builds the demo, runs it.
# Exit status: 0 = property holds, non-zero = violated.
set -u
WT=/tmp/wt4/C17
HERE=$WT/_finding/4
cd "$WT" && cmake -G Ninja -B _build >/dev/null && cmake --build _build >/dev/null || exit 99
cc -g -O1 -I"$WT/include" "$HERE/demo.c" "$WT/_build/libcarquet.a" \
   -Wl,--wrap=malloc -lzstd -lz -lm -fopenmp -lpthread -o "$HERE/demo" || exit 99
"$HERE/demo"; rc=$?
echo "exit status: $rc"
exit $rc
