#!/bin/sh
# Builds the unchanged library twice - with OpenMP (control) and configured
# without OpenMP (-DCMAKE_DISABLE_FIND_PACKAGE_OpenMP=TRUE, i.e. what a
# toolchain without OpenMP support such as stock Apple clang gets) - and runs
# the same demo against both.  No source file is modified.
WT=/tmp/wt4/C07
cd "$WT" || exit 2
cmake -G Ninja -B _build >/dev/null && cmake --build _build --target carquet >/dev/null || exit 2
cmake -G Ninja -B _build_noomp -DCMAKE_DISABLE_FIND_PACKAGE_OpenMP=TRUE >/dev/null \
  && cmake --build _build_noomp --target carquet >/dev/null || exit 2
cd "$WT/_finding/2" || exit 2
gcc -g -O1 -I"$WT/include" demo.c "$WT/_build/libcarquet.a"       -lzstd -lz -lm -fopenmp -lpthread -o demo_omp   || exit 2
gcc -g -O1 -I"$WT/include" demo.c "$WT/_build_noomp/libcarquet.a" -lzstd -lz -lm          -lpthread -o demo_noomp || exit 2
echo "=== control: library built with OpenMP (per-thread ZSTD context) ==="
./demo_omp; echo "exit status: $?"
echo
echo "=== library configured without OpenMP (one global ZSTD context) ==="
./demo_noomp
rc=$?
echo "exit status: $rc"
[ $rc -ne 0 ] && echo "PROPERTY VIOLATED (non-zero exit / crash of the no-OpenMP build)"
exit $rc
