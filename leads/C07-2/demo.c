/*
 * C07 finding 2: when the library is configured without OpenMP (a supported
 * configuration: CMakeLists.txt only *uses* OpenMP if find_package finds it),
 * src/compression/zstd.c keeps ONE process-wide ZSTD_DCtx ("global_dctx") and
 * every reader decompresses through it without any lock.  Independent reader
 * handles used concurrently from different threads therefore share a
 * decompression context: they crash or return wrong content / wrong status.
 *
 * Public API + pthreads only.
 *   - writes a ZSTD file (1 row group pair, 4 columns, many small pages)
 *   - reads it alone -> reference digest
 *   - N threads, each with its OWN carquet_reader_t / batch reader on that
 *     file, start together (also concurrent first use of the library)
 *   - every thread must get the reference digest and the same status codes
 *
 * exit 0 = property holds, 1 = violated (or the process crashes), 2 = setup.
 */
#define _GNU_SOURCE
#include <carquet/carquet.h>
#include <pthread.h>
#include <stdio.h>
#include <stdlib.h>
#include <string.h>
#include <stdint.h>

#define PATH "/tmp/wt4/C07/_finding/2/demo.parquet"
#define ROWS 20000
#define NTHREADS 8
#define ROUNDS 20

static uint64_t fnv(uint64_t h, const void* p, size_t n) {
    const uint8_t* b = p;
    for (size_t i = 0; i < n; i++) { h ^= b[i]; h *= 1099511628211ULL; }
    return h;
}

static int write_file(void) {
    carquet_error_t err = CARQUET_ERROR_INIT;
    carquet_schema_t* s = carquet_schema_create(&err);
    if (!s) return 1;
    if (carquet_schema_add_column(s, "a", CARQUET_PHYSICAL_INT32, NULL, CARQUET_REPETITION_REQUIRED, 0) != CARQUET_OK) return 1;
    if (carquet_schema_add_column(s, "b", CARQUET_PHYSICAL_INT64, NULL, CARQUET_REPETITION_OPTIONAL, 0) != CARQUET_OK) return 1;
    if (carquet_schema_add_column(s, "c", CARQUET_PHYSICAL_FLOAT, NULL, CARQUET_REPETITION_REQUIRED, 0) != CARQUET_OK) return 1;
    if (carquet_schema_add_column(s, "d", CARQUET_PHYSICAL_DOUBLE, NULL, CARQUET_REPETITION_REQUIRED, 0) != CARQUET_OK) return 1;
    carquet_writer_options_t o;
    carquet_writer_options_init(&o);
    o.compression = CARQUET_COMPRESSION_ZSTD;
    o.page_size = 4096;
    carquet_writer_t* w = carquet_writer_create(PATH, s, &o, &err);
    if (!w) return 1;
    int32_t* a = malloc(ROWS * 4); int64_t* b = malloc(ROWS * 8);
    float* c = malloc(ROWS * 4);   double* d = malloc(ROWS * 8);
    int16_t* def = malloc(ROWS * 2);
    for (int rg = 0; rg < 2; rg++) {
        int nb = 0;
        for (int i = 0; i < ROWS; i++) {
            a[i] = (i * 7 + rg) % 1000; def[i] = (i % 5) != 0;
            if (def[i]) b[nb++] = (int64_t)i * 1000003 + rg;
            c[i] = (float)(i % 113); d[i] = i * 0.25 + rg;
        }
        if (carquet_writer_write_batch(w, 0, a, ROWS, NULL, NULL) != CARQUET_OK) return 1;
        if (carquet_writer_write_batch(w, 1, b, ROWS, def, NULL) != CARQUET_OK) return 1;
        if (carquet_writer_write_batch(w, 2, c, ROWS, NULL, NULL) != CARQUET_OK) return 1;
        if (carquet_writer_write_batch(w, 3, d, ROWS, NULL, NULL) != CARQUET_OK) return 1;
        if (rg == 0 && carquet_writer_new_row_group(w) != CARQUET_OK) return 1;
    }
    if (carquet_writer_close(w) != CARQUET_OK) return 1;
    carquet_schema_free(s);
    free(a); free(b); free(c); free(d); free(def);
    return 0;
}

typedef struct { uint64_t digest; long long rows; int last_status; int nbatches; } result_t;

static result_t read_all(void) {
    result_t r = {1469598103934665603ULL, 0, 0, 0};
    carquet_error_t err = CARQUET_ERROR_INIT;
    carquet_reader_t* rd = carquet_reader_open(PATH, NULL, &err);
    if (!rd) { r.last_status = -1; return r; }
    carquet_batch_reader_config_t cfg;
    carquet_batch_reader_config_init(&cfg);
    cfg.batch_size = 3000;
    cfg.num_threads = 1;
    carquet_batch_reader_t* br = carquet_batch_reader_create(rd, &cfg, &err);
    if (!br) { r.last_status = -2; carquet_reader_close(rd); return r; }
    static const int width[4] = {4, 8, 4, 8};
    for (;;) {
        carquet_row_batch_t* b = NULL;
        carquet_status_t st = carquet_batch_reader_next(br, &b);
        r.last_status = st;
        if (st != CARQUET_OK || !b) break;
        r.nbatches++;
        r.rows += carquet_row_batch_num_rows(b);
        for (int c = 0; c < 4; c++) {
            const void* data; const uint8_t* nulls; int64_t nv;
            if (carquet_row_batch_column(b, c, &data, &nulls, &nv) != CARQUET_OK) { r.last_status = -3; break; }
            int64_t nn = 0;
            for (int64_t i = 0; i < nv; i++) if (!((nulls[i / 8] >> (i % 8)) & 1)) nn++;
            r.digest = fnv(r.digest, nulls, (size_t)(nv + 7) / 8);
            r.digest = fnv(r.digest, data, (size_t)nn * width[c]);
        }
        carquet_row_batch_free(b);
    }
    carquet_batch_reader_free(br);
    carquet_reader_close(rd);
    return r;
}

static pthread_barrier_t bar;
static void* worker(void* arg) {
    pthread_barrier_wait(&bar);
    *(result_t*)arg = read_all();
    return NULL;
}

int main(int argc, char** argv) {
    /* "ref-first": take the reference before the threads start.
     * default: threads first (concurrent FIRST use of the library), reference afterwards. */
    int ref_first = argc > 1 && strcmp(argv[1], "ref-first") == 0;
    if (write_file()) { fprintf(stderr, "could not write %s\n", PATH); return 2; }
    result_t ref = {0};
    if (ref_first) ref = read_all();

    int bad = 0;
    result_t res[ROUNDS][NTHREADS];
    for (int round = 0; round < ROUNDS; round++) {
        pthread_t th[NTHREADS];
        pthread_barrier_init(&bar, NULL, NTHREADS);
        for (int i = 0; i < NTHREADS; i++) pthread_create(&th[i], NULL, worker, &res[round][i]);
        for (int i = 0; i < NTHREADS; i++) pthread_join(th[i], NULL);
        pthread_barrier_destroy(&bar);
    }
    if (!ref_first) ref = read_all();
    printf("reference (reader used alone): digest %016llx, %lld rows, %d batches, final status %d\n",
           (unsigned long long)ref.digest, ref.rows, ref.nbatches, ref.last_status);
    if (ref.last_status != CARQUET_ERROR_END_OF_DATA || ref.rows != 2LL * ROWS) { printf("reference read failed\n"); return 2; }
    for (int round = 0; round < ROUNDS; round++)
        for (int i = 0; i < NTHREADS; i++) {
            result_t* r = &res[round][i];
            if (r->digest != ref.digest || r->rows != ref.rows || r->last_status != ref.last_status) {
                if (bad < 10)
                    printf("round %d thread %d: digest %016llx, %lld rows, %d batches, final status %d  <-- differs\n",
                           round, i, (unsigned long long)r->digest, r->rows, r->nbatches, r->last_status);
                bad++;
            }
        }
    printf("%d of %d concurrent reads differ from the reader used alone\n", bad, ROUNDS * NTHREADS);
    printf("%s\n", bad ? "PROPERTY VIOLATED" : "property holds");
    return bad != 0;
}
