/*
 * C16 finding 1: BYTE_ARRAY statistics kept only in the DEPRECATED fields
 * (Statistics.min / Statistics.max, thrift ids 2 / 1) are ordered by SIGNED
 * byte comparison (parquet.thrift: "These fields encode min and max values
 * determined by signed comparison only").  carquet compares them UNSIGNED and
 * prunes row groups that hold matching rows.
 *
 * The file is built by hand exactly like parquet-mr <= 1.9 / Spark 2.x wrote
 * it: one REQUIRED BYTE_ARRAY (UTF8) column, statistics in fields 1/2 only, no
 * column_orders.  Ground truth is brute force over the values read back
 * through carquet's own column reader, with the order Parquet defines for
 * strings (unsigned bytewise).
 *
 * exit 0: no false negative; exit 1: a row group with a matching row pruned.
 */
#include <carquet/carquet.h>
#include <stdio.h>
#include <string.h>
#include "pqbuild.h"

#define NRG 3
#define PER 2

static const char* DATA[NRG][PER] = {
    { "apple", "zebra" },
    { "a", "\xc3\xa9" },          /* "a" and e-acute (UTF-8 C3 A9) */
    { "m", "n" },
};

static int cmp_signed(const char* a, const char* b) {   /* parquet-mr <= 1.9 Binary.compareTo */
    size_t la = strlen(a), lb = strlen(b), n = la < lb ? la : lb;
    for (size_t i = 0; i < n; i++) {
        int x = (signed char)a[i], y = (signed char)b[i];
        if (x != y) return x < y ? -1 : 1;
    }
    return (la > lb) - (la < lb);
}
static int cmp_unsigned(const void* a, size_t la, const void* b, size_t lb) {
    size_t n = la < lb ? la : lb;
    int c = memcmp(a, b, n);
    if (c) return c < 0 ? -1 : 1;
    return (la > lb) - (la < lb);
}
static int holds(int op, int c) {   /* c = cmp(row value, probe) */
    switch (op) {
        case CARQUET_COMPARE_EQ: return c == 0;
        case CARQUET_COMPARE_NE: return c != 0;
        case CARQUET_COMPARE_LT: return c < 0;
        case CARQUET_COMPARE_LE: return c <= 0;
        case CARQUET_COMPARE_GT: return c > 0;
        default:                 return c >= 0;
    }
}
static const char* OPN[] = { "==", "!=", "<", "<=", ">", ">=" };

int main(void) {
    pq_buf pages[NRG];
    pq_rg rgs[NRG];
    memset(pages, 0, sizeof pages);
    memset(rgs, 0, sizeof rgs);

    for (int g = 0; g < NRG; g++) {
        const char* mn = DATA[g][0];
        const char* mx = DATA[g][0];
        for (int i = 0; i < PER; i++) {
            pq_plain_bytes(&pages[g], DATA[g][i], strlen(DATA[g][i]));
            if (cmp_signed(DATA[g][i], mn) < 0) mn = DATA[g][i];
            if (cmp_signed(DATA[g][i], mx) > 0) mx = DATA[g][i];
        }
        rgs[g].page = pages[g].p; rgs[g].page_len = pages[g].n; rgs[g].num_values = PER;
        rgs[g].has_stats = 1;
        rgs[g].deprecated = 1;                       /* fields 1 (max) / 2 (min) only */
        rgs[g].min = mn; rgs[g].min_len = (int)strlen(mn);
        rgs[g].max = mx; rgs[g].max_len = (int)strlen(mx);
        rgs[g].has_null_count = 1; rgs[g].null_count = 0;
    }
    pq_col col = { "s", PQ_BYTE_ARRAY, 0, 0 /* UTF8 */, 0 /* no column_orders */,
                   "parquet-mr version 1.8.1 (build 4aba4dae7bb0d4edbcf7923ae1339f28fd3f7fcf)" };
    uint8_t* file; size_t file_len;
    pq_build(&col, rgs, NRG, &file, &file_len);

    carquet_error_t err = CARQUET_ERROR_INIT;
    carquet_reader_t* rd = carquet_reader_open_buffer(file, file_len, NULL, &err);
    if (!rd) { printf("SETUP: open failed: %s\n", err.message); return 2; }
    if (carquet_reader_num_row_groups(rd) != NRG) { printf("SETUP: row groups\n"); return 2; }

    /* read the data back: the file is valid and these are the actual rows */
    carquet_byte_array_t rows[NRG][PER];
    for (int g = 0; g < NRG; g++) {
        carquet_column_reader_t* c = carquet_reader_get_column(rd, g, 0, &err);
        if (!c) { printf("SETUP: get_column: %s\n", err.message); return 2; }
        int64_t n = carquet_column_read_batch(c, rows[g], PER, NULL, NULL);
        if (n != PER) { printf("SETUP: read_batch %lld\n", (long long)n); return 2; }
        for (int i = 0; i < PER; i++) {
            if ((size_t)rows[g][i].length != strlen(DATA[g][i]) ||
                memcmp(rows[g][i].data, DATA[g][i], (size_t)rows[g][i].length)) {
                printf("SETUP: data mismatch\n"); return 2;
            }
        }
        carquet_column_reader_free(c);
    }
    for (int g = 0; g < NRG; g++) {
        carquet_column_statistics_t st;
        if (carquet_reader_column_statistics(rd, g, 0, &st) != CARQUET_OK) return 2;
        printf("rg%d: has_min_max=%d min(len %d) max(len %d) [from deprecated fields]\n",
               g, st.has_min_max, st.min_value_size, st.max_value_size);
    }

    const char* probes[] = { "a", "\xc3\xa9", "b", "apple", "m", "zebra", "zz", "" };
    int bad = 0;
    for (size_t p = 0; p < sizeof probes / sizeof *probes; p++) {
        size_t pl = strlen(probes[p]);
        for (int op = 0; op < 6; op++) {
            int expect[NRG], nexp = 0;
            for (int g = 0; g < NRG; g++) {
                int truth = 0;
                for (int i = 0; i < PER; i++)
                    truth |= holds(op, cmp_unsigned(DATA[g][i], strlen(DATA[g][i]), probes[p], pl));
                bool mm = true;
                carquet_status_t s = carquet_reader_row_group_matches(
                    rd, g, 0, (carquet_compare_op_t)op, probes[p], (int32_t)pl, &mm);
                if (s != CARQUET_OK) { printf("row_group_matches status %d\n", s); bad++; }
                if (truth && !mm) {
                    printf("FALSE NEGATIVE: rg%d holds a row with  s %s \"%s\"  but row_group_matches says it cannot match\n",
                           g, OPN[op], probes[p]);
                    bad++;
                }
                if (truth) expect[nexp++] = g;
            }
            int32_t idx[NRG];
            int32_t n = carquet_reader_filter_row_groups(rd, 0, (carquet_compare_op_t)op,
                                                          probes[p], (int32_t)pl, idx, NRG);
            for (int e = 0; e < nexp; e++) {
                int found = 0;
                for (int k = 0; k < n; k++) found |= idx[k] == expect[e];
                if (!found) {
                    printf("FALSE NEGATIVE: filter_row_groups(s %s \"%s\") omits rg%d\n",
                           OPN[op], probes[p], expect[e]);
                    bad++;
                }
            }
        }
    }
    carquet_reader_close(rd);
    free(file);
    if (bad) { printf("RESULT: %d violations\n", bad); return 1; }
    printf("RESULT: ok\n");
    return 0;
}
