/*
 * C14 finding 1: the CRC-32 lookup tables are built lazily, without any
 * synchronisation, by whichever thread verifies a page checksum first.
 *
 * carquet.h documents carquet_reader_get_column() as
 *   "Thread-safe: Yes (multiple column readers can be used concurrently)".
 * This program does exactly that: one carquet_reader_t, one column reader per
 * thread, every thread reads its own column. The file is written by a
 * separate process run (argv[1] == "write") so that in the reading process
 * the CRC tables are still cold when the threads start.
 *
 * Built with -fsanitize=thread (library and demo). Exit status:
 *   0   no race reported and all values correct  (property holds)
 *   66  ThreadSanitizer reported a data race      (TSAN_OPTIONS exitcode)
 *   1   wrong data / unexpected read error
 *   2   set-up problem
 *
 * Public API only.
 */
#include <carquet/carquet.h>
#include <pthread.h>
#include <stdio.h>
#include <stdlib.h>
#include <string.h>

#define NT   4
#define ROWS 5000

static const char* PATH = "/tmp/c14_finding1.parquet";
static carquet_reader_t* rd;
static pthread_barrier_t bar;
static int bad = 0;

static int write_file(void) {
    carquet_error_t err = CARQUET_ERROR_INIT;
    carquet_schema_t* s = carquet_schema_create(&err);
    if (!s) return 2;
    for (int i = 0; i < NT; i++) {
        char nm[8];
        snprintf(nm, sizeof nm, "c%d", i);
        if (carquet_schema_add_column(s, nm, CARQUET_PHYSICAL_INT32, NULL,
                                      CARQUET_REPETITION_REQUIRED, 0) != CARQUET_OK) return 2;
    }
    carquet_writer_options_t o;
    carquet_writer_options_init(&o);
    o.page_size = 2000;
    carquet_writer_t* w = carquet_writer_create(PATH, s, &o, &err);
    if (!w) return 2;
    for (int b = 0; b < ROWS / 500; b++) {
        for (int c = 0; c < NT; c++) {
            int32_t v[500];
            for (int i = 0; i < 500; i++) v[i] = (b * 500 + i) * (c + 1);
            if (carquet_writer_write_batch(w, c, v, 500, NULL, NULL) != CARQUET_OK) return 2;
        }
    }
    if (carquet_writer_close(w) != CARQUET_OK) return 2;
    carquet_schema_free(s);
    return 0;
}

static void* work(void* a) {
    int col = (int)(long)a;
    carquet_error_t err = CARQUET_ERROR_INIT;
    carquet_column_reader_t* c = carquet_reader_get_column(rd, 0, col, &err);
    if (!c) { bad = 1; return NULL; }
    int32_t v[256];
    int64_t n, t = 0;
    pthread_barrier_wait(&bar);          /* all threads hit their first page together */
    while ((n = carquet_column_read_batch(c, v, 256, NULL, NULL)) > 0) {
        for (int i = 0; i < n; i++)
            if (v[i] != (int32_t)(t + i) * (col + 1)) bad = 1;
        t += n;
    }
    if (n < 0 || t != ROWS) {
        fprintf(stderr, "column %d: read returned %ld after %ld values\n", col, (long)n, (long)t);
        bad = 1;
    }
    carquet_column_reader_free(c);
    return NULL;
}

int main(int argc, char** argv) {
    if (argc > 1 && strcmp(argv[1], "write") == 0) return write_file();

    int use_mmap = argc > 1 && strcmp(argv[1], "mmap") == 0;
    carquet_error_t err = CARQUET_ERROR_INIT;
    carquet_reader_options_t ro;
    carquet_reader_options_init(&ro);      /* verify_checksums = true (default) */
    ro.use_mmap = use_mmap;
    rd = carquet_reader_open(PATH, &ro, &err);
    if (!rd) { fprintf(stderr, "open: %s\n", err.message); return 2; }

    pthread_barrier_init(&bar, NULL, NT);
    pthread_t th[NT];
    for (long i = 0; i < NT; i++) pthread_create(&th[i], NULL, work, (void*)i);
    for (int i = 0; i < NT; i++) pthread_join(th[i], NULL);
    carquet_reader_close(rd);

    printf("values %s (%s path)\n", bad ? "WRONG" : "correct", use_mmap ? "mmap" : "fread");
    return bad;
}
