#!/bin/sh
# Builds the library of this worktree as it is (ThreadSanitizer variant, own
# build directory), builds the demo, runs it. Exit status 0 = property holds.
set -u
HERE=$(cd "$(dirname "$0")" && pwd)
ROOT=$(cd "$HERE/../.." && pwd)
B="$HERE/_build_tsan"

cmake -G Ninja -S "$ROOT" -B "$B" \
      -DCMAKE_C_FLAGS="-fsanitize=thread -g -O1" \
      -DCMAKE_EXE_LINKER_FLAGS="-fsanitize=thread" >/dev/null || exit 2
cmake --build "$B" --target carquet >/dev/null || exit 2

gcc -O1 -g -fsanitize=thread -I"$ROOT/include" "$HERE/demo.c" "$B/libcarquet.a" \
    -o "$HERE/demo" -lzstd -lz -lm -fopenmp -lpthread || exit 2

# The file is written by one process, read by fresh ones: the CRC tables of
# the reading process are cold when its threads start.
"$HERE/demo" write || { echo "could not write the test file"; exit 2; }

rc=0
for mode in fread mmap; do
    echo "=== $mode path ==="
    TSAN_OPTIONS="exitcode=66 halt_on_error=0" "$HERE/demo" $mode 2>"$HERE/tsan_$mode.log"
    r=$?
    grep -E "WARNING: ThreadSanitizer|^  (Write|Read|Previous (write|read)) of size|    #0 |    #1 |Location is global" "$HERE/tsan_$mode.log" | head -n 24
    echo "exit status: $r"
    [ $r -ne 0 ] && rc=$r
done
rm -f /tmp/c14_finding1.parquet
exit $rc
