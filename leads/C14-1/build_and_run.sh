#!/bin/sh
# Builds the library in the worktree as it is, builds the demo, runs it.
set -e
HERE=$(cd "$(dirname "$0")" && pwd)
WT=$(cd "$HERE/../.." && pwd)
cd "$WT"
cmake -G Ninja -B _build >/dev/null
cmake --build _build >/dev/null
gcc -O1 -g -I"$WT/include" "$HERE/demo.c" "$WT/_build/libcarquet.a" -Wl,--wrap=malloc -lzstd -lz -lm -fopenmp -lpthread -o "$HERE/demo"
set +e
"$HERE/demo"
rc=$?
echo "demo exit code: $rc"
if command -v valgrind >/dev/null 2>&1; then
  echo
  echo "--- same program under valgrind (uninitialised-value reports inside the library) ---"
  # C14_NOFILL=1: the malloc wrapper does not pre-fill, so valgrind sees the real thing
  C14_NOFILL=1 OMP_NUM_THREADS=1 valgrind -q "$HERE/demo" 2>&1 | grep -E "^==.*(uninitialised|carquet_read_data_page_v1|carquet_read_next_page|load_next_page)" | sed 's/^==[0-9]*== *//' | sort | uniq -c | sort -rn | head -12
fi
exit $rc
