/*
 * C14 demo 1: with checksum verification DISABLED, a single flipped bit inside
 * a page body (in the definition-level block) makes the reader hand
 * UNINITIALISED HEAP MEMORY to the caller as definition levels (and decide
 * null / non-null from it).  With verification ENABLED the same file is
 * rejected with a CRC error (that part of the property holds).
 *
 * Public API only, plus -Wl,--wrap=malloc to give fresh heap memory a
 * recognisable content (0xA5.. / 0x3C..) instead of whatever happens to be
 * there.  build_and_run.sh additionally runs the program under valgrind.
 *
 * exit 0 = property holds, 1 = violated, 2 = demo could not be set up.
 */
#define _GNU_SOURCE
#include <carquet/carquet.h>
#include <stdio.h>
#include <stdlib.h>
#include <string.h>
#include <stdint.h>
#include <unistd.h>

#define ROWS 100

/* ---- minimal compact-thrift walker: finds where the page body starts ---- */
typedef struct { const uint8_t* p; const uint8_t* end; int err; } tp_t;
static uint64_t tvar(tp_t* t){ uint64_t r=0; int sh=0; for(;;){ if(t->p>=t->end){t->err=1;return 0;} uint8_t b=*t->p++; r|=(uint64_t)(b&0x7f)<<sh; if(!(b&0x80))break; sh+=7; if(sh>63){t->err=1;return 0;} } return r; }
static int64_t tzz(tp_t* t){ uint64_t v=tvar(t); return (int64_t)(v>>1) ^ -(int64_t)(v&1); }
static void tskip(tp_t* t,int ty);
static void tskip_struct(tp_t* t){ for(;;){ if(t->err||t->p>=t->end){t->err=1;return;} uint8_t b=*t->p++; if(b==0)return; if((b>>4)==0) tzz(t); tskip(t,b&0xf);} }
static void tskip(tp_t* t,int ty){
  switch(ty){ case 1: case 2: break; case 3: t->p++; break; case 4: case 5: case 6: tvar(t); break; case 7: t->p+=8; break;
    case 8: { uint64_t n=tvar(t); t->p+=n; break; }
    case 12: tskip_struct(t); break;
    default: t->err=1; }
  if(t->p>t->end) t->err=1;
}
/* returns body offset, fills compressed size */
static long page_body(const uint8_t* buf,size_t off,size_t end,int32_t* csize){
  tp_t t={buf+off,buf+end,0}; int last=0;
  for(;;){ if(t.p>=t.end)return -1; uint8_t b=*t.p++; if(b==0)break; int ty=b&0xf,d=b>>4; if(d==0)last=(int)tzz(&t); else last+=d;
    if(ty==5 && last==3) *csize=(int32_t)tzz(&t); else tskip(&t,ty);
    if(t.err)return -1; }
  return (long)(t.p-buf);
}

static uint8_t* slurp(const char* path,size_t* n){ FILE* f=fopen(path,"rb"); if(!f)return NULL; fseek(f,0,SEEK_END); long L=ftell(f); fseek(f,0,SEEK_SET); uint8_t* b=malloc(L); if(fread(b,1,L,f)!=(size_t)L){fclose(f);return NULL;} fclose(f); *n=L; return b; }

/* Link-time interposition (-Wl,--wrap=malloc): every block handed out by
 * malloc is pre-filled with a chosen byte, i.e. "uninitialised memory has
 * arbitrary contents".  A memory-safe library never lets that byte escape. */
extern void* __real_malloc(size_t);
static volatile int fill_on=0; static volatile unsigned char fill_byte=0;
void* __wrap_malloc(size_t n){ void* p=__real_malloc(n); if(p&&fill_on) memset(p,fill_byte,n); return p; }

static const char* modename[3]={"fread","mmap","buffer"};

/* read the single column; returns number of rows, -1 on reported error */
static int64_t read_all(int mode,const char* path,const uint8_t* buf,size_t n,int verify,int32_t* vals,int16_t* defs){
  carquet_reader_options_t ro; carquet_reader_options_init(&ro); ro.verify_checksums=verify; ro.use_mmap=(mode==1);
  carquet_error_t err=CARQUET_ERROR_INIT;
  carquet_reader_t* r= mode==2? carquet_reader_open_buffer(buf,n,&ro,&err) : carquet_reader_open(path,&ro,&err);
  if(!r) return -2;
  carquet_column_reader_t* cr=carquet_reader_get_column(r,0,0,&err);
  if(!cr){ carquet_reader_close(r); return -2; }
  int64_t got=carquet_column_read_batch(cr,vals,ROWS,defs,NULL);
  carquet_column_reader_free(cr); carquet_reader_close(r);
  return got;
}

int main(void){
  char path[128],dpath[128];
  snprintf(path,sizeof path,"/tmp/c14_demo1_%d.parquet",(int)getpid());
  snprintf(dpath,sizeof dpath,"/tmp/c14_demo1_%d_damaged.parquet",(int)getpid());

  /* 1. write: one OPTIONAL INT32 column, 100 rows, every row present */
  carquet_error_t err=CARQUET_ERROR_INIT;
  carquet_schema_t* s=carquet_schema_create(&err); if(!s)return 2;
  if(carquet_schema_add_column(s,"v",CARQUET_PHYSICAL_INT32,NULL,CARQUET_REPETITION_OPTIONAL,0)!=CARQUET_OK)return 2;
  carquet_writer_t* w=carquet_writer_create(path,s,NULL,&err); if(!w)return 2;
  int32_t in[ROWS]; int16_t dl[ROWS]; for(int i=0;i<ROWS;i++){in[i]=1000+i; dl[i]=1;}
  if(carquet_writer_write_batch(w,0,in,ROWS,dl,NULL)!=CARQUET_OK)return 2;
  if(carquet_writer_close(w)!=CARQUET_OK)return 2;
  carquet_schema_free(s);

  /* 2. locate the body of the only page; it starts with the level block:
   *    u32 length | RLE run header (varint) | run value | ... values ...  */
  size_t n; uint8_t* buf=slurp(path,&n); if(!buf)return 2;
  int32_t csize=0; long body=page_body(buf,4,n,&csize);
  if(body<0||csize<8){fprintf(stderr,"cannot locate page body\n");return 2;}
  printf("page body at file offset %ld, %d stored bytes; level block: %02x %02x %02x %02x | %02x %02x %02x\n",
         body,csize,buf[body],buf[body+1],buf[body+2],buf[body+3],buf[body+4],buf[body+5],buf[body+6]);

  /* 3. damage: flip ONE bit of ONE byte inside the page body (bit 7 of the
   *    first RLE header byte: the run of 100 becomes a run of 36) */
  size_t pos=(size_t)body+4;
  buf[pos]^=0x80;
  FILE* f=fopen(dpath,"wb"); if(!f)return 2; fwrite(buf,1,n,f); fclose(f);
  printf("flipped bit 7 of the byte at file offset %zu (page body offset 4)\n\n",pos);

  int violations=0;
  for(int mode=0;mode<3;mode++){
    int32_t vals[ROWS]; int16_t defs[ROWS];

    /* verification enabled: must report an error (and does) */
    int64_t got=read_all(mode,dpath,buf,n,1,vals,defs);
    printf("[%-6s] verify_checksums=1: read_batch returned %lld (%s)\n",modename[mode],(long long)got,got<0?"error reported, good":"NO ERROR");
    if(got>=0) violations++;

    /* verification disabled: must still be memory safe.  Two runs with two
     * different contents of not-yet-initialised heap memory. */
    int16_t seen[2][ROWS]; int64_t g[2];
    for(int run=0;run<2;run++){
      fill_byte=(run==0?0xA5:0x3C); fill_on=getenv("C14_NOFILL")?0:1;
      memset(defs,0,sizeof defs);
      g[run]=read_all(mode,dpath,buf,n,0,vals,defs);
      memcpy(seen[run],defs,sizeof defs);
      fill_on=0;
    }
    printf("[%-6s] verify_checksums=0: read_batch returned %lld / %lld rows\n",modename[mode],(long long)g[0],(long long)g[1]);
    if(g[0]>0){
      int bad=0,first=-1;
      for(int i=0;i<g[0];i++) if(seen[0][i]<0||seen[0][i]>1){ bad++; if(first<0)first=i; }
      if(bad){
        printf("[%-6s]   %d of %lld returned definition levels are outside [0,1] (max_def_level=1); first at row %d: 0x%04x (run 1) vs 0x%04x (run 2)\n",
               modename[mode],bad,(long long)g[0],first,(uint16_t)seen[0][first],(uint16_t)seen[1][first]);
        printf("[%-6s]   -> levels 36..99 were never written by the decoder: the caller receives uninitialised heap memory\n",modename[mode]);
        violations++;
      } else if(g[0]==g[1] && memcmp(seen[0],seen[1],sizeof(int16_t)*g[0])){
        printf("[%-6s]   returned levels differ between two reads of the same bytes\n",modename[mode]); violations++;
      }
    }
  }
  unlink(path); unlink(dpath); free(buf);
  printf("\n%s\n",violations?"VIOLATION: damaged page not handled memory-safely with verification disabled (uninitialised memory disclosed)":"property holds");
  return violations?1:0;
}
