#!/bin/sh
# Builds the library in the worktree as it is, builds the demo, runs it.
# Exit status: 0 = property holds, non-zero = violated.
set -u
WT=/tmp/wt4/C17
HERE=$WT/_finding/1
cd "$WT" && cmake -G Ninja -B _build >/dev/null && cmake --build _build >/dev/null || exit 99
cc -g -O1 -I"$WT/include" "$HERE/demo.c" "$WT/_build/libcarquet.a" \
   -lzstd -lz -lm -fopenmp -lpthread -o "$HERE/demo" || exit 99
echo "=== round trip of fully defined lists ==="
"$HERE/demo"; rc1=$?
echo "exit status: $rc1"
echo
echo "=== same with one empty list (values array ends at a guard page) ==="
"$HERE/demo" oob; rc2=$?
echo "exit status: $rc2"
[ "$rc1" -eq 0 ] && [ "$rc2" -eq 0 ]
