/*
 * C17 finding 1: a top-level REPEATED column has max definition level 1 and
 * max repetition level 1 (one repeated node on its path).  The schema builder
 * and the reader both say so - but the file writer derives its own levels from
 * the same schema and gets max_def = 0 for REPEATED.  It therefore drops the
 * definition levels the caller passes, writes pages without them, and the
 * reader (which correctly expects them) cannot read the column back.
 *
 * Public API only.  Exit 0 = property holds, 1 = violated.
 *
 *   ./demo        round trip of three fully defined lists
 *   ./demo oob    same with one empty list: the writer additionally reads one
 *                 value more than the caller supplied (guard page -> SIGSEGV)
 */
#include <carquet/carquet.h>
#include <stdio.h>
#include <stdlib.h>
#include <string.h>
#include <sys/mman.h>
#include <unistd.h>

#define PATH "/tmp/wt4/C17/_finding/1/repeated.parquet"

int main(int argc, char **argv) {
    int oob = argc > 1 && strcmp(argv[1], "oob") == 0;
    int bad = 0;
    carquet_error_t err = CARQUET_ERROR_INIT;
    setvbuf(stdout, NULL, _IONBF, 0);

    carquet_schema_t *s = carquet_schema_create(&err);
    if (!s) return 2;
    if (carquet_schema_add_column(s, "xs", CARQUET_PHYSICAL_INT32, NULL,
                                  CARQUET_REPETITION_REPEATED, 0) != CARQUET_OK) return 2;
    const carquet_schema_node_t *nd = carquet_schema_get_element(s, 1);
    printf("builder : max_def=%d max_rep=%d   (textbook: 1, 1)\n",
           carquet_schema_node_max_def_level(nd), carquet_schema_node_max_rep_level(nd));
    if (carquet_schema_node_max_def_level(nd) != 1 || carquet_schema_node_max_rep_level(nd) != 1) bad = 1;

    /* rows: [10,11] [12] [13,14,15,16]          (default)
     *       [10,11] []   [13,14,15,16]          (oob: entry 2 is an empty list, 6 values) */
    int16_t def[7] = {1, 1, 1, 1, 1, 1, 1};
    int16_t rep[7] = {0, 1, 0, 0, 1, 1, 1};
    int32_t expect[7] = {10, 11, 12, 13, 14, 15, 16};
    int nvals = 7;
    if (oob) { def[2] = 0; nvals = 6; for (int i = 2; i < 6; i++) expect[i] = 13 + (i - 2); }

    /* Put exactly nvals values right in front of an inaccessible page. */
    long pg = sysconf(_SC_PAGESIZE);
    uint8_t *map = mmap(NULL, 2 * pg, PROT_READ | PROT_WRITE, MAP_PRIVATE | MAP_ANONYMOUS, -1, 0);
    if (map == MAP_FAILED) return 2;
    mprotect(map + pg, pg, PROT_NONE);
    int32_t *vals = (int32_t *)(map + pg) - nvals;
    memcpy(vals, expect, nvals * sizeof(int32_t));

    carquet_writer_t *w = carquet_writer_create(PATH, s, NULL, &err);
    if (!w) { printf("writer_create: %s\n", err.message); return 2; }
    /* 7 level entries; the values array holds one value per entry with def == max_def */
    carquet_status_t st = carquet_writer_write_batch(w, 0, vals, 7, def, rep);
    printf("write_batch(7 entries, %d values) -> %d\n", nvals, st);
    if (st != CARQUET_OK) bad = 1;
    st = carquet_writer_close(w);
    printf("close -> %d\n", st);
    if (st != CARQUET_OK) bad = 1;

    carquet_reader_t *rd = carquet_reader_open(PATH, NULL, &err);
    if (!rd) { printf("open failed: %s\n", err.message); return 1; }
    nd = carquet_schema_get_element(carquet_reader_schema(rd), 1);
    printf("reader  : max_def=%d max_rep=%d\n",
           carquet_schema_node_max_def_level(nd), carquet_schema_node_max_rep_level(nd));
    if (carquet_schema_node_max_def_level(nd) != 1 || carquet_schema_node_max_rep_level(nd) != 1) bad = 1;

    carquet_column_reader_t *c = carquet_reader_get_column(rd, 0, 0, &err);
    if (!c) { printf("get_column failed: %s\n", err.message); carquet_reader_close(rd); return 1; }
    int32_t out[16]; int16_t od[16], orp[16];
    memset(out, 0xEE, sizeof out); memset(od, 0xEE, sizeof od); memset(orp, 0xEE, sizeof orp);
    int64_t n = carquet_column_read_batch(c, out, 16, od, orp);
    printf("read_batch -> %lld entries (expected 7)\n", (long long)n);
    if (n != 7) bad = 1;
    int vi = 0;
    for (int i = 0; i < n && i < 16; i++) {
        int is_val = od[i] == 1;
        printf("  entry %d: def=%d rep=%d   expected def=%d rep=%d", i, od[i], orp[i], def[i], rep[i]);
        if (i < 7 && (od[i] != def[i] || orp[i] != rep[i])) { bad = 1; printf("   <-- WRONG"); }
        if (is_val) {
            printf("  value=%d", out[vi]);
            if (vi < nvals && out[vi] != expect[vi]) { bad = 1; printf(" (expected %d)", expect[vi]); }
            vi++;
        }
        printf("\n");
    }
    if (vi != nvals) { printf("  %d values came back, %d were written\n", vi, nvals); bad = 1; }
    carquet_column_reader_free(c);
    carquet_reader_close(rd);
    carquet_schema_free(s);
    unlink(PATH);
    printf(bad ? "VIOLATION: REPEATED column written through the builder schema does not read back\n" : "ok\n");
    return bad;
}
