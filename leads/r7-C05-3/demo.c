/*
 * C05 demo 3: the writer is handed a schema with a group in it.
 *
 * carquet.h ("Schema API"): schemas support nested structures, and a schema
 * is something you "pass to writer or compare with reader schema". The only
 * way to obtain a schema whose group has children is carquet_reader_schema()
 * (carquet_schema_add_column has no parent argument), i.e. the "copy a file"
 * scenario: open a file, create a writer with the reader's schema, write.
 *
 * Input: a hand-built, spec-valid file (the shape pyarrow / parquet-mr produce
 * for a nullable struct column with one non-nullable member), no row groups:
 *
 *     message schema { optional group a { required int32 b; } }
 *
 * The column a.b has max_definition_level 1 - carquet's own accessor
 * carquet_schema_node_max_def_level() says so. We write five rows
 * [11, NULL, 33, NULL, 55]: def_levels {1,0,1,0,1} and the three packed values,
 * exactly as carquet.h documents for a column with max_def_level 1.
 *
 * Part A gives the values array two spare slots so that nothing crashes and
 * the completed file can be examined by the independent reader.
 * Part B passes an array of exactly three values (what the API asks for).
 *
 * exit 0: property holds (or the writer refuses the schema).
 * non-zero / sanitizer report: violated.
 */
#include <carquet/carquet.h>
#include "../common/pqcheck.h"

/* ---- a tiny Thrift compact emitter for the hand-built input ---- */
static uint8_t in_file[256];
static size_t in_len;
static void put(uint8_t b) { in_file[in_len++] = b; }
static void put_str(const char* s) { put((uint8_t)strlen(s)); while (*s) put((uint8_t)*s++); }

static void build_input(void) {
    memcpy(in_file, "PAR1", 4);
    in_len = 4;
    size_t start = in_len;
    put(0x15); put(0x02);                       /* 1: version = 1 */
    put(0x19); put(0x3C);                       /* 2: schema, list<struct> of 3 */
    /* root */
    put(0x48); put_str("schema");               /*   4: name */
    put(0x15); put(0x02);                       /*   5: num_children = 1 */
    put(0x00);
    /* optional group a */
    put(0x35); put(0x02);                       /*   3: repetition_type = OPTIONAL */
    put(0x18); put_str("a");                    /*   4: name */
    put(0x15); put(0x02);                       /*   5: num_children = 1 */
    put(0x00);
    /* required int32 b */
    put(0x15); put(0x02);                       /*   1: type = INT32 */
    put(0x25); put(0x00);                       /*   3: repetition_type = REQUIRED */
    put(0x18); put_str("b");                    /*   4: name */
    put(0x00);
    put(0x16); put(0x00);                       /* 3: num_rows = 0 */
    put(0x19); put(0x0C);                       /* 4: row_groups, empty list<struct> */
    put(0x28); put_str("handmade");             /* 6: created_by */
    put(0x00);
    uint32_t flen = (uint32_t)(in_len - start);
    put((uint8_t)flen); put((uint8_t)(flen >> 8)); put(0); put(0);
    memcpy(in_file + in_len, "PAR1", 4);
    in_len += 4;
}

static int copy_with_writer(const carquet_schema_t* schema, const char* out, int spare_slots) {
    carquet_error_t err = CARQUET_ERROR_INIT;
    carquet_writer_t* w = carquet_writer_create(out, schema, NULL, &err);
    if (!w) {
        printf("  carquet_writer_create refused the schema (%s) - property not violated\n", err.message);
        return 1;
    }
    int32_t* values = malloc(sizeof(int32_t) * (size_t)(3 + spare_slots));
    values[0] = 11; values[1] = 33; values[2] = 55;
    for (int i = 0; i < spare_slots; i++) values[3 + i] = -777;
    int16_t def[5] = { 1, 0, 1, 0, 1 };
    carquet_status_t st = carquet_writer_write_batch(w, 0, values, 5, def, NULL);
    free(values);
    if (st != CARQUET_OK) {
        printf("  write_batch refused with %d - property not violated\n", st);
        carquet_writer_abort(w);
        return 1;
    }
    st = carquet_writer_close(w);
    if (st != CARQUET_OK) {
        printf("  carquet_writer_close reported %d - property not violated\n", st);
        return 1;
    }
    printf("  carquet_writer_close: CARQUET_OK\n");
    return 0;
}

int main(void) {
    const char* in = "/tmp/wt7/C05/_finding/3/nested_in.parquet";
    const char* out = "/tmp/wt7/C05/_finding/3/nested_out.parquet";
    build_input();

    pq_file_t fin;
    if (pq_check_buffer(in_file, in_len, &fin) != 0) {
        printf("hand-built input is not valid: %s\n", pq_errmsg);
        return 3;
    }
    printf("input: independent reader accepts it; leaf path %s.%s, max_def %d, max_rep %d\n",
           fin.leaf_path[0][0], fin.leaf_path[0][1], fin.leaf_max_def[0], fin.leaf_max_rep[0]);
    FILE* fp = fopen(in, "wb");
    if (!fp || fwrite(in_file, 1, in_len, fp) != in_len) return 3;
    fclose(fp);

    carquet_error_t err = CARQUET_ERROR_INIT;
    carquet_reader_t* r = carquet_reader_open(in, NULL, &err);
    if (!r) { printf("carquet cannot open the input: %s\n", err.message); return 3; }
    const carquet_schema_t* schema = carquet_reader_schema(r);
    int ncols = carquet_schema_num_columns(schema);
    int leaf_elem = -1;
    for (int i = 0; i < carquet_schema_num_elements(schema); i++)
        if (carquet_schema_node_is_leaf(carquet_schema_get_element(schema, i))) leaf_elem = i;
    const carquet_schema_node_t* leaf = carquet_schema_get_element(schema, leaf_elem);
    printf("carquet: %d column(s), %d schema elements, leaf '%s' max_def_level %d, find_column(\"a.b\") = %d\n",
           ncols, carquet_schema_num_elements(schema), carquet_schema_node_name(leaf),
           carquet_schema_node_max_def_level(leaf), carquet_schema_find_column(schema, "a.b"));
    if (ncols != 1 || carquet_schema_node_max_def_level(leaf) != 1) return 3;

    int bad = 0;
    printf("A: five rows [11, NULL, 33, NULL, 55] (values array with two spare slots)\n");
    if (copy_with_writer(schema, out, 2) == 0) {
        pq_file_t f;
        if (pq_check_file(out, &f) != 0) {
            printf("  independent reader REJECTS the file: %s\n", pq_errmsg);
            bad = 1;
        } else {
            printf("  independent reader: %lld schema elements, %d leaf, path length %d ('%s'), max_def %d, num_rows %lld, %lld values:",
                   (long long)f.n_schema, f.n_leaves, f.leaf_path_len[0], f.leaf_path[0][0], f.leaf_max_def[0],
                   (long long)f.num_rows, (long long)f.data[0].n_vals);
            for (int64_t i = 0; i < f.data[0].n_vals; i++) {
                int32_t v; memcpy(&v, f.data[0].vals + 4 * i, 4); printf(" %d", v);
            }
            printf("\n");
            int same = f.n_schema == 3 && f.leaf_path_len[0] == 2 && !strcmp(f.leaf_path[0][0], "a") &&
                       !strcmp(f.leaf_path[0][1], "b") && f.leaf_max_def[0] == 1 && f.num_rows == 5 &&
                       f.data[0].n_vals == 3 && f.data[0].n_levels == 5;
            if (same) {
                static const int16_t d[5] = { 1, 0, 1, 0, 1 };
                static const int32_t v[3] = { 11, 33, 55 };
                same = !memcmp(f.data[0].def, d, sizeof d) && !memcmp(f.data[0].vals, v, sizeof v);
            }
            if (!same) {
                printf("  NOT the table that was written (schema a.b optional-group/required-leaf, 3 values, 2 nulls)\n");
                bad = 1;
            } else {
                printf("  table recovered\n");
            }
        }
    }
    fflush(stdout);
    printf("B: the same call with a values array of exactly three entries\n");
    fflush(stdout);
    copy_with_writer(schema, out, 0);   /* AddressSanitizer reports the over-read here */
    carquet_reader_close(r);
    if (!bad) { remove(in); remove(out); }
    return bad;
}
