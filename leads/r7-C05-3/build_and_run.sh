#!/bin/sh
# Builds the demo against the AddressSanitizer build of the unchanged library.
set -e
cd "$(dirname "$0")"
ROOT=../..
if [ ! -f $ROOT/_build_asan/libcarquet.a ]; then
  (cd $ROOT && cmake -G Ninja -B _build_asan -DCMAKE_C_FLAGS="-fsanitize=address,undefined -g -O1" \
     -DCMAKE_EXE_LINKER_FLAGS="-fsanitize=address,undefined" >/dev/null && cmake --build _build_asan --target carquet >/dev/null)
fi
gcc -g -O1 -fsanitize=address,undefined -I$ROOT/include demo.c $ROOT/_build_asan/libcarquet.a \
    -lzstd -lz -lm -fopenmp -lpthread -o demo
set +e
ASAN_OPTIONS=detect_leaks=0 ./demo
rc=$?
echo "exit code: $rc"
exit $rc
