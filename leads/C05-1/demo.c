/*
 * C05 finding 1: a REPEATED column is written without definition levels
 * (and its row count is the number of values, not the number of records).
 *
 * Table written: one column  `repeated int32 tags`, three rows
 *        row 0: [1, 2]     row 1: [3]     row 2: [4, 5, 6]
 * i.e. 6 values, repetition levels 0 1 0 0 1 1, definition levels all 1.
 *
 * carquet_writer_close() returns OK.  The file is then handed to the
 * independent checker in pqcheck.h (own thrift/RLE/PLAIN/CRC code).
 * Exit 0 = property holds, 1 = violated.
 */
#include <carquet/carquet.h>
#include "pqcheck.h"

static const char *PATH = "finding1.parquet";

int main(void) {
    carquet_error_t err = CARQUET_ERROR_INIT;
    carquet_schema_t *s = carquet_schema_create(&err);
    if (!s) return 2;
    if (carquet_schema_add_column(s, "tags", CARQUET_PHYSICAL_INT32, NULL,
                                  CARQUET_REPETITION_REPEATED, 0) != CARQUET_OK) return 2;

    /* what the library itself says about this column */
    const carquet_schema_node_t *n = carquet_schema_get_element(s, 1);
    printf("carquet schema says: max_def_level=%d max_rep_level=%d\n",
           carquet_schema_node_max_def_level(n), carquet_schema_node_max_rep_level(n));

    carquet_writer_options_t o; carquet_writer_options_init(&o);
    o.compression = CARQUET_COMPRESSION_UNCOMPRESSED;
    carquet_writer_t *w = carquet_writer_create(PATH, s, &o, &err);
    if (!w) return 2;

    int32_t values[6] = {1, 2, 3, 4, 5, 6};
    int16_t rep[6]    = {0, 1, 0, 0, 1, 1};
    int16_t def[6]    = {1, 1, 1, 1, 1, 1};
    carquet_status_t st = carquet_writer_write_batch(w, 0, values, 6, def, rep);
    printf("write_batch -> %s\n", carquet_status_string(st));
    if (st != CARQUET_OK) { carquet_writer_abort(w); carquet_schema_free(s); return 2; }
    st = carquet_writer_close(w);
    printf("close       -> %s\n", carquet_status_string(st));
    carquet_schema_free(s);
    if (st != CARQUET_OK) return 0;   /* the property only speaks about files reported complete */

    pq_file f; memset(&f, 0, sizeof f);
    int ok = pq_check(PATH, &f);
    int rc = 0;
    if (!ok) {
        printf("independent reader REJECTS the file: %s\n", f.err);
        rc = 1;
    } else {
        printf("independent reader accepts: rows=%lld values=%lld\n", (long long)f.num_rows, (long long)f.cols[0].n_values);
        if (f.num_rows != 3 || f.cols[0].n_values != 6 || memcmp(f.cols[0].vals, values, sizeof values)) {
            printf("... but the table differs from what was written\n"); rc = 1;
        }
    }
    /* show the page body for the report */
    {
        FILE *fp = fopen(PATH, "rb"); uint8_t b[128]; size_t k = fread(b, 1, sizeof b, fp); fclose(fp);
        printf("first %zu bytes of the file:", k);
        for (size_t i = 0; i < k && i < 80; i++) printf("%s%02x", i % 16 ? " " : "\n  ", b[i]);
        printf("\n");
    }
    pq_free(&f);
    printf(rc ? "RESULT: property VIOLATED\n" : "RESULT: property holds\n");
    return rc;
}
