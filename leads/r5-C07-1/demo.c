/*
 * C07 demo: concurrent first use of the library (lazy initialisation).
 *
 * carquet_get_cpu_info() / carquet_init() are documented "Thread-safe: Yes
 * (uses atomic initialization)".  N threads make the first call into the
 * library at the same moment and look at the CPU information the library
 * hands back.  Used alone (one thread), the answer is one fixed set of
 * feature flags; every thread must see exactly that.
 *
 * Exit 0: every thread saw the same CPU info as a lone caller sees.
 * Exit 1: some thread was handed CPU info that differs from it (a feature
 *         that the CPU has was reported absent).
 */
#include <carquet/carquet.h>
#include <pthread.h>
#include <stdatomic.h>
#include <stdio.h>
#include <string.h>

#define NTHREADS 16
#define SPINS 4000

static atomic_int go;
static atomic_int ready;

typedef struct {
    carquet_cpu_info_t first;     /* what the first call returned */
    carquet_cpu_info_t odd;       /* a later observation that differed */
    int saw_odd;
} obs_t;

static obs_t obs[NTHREADS];

static void* worker(void* arg) {
    obs_t* o = arg;
    atomic_fetch_add(&ready, 1);
    while (!atomic_load(&go)) { }

    const carquet_cpu_info_t* info = carquet_get_cpu_info();   /* first use */
    memcpy(&o->first, info, sizeof(o->first));

    /* The pointer stays valid for the life of the program and the data is
     * supposed to be final once a call has returned: keep looking at it. */
    for (int i = 0; i < SPINS && !o->saw_odd; i++) {
        carquet_cpu_info_t now;
        memcpy(&now, carquet_get_cpu_info(), sizeof(now));
        if (memcmp(&now, &o->first, sizeof(now)) != 0) {
            o->odd = now;
            o->saw_odd = 1;
        }
    }
    return NULL;
}

static void show(const char* what, const carquet_cpu_info_t* c) {
    printf("  %-22s sse2=%d sse41=%d sse42=%d avx=%d avx2=%d avx512f=%d avx512bw=%d avx512vl=%d avx512vbmi=%d neon=%d\n",
           what, c->has_sse2, c->has_sse41, c->has_sse42, c->has_avx, c->has_avx2,
           c->has_avx512f, c->has_avx512bw, c->has_avx512vl, c->has_avx512vbmi, c->has_neon);
}

int main(void) {
    pthread_t th[NTHREADS];
    for (int i = 0; i < NTHREADS; i++) pthread_create(&th[i], NULL, worker, &obs[i]);
    while (atomic_load(&ready) < NTHREADS) { }
    atomic_store(&go, 1);
    for (int i = 0; i < NTHREADS; i++) pthread_join(th[i], NULL);

    /* Everything is quiet now: this is what a lone caller gets. */
    carquet_cpu_info_t alone;
    memcpy(&alone, carquet_get_cpu_info(), sizeof(alone));

    int bad = 0;
    for (int i = 0; i < NTHREADS; i++) {
        if (memcmp(&obs[i].first, &alone, sizeof(alone)) != 0) {
            printf("thread %d: first carquet_get_cpu_info() returned different CPU info\n", i);
            show("returned to thread:", &obs[i].first);
            bad = 1;
        }
        if (obs[i].saw_odd) {
            printf("thread %d: CPU info changed after carquet_get_cpu_info() had returned\n", i);
            show("seen later:", &obs[i].odd);
            bad = 1;
        }
    }
    if (bad) {
        show("lone caller sees:", &alone);
        printf("FAIL: concurrent first use returned different content than use alone\n");
        return 1;
    }
    return 0;
}
