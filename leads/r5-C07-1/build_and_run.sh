#!/bin/sh
# Builds the library as it is (default configuration), builds the demo, and
# runs it repeatedly: lazy initialisation happens once per process, so every
# process is one trial of the "concurrent first use" schedule.
set -e
HERE=$(cd "$(dirname "$0")" && pwd)
ROOT=$(cd "$HERE/../.." && pwd)
cd "$ROOT"
cmake -G Ninja -B _build >/dev/null
cmake --build _build --target carquet >/dev/null
cc -O1 -g -I"$ROOT/include" "$HERE/demo.c" "$ROOT/_build/libcarquet.a" \
   -lzstd -lz -lm -fopenmp -lpthread -o "$HERE/demo"
RUNS=${RUNS:-3000}
i=1
while [ "$i" -le "$RUNS" ]; do
    if ! "$HERE/demo" > "$HERE/last_output.txt"; then
        echo "run $i of the demo failed:"
        cat "$HERE/last_output.txt"
        exit 1
    fi
    i=$((i + 1))
done
echo "no failure in $RUNS runs"
exit 0
