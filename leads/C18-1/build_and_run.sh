#!/bin/sh
# Builds the library in the worktree as it is, builds the demo, runs it.
set -e
HERE=$(cd "$(dirname "$0")" && pwd)
ROOT=$(cd "$HERE/../.." && pwd)
cd "$ROOT"
cmake -G Ninja -B _build >/dev/null
cmake --build _build --target carquet >/dev/null
cd "$HERE"
cc -O1 -g -I"$ROOT/include" demo.c "$ROOT/_build/libcarquet.a" -lzstd -lz -lm -fopenmp -lpthread -o demo
set +e
./demo
rc=$?
echo "exit code: $rc"
exit $rc
