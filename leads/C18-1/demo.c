/*
 * C18 demonstration 1: after a failed write to the output file,
 * carquet_writer_close() (or a retried carquet_writer_new_row_group())
 * returns CARQUET_OK although the bytes of the failed write never reached
 * the file; the file that "closed OK" is corrupt.
 *
 * Public API only.  The sink failure is a real one: RLIMIT_FSIZE makes
 * write(2) on the output file fail with EFBIG (same shape as ENOSPC / EDQUOT:
 * a short write followed by an error).  The limit is lifted after the failure
 * has been reported ("somebody freed space"), i.e. the failure is transient.
 *
 * exit 0  = property holds (close never reports OK for a file that lost bytes)
 * exit 1  = violated
 */
#define _GNU_SOURCE
#include <stdio.h>
#include <stdlib.h>
#include <string.h>
#include <signal.h>
#include <unistd.h>
#include <sys/resource.h>
#include <carquet/carquet.h>

#define ROWS 3000            /* 12000 bytes of INT32 per row group */

static carquet_schema_t* make_schema(void) {
    carquet_error_t err = CARQUET_ERROR_INIT;
    carquet_schema_t* sc = carquet_schema_create(&err);
    if (!sc || carquet_schema_add_column(sc, "v", CARQUET_PHYSICAL_INT32, NULL,
                                         CARQUET_REPETITION_REQUIRED, 0) != CARQUET_OK) {
        fprintf(stderr, "schema setup failed\n"); exit(2);
    }
    return sc;
}

static void fill(int32_t* v, int rg) { for (int i = 0; i < ROWS; i++) v[i] = rg * 1000000 + i; }

static void set_limit(rlim_t lim) {
    struct rlimit rl; getrlimit(RLIMIT_FSIZE, &rl); rl.rlim_cur = lim;
    if (setrlimit(RLIMIT_FSIZE, &rl) != 0) { perror("setrlimit"); exit(2); }
}

/* Read the file back; 0 = every row group holds exactly the expected values */
static int verify(const char* path, int expect_rgs, char* msg, size_t msgsz) {
    carquet_error_t err = CARQUET_ERROR_INIT;
    carquet_reader_t* r = carquet_reader_open(path, NULL, &err);
    if (!r) { snprintf(msg, msgsz, "file does not open: %s", err.message); return 1; }
    int nrg = carquet_reader_num_row_groups(r);
    if (nrg != expect_rgs) { snprintf(msg, msgsz, "%d row groups, expected %d", nrg, expect_rgs); carquet_reader_close(r); return 1; }
    static int32_t buf[ROWS];
    for (int g = 0; g < nrg; g++) {
        carquet_column_reader_t* c = carquet_reader_get_column(r, g, 0, &err);
        if (!c) { snprintf(msg, msgsz, "row group %d: get_column failed: %s", g, err.message); carquet_reader_close(r); return 1; }
        int64_t got = 0;
        while (got < ROWS) {
            int64_t n = carquet_column_read_batch(c, buf + got, ROWS - got, NULL, NULL);
            if (n < 0) { snprintf(msg, msgsz, "row group %d: read error %lld after %lld rows", g, (long long)n, (long long)got); carquet_column_reader_free(c); carquet_reader_close(r); return 1; }
            if (n == 0) break;
            got += n;
        }
        carquet_column_reader_free(c);
        if (got != ROWS) { snprintf(msg, msgsz, "row group %d: %lld rows, expected %d", g, (long long)got, ROWS); carquet_reader_close(r); return 1; }
        for (int i = 0; i < ROWS; i++) if (buf[i] != g * 1000000 + i) {
            snprintf(msg, msgsz, "row group %d row %d: value %d, expected %d", g, i, buf[i], g * 1000000 + i);
            carquet_reader_close(r); return 1;
        }
    }
    carquet_reader_close(r);
    snprintf(msg, msgsz, "file is valid (%d row groups)", nrg);
    return 0;
}

static long file_size(const char* p) { FILE* f = fopen(p, "rb"); if (!f) return -1; fseek(f, 0, SEEK_END); long n = ftell(f); fclose(f); return n; }

/*
 * scenario 0: write rg0, new_row_group FAILS, space is freed, application
 *             finalizes with close().
 * scenario 1: write rg0, new_row_group FAILS, space is freed, application
 *             retries new_row_group (OK), writes rg1, close().
 */
static int scenario(int which, const char* path) {
    static int32_t v[ROWS];
    carquet_schema_t* sc = make_schema();
    carquet_error_t err = CARQUET_ERROR_INIT;
    carquet_writer_t* w = carquet_writer_create(path, sc, NULL, &err);
    if (!w) { fprintf(stderr, "create failed\n"); exit(2); }

    fill(v, 0);
    carquet_status_t st = carquet_writer_write_batch(w, 0, v, ROWS, NULL, NULL);
    if (st != CARQUET_OK) { fprintf(stderr, "unexpected: write_batch -> %d\n", st); exit(2); }

    set_limit(6000);                               /* "disk" fills up after 6000 bytes */
    st = carquet_writer_new_row_group(w);          /* flushes ~12 KB -> must fail      */
    set_limit(RLIM_INFINITY);                      /* space becomes available again    */
    printf("  new_row_group with the sink failing     -> %d (%s)\n", st, carquet_status_string(st));
    if (st == CARQUET_OK) { fprintf(stderr, "fault injection did not trigger\n"); exit(2); }

    int expect_rgs = 1;
    if (which == 1) {
        st = carquet_writer_new_row_group(w);
        printf("  new_row_group retried                   -> %d (%s)\n", st, carquet_status_string(st));
        if (st == CARQUET_OK) {
            fill(v, 1);
            st = carquet_writer_write_batch(w, 0, v, ROWS, NULL, NULL);
            printf("  write_batch (second row group)          -> %d\n", st);
            expect_rgs = 2;
        }
    }
    carquet_status_t cst = carquet_writer_close(w);
    printf("  carquet_writer_close                    -> %d (%s)\n", cst, carquet_status_string(cst));
    carquet_schema_free(sc);

    if (cst != CARQUET_OK) { printf("  close reported the failure: fine\n"); return 0; }

    char msg[256];
    int bad = verify(path, expect_rgs, msg, sizeof msg);
    printf("  close said OK; file has %ld bytes; read-back: %s\n", file_size(path), msg);
    return bad;
}

int main(void) {
    signal(SIGXFSZ, SIG_IGN);
    const char* path = "c18_demo1.parquet";
    int bad = 0;

    printf("scenario A: failed new_row_group, then close\n");
    bad |= scenario(0, path);
    printf("scenario B: failed new_row_group, retried, one more row group, then close\n");
    bad |= scenario(1, path);
    unlink(path);

    if (bad) { printf("RESULT: VIOLATION - carquet_writer_close returned CARQUET_OK for a file that lost/duplicated bytes\n"); return 1; }
    printf("RESULT: ok\n");
    return 0;
}
