/*
 * C03 finding 2: carquet_reader_can_zero_copy() answers "true" for a
 * dictionary-encoded column.
 *
 * carquet.h documents the conditions: mmap, uncompressed, PLAIN encoding,
 * fixed-size type, REQUIRED. The implementation never looks at the encoding
 * (neither ColumnMetaData.encodings, nor dictionary_page_offset, nor
 * encoding_stats), so for a REQUIRED INT32 column that is entirely
 * dictionary-encoded (what parquet-mr and pyarrow write by default) it
 * promises zero-copy access although every value has to be gathered from the
 * dictionary into a heap buffer.
 *
 * The file is hand-built, valid, and laid out like parquet-mr 1.x writes it:
 *   column 0 "plain": REQUIRED INT32, one PLAIN page
 *   column 1 "dict" : REQUIRED INT32, dictionary page + one PLAIN_DICTIONARY
 *                     page, dictionary_page_offset set,
 *                     encodings = [PLAIN_DICTIONARY, RLE, BIT_PACKED]
 *
 * What is checked (public API + /proc/self/maps to see where the handed-out
 * pointer lives):
 *   - can_zero_copy(col) must agree with whether the batch reader really hands
 *     out a pointer into the file mapping for that column
 * Exit 0 if the answers are consistent, 1 otherwise.
 */
#include "pqgen.h"
#include <carquet/carquet.h>
#include <unistd.h>
#include <inttypes.h>

#define N 16

static int in_file_mapping(const char* path, const void* p) {
    FILE* m = fopen("/proc/self/maps", "r"); if (!m) return -1;
    char line[1024]; int found = 0;
    while (fgets(line, sizeof line, m)) {
        uintptr_t lo, hi;
        if (sscanf(line, "%" SCNxPTR "-%" SCNxPTR, &lo, &hi) != 2) continue;
        if (!strstr(line, path)) continue;
        if ((uintptr_t)p >= lo && (uintptr_t)p < hi) found = 1;
    }
    fclose(m);
    return found;
}

int main(void) {
    buf_t f = {0};
    b_put(&f, "PAR1", 4);
    pqchunk_t ck[2]; memset(ck, 0, sizeof ck);

    /* column 0: PLAIN */
    {
        buf_t body = {0};
        for (uint32_t i = 0; i < N; i++) b_u32le(&body, 1000 + i);
        ck[0].num_values = N; ck[0].data_page_offset = (int64_t)f.n;
        size_t st = f.n;
        pghdr_t h = {0, N, ENC_PLAIN, 0, 0, 0};
        write_page(&f, &h, body.p, body.n);
        ck[0].total_size = (int64_t)(f.n - st); free(body.p);
    }
    /* column 1: dictionary page {7, 8, 9, 10} + indices i % 4, bit width 2 */
    {
        size_t st = f.n;
        buf_t d = {0}; for (uint32_t i = 0; i < 4; i++) b_u32le(&d, 7 + i);
        ck[1].has_dict_offset = 1; ck[1].dict_offset = (int64_t)f.n; ck[1].dict_encoded = 1;
        pghdr_t dh = {1, 4, ENC_PLAIN_DICT, 0, 0, 0};
        write_page(&f, &dh, d.p, d.n); free(d.p);
        ck[1].data_page_offset = (int64_t)f.n; ck[1].num_values = N;
        uint32_t idx[N]; for (int i = 0; i < N; i++) idx[i] = (uint32_t)(i % 4);
        buf_t body = {0}; b_u8(&body, 2); rle_bitpacked(&body, idx, N, 2, 0);
        pghdr_t h = {0, N, ENC_PLAIN_DICT, 0, 0, 0};
        write_page(&f, &h, body.p, body.n); free(body.p);
        ck[1].total_size = (int64_t)(f.n - st);
    }
    pqcol_t cols[2] = {{"plain", T_I32, 0, 0}, {"dict", T_I32, 0, 0}};
    int64_t rows = N;
    write_footer(&f, cols, 2, 1, &rows, ck);

    char path[128]; snprintf(path, sizeof path, "/tmp/c03_f2_%d.parquet", (int)getpid());
    FILE* fp = fopen(path, "wb"); if (!fp) { perror("fopen"); return 2; }
    fwrite(f.p, 1, f.n, fp); fclose(fp);

    carquet_reader_options_t o; carquet_reader_options_init(&o); o.use_mmap = true;
    carquet_error_t err = CARQUET_ERROR_INIT;
    carquet_reader_t* rd = carquet_reader_open(path, &o, &err);
    if (!rd) { printf("open failed: %s\n", err.message); return 2; }
    printf("is_mmap=%d\n", carquet_reader_is_mmap(rd));

    int claims[2];
    for (int c = 0; c < 2; c++) {
        claims[c] = carquet_reader_can_zero_copy(rd, 0, c);
        printf("carquet_reader_can_zero_copy(rg 0, col %d \"%s\") = %s\n", c, cols[c].name, claims[c] ? "true" : "false");
    }

    carquet_batch_reader_config_t cfg; carquet_batch_reader_config_init(&cfg);
    cfg.batch_size = N;
    carquet_batch_reader_t* br = carquet_batch_reader_create(rd, &cfg, &err);
    carquet_row_batch_t* b = NULL;
    if (!br || carquet_batch_reader_next(br, &b) != CARQUET_OK || !b) { printf("batch read failed\n"); return 2; }
    int bad = 0;
    for (int c = 0; c < 2; c++) {
        const void* data; const uint8_t* nb; int64_t nv;
        if (carquet_row_batch_column(b, c, &data, &nb, &nv) != CARQUET_OK) return 2;
        int ok = 1;
        for (int i = 0; i < N; i++) {
            int32_t v; memcpy(&v, (const uint8_t*)data + 4 * i, 4);   /* zero-copy pointers may be unaligned (known) */
            if (v != (c == 0 ? 1000 + i : 7 + i % 4)) ok = 0;
        }
        int zc = in_file_mapping(path, data);
        printf("col %d \"%s\": values %s, data pointer %p is %s the file mapping -> zero-copy actually %s\n",
               c, cols[c].name, ok ? "correct" : "WRONG", data, zc ? "inside" : "outside", zc ? "used" : "NOT used");
        if (!ok) bad = 1;
        if (claims[c] != zc) {
            printf("  INCONSISTENT: can_zero_copy said %s (documented to require PLAIN encoding), reality is %s\n",
                   claims[c] ? "true" : "false", zc ? "zero-copy" : "gather + copy");
            bad = 1;
        }
    }
    carquet_row_batch_free(b);
    carquet_batch_reader_free(br);
    carquet_reader_close(rd);
    unlink(path); free(f.p);
    printf(bad ? "RESULT: property violated\n" : "RESULT: ok\n");
    return bad;
}
