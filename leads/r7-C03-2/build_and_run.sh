#!/bin/sh
# Builds the demo against the ASan/UBSan library (falls back to the normal build)
# and runs it. Exit status 0 = property holds, non-zero = violated.
set -e
HERE=$(cd "$(dirname "$0")" && pwd)
ROOT=$(cd "$HERE/../.." && pwd)
LIB="$ROOT/_build_asan/libcarquet.a"; SAN="-fsanitize=address,undefined"
if [ ! -f "$LIB" ]; then LIB="$ROOT/_build/libcarquet.a"; SAN=""; fi
gcc -g -O1 $SAN -I"$ROOT/include" "$HERE/demo.c" "$LIB" -lzstd -lz -lm -fopenmp -lpthread -o "$HERE/demo"
export OMP_NUM_THREADS=2 OMP_WAIT_POLICY=passive
set +e
"$HERE/demo"
rc=$?
echo "exit status: $rc"
exit $rc
