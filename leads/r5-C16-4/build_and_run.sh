#!/bin/sh
# Builds the library in the worktree as it is (plain and ASan/UBSan), builds the demo, runs it.
set -e
HERE=$(cd "$(dirname "$0")" && pwd)
ROOT=$(cd "$HERE/../.." && pwd)
cd "$ROOT"
cmake -G Ninja -B _build >/dev/null
cmake --build _build --target carquet >/dev/null
cmake -G Ninja -B _build_asan -DCMAKE_C_FLAGS="-fsanitize=address,undefined -g -O1" \
      -DCMAKE_EXE_LINKER_FLAGS="-fsanitize=address,undefined" >/dev/null
cmake --build _build_asan --target carquet >/dev/null
cc -std=c11 -g -O1 -Wall -I"$ROOT/include" -I"$ROOT/src" -o "$HERE/demo" "$HERE/demo.c" \
   "$ROOT/_build/libcarquet.a" -lzstd -lz -lm -fopenmp -lpthread
cc -std=c11 -g -O1 -Wall -fsanitize=address,undefined -I"$ROOT/include" -I"$ROOT/src" -o "$HERE/demo_asan" "$HERE/demo.c" \
   "$ROOT/_build_asan/libcarquet.a" -lzstd -lz -lm -fopenmp -lpthread
set +e
echo "--- (a) BYTE_ARRAY values longer than 256 bytes"
"$HERE/demo" a; rca=$?
echo "exit code: $rca"
echo "--- (b) FIXED_LEN_BYTE_ARRAY(300) under AddressSanitizer"
ASAN_OPTIONS=detect_leaks=0 "$HERE/demo_asan" b >"$HERE/asan.out" 2>&1; rcb=$?
head -16 "$HERE/asan.out"
echo "exit code: $rcb"
[ $rca -eq 0 ] && [ $rcb -eq 0 ]
