/*
 * C16 finding 4: the statistics builder keeps min/max in two fixed 256-byte
 * arrays.
 *   (a) carquet_statistics_add_byte_arrays() silently SKIPS every value longer
 *       than 256 bytes, so the min/max it builds do not bound the column:
 *       values {"b", 300 x 'z'} give max = "b" although "zzz...z" > "b".
 *   (b) carquet_statistics_add_values() on FIXED_LEN_BYTE_ARRAY(type_length >
 *       256) memcpy()s type_length bytes into those arrays: heap overflow.
 *
 * The builder is not declared in the public headers (it is an exported symbol
 * of libcarquet.a that the property names explicitly), so its prototypes are
 * repeated here; parquet_statistics_t comes from src/thrift/parquet_types.h.
 *
 *   demo a   -> exit 1 when min/max fail to bound the values
 *   demo b   -> crashes / trips ASan on the overflow (exit 0 if it survives
 *               AND the bounds are right)
 */
#include <carquet/carquet.h>
#include "thrift/parquet_types.h"
#include <stdio.h>
#include <stdlib.h>
#include <string.h>

typedef struct carquet_statistics_builder sb_t;
sb_t* carquet_statistics_builder_create(carquet_physical_type_t type, int32_t type_length);
void carquet_statistics_builder_destroy(sb_t* b);
carquet_status_t carquet_statistics_add_values(sb_t* b, const void* values, int64_t n);
carquet_status_t carquet_statistics_add_byte_arrays(sb_t* b, const carquet_byte_array_t* values, int64_t n);
carquet_status_t carquet_statistics_build(const sb_t* b, carquet_arena_t* arena, parquet_statistics_t* out);

static int cmp_bytes(const uint8_t* a, size_t la, const uint8_t* b, size_t lb) {
    size_t n = la < lb ? la : lb;
    int c = memcmp(a, b, n);
    if (c) return c < 0 ? -1 : 1;
    return (la > lb) - (la < lb);
}

static int demo_a(void) {
    static uint8_t longz[300], longa[300];
    memset(longz, 'z', sizeof longz);
    memset(longa, 'A', sizeof longa);
    carquet_byte_array_t vals[4] = {
        { (uint8_t*)"b", 1 }, { longz, 300 }, { (uint8_t*)"c", 1 }, { longa, 300 },
    };
    sb_t* b = carquet_statistics_builder_create(CARQUET_PHYSICAL_BYTE_ARRAY, 0);
    if (!b) return 2;
    carquet_status_t s = carquet_statistics_add_byte_arrays(b, vals, 4);
    printf("add_byte_arrays({\"b\", 300x'z', \"c\", 300x'A'}) -> status %d (%s)\n", s, s == CARQUET_OK ? "OK" : "error");
    parquet_statistics_t st;
    if (carquet_statistics_build(b, NULL, &st) != CARQUET_OK) return 2;
    printf("built: min_value len=%d \"%.*s\"  max_value len=%d \"%.*s\"  is_min_exact=%d is_max_exact=%d\n",
           st.min_value_len, st.min_value_len > 8 ? 8 : st.min_value_len, st.min_value ? (char*)st.min_value : "",
           st.max_value_len, st.max_value_len > 8 ? 8 : st.max_value_len, st.max_value ? (char*)st.max_value : "",
           (int)st.is_min_value_exact, (int)st.is_max_value_exact);
    int bad = 0;
    for (int i = 0; i < 4; i++) {
        if (st.min_value && cmp_bytes(st.min_value, (size_t)st.min_value_len, vals[i].data, (size_t)vals[i].length) > 0) {
            printf("  VIOLATION: value #%d (len %d, '%c'...) is BELOW the built min\n", i, vals[i].length, vals[i].data[0]); bad++;
        }
        if (st.max_value && cmp_bytes(st.max_value, (size_t)st.max_value_len, vals[i].data, (size_t)vals[i].length) < 0) {
            printf("  VIOLATION: value #%d (len %d, '%c'...) is ABOVE the built max\n", i, vals[i].length, vals[i].data[0]); bad++;
        }
    }
    free(st.min_value); free(st.max_value);
    carquet_statistics_builder_destroy(b);
    return bad ? 1 : 0;
}

static int demo_b(void) {
    enum { W = 300 };
    static uint8_t vals[2 * W];
    memset(vals, 'm', W);
    memset(vals + W, 'q', W);
    sb_t* b = carquet_statistics_builder_create(CARQUET_PHYSICAL_FIXED_LEN_BYTE_ARRAY, W);
    if (!b) return 2;
    printf("add_values(FIXED_LEN_BYTE_ARRAY(%d), 2 values) ...\n", W);
    fflush(stdout);
    carquet_status_t s = carquet_statistics_add_values(b, vals, 2);   /* overflows builder->min_value[256] */
    printf("  -> status %d\n", s);
    parquet_statistics_t st;
    if (carquet_statistics_build(b, NULL, &st) != CARQUET_OK) return 2;
    int bad = 0;
    if (s == CARQUET_OK && (st.min_value_len != W || st.max_value_len != W ||
        memcmp(st.min_value, vals, W) || memcmp(st.max_value, vals + W, W))) {
        printf("  VIOLATION: built min/max are not the FLBA values (min_len=%d max_len=%d)\n", st.min_value_len, st.max_value_len);
        bad = 1;
    }
    carquet_statistics_builder_destroy(b);
    return bad;
}

int main(int argc, char** argv) {
    if (argc > 1 && argv[1][0] == 'b') return demo_b();
    return demo_a();
}
