/*
 * Finding 4: a thread that reads a ZSTD-compressed file leaks a ZSTD
 * decompression context when it exits - carquet_reader_close() (and
 * carquet_column_reader_free()) do not release everything the read allocated.
 *
 * The file is a VALID file written by carquet's own writer (one REQUIRED INT64
 * column, ZSTD).  Each of NTHREADS short-lived threads (run one after the
 * other) does: open -> get_column -> read_batch -> column_reader_free ->
 * reader_close, and exits.  All handles are closed; nothing is kept.
 *
 * The decompressor caches a ZSTD_DCtx in a `__thread` variable
 * (src/compression/zstd.c, get_dctx) that nothing ever frees, so every thread
 * that ever decompressed a page leaves its context (about 100 KiB and more)
 * behind, unreachable.
 *
 * Check 1 (any build): heap in use (mallinfo2().uordblks) after all threads are
 *   joined must not grow with the number of threads.
 * Check 2 (ASan/LSan build): LeakSanitizer reports the contexts at exit.
 *
 * exit 0: no growth;  exit 1: heap grows by > 32 KiB per thread.
 */
#define _GNU_SOURCE
#include <carquet/carquet.h>
#include <malloc.h>
#include <pthread.h>
#include <stdio.h>
#include <stdlib.h>
#include <string.h>

#define NROWS 20000
static const char* g_path;
static int g_codec;
static int g_failed_reads;

static int write_file(const char* path, carquet_compression_t codec) {
    carquet_error_t err = CARQUET_ERROR_INIT;
    carquet_schema_t* schema = carquet_schema_create(&err);
    if (!schema) return -1;
    if (carquet_schema_add_column(schema, "v", CARQUET_PHYSICAL_INT64, NULL,
                                  CARQUET_REPETITION_REQUIRED, 0) != CARQUET_OK) return -1;
    carquet_writer_options_t opts; carquet_writer_options_init(&opts);
    opts.compression = codec;
    carquet_writer_t* w = carquet_writer_create(path, schema, &opts, &err);
    if (!w) { fprintf(stderr, "writer: %s\n", err.message); return -1; }
    int64_t* v = malloc(sizeof(int64_t) * NROWS);
    for (int i = 0; i < NROWS; i++) v[i] = i % 97;
    carquet_status_t st = carquet_writer_write_batch(w, 0, v, NROWS, NULL, NULL);
    free(v);
    if (st != CARQUET_OK) return -1;
    if (carquet_writer_close(w) != CARQUET_OK) return -1;
    carquet_schema_free(schema);
    return 0;
}

static void* reader_thread(void* arg) {
    (void)arg;
    carquet_error_t err = CARQUET_ERROR_INIT;
    carquet_reader_t* r = carquet_reader_open(g_path, NULL, &err);
    if (!r) { g_failed_reads++; return NULL; }
    carquet_column_reader_t* cr = carquet_reader_get_column(r, 0, 0, &err);
    if (cr) {
        int64_t* buf = malloc(sizeof(int64_t) * NROWS);
        int64_t total = 0, got;
        while (carquet_column_has_next(cr) &&
               (got = carquet_column_read_batch(cr, buf, NROWS, NULL, NULL)) > 0) total += got;
        if (total != NROWS) g_failed_reads++;
        free(buf);
        carquet_column_reader_free(cr);
    } else g_failed_reads++;
    carquet_reader_close(r);
    return NULL;
}

static size_t heap_in_use_after(int nthreads) {
    for (int i = 0; i < nthreads; i++) {
        pthread_t t;
        pthread_create(&t, NULL, reader_thread, NULL);
        pthread_join(t, NULL);
    }
    struct mallinfo2 mi = mallinfo2();
    return mi.uordblks + mi.hblkhd;
}

static int run(const char* name, carquet_compression_t codec, const char* path) {
    g_path = path; g_codec = (int)codec;
    if (write_file(path, codec) != 0) { printf("[%s] could not write file\n", name); return 2; }
    (void)heap_in_use_after(2);                       /* warm up one-time allocations */
    size_t base = heap_in_use_after(0);
    size_t after10 = heap_in_use_after(10);
    size_t after60 = heap_in_use_after(50);           /* 60 threads in total */
    long per_thread = ((long)after60 - (long)base) / 60;
    printf("[%s] heap in use: baseline %zu, after 10 threads %zu, after 60 threads %zu  => %ld bytes per exited thread\n",
           name, base, after10, after60, per_thread);
    return per_thread > 32 * 1024;
}

int main(void) {
    setvbuf(stdout, NULL, _IONBF, 0);
    (void)carquet_init();
    int bad_snappy = run("SNAPPY (control)", CARQUET_COMPRESSION_SNAPPY, "/tmp/wt5/C04/_finding/4/snappy.parquet");
    int bad_zstd = run("ZSTD", CARQUET_COMPRESSION_ZSTD, "/tmp/wt5/C04/_finding/4/zstd.parquet");
    if (g_failed_reads) { printf("unexpected: %d reads failed\n", g_failed_reads); return 2; }
    int bad = (bad_snappy == 1) || (bad_zstd == 1);
    printf(bad ? "RESULT: property violated (memory is not released on close / thread exit)\n"
               : "RESULT: property holds\n");
    return bad;
}
