#!/bin/sh
# Finding 4: builds the unchanged library (plain and ASan), builds the demo, runs it.
# Exit status: 0 = property holds, non-zero = violated.
set -e
W=/tmp/wt5/C04
cd "$W"
cmake -G Ninja -B _build >/dev/null
cmake --build _build --target carquet >/dev/null
cd "$W/_finding/4"
gcc -g -O1 -Wno-unused-result -I"$W/include" -o demo demo.c \
    "$W/_build/libcarquet.a" -lzstd -lz -lm -fopenmp -lpthread
set +e
./demo
rc=$?
set -e

echo "---- same program under AddressSanitizer/LeakSanitizer ----"
cd "$W"
cmake -G Ninja -B _build_asan -DCMAKE_C_FLAGS="-fsanitize=address,undefined -g -O1" \
      -DCMAKE_EXE_LINKER_FLAGS="-fsanitize=address,undefined" >/dev/null
cmake --build _build_asan --target carquet >/dev/null
cd "$W/_finding/4"
gcc -g -O1 -Wno-unused-result -fsanitize=address,undefined -I"$W/include" -o demo_asan demo.c \
    "$W/_build_asan/libcarquet.a" -lzstd -lz -lm -fopenmp -lpthread
set +e
./demo_asan 2>&1 | grep -v "^\[" | grep -v "^RESULT" | head -12
lrc=$?
set -e
[ $rc -ne 0 ] && exit $rc
exit 0
