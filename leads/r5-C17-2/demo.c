/*
 * C17 finding 2: a schema element annotated with converted_type only (no
 * logicalType field) - what parquet-mr before 1.11, Impala, Spark 2.x, Hive and
 * old parquet-cpp/fastparquet write - is reported as having NO logical type.
 *
 * Two hand-built, spec-conforming files with the same schema
 *
 *   message schema {
 *     optional binary name (UTF8);
 *     required int32  price (DECIMAL(9,2));
 *     required int64  ts (TIMESTAMP_MICROS);
 *     required int32  u8 (UINT_8);
 *     optional group  tags (LIST) { repeated group list { optional binary element (UTF8); } }
 *   }
 *
 * legacy.parquet : annotations as converted_type (+ scale/precision) only
 * modern.parquet : the same plus the equivalent logicalType (control)
 *
 * exit 0: the accessor returns what the file states for both; 1: violated.
 */
#include <carquet/carquet.h>
#include "pq.h"

typedef struct { int elem; int id; int a, b; const char* what; } want_t;

static int check(const char* path, const want_t* w, int nw) {
    carquet_error_t err = CARQUET_ERROR_INIT;
    carquet_reader_t* r = carquet_reader_open(path, NULL, &err);
    if (!r) { printf("  open failed: %s\n", err.message); return 1; }
    const carquet_schema_t* s = carquet_reader_schema(r);
    int bad = 0;
    for (int i = 0; i < nw; i++) {
        const carquet_schema_node_t* n = carquet_schema_get_element(s, w[i].elem);
        const carquet_logical_type_t* lt = carquet_schema_node_logical_type(n);
        printf("  %-8s file states %-22s -> accessor: ", carquet_schema_node_name(n), w[i].what);
        if (!lt) { printf("NULL (no logical type)   WRONG\n"); bad = 1; continue; }
        int ok = (int)lt->id == w[i].id;
        if (ok && lt->id == CARQUET_LOGICAL_DECIMAL)
            ok = lt->params.decimal.precision == w[i].a && lt->params.decimal.scale == w[i].b;
        if (ok && lt->id == CARQUET_LOGICAL_TIMESTAMP)
            ok = (int)lt->params.timestamp.unit == w[i].a && lt->params.timestamp.is_adjusted_to_utc == (w[i].b != 0);
        if (ok && lt->id == CARQUET_LOGICAL_INTEGER)
            ok = lt->params.integer.bit_width == w[i].a && lt->params.integer.is_signed == (w[i].b != 0);
        printf("id=%d %s\n", (int)lt->id, ok ? "ok" : "WRONG");
        if (!ok) bad = 1;
    }
    carquet_reader_close(r);
    return bad;
}

int main(void) {
    /* converted_type numbers: UTF8=0 LIST=3 DECIMAL=5 TIMESTAMP_MICROS=10 UINT_8=11 */
    pq_elem legacy[] = {
        PQ_ROOT(5),
        { .name = "name",  .has_type = 1, .type = 6, .has_rep = 1, .rep = 1, .has_conv = 1, .conv = 0 },
        { .name = "price", .has_type = 1, .type = 1, .has_rep = 1, .rep = 0, .has_conv = 1, .conv = 5, .scale = 2, .precision = 9 },
        { .name = "ts",    .has_type = 1, .type = 2, .has_rep = 1, .rep = 0, .has_conv = 1, .conv = 10 },
        { .name = "u8",    .has_type = 1, .type = 1, .has_rep = 1, .rep = 0, .has_conv = 1, .conv = 11 },
        { .name = "tags",  .has_rep = 1, .rep = 1, .has_nc = 1, .nc = 1, .has_conv = 1, .conv = 3 },
          PQ_GROUP("list", 2, 1),
            { .name = "element", .has_type = 1, .type = 6, .has_rep = 1, .rep = 1, .has_conv = 1, .conv = 0 },
    };
    pq_elem modern[8];
    memcpy(modern, legacy, sizeof legacy);
    modern[1].lt = LT_STRING;
    modern[2].lt = LT_DECIMAL;   modern[2].lt_a = 2;  modern[2].lt_b = 9;    /* scale, precision */
    modern[3].lt = LT_TIMESTAMP; modern[3].lt_a = 1;  modern[3].lt_b = 2;    /* utc, MICROS */
    modern[4].lt = LT_INTEGER;   modern[4].lt_a = 8;  modern[4].lt_b = 0;    /* 8 bits unsigned */
    modern[5].lt = LT_LIST;
    modern[7].lt = LT_STRING;

    const want_t want[] = {
        { 1, CARQUET_LOGICAL_STRING,    0, 0, "UTF8 / STRING" },
        { 2, CARQUET_LOGICAL_DECIMAL,   9, 2, "DECIMAL(9,2)" },
        { 3, CARQUET_LOGICAL_TIMESTAMP, CARQUET_TIME_UNIT_MICROS, 1, "TIMESTAMP_MICROS" },
        { 4, CARQUET_LOGICAL_INTEGER,   8, 0, "UINT_8" },
        { 5, CARQUET_LOGICAL_LIST,      0, 0, "LIST" },
        { 7, CARQUET_LOGICAL_STRING,    0, 0, "UTF8 / STRING" },
    };

    const char* p_modern = "/tmp/c17_finding2_modern.parquet";
    const char* p_legacy = "/tmp/c17_finding2_legacy.parquet";
    pq_write_file(p_modern, modern, 8, NULL, 0, 0, NULL, 0);
    pq_write_file(p_legacy, legacy, 8, NULL, 0, 0, NULL, 0);

    printf("control: converted_type + logicalType\n");
    int c = check(p_modern, want, 6);
    printf("legacy: converted_type only\n");
    int l = check(p_legacy, want, 6);
    remove(p_modern); remove(p_legacy);
    if (c) printf("control failed - demo invalid\n");
    printf(l ? "VIOLATION: annotations stated by the file are not reported\n" : "ok\n");
    return (c || l) ? 1 : 0;
}
