/*
 * C19 finding 3: carquet_writer_write_batch() is not failure-atomic.  When one
 * allocation fails inside it, it returns an error but leaves part of the batch
 * (its definition levels, its value count, or even the whole batch) in the
 * writer.  The writer stays usable, so the application does what the error code
 * suggests - it calls write_batch again with the same batch (out of memory is
 * a transient condition) - every later call succeeds, carquet_writer_close()
 * returns CARQUET_OK, and the file does not contain the intended table.
 *
 * Table: 60 rows, columns a INT32 REQUIRED, b INT64 OPTIONAL (every 4th row
 * NULL), s BYTE_ARRAY OPTIONAL (every 5th row NULL); written as 3 batches of
 * 20 rows per column, one row group; page_size 64 so that pages are flushed
 * from inside write_batch as well.
 * For every k the k-th allocation request of the scenario
 *     writer_create, write_batch x9 (a failed call is repeated once), close
 * fails.  Property: a call returns an error, or reports success with the effect
 * of the fault-free run; in particular, when close() reports success the file
 * must read back to the intended table.
 *
 * Exit 0 = property holds, 1 = violated.
 */
#include <carquet/carquet.h>
#include "fi.h"
#include <stdint.h>
#include <stdbool.h>
#include <unistd.h>

#define ROWS 60
#define CHUNK 20
static const char* PATH = "/tmp/c19_f3.parquet";

static int null_b(int r) { return r % 4 == 0; }
static int null_s(int r) { return r % 5 == 0; }
static int64_t val_b(int r) { return 1000000007LL * r; }
static int len_s(int r) { return 1 + r % 7; }
static char chr_s(int r, int i) { return (char)('a' + (r + i) % 26); }

/* 0: every call (possibly after one repetition) and close succeeded; 1: gave up with an error */
static int write_table(int* repeated) {
    carquet_error_t err = CARQUET_ERROR_INIT;
    *repeated = 0;
    carquet_schema_t* s = carquet_schema_create(&err);
    if (!s) return 1;
    if (carquet_schema_add_column(s, "a", CARQUET_PHYSICAL_INT32, NULL, CARQUET_REPETITION_REQUIRED, 0) != CARQUET_OK ||
        carquet_schema_add_column(s, "b", CARQUET_PHYSICAL_INT64, NULL, CARQUET_REPETITION_OPTIONAL, 0) != CARQUET_OK ||
        carquet_schema_add_column(s, "s", CARQUET_PHYSICAL_BYTE_ARRAY, NULL, CARQUET_REPETITION_OPTIONAL, 0) != CARQUET_OK) {
        carquet_schema_free(s); return 1;
    }
    carquet_writer_options_t o; carquet_writer_options_init(&o);
    o.page_size = 64;
    carquet_writer_t* w = carquet_writer_create(PATH, s, &o, &err);
    if (!w) { carquet_schema_free(s); return 1; }

    int rc = 0;
    for (int col = 0; col < 3 && !rc; col++) {
        for (int r0 = 0; r0 < ROWS && !rc; r0 += CHUNK) {
            int32_t va[CHUNK]; int64_t vb[CHUNK]; carquet_byte_array_t vs[CHUNK];
            static char pool[CHUNK * 8];
            int16_t def[CHUNK]; int nn = 0, used = 0;
            const void* values = va; const int16_t* defs = NULL;
            for (int i = 0; i < CHUNK; i++) {
                int r = r0 + i;
                if (col == 0) { va[i] = r * 3; }
                else if (col == 1) { def[i] = !null_b(r); if (!null_b(r)) vb[nn++] = val_b(r); values = vb; defs = def; }
                else { def[i] = !null_s(r);
                       if (!null_s(r)) { vs[nn].data = (uint8_t*)pool + used; vs[nn].length = len_s(r);
                                         for (int j = 0; j < len_s(r); j++) pool[used++] = chr_s(r, j);
                                         nn++; }
                       values = vs; defs = def; }
            }
            carquet_status_t st = carquet_writer_write_batch(w, col, values, CHUNK, defs, NULL);
            if (st != CARQUET_OK) {
                /* the call failed: nothing of it should be in the writer.  Try once more. */
                (*repeated)++;
                st = carquet_writer_write_batch(w, col, values, CHUNK, defs, NULL);
                if (st != CARQUET_OK) rc = 1;
            }
        }
    }
    if (rc) { carquet_writer_abort(w); carquet_schema_free(s); return 1; }
    carquet_status_t st = carquet_writer_close(w);
    carquet_schema_free(s);
    return st == CARQUET_OK ? 0 : 1;
}

/* fault-free read back; prints the first difference, returns 0 if the file is the intended table */
static int verify(char* why, size_t whylen) {
    carquet_error_t err = CARQUET_ERROR_INIT;
    carquet_reader_t* rd = carquet_reader_open(PATH, NULL, &err);
    if (!rd) { snprintf(why, whylen, "file cannot be opened: %s", err.message); return 1; }
    int bad = 0;
    if (carquet_reader_num_rows(rd) != ROWS || carquet_reader_num_row_groups(rd) != 1) {
        snprintf(why, whylen, "file has %lld rows in %d row groups (expected %d in 1)",
                 (long long)carquet_reader_num_rows(rd), carquet_reader_num_row_groups(rd), ROWS);
        bad = 1;
    }
    for (int col = 0; col < 3 && !bad; col++) {
        carquet_column_reader_t* cr = carquet_reader_get_column(rd, 0, col, &err);
        if (!cr) { snprintf(why, whylen, "column %d cannot be opened: %s", col, err.message); bad = 1; break; }
        if (carquet_column_remaining(cr) != ROWS) {
            snprintf(why, whylen, "column %d declares %lld values (expected %d)", col,
                     (long long)carquet_column_remaining(cr), ROWS);
            bad = 1;
        }
        union { int32_t a[4 * ROWS]; int64_t b[4 * ROWS]; carquet_byte_array_t s[4 * ROWS]; } v;
        int16_t def[4 * ROWS];
        int r = 0;
        while (!bad) {
            int64_t got = carquet_column_read_batch(cr, &v, 4 * ROWS, def, NULL);
            if (got < 0) { snprintf(why, whylen, "column %d: read error after %d rows", col, r); bad = 1; break; }
            if (got == 0) break;
            int nn = 0;
            for (int i = 0; i < got && !bad; i++, r++) {
                if (r >= ROWS) { snprintf(why, whylen, "column %d delivers more than %d rows", col, ROWS); bad = 1; break; }
                int en = col == 0 ? 0 : col == 1 ? null_b(r) : null_s(r);
                int gn = col == 0 ? 0 : def[i] == 0;
                if (en != gn) { snprintf(why, whylen, "column %d row %d: null=%d expected %d", col, r, gn, en); bad = 1; break; }
                if (en) continue;
                if (col == 0 && v.a[nn] != r * 3) { snprintf(why, whylen, "column a row %d: %d expected %d", r, v.a[nn], r * 3); bad = 1; }
                if (col == 1 && v.b[nn] != val_b(r)) { snprintf(why, whylen, "column b row %d: %lld expected %lld", r, (long long)v.b[nn], (long long)val_b(r)); bad = 1; }
                if (col == 2) {
                    if (v.s[nn].length != len_s(r)) { snprintf(why, whylen, "column s row %d: length %d expected %d", r, v.s[nn].length, len_s(r)); bad = 1; }
                    else for (int j = 0; j < len_s(r); j++) if ((char)v.s[nn].data[j] != chr_s(r, j)) { snprintf(why, whylen, "column s row %d: wrong bytes", r); bad = 1; break; }
                }
                nn++;
            }
        }
        if (!bad && r != ROWS) { snprintf(why, whylen, "column %d delivers %d rows (expected %d)", col, r, ROWS); bad = 1; }
        carquet_column_reader_free(cr);
    }
    carquet_reader_close(rd);
    return bad;
}

int main(void) {
    char why[256]; int rep;
    if (write_table(&rep) != 0 || verify(why, sizeof why) != 0) { printf("fault-free run failed\n"); return 3; }
    int bad = 0, points = 0;
    for (long k = 1; k < 10000; k++) {
        long live0 = fi_live;
        unlink(PATH);
        fi_arm(k);
        int r = write_table(&rep);
        int fired = fi_fired;
        fi_disarm();
        if (fi_live != live0) { printf("k=%ld: leak\n", k); bad++; }
        if (!fired) { points = (int)(k - 1); break; }
        if (r == 0 && verify(why, sizeof why) != 0) {
            printf("k=%ld: %d write_batch failed, succeeded when repeated; all other calls and close() "
                   "returned CARQUET_OK; file: %s\n", k, rep, why);
            bad++;
        }
    }
    unlink(PATH);
    printf("%d allocation points, %d of them end in a file that is not the intended table although close() reported success\n",
           points, bad);
    printf(bad ? "PROPERTY VIOLATED\n" : "property holds\n");
    return bad ? 1 : 0;
}
