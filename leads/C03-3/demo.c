/*
 * C03 finding 3: BYTE_ARRAY values of a row batch die with the NEXT batch when the
 * file is read with stdio, but live as long as the reader when it is read with
 * use_mmap / open_buffer.
 *
 * carquet.h promises "Batch data pointers are valid until carquet_row_batch_free()
 * is called" / "The pointers remain valid until the batch is freed".  A consumer that
 * keeps batch k while it fetches batch k+1 (double buffering, collecting the batches of
 * a row group, handing batches to worker threads ...) therefore sees
 *    - mmap / open_buffer (uncompressed PLAIN, the zero-copy case): correct strings
 *    - stdio: the carquet_byte_array_t.data pointers of the earlier batch point into page
 *      buffers the column reader has already free()d and reused -> other rows' bytes
 *      (heap-use-after-free under AddressSanitizer).
 *
 * The file is written with the library (valid).  Exit 0 = every mode returns the
 * expected strings for all retained batches, 1 = violated.
 */
#include <carquet/carquet.h>
#include <stdio.h>
#include <stdlib.h>
#include <string.h>
#include <stdint.h>

#define ROWS 600
static const char* PATH = "finding3.parquet";

static void expected(int64_t row, char* out) { snprintf(out, 32, "row-%06lld-payload", (long long)row); }

static int write_file(void) {
    carquet_error_t err = CARQUET_ERROR_INIT;
    carquet_schema_t* s = carquet_schema_create(&err);
    if (!s) return -1;
    if (carquet_schema_add_column(s, "id", CARQUET_PHYSICAL_INT32, NULL, CARQUET_REPETITION_REQUIRED, 0) ||
        carquet_schema_add_column(s, "name", CARQUET_PHYSICAL_BYTE_ARRAY, NULL, CARQUET_REPETITION_REQUIRED, 0)) return -1;
    carquet_writer_options_t wo; carquet_writer_options_init(&wo);
    wo.compression = CARQUET_COMPRESSION_UNCOMPRESSED;
    wo.page_size = 512;
    carquet_writer_t* w = carquet_writer_create(PATH, s, &wo, &err);
    if (!w) return -1;
    for (int base = 0; base < ROWS; base += 50) {
        int32_t id[50]; carquet_byte_array_t name[50]; char strs[50][32];
        for (int i = 0; i < 50; i++) { id[i] = base + i; expected(base + i, strs[i]); name[i].data = (uint8_t*)strs[i]; name[i].length = (int32_t)strlen(strs[i]); }
        if (carquet_writer_write_batch(w, 0, id, 50, NULL, NULL) || carquet_writer_write_batch(w, 1, name, 50, NULL, NULL)) return -1;
    }
    if (carquet_writer_close(w)) return -1;
    carquet_schema_free(s);
    return 0;
}

int main(void) {
    if (write_file() != 0) { printf("could not write the test file\n"); return 2; }
    FILE* f = fopen(PATH, "rb"); fseek(f, 0, SEEK_END); long sz = ftell(f); fseek(f, 0, SEEK_SET);
    uint8_t* bytes = malloc((size_t)sz); if (fread(bytes, 1, (size_t)sz, f) != (size_t)sz) return 2; fclose(f);

    static const char* mname[] = { "fread ", "mmap  ", "buffer" };
    long wrong[3] = {0}, checked[3] = {0};
    for (int mode = 2; mode >= 0; mode--) {            /* stdio last: under ASan it aborts there */
        carquet_error_t err = CARQUET_ERROR_INIT;
        carquet_reader_options_t ro; carquet_reader_options_init(&ro); ro.use_mmap = (mode == 1);
        carquet_reader_t* r = mode == 2 ? carquet_reader_open_buffer(bytes, (size_t)sz, &ro, &err) : carquet_reader_open(PATH, &ro, &err);
        if (!r) { printf("open failed\n"); return 2; }
        carquet_batch_reader_config_t cfg; carquet_batch_reader_config_init(&cfg); cfg.batch_size = 100;
        carquet_batch_reader_t* br = carquet_batch_reader_create(r, &cfg, &err);
        if (!br) return 2;

        carquet_row_batch_t* held[16]; int nheld = 0;
        for (;;) {                                      /* fetch every batch, free none yet */
            carquet_row_batch_t* b = NULL;
            carquet_status_t st = carquet_batch_reader_next(br, &b);
            if (st != CARQUET_OK || !b) break;
            if (nheld < 16) held[nheld++] = b; else carquet_row_batch_free(b);
        }
        /* the batch reader and the file reader are still open; all batches are still un-freed */
        char first_bad[128] = "";
        for (int k = 0; k < nheld; k++) {
            const void* ids; const void* names; const uint8_t* nb; int64_t n0, n1;
            if (carquet_row_batch_column(held[k], 0, &ids, &nb, &n0) != CARQUET_OK ||
                carquet_row_batch_column(held[k], 1, &names, &nb, &n1) != CARQUET_OK) return 2;
            const carquet_byte_array_t* ba = names;
            for (int64_t i = 0; i < n1; i++) {
                int32_t id; memcpy(&id, (const uint8_t*)ids + 4 * i, 4);
                char exp[32]; expected(id, exp);
                checked[mode]++;
                if (ba[i].length != (int32_t)strlen(exp) || memcmp(ba[i].data, exp, strlen(exp)) != 0) {
                    if (!wrong[mode]) {
                        char got[32]; int len = ba[i].length < 31 ? ba[i].length : 31; if (len < 0) len = 0;
                        for (int j = 0; j < len; j++) got[j] = (ba[i].data[j] >= 32 && ba[i].data[j] < 127) ? (char)ba[i].data[j] : '.';
                        got[len] = 0;
                        snprintf(first_bad, sizeof first_bad, "batch %d row %lld: id=%d expects \"%s\" but name=\"%s\"", k, (long long)i, id, exp, got);
                    }
                    wrong[mode]++;
                }
            }
        }
        for (int k = 0; k < nheld; k++) carquet_row_batch_free(held[k]);
        carquet_batch_reader_free(br);
        carquet_reader_close(r);
        printf("%s: %d batches kept alive, %ld strings checked, %ld wrong%s%s\n", mname[mode], nheld, checked[mode], wrong[mode],
               wrong[mode] ? "\n        first: " : "", first_bad);
    }
    int violated = wrong[0] || wrong[1] || wrong[2] || checked[0] != ROWS || checked[1] != ROWS || checked[2] != ROWS;
    free(bytes); remove(PATH);
    printf(violated ? "RESULT: property violated (un-freed batches differ between the read modes)\n" : "RESULT: property holds\n");
    return violated;
}
