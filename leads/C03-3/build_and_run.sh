#!/bin/sh
# Builds the library in the worktree as it is (plain and ASan/UBSan), builds the demo
# against both, runs both.  The plain run exits 1 on wrong strings; the sanitizer run
# aborts with heap-use-after-free inside the demo's memcmp on library-owned memory.
set -e
HERE=$(cd "$(dirname "$0")" && pwd)
ROOT=$(cd "$HERE/../.." && pwd)
cd "$ROOT" && cmake -G Ninja -B _build >/dev/null && cmake --build _build --target carquet >/dev/null
cmake -G Ninja -B _build_asan -DCMAKE_C_FLAGS="-fsanitize=address,undefined -g -O1" \
      -DCMAKE_EXE_LINKER_FLAGS="-fsanitize=address,undefined" >/dev/null && cmake --build _build_asan --target carquet >/dev/null
cd "$HERE"
cc -O1 -g -I"$ROOT/include" demo.c "$ROOT/_build/libcarquet.a" -lzstd -lz -lm -fopenmp -lpthread -o demo 2>/dev/null
cc -O1 -g -fsanitize=address,undefined -I"$ROOT/include" demo.c "$ROOT/_build_asan/libcarquet.a" -lzstd -lz -lm -fopenmp -lpthread -o demo_asan 2>/dev/null
set +e
echo "=== plain build ==="
OMP_NUM_THREADS=2 OMP_WAIT_POLICY=passive ./demo
rc=$?
echo "exit status: $rc"
echo "=== AddressSanitizer build ==="
OMP_NUM_THREADS=2 OMP_WAIT_POLICY=passive ASAN_OPTIONS=detect_leaks=0 ./demo_asan 2>&1 | head -24
rc2=$?
[ $rc -ne 0 ] && exit $rc
exit $rc2
