/*
 * C19 finding 1: carquet_schema_add_column()/carquet_schema_add_group() ignore a
 * failed arena allocation for the column name and report success.
 *
 * Scenario "schema build": a wide table (NCOLS columns with 64-character
 * names, i.e. more name bytes than the first 64 KiB arena block holds).  For
 * every k the k-th allocation request made while building the schema fails.
 * Property: each call returns an error, or - if it reports success - the schema
 * is the one of the fault-free run (every column carries its name).
 *
 * Build: see build_and_run.sh (malloc/calloc/realloc/strdup/free wrapped at
 * link time).  Exit 0 = property holds, 1 = violated.
 */
#include <carquet/carquet.h>
#include "fi.h"
#include <stdint.h>

#define NCOLS 1100

static void colname(int i, char* out) {           /* 64 characters + NUL */
    snprintf(out, 80, "column_%05d_________________________________________________end", i);
}

int main(void) {
    int bad = 0;
    char name[80];

    for (long k = 1; k < 100; k++) {
        long live0 = fi_live;
        carquet_error_t err = CARQUET_ERROR_INIT;
        int failed_call = 0;

        fi_arm(k);
        carquet_schema_t* schema = carquet_schema_create(&err);
        if (!schema) {
            failed_call = 1;
        } else {
            for (int i = 0; i < NCOLS; i++) {
                colname(i, name);
                carquet_status_t st = carquet_schema_add_column(
                    schema, name, CARQUET_PHYSICAL_INT32, NULL,
                    CARQUET_REPETITION_REQUIRED, 0);
                if (st != CARQUET_OK) { failed_call = 1; break; }
            }
        }
        int fired = fi_fired;
        fi_disarm();

        if (schema && !failed_call) {
            /* every call reported success: the schema must be the intended one */
            if (carquet_schema_num_columns(schema) != NCOLS) {
                printf("k=%ld: success reported but %d columns\n", k,
                       carquet_schema_num_columns(schema));
                bad++;
            }
            for (int i = 0; i < NCOLS; i++) {
                colname(i, name);
                const carquet_schema_node_t* node = carquet_schema_get_element(schema, i + 1);
                const char* got = node ? carquet_schema_node_name(node) : NULL;
                if (!got || strcmp(got, name) != 0) {
                    printf("k=%ld: every carquet_schema_add_column() returned CARQUET_OK, but "
                           "column %d has name %s (expected \"%s\"); "
                           "carquet_schema_find_column() -> %d\n",
                           k, i, got ? got : "NULL", name,
                           carquet_schema_find_column(schema, name));
                    bad++;
                    break;
                }
            }
            if (bad) {
                /* what an application does next: hand the schema to a writer */
                printf("k=%ld: passing this schema to carquet_writer_create() ...\n", k);
                fflush(stdout);
                carquet_writer_t* w = carquet_writer_create("/tmp/c19_f1.parquet", schema, NULL, &err);
                printf("k=%ld: carquet_writer_create returned %p\n", k, (void*)w);
                if (w) carquet_writer_abort(w);
            }
        }
        if (schema) carquet_schema_free(schema);
        if (fi_live != live0) { printf("k=%ld: leak (%ld blocks)\n", k, fi_live - live0); bad++; }
        if (!fired) { printf("schema build makes %ld allocation requests\n", k - 1); break; }
        if (bad) break;
    }
    printf(bad ? "PROPERTY VIOLATED\n" : "property holds\n");
    return bad ? 1 : 0;
}
