/* Finding 3: min/max statistics that are NaN (written by older parquet-mr,
 * Impala and parquet-cpp whenever the first value of a FLOAT/DOUBLE chunk was
 * NaN - PARQUET-1222 / PARQUET-1225 / PARQUET-1246) are used for pruning.
 *
 * parquet.thrift (ColumnOrder): "If the min is a NaN, it should be ignored.
 * If the max is a NaN, it should be ignored."  carquet's comparators answer
 * "equal" for any comparison with NaN, so for x < v and x > v the row group is
 * ruled out although it holds matching rows.
 *
 * exit 0: property holds; exit 1: violated. */
#include "pqfile.h"
#include <carquet/carquet.h>
#include <math.h>

static int run_case(int physical, int deprecated_fields) {
    const double vals[4] = { NAN, 1.0, 2.0, 3.0 };
    buf_t f = { 0 }; b_put(&f, "PAR1", 4);
    buf_t body = { 0 }; uint8_t nanbytes[8]; size_t w = physical == PT_FLOAT ? 4 : 8;
    for (int i = 0; i < 4; i++) {
        if (physical == PT_FLOAT) { float x = (float)vals[i]; b_put(&body, &x, 4); if (i == 0) memcpy(nanbytes, &x, 4); }
        else { double x = vals[i]; b_put(&body, &x, 8); if (i == 0) memcpy(nanbytes, &x, 8); }
    }
    page_opts_t po; memset(&po, 0, sizeof po);
    chunk_t k; memset(&k, 0, sizeof k);
    k.type = physical; k.codec = CODEC_NONE; k.num_values = 4; k.data_page_offset = (int64_t)f.n;
    k.path[0] = "x"; k.path_len = 1; k.encodings[0] = ENC_PLAIN; k.n_enc = 1;
    /* what the old writers stored: min = max = the first value, every later comparison with it being false */
    k.stats = deprecated_fields ? 1 : 2; k.smin = nanbytes; k.smin_n = w; k.smax = nanbytes; k.smax_n = w;
    size_t sz = pq_put_page(&f, PAGE_DATA, 4, ENC_PLAIN, body.p, body.n, &po);
    k.total_compressed = k.total_uncompressed = (int64_t)sz;
    schema_el_t schema[2] = { { "schema", -1, 0, -1, 1, -1 }, { "x", physical, 0, REP_REQUIRED, 0, -1 } };
    int64_t rows = 4; footer_opts_t fo; memset(&fo, 0, sizeof fo);
    fo.created_by = "parquet-mr version 1.8.1 (build 4aba4dae7bb0d4edbcf7923ae1339f28fd3f7fcf)";
    pq_put_footer(&f, schema, 2, 4, &k, 1, 1, &rows, &fo);

    carquet_error_t err = CARQUET_ERROR_INIT;
    carquet_reader_t* rd = carquet_reader_open_buffer(f.p, f.n, NULL, &err);
    if (!rd) { printf("open failed: %s\n", err.message); exit(2); }
    /* the rows are there */
    carquet_column_reader_t* col = carquet_reader_get_column(rd, 0, 0, &err);
    uint8_t out[32]; int64_t got = col ? carquet_column_read_batch(col, out, 4, NULL, NULL) : -1;
    if (col) carquet_column_reader_free(col);
    if (got != 4 || memcmp(out, body.p, body.n)) { printf("setup problem: values not read back\n"); exit(2); }

    int bad = 0;
    float pf = 2.5f; double pd = 2.5; const void* probe = physical == PT_FLOAT ? (const void*)&pf : (const void*)&pd;
    static const struct { carquet_compare_op_t op; const char* txt; } q[] = {
        { CARQUET_COMPARE_LT, "x < 2.5 (rows 1.0, 2.0 match)" }, { CARQUET_COMPARE_GT, "x > 2.5 (row 3.0 matches)" },
        { CARQUET_COMPARE_LE, "x <= 2.5" }, { CARQUET_COMPARE_GE, "x >= 2.5" } };
    for (int i = 0; i < 4; i++) {
        bool might = true;
        carquet_status_t s = carquet_reader_row_group_matches(rd, 0, 0, q[i].op, probe, (int32_t)w, &might);
        printf("  %-6s %-12s %-32s -> might_match = %s\n", physical == PT_FLOAT ? "FLOAT" : "DOUBLE",
               deprecated_fields ? "min/max" : "min_value/..", q[i].txt, s != CARQUET_OK ? "error" : might ? "true" : "FALSE");
        if (s == CARQUET_OK && !might) bad = 1;
    }
    int32_t idx[2];
    if (carquet_reader_filter_row_groups(rd, 0, CARQUET_COMPARE_LT, probe, (int32_t)w, idx, 2) != 1) bad = 1;
    carquet_reader_close(rd); b_free(&f); b_free(&body);
    return bad;
}

int main(void) {
    carquet_status_t ist = carquet_init(); (void)ist;
    int bad = 0;
    printf("column values: NaN, 1.0, 2.0, 3.0; statistics in the footer: min = NaN, max = NaN\n");
    bad |= run_case(PT_FLOAT, 1);
    bad |= run_case(PT_DOUBLE, 1);
    bad |= run_case(PT_DOUBLE, 0);
    printf(bad ? "RESULT: property violated (row group with matching rows is pruned)\n" : "RESULT: ok\n");
    return bad;
}
