/*
 * Page-level might-match helper (carquet_column_index_page_might_match) must
 * never answer "no" for a page that holds a value inside the queried range.
 *
 * The ColumnIndex min_values/max_values are, as the Parquet format defines
 * them, the PLAIN encoding of the bound: little-endian for INT32/INT64,
 * IEEE-754 little-endian for FLOAT/DOUBLE.
 *
 * For every page (a handful of values), its exact min/max is registered with
 * the column index builder and every closed query range [lo, hi] drawn from a
 * small probe set is evaluated against a brute-force ground truth.
 *
 * exit 0: no false negative, exit 1: at least one false negative.
 */
#include <carquet/carquet.h>
#include <stdio.h>
#include <stdint.h>
#include <string.h>

typedef struct carquet_column_index_builder carquet_column_index_builder_t;
carquet_column_index_builder_t* carquet_column_index_builder_create(
    carquet_physical_type_t type, int32_t type_length);
void carquet_column_index_builder_destroy(carquet_column_index_builder_t* b);
carquet_status_t carquet_column_index_add_page(
    carquet_column_index_builder_t* b, int64_t null_count,
    const void* min_value, int32_t min_value_len,
    const void* max_value, int32_t max_value_len, bool is_null_page);
carquet_status_t carquet_column_index_page_might_match(
    const carquet_column_index_builder_t* b, int32_t page_idx,
    const void* min_value, const void* max_value, int32_t value_len,
    bool* might_match);

static int failures = 0;

static void check_i32(void) {
    static const int32_t pages[][3] = {
        {1, 150, 300}, {-5, 0, 7}, {255, 256, 257}, {-70000, -3, -1}, {65536, 70000, 1 << 24}
    };
    static const int32_t probes[] = {
        INT32_MIN, -70001, -70000, -256, -6, -5, -4, -1, 0, 1, 2, 7, 8, 150, 255, 256, 257,
        299, 300, 301, 65535, 65536, 65537, 1 << 24, (1 << 24) + 1, INT32_MAX
    };
    const int np = (int)(sizeof(pages) / sizeof(pages[0]));
    const int nq = (int)(sizeof(probes) / sizeof(probes[0]));

    carquet_column_index_builder_t* b =
        carquet_column_index_builder_create(CARQUET_PHYSICAL_INT32, 0);
    for (int p = 0; p < np; p++) {
        int32_t mn = pages[p][0], mx = pages[p][0];
        for (int k = 1; k < 3; k++) {
            if (pages[p][k] < mn) mn = pages[p][k];
            if (pages[p][k] > mx) mx = pages[p][k];
        }
        carquet_column_index_add_page(b, 0, &mn, 4, &mx, 4, false);
    }
    for (int p = 0; p < np; p++) {
        for (int i = 0; i < nq; i++) for (int j = i; j < nq; j++) {
            int32_t lo = probes[i], hi = probes[j];
            bool truth = false;
            for (int k = 0; k < 3; k++)
                if (pages[p][k] >= lo && pages[p][k] <= hi) truth = true;
            bool mm = true;
            carquet_status_t st = carquet_column_index_page_might_match(
                b, p, &lo, &hi, 4, &mm);
            if (st == CARQUET_OK && truth && !mm) {
                if (failures < 8)
                    printf("INT32 FALSE NEGATIVE: page %d {%d,%d,%d} query [%d,%d] -> might_match=false\n",
                           p, pages[p][0], pages[p][1], pages[p][2], lo, hi);
                failures++;
            }
        }
    }
    carquet_column_index_builder_destroy(b);
}

static void check_double(void) {
    static const double pages[][2] = { {-1.5, 2.0}, {0.25, 1000.0}, {-8.0, -0.5} };
    static const double probes[] = { -100.0, -8.0, -1.5, -1.0, -0.5, 0.0, 0.25, 0.5, 1.0, 2.0, 3.0, 999.0, 1000.0, 1e9 };
    const int np = 3, nq = (int)(sizeof(probes) / sizeof(probes[0]));
    int local = 0;
    carquet_column_index_builder_t* b =
        carquet_column_index_builder_create(CARQUET_PHYSICAL_DOUBLE, 0);
    for (int p = 0; p < np; p++)
        carquet_column_index_add_page(b, 0, &pages[p][0], 8, &pages[p][1], 8, false);
    for (int p = 0; p < np; p++)
        for (int i = 0; i < nq; i++) for (int j = i; j < nq; j++) {
            double lo = probes[i], hi = probes[j];
            bool truth = (pages[p][0] >= lo && pages[p][0] <= hi) ||
                         (pages[p][1] >= lo && pages[p][1] <= hi);
            bool mm = true;
            carquet_status_t st = carquet_column_index_page_might_match(b, p, &lo, &hi, 8, &mm);
            if (st == CARQUET_OK && truth && !mm) {
                if (local < 4)
                    printf("DOUBLE FALSE NEGATIVE: page {%g,%g} query [%g,%g] -> might_match=false\n",
                           pages[p][0], pages[p][1], lo, hi);
                local++; failures++;
            }
        }
    carquet_column_index_builder_destroy(b);
}

int main(void) {
    check_i32();
    check_double();
    printf("false negatives: %d\n", failures);
    return failures ? 1 : 0;
}
