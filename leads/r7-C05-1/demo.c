/*
 * C05 demo 1: a file with more than 32768 row groups.
 *
 * 40000 row groups of one INT32 row each (a ~2.6 MB file; carquet's own limit
 * is 100000 row groups). Every writer call, carquet_writer_close included,
 * returns CARQUET_OK. The independent reader (../common/pqcheck.h) then
 * checks the file; RowGroup.ordinal is defined by parquet.thrift as the
 * "row group ordinal in the file", so it must equal the row group's index
 * whenever it is present.
 *
 * exit 0: property holds.  exit 1: the file is rejected / differs.
 */
#include <carquet/carquet.h>
#include "../common/pqcheck.h"

#define NUM_ROW_GROUPS 40000

int main(void) {
    const char* path = "/tmp/wt7/C05/_finding/1/many_row_groups.parquet";
    carquet_error_t err = CARQUET_ERROR_INIT;
    carquet_schema_t* schema = carquet_schema_create(&err);
    if (!schema) return 3;
    if (carquet_schema_add_column(schema, "x", CARQUET_PHYSICAL_INT32, NULL,
                                  CARQUET_REPETITION_REQUIRED, 0) != CARQUET_OK) return 3;
    carquet_writer_options_t opt;
    carquet_writer_options_init(&opt);
    carquet_writer_t* w = carquet_writer_create(path, schema, &opt, &err);
    if (!w) return 3;
    for (int32_t g = 0; g < NUM_ROW_GROUPS; g++) {
        int32_t v = g;
        carquet_status_t st = carquet_writer_write_batch(w, 0, &v, 1, NULL, NULL);
        if (st == CARQUET_OK) st = carquet_writer_new_row_group(w);
        if (st != CARQUET_OK) {
            /* refusing is fine: the property only speaks about files reported complete */
            printf("writer refused at row group %d with status %d - property not violated\n", g, st);
            carquet_writer_abort(w);
            return 0;
        }
    }
    carquet_status_t st = carquet_writer_close(w);
    carquet_schema_free(schema);
    if (st != CARQUET_OK) {
        printf("carquet_writer_close reported %d - property not violated\n", st);
        return 0;
    }
    printf("carquet_writer_close: CARQUET_OK (%d row groups)\n", NUM_ROW_GROUPS);

    pq_file_t f;
    if (pq_check_file(path, &f) != 0) {
        printf("independent reader REJECTS the file: %s\n", pq_errmsg);
        /* show the neighbourhood of the first bad ordinal */
        for (int64_t g = 32766; g < 32771 && g < f.n_rgs; g++)
            printf("  row group %lld: has_ordinal=%d ordinal=%d\n", (long long)g, f.rgs[g].has_ordinal, f.rgs[g].ordinal);
        return 1;
    }
    if (f.n_rgs != NUM_ROW_GROUPS || f.data[0].n_vals != NUM_ROW_GROUPS) {
        printf("table differs\n");
        return 1;
    }
    for (int32_t g = 0; g < NUM_ROW_GROUPS; g++) {
        int32_t v;
        memcpy(&v, f.data[0].vals + 4 * (size_t)g, 4);
        if (v != g) { printf("value %d differs\n", g); return 1; }
    }
    printf("independent reader accepts the file\n");
    remove(path);
    return 0;
}
