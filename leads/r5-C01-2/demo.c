/*
 * C01 demonstration: null positions read back through the batch reader.
 *
 * carquet.h (carquet_row_batch_column) and README.md specify the null bitmap
 * of a batch column as "1 bit per value, set = not null" and give the test
 *
 *     bool is_null = null_bitmap && !(null_bitmap[i / 8] & (1 << (i % 8)));
 *
 * This program writes a tiny table (one REQUIRED and one OPTIONAL INT32
 * column, 10 rows), reads it back with carquet_batch_reader_* and applies
 * exactly that documented test. Public API only.
 *
 * exit 0: the null positions that come back are the ones written;
 * exit 1: they are not.
 */
#include <carquet/carquet.h>
#include <stdbool.h>
#include <stdio.h>
#include <stdlib.h>
#include <string.h>
#include <unistd.h>

#define ROWS 10

int main(int argc, char** argv) {
    const char* path = argc > 1 ? argv[1] : "c01_bitmap.parquet";
    carquet_error_t err = CARQUET_ERROR_INIT;

    /* rows:         0  1  2  3  4  5  6  7  8  9          */
    int32_t id[ROWS]      = {0, 1, 2, 3, 4, 5, 6, 7, 8, 9};          /* REQUIRED: never null */
    int16_t def[ROWS]     = {1, 0, 1, 1, 0, 0, 1, 0, 1, 1};          /* OPTIONAL: 0 = null   */
    int32_t present[6]    = {100, 102, 103, 106, 108, 109};          /* the six non-null values */

    carquet_schema_t* schema = carquet_schema_create(&err);
    if (!schema ||
        carquet_schema_add_column(schema, "id", CARQUET_PHYSICAL_INT32, NULL, CARQUET_REPETITION_REQUIRED, 0) != CARQUET_OK ||
        carquet_schema_add_column(schema, "v", CARQUET_PHYSICAL_INT32, NULL, CARQUET_REPETITION_OPTIONAL, 0) != CARQUET_OK) return 2;
    carquet_writer_t* w = carquet_writer_create(path, schema, NULL, &err);
    if (!w) return 2;
    if (carquet_writer_write_batch(w, 0, id, ROWS, NULL, NULL) != CARQUET_OK) return 2;
    if (carquet_writer_write_batch(w, 1, present, ROWS, def, NULL) != CARQUET_OK) return 2;
    if (carquet_writer_close(w) != CARQUET_OK) return 2;

    int violations = 0;
    for (int use_mmap = 0; use_mmap < 2; use_mmap++) {
        carquet_reader_options_t ro;
        carquet_reader_options_init(&ro);
        ro.use_mmap = use_mmap;
        carquet_reader_t* r = carquet_reader_open(path, &ro, &err);
        if (!r) { printf("open failed: %s\n", err.message); return 2; }
        carquet_batch_reader_t* br = carquet_batch_reader_create(r, NULL, &err);
        if (!br) { printf("batch reader: %s\n", err.message); return 2; }

        carquet_row_batch_t* batch = NULL;
        while (carquet_batch_reader_next(br, &batch) == CARQUET_OK && batch) {
            int64_t rows = carquet_row_batch_num_rows(batch);
            for (int32_t col = 0; col < carquet_row_batch_num_columns(batch); col++) {
                const void* data; const uint8_t* null_bitmap; int64_t num_values;
                if (carquet_row_batch_column(batch, col, &data, &null_bitmap, &num_values) != CARQUET_OK) return 2;
                printf("use_mmap=%d column %d (%s): rows=%lld  written : ", use_mmap, col,
                       col == 0 ? "REQUIRED" : "OPTIONAL", (long long)rows);
                for (int64_t i = 0; i < num_values; i++) putchar((col == 0 || def[i]) ? 'v' : 'N');
                printf("\n%*sread    : ", 46, "");
                int bad = 0;
                for (int64_t i = 0; i < num_values; i++) {
                    /* the test given in carquet.h for carquet_row_batch_column */
                    bool is_null = null_bitmap && !(null_bitmap[i / 8] & (1 << (i % 8)));
                    bool was_null = (col == 1) && def[i] == 0;
                    putchar(is_null ? 'N' : 'v');
                    if (is_null != was_null) bad++;
                }
                printf("   %s\n", bad ? "<-- MISMATCH" : "ok");
                violations += bad;
            }
            carquet_row_batch_free(batch);
            batch = NULL;
        }
        carquet_batch_reader_free(br);
        carquet_reader_close(r);
    }
    carquet_schema_free(schema);
    unlink(path);
    if (violations) {
        printf("VIOLATION: %d null positions differ from the table that was written\n", violations);
        printf("RESULT: property violated\n");
        return 1;
    }
    printf("RESULT: property holds\n");
    return 0;
}
