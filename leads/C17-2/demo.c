/*
 * C17 finding 2: column lookup by name on a nested schema.
 *
 * carquet.h documents carquet_schema_find_column() as: "For nested schemas, use
 * dot-separated paths (e.g., "address.street")" with the example
 * carquet_schema_find_column(schema, "address.city").  The implementation only
 * compares the last path component of every leaf, so
 *   - every dotted path returns -1, including the documented example, and
 *   - a bare leaf name that occurs under several groups (every standard LIST
 *     column ends in "...list.element") silently resolves to the first one;
 *     the others cannot be looked up by name at all.
 * The batch reader's projection by name goes through the same function.
 *
 * The file below is hand-built, valid Parquet (footer only, no row groups):
 *
 *   message schema {
 *     optional group a (LIST) { repeated group list { optional int32 element; } }
 *     optional group b (LIST) { repeated group list { optional int64 element; } }
 *     required group address { required binary street; required binary city; }
 *     required int32 id;
 *   }
 *   leaves in depth-first order: 0 a.list.element  1 b.list.element
 *                                2 address.street  3 address.city   4 id
 *
 * Exit 0 = property holds, 1 = violated.
 */
#include <carquet/carquet.h>
#include "pq.h"

static pq_node mk(const char *name, int leaf, int type, int rep, int nch, int lt) {
    pq_node n; memset(&n, 0, sizeof n);
    n.name = name; n.is_leaf = leaf; n.type = type; n.rep = rep; n.num_children = nch;
    n.converted = -1; n.lt = lt;
    return n;
}

int main(void) {
    pq_node n[12]; int k = 0;
    n[k++] = mk("schema", 0, 0, -1, 4, 0);
    n[k++] = mk("a", 0, 0, 1, 1, LT_LIST);
    n[k++] = mk("list", 0, 0, 2, 1, 0);
    n[k++] = mk("element", 1, CARQUET_PHYSICAL_INT32, 1, 0, 0);
    n[k++] = mk("b", 0, 0, 1, 1, LT_LIST);
    n[k++] = mk("list", 0, 0, 2, 1, 0);
    n[k++] = mk("element", 1, CARQUET_PHYSICAL_INT64, 1, 0, 0);
    n[k++] = mk("address", 0, 0, 0, 2, 0);
    n[k++] = mk("street", 1, CARQUET_PHYSICAL_BYTE_ARRAY, 0, 0, LT_STRING);
    n[k++] = mk("city", 1, CARQUET_PHYSICAL_BYTE_ARRAY, 0, 0, LT_STRING);
    n[k++] = mk("id", 1, CARQUET_PHYSICAL_INT32, 0, 0, 0);

    size_t sz; uint8_t *file = pq_build_file(n, k, &sz);
    carquet_error_t err = CARQUET_ERROR_INIT;
    carquet_reader_t *rd = carquet_reader_open_buffer(file, sz, NULL, &err);
    if (!rd) { printf("open failed: %s\n", err.message); return 2; }
    const carquet_schema_t *s = carquet_reader_schema(rd);

    /* The tree itself is mapped correctly: */
    static const struct { const char *path; int elem; int type; int def, rep; } leaf[5] = {
        {"a.list.element", 3, CARQUET_PHYSICAL_INT32, 3, 1},
        {"b.list.element", 6, CARQUET_PHYSICAL_INT64, 3, 1},
        {"address.street", 8, CARQUET_PHYSICAL_BYTE_ARRAY, 0, 0},
        {"address.city",   9, CARQUET_PHYSICAL_BYTE_ARRAY, 0, 0},
        {"id",            10, CARQUET_PHYSICAL_INT32, 0, 0},
    };
    int bad = 0;
    printf("columns: %d (expected 5)\n", carquet_schema_num_columns(s));
    if (carquet_schema_num_columns(s) != 5) bad = 1;
    for (int i = 0; i < 5; i++) {
        const carquet_schema_node_t *nd = carquet_schema_get_element(s, leaf[i].elem);
        printf("  column %d  %-15s type=%d def=%d rep=%d\n", i, leaf[i].path,
               carquet_schema_node_physical_type(nd),
               carquet_schema_node_max_def_level(nd), carquet_schema_node_max_rep_level(nd));
        if ((int)carquet_schema_node_physical_type(nd) != leaf[i].type ||
            carquet_schema_node_max_def_level(nd) != leaf[i].def ||
            carquet_schema_node_max_rep_level(nd) != leaf[i].rep) bad = 1;
    }

    /* ... but the columns cannot be found by their names: */
    printf("lookup by documented dot-separated path:\n");
    for (int i = 0; i < 5; i++) {
        int got = carquet_schema_find_column(s, leaf[i].path);
        printf("  find_column(\"%s\") = %d (expected %d)%s\n", leaf[i].path, got, i,
               got == i ? "" : "   <-- WRONG");
        if (got != i) bad = 1;
    }
    int e = carquet_schema_find_column(s, "element");
    printf("  find_column(\"element\") = %d  (two leaves have that last component: "
           "a.list.element [0] and b.list.element [1]; no name reaches column 1)\n", e);

    /* Same through the batch reader's projection by name */
    const char *want[1] = { "b.list.element" };
    carquet_batch_reader_config_t cfg;
    carquet_batch_reader_config_init(&cfg);
    cfg.column_names = want;
    cfg.num_column_names = 1;
    carquet_batch_reader_t *br = carquet_batch_reader_create(rd, &cfg, &err);
    if (!br) {
        printf("batch reader projecting \"b.list.element\": create failed: %s   <-- WRONG\n", err.message);
        bad = 1;
    } else {
        printf("batch reader projecting \"b.list.element\": ok\n");
        carquet_batch_reader_free(br);
    }

    carquet_reader_close(rd);
    free(file);
    printf(bad ? "VIOLATION: column lookup by name does not return what the file states\n" : "ok\n");
    return bad;
}
