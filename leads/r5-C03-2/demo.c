/*
 * C03 finding 2: with several column readers of ONE file reader used from
 * several threads - which carquet_reader_get_column documents as supported
 * ("Thread-safe: Yes (multiple column readers can be used concurrently)") -
 * the stdio mode returns errors / other columns' bytes while use_mmap and
 * open_buffer read the same file correctly, whenever the library was
 * configured without OpenMP (OpenMP is optional: CMakeLists.txt:259
 * find_package(OpenMP) without REQUIRED; README "OpenMP (optional ...)").
 * The only protection of the shared FILE* position is an
 * "#pragma omp critical", which is compiled out in that configuration.
 *
 * Usage: demo [zstd]     (default: uncompressed file)
 * exit 0: all three modes deliver the right values in every thread
 * exit 1: some mode does not
 */
#include <carquet/carquet.h>
#include <pthread.h>
#include <stdio.h>
#include <stdlib.h>
#include <string.h>
#include <stdint.h>

#define NCOLS 6
#define ROWS 6000
#define CHUNK 100          /* rows per write_batch = rows per page (page_size is tiny) */
#define ITER 30
static const char* PATH = "/tmp/wt5/C03/_finding/2/threads.parquet";

static int64_t value_of(int col, int64_t row) { return row * 1000003LL + col * 7919LL; }

static int write_file(carquet_compression_t codec) {
    carquet_error_t err = CARQUET_ERROR_INIT;
    carquet_schema_t* s = carquet_schema_create(&err);
    if (!s) return 1;
    for (int c = 0; c < NCOLS; c++) {
        char name[8]; sprintf(name, "c%d", c);
        if (carquet_schema_add_column(s, name, CARQUET_PHYSICAL_INT64, NULL, CARQUET_REPETITION_REQUIRED, 0) != CARQUET_OK) return 1;
    }
    carquet_writer_options_t o; carquet_writer_options_init(&o);
    o.compression = codec; o.page_size = 512;
    carquet_writer_t* w = carquet_writer_create(PATH, s, &o, &err);
    if (!w) return 1;
    for (int c = 0; c < NCOLS; c++)
        for (int64_t off = 0; off < ROWS; off += CHUNK) {
            int64_t v[CHUNK];
            for (int i = 0; i < CHUNK; i++) v[i] = value_of(c, off + i);
            if (carquet_writer_write_batch(w, c, v, CHUNK, NULL, NULL) != CARQUET_OK) return 1;
        }
    if (carquet_writer_close(w) != CARQUET_OK) return 1;
    carquet_schema_free(s);
    return 0;
}

static carquet_reader_t* g_reader;
typedef struct { int col; long read_errors, wrong_values, short_columns; } result_t;

static void* worker(void* arg) {
    result_t* r = arg; carquet_error_t err = CARQUET_ERROR_INIT;
    for (int it = 0; it < ITER; it++) {
        carquet_column_reader_t* cr = carquet_reader_get_column(g_reader, 0, r->col, &err);   /* own column reader */
        if (!cr) { r->read_errors++; continue; }
        int64_t row = 0, vals[256];
        while (carquet_column_has_next(cr)) {
            int64_t n = carquet_column_read_batch(cr, vals, 256, NULL, NULL);
            if (n < 0) { r->read_errors++; break; }
            if (n == 0) break;
            for (int64_t i = 0; i < n; i++) if (vals[i] != value_of(r->col, row + i)) { r->wrong_values++; }
            row += n;
        }
        if (row != ROWS) r->short_columns++;
        carquet_column_reader_free(cr);
    }
    return NULL;
}

int main(int argc, char** argv) {
    static const char* names[] = {"stdio ", "mmap  ", "buffer"};
    carquet_compression_t codec = (argc > 1 && !strcmp(argv[1], "zstd")) ? CARQUET_COMPRESSION_ZSTD : CARQUET_COMPRESSION_UNCOMPRESSED;
    if (write_file(codec)) { printf("cannot write test file\n"); return 2; }
    int bad_modes = 0;
    for (int mode = 0; mode < 3; mode++) {
        carquet_error_t err = CARQUET_ERROR_INIT;
        carquet_reader_options_t o; carquet_reader_options_init(&o);
        void* buf = NULL;
        if (mode == 2) {
            FILE* f = fopen(PATH, "rb"); fseek(f, 0, SEEK_END); long sz = ftell(f); fseek(f, 0, SEEK_SET);
            buf = malloc(sz); if (fread(buf, 1, sz, f) != (size_t)sz) return 2; fclose(f);
            g_reader = carquet_reader_open_buffer(buf, sz, &o, &err);
        } else { o.use_mmap = (mode == 1); g_reader = carquet_reader_open(PATH, &o, &err); }
        if (!g_reader) { printf("open failed\n"); return 2; }
        pthread_t t[NCOLS]; result_t res[NCOLS]; memset(res, 0, sizeof res);
        for (int c = 0; c < NCOLS; c++) { res[c].col = c; pthread_create(&t[c], NULL, worker, &res[c]); }
        long e = 0, wv = 0, sc = 0;
        for (int c = 0; c < NCOLS; c++) { pthread_join(t[c], NULL); e += res[c].read_errors; wv += res[c].wrong_values; sc += res[c].short_columns; }
        carquet_reader_close(g_reader); free(buf);
        printf("%s: %d threads x %d passes over their own column: read errors %ld, wrong values %ld, incomplete columns %ld\n",
               names[mode], NCOLS, ITER, e, wv, sc);
        if (e || wv || sc) bad_modes++;
    }
    if (bad_modes) { printf("FAIL: %d mode(s) misread the file under concurrent column readers\n", bad_modes); return 1; }
    printf("OK\n");
    return 0;
}
