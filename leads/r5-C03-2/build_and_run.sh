#!/bin/sh
# 1) library exactly as the task builds it (OpenMP found)      -> demo passes
# 2) the same unchanged sources configured without OpenMP, a configuration the
#    build system supports (find_package(OpenMP) is optional)   -> stdio mode misreads
set -u
WT=/tmp/wt5/C03
HERE=$WT/_finding/2
export OMP_NUM_THREADS=2 OMP_WAIT_POLICY=passive
cd $WT && cmake -G Ninja -B _build >/dev/null && cmake --build _build >/dev/null || exit 99
cc -O1 -g -I$WT/include $HERE/demo.c $WT/_build/libcarquet.a -lzstd -lz -lm -fopenmp -lpthread -o $HERE/demo_omp || exit 99
echo "== library built with OpenMP (default on this machine)"
$HERE/demo_omp; echo "exit code $?"

cmake -G Ninja -B _build_noomp -DCMAKE_DISABLE_FIND_PACKAGE_OpenMP=ON >/dev/null && cmake --build _build_noomp >/dev/null || exit 99
cc -O1 -g -I$WT/include $HERE/demo.c $WT/_build_noomp/libcarquet.a -lzstd -lz -lm -lpthread -o $HERE/demo_noomp || exit 99
echo "== same sources, configured with -DCMAKE_DISABLE_FIND_PACKAGE_OpenMP=ON (uncompressed file)"
$HERE/demo_noomp; rc=$?
echo "exit code $rc"
echo "== same, ZSTD file (adds the unsynchronised global ZSTD_DCtx of the no-OpenMP build, all modes)"
$HERE/demo_noomp zstd; echo "exit code $?"
exit $rc
