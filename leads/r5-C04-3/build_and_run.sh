#!/bin/sh
# Finding 3: builds the unchanged library (plain), builds the demo, runs it.
# Needs ~4 GiB of free RAM to run to completion (that is the point).
# Exit status: 0 = property holds, non-zero = violated.
set -e
W=/tmp/wt5/C04
cd "$W"
cmake -G Ninja -B _build >/dev/null
cmake --build _build --target carquet >/dev/null
cd "$W/_finding/3"
gcc -g -O1 -I"$W/include" -o demo demo.c \
    "$W/_build/libcarquet.a" -lzstd -lz -lm -fopenmp -lpthread
./demo
