/*
 * Finding 3: one call on a ~100-byte file allocates and writes gigabytes.
 *
 * The file has one REQUIRED INT32 column.  Its only data page is PLAIN encoded,
 * stores two values (8 bytes) but declares num_values = 1073741824 (2^30) in its
 * page header.  A PLAIN page of a fixed-width type cannot hold more values than
 * body_size / value_size, so the header is plainly inconsistent with the body,
 * and carquet does reject the page in the end - but only after it has sized and
 * filled its per-page buffers from the declared count.
 *
 * The demo calls carquet_column_read_batch(reader, buf, 2, def, rep) once, with
 * a buffer for two values, and measures what that single call cost.
 *
 * exit 0: the call is cheap (bounded by the input size)
 * exit 1: the call touched > 256 MiB of memory for a file of ~100 bytes
 */
#define _GNU_SOURCE
#include <carquet/carquet.h>
#include "pqb.h"
#include <sys/resource.h>
#include <sys/wait.h>
#include <time.h>
#include <unistd.h>

#define DECLARED_VALUES (1 << 30)

static void build_file(pqb_t* file, int optional) {
    pqb_init(file);
    pqb_put(file, "PAR1", 4);
    int64_t page_off = (int64_t)file->len;
    if (optional) {
        /* def levels: 4-byte length, RLE run "2 x level 1", then the two values */
        pq_data_page_header(file, 14, 14, DECLARED_VALUES, 0 /* PLAIN */, 3, 3);
        pqb_u32le(file, 2); pqb_u8(file, 0x04); pqb_u8(file, 0x01);
    } else {
        pq_data_page_header(file, 8, 8, DECLARED_VALUES, 0 /* PLAIN */, 3, 3);
    }
    pqb_u32le(file, 11); pqb_u32le(file, 22);          /* the two values really stored */
    int64_t chunk_size = (int64_t)file->len - page_off;

    size_t footer_start = file->len;
    t_struct_begin(file);
    t_i32(file, 1, 1);
    t_list(file, 2, T_STRUCT, 2);
    pq_schema_elem(file, "schema", -1, 0, -1, 1);
    pq_schema_elem(file, "v", 1 /* INT32 */, 0, optional ? 1 : 0, 0);
    t_i64(file, 3, 2);
    t_list(file, 4, T_STRUCT, 1);
    t_struct_begin(file);
    t_list(file, 1, T_STRUCT, 1);
    { const char* path[1] = { "v" };
      pq_column_chunk(file, 1, path, 1, 0, 2 /* num_values of the chunk */, chunk_size, chunk_size, page_off, 0, 0); }
    t_i64(file, 2, chunk_size);
    t_i64(file, 3, 2);
    t_struct_end(file);
    t_str(file, 6, "demo");
    t_struct_end(file);
    pq_finish_file(file, footer_start);
}

static double now(void) { struct timespec t; clock_gettime(CLOCK_MONOTONIC, &t); return t.tv_sec + t.tv_nsec / 1e9; }

/* runs in a child so that the peak RSS is that of this one call sequence */
static int child(const pqb_t* file, int mode, const char* path) {
    carquet_error_t err = CARQUET_ERROR_INIT;
    carquet_reader_t* r;
    carquet_reader_options_t o; carquet_reader_options_init(&o);
    if (mode == 0) r = carquet_reader_open_buffer(file->p, file->len, &o, &err);
    else { o.use_mmap = (mode == 2); r = carquet_reader_open(path, &o, &err); }
    if (!r) { printf("  open refused: %s\n", err.message); return 0; }
    carquet_column_reader_t* cr = carquet_reader_get_column(r, 0, 0, &err);
    if (!cr) { printf("  get_column refused: %s\n", err.message); carquet_reader_close(r); return 0; }

    struct rusage before, after;
    getrusage(RUSAGE_SELF, &before);
    double t0 = now();
    int32_t vals[2]; int16_t def[2], rep[2];
    int64_t got = carquet_column_read_batch(cr, vals, 2, def, rep);
    double dt = now() - t0;
    getrusage(RUSAGE_SELF, &after);
    long grown_kib = after.ru_maxrss - before.ru_maxrss;
    printf("  carquet_column_read_batch(max_values=2) -> %lld   time %.2f s   peak RSS grew by %ld MiB   page faults %ld\n",
           (long long)got, dt, grown_kib / 1024, after.ru_minflt - before.ru_minflt);
    carquet_column_reader_free(cr);
    carquet_reader_close(r);
    return grown_kib > 256 * 1024 ? 1 : 0;
}

int main(void) {
    setvbuf(stdout, NULL, _IONBF, 0);
    int failed = 0;
    static const char* names[3] = { "buffer", "fread", "mmap" };
    for (int optional = 0; optional < 2; optional++) {
        pqb_t file; build_file(&file, optional);
        const char* path = optional ? "/tmp/wt5/C04/_finding/3/huge_num_values_optional.parquet"
                                    : "/tmp/wt5/C04/_finding/3/huge_num_values_required.parquet";
        if (pq_write_file(path, &file) != 0) { perror("write"); return 2; }
        printf("file: %s (%zu bytes): one %s INT32 column, PLAIN page declares %d values, stores 2\n",
               path, file.len, optional ? "OPTIONAL" : "REQUIRED", DECLARED_VALUES);
        for (int mode = 0; mode < 3; mode++) {
            printf("[%s]\n", names[mode]);
            pid_t pid = fork();
            if (pid == 0) _exit(child(&file, mode, path));
            int status = 0; waitpid(pid, &status, 0);
            if (WIFSIGNALED(status)) { printf("  VIOLATION: killed by signal %d\n", WTERMSIG(status)); failed = 1; }
            else if (WEXITSTATUS(status)) { printf("  VIOLATION: cost of the call is not bounded by the input size\n"); failed = 1; }
            else printf("  ok\n");
        }
        pqb_free(&file);
    }
    printf(failed ? "RESULT: property violated\n" : "RESULT: property holds\n");
    return failed;
}
