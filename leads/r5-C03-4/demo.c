/*
 * C03 finding 4: carquet_reader_can_zero_copy() does not describe what the
 * readers do.
 *
 *  (a) It never looks at the encoding.  For an uncompressed REQUIRED INT32 chunk
 *      that is dictionary encoded (what parquet-mr, pyarrow and DuckDB write by
 *      default) it answers true, although its own documentation lists "PLAIN
 *      encoding" as a requirement and the reader decodes such pages into a
 *      private buffer (never a view).
 *  (b) It answers false for every column of a reader opened with
 *      carquet_reader_open_buffer, although such a reader does hand out views
 *      straight into the caller's buffer for PLAIN REQUIRED fixed-width columns.
 *
 * How zero-copy is observed through the public API only:
 *   - two batch readers over the same file reader deliver the same rows; if the
 *     column is served zero-copy both batches carry the SAME data pointer (it
 *     points into the one mapping); if it is copied, the two live batches have
 *     different pointers;
 *   - with open_buffer the caller knows the address range of its own buffer.
 *
 * The file is built by hand (pq.h): one row group, 16 rows, no compression,
 *   column "x": REQUIRED INT32, dictionary page + one RLE_DICTIONARY data page
 *   column "p": REQUIRED INT32, one PLAIN data page
 * It is a valid Parquet file of the kind parquet-mr writes.
 *
 * exit 0: can_zero_copy agrees with the observed behaviour
 * exit 1: it does not
 */
#include <carquet/carquet.h>
#include "pq.h"

static const char* PATH = "/tmp/wt5/C03/_finding/4/dict.parquet";

static void build_file(void) {
    pq_file_t f; pq_begin(&f);
    f.elems[0] = (pq_elem_t){"schema", 1, 2, 0, 0, 0};
    f.elems[1] = (pq_elem_t){"x", 0, 0, REP_REQUIRED, PT_INT32, 0};
    f.elems[2] = (pq_elem_t){"p", 0, 0, REP_REQUIRED, PT_INT32, 0};
    f.nelems = 3; f.nrgs = 1;
    pq_rg_t* rg = &f.rgs[0]; rg->ncols = 2; rg->num_rows = 16;
    pq_pageopt_t po = {0}; po.with_crc = 1;
    {   /* x: dictionary {1000,2000,3000,4000}; indices 0 1 2 3 3 2 1 0 then eight times 2 */
        pq_chunk_t* ch = &rg->cols[0]; memset(ch, 0, sizeof *ch);
        ch->type = PT_INT32; ch->codec = 0; ch->num_values = 16; ch->path[0] = "x"; ch->npath = 1;
        ch->encodings[0] = ENC_RLE_DICT; ch->encodings[1] = ENC_PLAIN; ch->encodings[2] = ENC_RLE; ch->nenc = 3;
        size_t start = f.out.n; ch->file_offset = start;
        int32_t dict[4] = {1000, 2000, 3000, 4000};
        ch->has_dict_off = 1; ch->dict_page_offset = f.out.n;
        pq_dict_page(&f, (const uint8_t*)dict, sizeof dict, sizeof dict, 4, 1);
        ch->data_page_offset = f.out.n;
        buf_t body = {0};
        b_u8(&body, 2);
        uint32_t idx[8] = {0, 1, 2, 3, 3, 2, 1, 0};
        bitpacked_run(&body, idx, 8, 2);
        rle_run(&body, 8, 2, 2);
        pq_data_page(&f, body.d, body.n, body.n, 16, ENC_RLE_DICT, &po);
        ch->total_comp = ch->total_uncomp = f.out.n - start; free(body.d);
    }
    {   /* p: PLAIN 0,10,20,... */
        pq_chunk_t* ch = &rg->cols[1]; memset(ch, 0, sizeof *ch);
        ch->type = PT_INT32; ch->codec = 0; ch->num_values = 16; ch->path[0] = "p"; ch->npath = 1;
        ch->encodings[0] = ENC_PLAIN; ch->encodings[1] = ENC_RLE; ch->nenc = 2;
        size_t start = f.out.n; ch->file_offset = start; ch->data_page_offset = start;
        int32_t v[16]; for (int i = 0; i < 16; i++) v[i] = i * 10;
        pq_data_page(&f, (const uint8_t*)v, sizeof v, sizeof v, 16, ENC_PLAIN, &po);
        ch->total_comp = ch->total_uncomp = f.out.n - start;
    }
    pq_finish(&f, PATH);
    free(f.out.d);
}

static carquet_row_batch_t* first_batch(carquet_reader_t* rd, carquet_batch_reader_t** br_out) {
    carquet_error_t err = CARQUET_ERROR_INIT;
    carquet_batch_reader_config_t cfg; carquet_batch_reader_config_init(&cfg);
    cfg.batch_size = 8;
    *br_out = carquet_batch_reader_create(rd, &cfg, &err);
    if (!*br_out) return NULL;
    carquet_row_batch_t* b = NULL;
    if (carquet_batch_reader_next(*br_out, &b) != CARQUET_OK) return NULL;
    return b;
}

static int check_values(const void* data, int col) {
    static const int32_t expx[8] = {1000, 2000, 3000, 4000, 4000, 3000, 2000, 1000};
    for (int i = 0; i < 8; i++) { int32_t v; memcpy(&v, (const char*)data + 4 * i, 4); if (v != (col == 0 ? expx[i] : i * 10)) return 1; }
    return 0;
}

int main(void) {
    build_file();
    int wrong = 0;
    carquet_error_t err = CARQUET_ERROR_INIT;

    /* ---------- (a) memory-mapped reader ---------- */
    carquet_reader_options_t o; carquet_reader_options_init(&o); o.use_mmap = true;
    carquet_reader_t* rd = carquet_reader_open(PATH, &o, &err);
    if (!rd || !carquet_reader_is_mmap(rd)) { printf("cannot mmap the file: %s\n", err.message); return 2; }
    carquet_batch_reader_t *br1, *br2;
    carquet_row_batch_t* b1 = first_batch(rd, &br1);
    carquet_row_batch_t* b2 = first_batch(rd, &br2);
    if (!b1 || !b2) { printf("cannot read batches\n"); return 2; }
    for (int c = 0; c < 2; c++) {
        const void *d1, *d2; const uint8_t* nb; int64_t n;
        if (carquet_row_batch_column(b1, c, &d1, &nb, &n) != CARQUET_OK || carquet_row_batch_column(b2, c, &d2, &nb, &n) != CARQUET_OK) return 2;
        if (check_values(d1, c) || check_values(d2, c)) { printf("values wrong?!\n"); return 2; }
        bool claimed = carquet_reader_can_zero_copy(rd, 0, c);
        bool observed = (d1 == d2);   /* same address in two live batches = a view of the mapping */
        printf("mmap   column %s (%s): can_zero_copy=%d, observed %s (batch1 data=%p, batch2 data=%p)\n",
               c == 0 ? "x" : "p", c == 0 ? "RLE_DICTIONARY" : "PLAIN", claimed, observed ? "zero-copy view" : "private copies", d1, d2);
        if (claimed != observed) wrong++;
    }
    carquet_row_batch_free(b1); carquet_row_batch_free(b2);
    carquet_batch_reader_free(br1); carquet_batch_reader_free(br2);
    carquet_reader_close(rd);

    /* ---------- (b) reader over a caller-owned buffer ---------- */
    FILE* f = fopen(PATH, "rb"); fseek(f, 0, SEEK_END); long size = ftell(f); fseek(f, 0, SEEK_SET);
    unsigned char* buf = malloc(size); if (fread(buf, 1, size, f) != (size_t)size) return 2; fclose(f);
    carquet_reader_options_init(&o);
    rd = carquet_reader_open_buffer(buf, size, &o, &err);
    if (!rd) return 2;
    b1 = first_batch(rd, &br1);
    if (!b1) return 2;
    for (int c = 0; c < 2; c++) {
        const void* d1; const uint8_t* nb; int64_t n;
        if (carquet_row_batch_column(b1, c, &d1, &nb, &n) != CARQUET_OK) return 2;
        bool claimed = carquet_reader_can_zero_copy(rd, 0, c);
        bool observed = ((const unsigned char*)d1 >= buf && (const unsigned char*)d1 < buf + size);
        printf("buffer column %s (%s): can_zero_copy=%d, observed %s (data=%p, caller buffer=[%p,%p))\n",
               c == 0 ? "x" : "p", c == 0 ? "RLE_DICTIONARY" : "PLAIN", claimed, observed ? "view into the caller's buffer" : "private copy", d1, (void*)buf, (void*)(buf + size));
        if (claimed != observed) wrong++;
    }
    carquet_row_batch_free(b1); carquet_batch_reader_free(br1); carquet_reader_close(rd); free(buf);

    if (wrong) { printf("FAIL: carquet_reader_can_zero_copy contradicts the readers in %d case(s)\n", wrong); return 1; }
    printf("OK\n");
    return 0;
}
