#!/bin/sh
# Builds the demo against the ASan/UBSan build of the unchanged library and runs both parts.
# Exit status: 0 only if both parts hold.
cd "$(dirname "$0")"
ROOT=$(cd ../.. && pwd)
if [ ! -f "$ROOT/_build_asan/libcarquet.a" ]; then
  (cd "$ROOT" && cmake -G Ninja -B _build_asan -DCMAKE_C_FLAGS="-fsanitize=address,undefined -g -O1" \
      -DCMAKE_EXE_LINKER_FLAGS="-fsanitize=address,undefined" >/dev/null && cmake --build _build_asan >/dev/null) || exit 99
fi
cc -std=c11 -g -O1 -fsanitize=address,undefined -I"$ROOT/include" -I"$ROOT/src" demo.c \
   "$ROOT/_build_asan/libcarquet.a" -lzstd -lz -lm -fopenmp -lpthread -o demo || exit 99
echo "== part (a): BYTE_ARRAY values longer than 256 bytes"
./demo; rc_a=$?
echo "exit code: $rc_a"
echo "== part (b): FIXED_LEN_BYTE_ARRAY(300)"
./demo flba > part_b.log 2>&1; rc_b=$?
head -14 part_b.log
echo "exit code: $rc_b"
[ "$rc_a" -ne 0 ] && exit "$rc_a"
exit "$rc_b"
