/*
 * C16 finding 2: the statistics builder keeps min/max in two fixed 256-byte
 * arrays.
 *   (a) carquet_statistics_add_byte_arrays() silently SKIPS every BYTE_ARRAY
 *       value longer than 256 bytes, so the min/max it builds do not bound the
 *       values it was given (and it reports CARQUET_OK and is_*_value_exact).
 *   (b) carquet_statistics_add_values() copies type_length bytes of a
 *       FIXED_LEN_BYTE_ARRAY value into those arrays without any check: a
 *       column of FIXED_LEN_BYTE_ARRAY(300) overflows the builder (heap
 *       buffer overflow, wrong bounds).
 *
 * The builder functions have external linkage in libcarquet.a but are not
 * declared in carquet.h; prototypes are repeated from src/metadata/statistics.c
 * and parquet_statistics_t comes from src/thrift/parquet_types.h.
 *
 *   ./demo        -> part (a); exit 1 when a built bound is not a bound
 *   ./demo flba   -> part (b); ASan abort / exit 1 when bounds are wrong
 */
#include <carquet/carquet.h>
#include "thrift/parquet_types.h"
#include <stdio.h>
#include <stdlib.h>
#include <string.h>

typedef struct carquet_statistics_builder carquet_statistics_builder_t;
carquet_statistics_builder_t* carquet_statistics_builder_create(
    carquet_physical_type_t type, int32_t type_length);
void carquet_statistics_builder_destroy(carquet_statistics_builder_t* builder);
carquet_status_t carquet_statistics_add_values(
    carquet_statistics_builder_t* builder, const void* values, int64_t num_values);
carquet_status_t carquet_statistics_add_byte_arrays(
    carquet_statistics_builder_t* builder, const carquet_byte_array_t* values, int64_t num_values);
carquet_status_t carquet_statistics_build(
    const carquet_statistics_builder_t* builder, carquet_arena_t* arena,
    parquet_statistics_t* stats);

static int cmp_bytes(const uint8_t* a, size_t al, const uint8_t* b, size_t bl) {
    size_t m = al < bl ? al : bl;
    int c = m ? memcmp(a, b, m) : 0;
    if (c) return c;
    return (al > bl) - (al < bl);
}

static uint64_t rng_state = 0x2545F4914F6CDD1Dull;
static uint64_t rnd(void) {
    rng_state ^= rng_state << 13; rng_state ^= rng_state >> 7; rng_state ^= rng_state << 17;
    return rng_state;
}

static int part_a(void) {
    int bad = 0;

    /* headline: {"b", 300 x 'z'} */
    {
        static uint8_t longv[300];
        memset(longv, 'z', sizeof(longv));
        carquet_byte_array_t vals[2] = {
            { .data = (uint8_t*)"b", .length = 1 },
            { .data = longv, .length = 300 },
        };
        carquet_statistics_builder_t* b =
            carquet_statistics_builder_create(CARQUET_PHYSICAL_BYTE_ARRAY, 0);
        carquet_status_t st = carquet_statistics_add_byte_arrays(b, vals, 2);
        parquet_statistics_t s;
        carquet_status_t st2 = carquet_statistics_build(b, NULL, &s);
        printf("values {\"b\", 300 x 'z'}: add=%d build=%d  min=\"%.*s\" (len %d)  max=\"%.*s\" (len %d) exact=%d\n",
               (int)st, (int)st2, s.min_value_len, (const char*)s.min_value, s.min_value_len,
               s.max_value_len, (const char*)s.max_value, s.max_value_len, (int)s.is_max_value_exact);
        if (s.max_value && cmp_bytes(longv, 300, s.max_value, (size_t)s.max_value_len) > 0) {
            puts("  -> max_value is SMALLER than a value that was added: not a bound");
            bad++;
        }
        free(s.min_value); free(s.max_value);
        carquet_statistics_builder_destroy(b);
    }

    /* brute force: random batches of strings of unequal length, 0..400 bytes */
    int violations = 0, cases = 0;
    for (int iter = 0; iter < 300; iter++) {
        enum { N = 12 };
        static uint8_t store[N][400];
        carquet_byte_array_t vals[N];
        for (int i = 0; i < N; i++) {
            int len = (rnd() % 4 == 0) ? 250 + (int)(rnd() % 150) : (int)(rnd() % 6);
            uint8_t fill = (uint8_t)('a' + rnd() % 4);
            memset(store[i], fill, (size_t)len);
            if (len) store[i][len - 1] = (uint8_t)('a' + rnd() % 4);
            vals[i].data = store[i]; vals[i].length = len;
        }
        carquet_statistics_builder_t* b =
            carquet_statistics_builder_create(CARQUET_PHYSICAL_BYTE_ARRAY, 0);
        /* two batches, as a writer would feed a page */
        if (carquet_statistics_add_byte_arrays(b, vals, N / 2) != CARQUET_OK ||
            carquet_statistics_add_byte_arrays(b, vals + N / 2, N - N / 2) != CARQUET_OK) {
            puts("add failed"); return 2;
        }
        parquet_statistics_t s;
        if (carquet_statistics_build(b, NULL, &s) != CARQUET_OK) { puts("build failed"); return 2; }
        cases++;
        int v = 0;
        for (int i = 0; i < N; i++) {
            if (s.min_value && cmp_bytes(vals[i].data, (size_t)vals[i].length, s.min_value, (size_t)s.min_value_len) < 0) v = 1;
            if (s.max_value && cmp_bytes(vals[i].data, (size_t)vals[i].length, s.max_value, (size_t)s.max_value_len) > 0) v = 1;
        }
        violations += v;
        free(s.min_value); free(s.max_value);
        carquet_statistics_builder_destroy(b);
    }
    printf("BYTE_ARRAY brute force: %d of %d generated columns got a min/max that does not bound the values\n",
           violations, cases);
    if (violations) bad++;
    return bad ? 1 : 0;
}

static int part_b(void) {
    enum { W = 300 };
    static uint8_t vals[3][W];
    memset(vals[0], 0x50, W);
    memset(vals[1], 0x10, W);   /* smallest */
    memset(vals[2], 0x90, W);   /* largest  */
    carquet_statistics_builder_t* b =
        carquet_statistics_builder_create(CARQUET_PHYSICAL_FIXED_LEN_BYTE_ARRAY, W);
    if (!b) { puts("alloc"); return 2; }
    carquet_status_t st = carquet_statistics_add_values(b, vals, 3);  /* overflows here */
    parquet_statistics_t s;
    carquet_status_t st2 = carquet_statistics_build(b, NULL, &s);
    printf("FIXED_LEN_BYTE_ARRAY(300): add=%d build=%d min_len=%d max_len=%d\n",
           (int)st, (int)st2, s.min_value_len, s.max_value_len);
    int bad = 0;
    if (st == CARQUET_OK) {
        if (!s.min_value || s.min_value_len != W || memcmp(s.min_value, vals[1], W) != 0) {
            puts("  -> min_value is not the smallest value"); bad = 1;
        }
        if (!s.max_value || s.max_value_len != W || memcmp(s.max_value, vals[2], W) != 0) {
            puts("  -> max_value is not the largest value"); bad = 1;
        }
    }
    return bad;
}

int main(int argc, char** argv) {
    int rc = (argc > 1 && strcmp(argv[1], "flba") == 0) ? part_b() : part_a();
    puts(rc ? "RESULT: property violated" : "RESULT: ok");
    return rc;
}
