#!/bin/sh
# Builds the unchanged library with ASan/UBSan, the demo, and runs it.
WT=/tmp/wt4/C07
cd "$WT" || exit 2
cmake -G Ninja -B _build_asan -DCMAKE_C_FLAGS="-fsanitize=address,undefined -g -O1" \
      -DCMAKE_EXE_LINKER_FLAGS="-fsanitize=address,undefined" >/dev/null \
  && cmake --build _build_asan --target carquet >/dev/null || exit 2
cd "$WT/_finding/4" || exit 2
gcc -g -O1 -fsanitize=address,undefined -fopenmp -I"$WT/include" demo.c \
    "$WT/_build_asan/libcarquet.a" -lzstd -lz -lm -lpthread -o demo || exit 2
ASAN_OPTIONS=detect_leaks=0 ./demo
