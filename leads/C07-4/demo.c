/*
 * C07 side observation (finding 4): the BYTE_ARRAY values of a row batch point
 * into buffers owned by the batch reader's column readers, and the NEXT
 * carquet_batch_reader_next() call frees those buffers
 *   - page buffers of earlier pages: carquet_column_release_retired_pages()
 *   - everything (pages, dictionaries) when the call moves to the next row
 *     group: open_row_group_readers() frees the column readers
 * although carquet.h promises "Batch data pointers are valid until
 * carquet_row_batch_free() is called".  A pipelined consumer (one thread calls
 * next(), others work on the batches already returned - the usual way to use
 * a batch reader from several threads) therefore reads freed memory; whether
 * it sees the right strings depends on the interleaving and on the I/O mode
 * (mmap + uncompressed keeps the pointers inside the mapping and is fine).
 *
 * The demo is single-threaded and deterministic: fetch batch k+1, then verify
 * batch k.  Public API only.
 *
 * exit 0 = all held batches intact, 1 = wrong content; under ASan the first
 * access to a freed buffer aborts the process (non-zero exit).
 */
#include <carquet/carquet.h>
#include <stdio.h>
#include <stdlib.h>
#include <string.h>

#define PATH "/tmp/wt4/C07/_finding/4/demo.parquet"
#define ROWS_PER_RG 2000
#define NRG 2
#define BATCH 500

static int expect(char* out, int rg, int row) { return snprintf(out, 24, "rg%d-row%07d", rg, row); }

static int write_file(void) {
    carquet_error_t err = CARQUET_ERROR_INIT;
    carquet_schema_t* s = carquet_schema_create(&err);
    if (!s) return 1;
    if (carquet_schema_add_column(s, "s", CARQUET_PHYSICAL_BYTE_ARRAY, NULL, CARQUET_REPETITION_REQUIRED, 0) != CARQUET_OK) return 1;
    carquet_writer_options_t o;
    carquet_writer_options_init(&o);
    o.compression = CARQUET_COMPRESSION_UNCOMPRESSED;
    o.page_size = 512;
    carquet_writer_t* w = carquet_writer_create(PATH, s, &o, &err);
    if (!w) return 1;
    static char text[100][24];
    carquet_byte_array_t v[100];
    for (int rg = 0; rg < NRG; rg++) {
        for (int off = 0; off < ROWS_PER_RG; off += 100) {        /* one page per 100 rows */
            for (int i = 0; i < 100; i++) { v[i].length = expect(text[i], rg, off + i); v[i].data = (uint8_t*)text[i]; }
            if (carquet_writer_write_batch(w, 0, v, 100, NULL, NULL) != CARQUET_OK) return 1;
        }
        if (rg + 1 < NRG && carquet_writer_new_row_group(w) != CARQUET_OK) return 1;
    }
    if (carquet_writer_close(w) != CARQUET_OK) return 1;
    carquet_schema_free(s);
    return 0;
}

static int verify(const carquet_row_batch_t* b, int first_row) {
    const void* d; const uint8_t* nb; int64_t nv;
    if (carquet_row_batch_column(b, 0, &d, &nb, &nv) != CARQUET_OK) return 1000000;
    const carquet_byte_array_t* a = d;
    int bad = 0;
    for (int64_t i = 0; i < nv; i++) {
        char e[24];
        int row = first_row + (int)i;
        int len = expect(e, row / ROWS_PER_RG, row % ROWS_PER_RG);
        if (a[i].length != len || memcmp(a[i].data, e, (size_t)len) != 0) bad++;
    }
    return bad;
}

static int run(int use_mmap) {
    carquet_error_t err = CARQUET_ERROR_INIT;
    carquet_reader_options_t ro;
    carquet_reader_options_init(&ro);
    ro.use_mmap = use_mmap;
    carquet_reader_t* rd = carquet_reader_open(PATH, &ro, &err);
    if (!rd) return 2;
    carquet_batch_reader_config_t cfg;
    carquet_batch_reader_config_init(&cfg);
    cfg.batch_size = BATCH;
    carquet_batch_reader_t* br = carquet_batch_reader_create(rd, &cfg, &err);
    if (!br) return 2;
    carquet_row_batch_t* held = NULL;
    int held_first = 0, next_first = 0, bad = 0, k = 0;
    for (;;) {
        carquet_row_batch_t* b = NULL;
        carquet_status_t st = carquet_batch_reader_next(br, &b);      /* producer step */
        if (held) {                                                    /* consumer step on the previous batch */
            int n = verify(held, held_first);
            printf("  %s: batch %d checked after next() returned batch %d: %d wrong values\n",
                   use_mmap ? "mmap " : "fread", k - 1, k, n);
            bad += n;
            carquet_row_batch_free(held);
            held = NULL;
        }
        if (st != CARQUET_OK || !b) break;
        held = b; held_first = next_first;
        next_first += (int)carquet_row_batch_num_rows(b);
        k++;
    }
    carquet_batch_reader_free(br);
    carquet_reader_close(rd);
    return bad != 0;
}

int main(void) {
    if (write_file()) { fprintf(stderr, "could not write %s\n", PATH); return 2; }
    int rc_mmap = run(1);
    printf("mmap mode: %s\n", rc_mmap ? "held batches corrupted" : "held batches intact");
    fflush(stdout);
    int rc_fread = run(0);
    printf("fread mode: %s\n", rc_fread ? "held batches corrupted" : "held batches intact");
    return (rc_mmap || rc_fread) ? 1 : 0;
}
