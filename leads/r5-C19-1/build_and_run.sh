#!/bin/sh
# Builds the library of this worktree as it is (ASan/UBSan), builds the demo, runs it.
set -e
HERE=$(cd "$(dirname "$0")" && pwd)
ROOT=$(cd "$HERE/../.." && pwd)
cd "$ROOT"
cmake -G Ninja -B _build_asan -DCMAKE_C_FLAGS="-fsanitize=address,undefined -g -O1" \
      -DCMAKE_EXE_LINKER_FLAGS="-fsanitize=address,undefined" >/dev/null
cmake --build _build_asan --target carquet >/dev/null
cd "$HERE"
gcc -g -O1 -fsanitize=address,undefined -I"$ROOT/include" -o demo demo.c "$ROOT/_build_asan/libcarquet.a" \
    -Wl,--wrap=malloc,--wrap=calloc,--wrap=realloc -lzstd -lz -lm -fopenmp -lpthread
./demo
