/* C19: carquet_column_skip hides an allocation failure.
 *
 * A small file (one INT32 REQUIRED column, 1000 rows, values 0..999) is
 * written fault-free.  Then, for every k, the k-th malloc/calloc/realloc made
 * during  open + get_column + skip(300) + read_batch(1)  is made to fail.
 *
 * Property: each call either returns an error (NULL / negative) or behaves as
 * in the fault-free run, i.e. skip returns 300 and the next value read is 300.
 * carquet_column_skip can only answer "number skipped"; when its scratch
 * buffer (or a page buffer underneath) cannot be allocated it answers 0 (or a
 * short count such as 250) - the same answer as "end of column" - and the caller that
 * goes on reads rows from the wrong position.
 *
 * exit 0: property holds for all k; exit 1: violated.
 */
#include <carquet/carquet.h>
#include <stdio.h>
#include <stdlib.h>
#include <string.h>

/* ---- link-time fault injection (-Wl,--wrap=malloc,--wrap=calloc,--wrap=realloc) ---- */
static long g_count, g_fail_at; static int g_armed, g_fired;
void* __real_malloc(size_t); void* __real_calloc(size_t, size_t); void* __real_realloc(void*, size_t);
static int hit(void) { if (!g_armed) return 0; if (++g_count == g_fail_at) { g_fired = 1; return 1; } return 0; }
void* __wrap_malloc(size_t n) { return hit() ? NULL : __real_malloc(n); }
void* __wrap_calloc(size_t a, size_t b) { return hit() ? NULL : __real_calloc(a, b); }
void* __wrap_realloc(void* p, size_t n) { return hit() ? NULL : __real_realloc(p, n); }

#define ROWS 1000
#define SKIP 300
static const char* PATH = "c19_skip.parquet";

static int write_file(void) {
    carquet_error_t err = CARQUET_ERROR_INIT;
    carquet_schema_t* s = carquet_schema_create(&err);
    if (!s || carquet_schema_add_column(s, "v", CARQUET_PHYSICAL_INT32, NULL, CARQUET_REPETITION_REQUIRED, 0) != CARQUET_OK) return 1;
    carquet_writer_options_t o; carquet_writer_options_init(&o);
    o.page_size = 512;   /* each 250-row batch becomes one data page */
    carquet_writer_t* w = carquet_writer_create(PATH, s, &o, &err);
    if (!w) return 1;
    static int32_t v[ROWS]; for (int i = 0; i < ROWS; i++) v[i] = i;
    /* four batches -> with a small page size four data pages */
    for (int b = 0; b < 4; b++) if (carquet_writer_write_batch(w, 0, v + b * 250, 250, NULL, NULL) != CARQUET_OK) return 1;
    if (carquet_writer_close(w) != CARQUET_OK) return 1;
    carquet_schema_free(s);
    return 0;
}

/* returns 0 ok/clean error, 1 violation, 2 fault did not fire (k beyond the last allocation) */
static int run(long k, int verbose) {
    int bad = 0;
    carquet_error_t err = CARQUET_ERROR_INIT;
    g_count = 0; g_fail_at = k; g_fired = 0; g_armed = 1;
    carquet_reader_t* rd = carquet_reader_open(PATH, NULL, &err);
    if (rd) {
        carquet_column_reader_t* cr = carquet_reader_get_column(rd, 0, 0, &err);
        if (cr) {
            int64_t skipped = carquet_column_skip(cr, SKIP);
            if (skipped < 0) {
                /* an error indication: fine */
            } else {
                int32_t got = -1;
                int64_t n = carquet_column_read_batch(cr, &got, 1, NULL, NULL);
                if (n == 1 && (skipped != SKIP || got != SKIP)) {
                    bad = 1;
                    if (verbose) printf("k=%ld: carquet_column_skip(%d) returned %lld (no error); next value read = %d, fault-free run reads %d\n",
                                        k, SKIP, (long long)skipped, got, SKIP);
                }
            }
            carquet_column_reader_free(cr);
        }
        carquet_reader_close(rd);
    }
    g_armed = 0;
    if (!g_fired) return 2;
    return bad;
}

int main(void) {
    if (write_file()) { printf("setup failed\n"); return 2; }
    int violations = 0; long k;
    for (k = 1; k < 100000; k++) {
        int r = run(k, 1);
        if (r == 2) break;
        violations += r;
    }
    printf("%ld allocation points enumerated, %d violate the property\n", k - 1, violations);
    remove(PATH);
    return violations ? 1 : 0;
}
