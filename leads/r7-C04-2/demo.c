/* Finding 2: carquet_reader_filter_row_groups does not report an out-of-range
 * column index; it answers "every row group matches".
 *
 * The file is hand-built and valid: one REQUIRED INT32 column "c", two row
 * groups (values 0..9 and 1000..1009), PLAIN uncompressed pages, and
 * ColumnMetaData.statistics with min_value/max_value (what parquet-mr,
 * Arrow/pyarrow, DuckDB ... write; carquet's own writer only writes page
 * statistics, which is why the file is built by hand).
 *
 *   filter_row_groups(column 0, x == 5000)   -> 0            (statistics prune both)
 *   row_group_matches(rg 0, column 7, ...)   -> COLUMN_NOT_FOUND          (right)
 *   filter_row_groups(column 7, x == 5000)   -> 2, {0, 1}                 (wrong)
 *   filter_row_groups(column -1, ...)        -> 2, {0, 1}                 (wrong)
 *
 * The header documents "Number of matching row groups, or negative on error".
 *
 * exit 0: out-of-range column indices are reported (negative return)
 * exit 1: they are not
 */
#include "pq.h"
#include <carquet/carquet.h>

static void build(buf_t* f) {
    int64_t off[2];
    b_put(f, "PAR1", 4);
    for (int g = 0; g < 2; g++) {
        buf_t body = {0};
        for (int i = 0; i < 10; i++) b_u32le(&body, (uint32_t)(g * 1000 + i));
        off[g] = (int64_t)f->n;
        pq_page_header(f, PAGE_DATA, (int32_t)body.n, (int32_t)body.n, 10, ENC_PLAIN);
        b_put(f, body.p, body.n);
        free(body.p);
    }
    buf_t m = {0}; tw_t w; tw_init(&w, &m);
    tw_i32(&w, 1, 1);
    tw_list(&w, 2, T_STRUCT, 2);
      tw_elem_begin(&w); tw_str(&w, 4, "schema"); tw_i32(&w, 5, 1); tw_struct_end(&w);
      tw_elem_begin(&w); tw_i32(&w, 1, PT_INT32); tw_i32(&w, 3, REP_REQUIRED); tw_str(&w, 4, "c"); tw_struct_end(&w);
    tw_i64(&w, 3, 20);
    tw_list(&w, 4, T_STRUCT, 2);
    for (int g = 0; g < 2; g++) {
        uint8_t mn[4] = { (uint8_t)(g * 1000), (uint8_t)((g * 1000) >> 8), 0, 0 };
        uint8_t mx[4] = { (uint8_t)(g * 1000 + 9), (uint8_t)((g * 1000 + 9) >> 8), 0, 0 };
        tw_elem_begin(&w);
          tw_list(&w, 1, T_STRUCT, 1);
            tw_elem_begin(&w);
              tw_i64(&w, 2, off[g]);
              tw_struct_begin(&w, 3);
                tw_i32(&w, 1, PT_INT32);
                tw_list(&w, 2, T_I32, 1); b_zz(&m, ENC_PLAIN);
                tw_list(&w, 3, T_BIN, 1); b_varint(&m, 1); b_put(&m, "c", 1);
                tw_i32(&w, 4, CODEC_NONE);
                tw_i64(&w, 5, 10);
                tw_i64(&w, 6, 60); tw_i64(&w, 7, 60);
                tw_i64(&w, 9, off[g]);
                tw_struct_begin(&w, 12);             /* statistics */
                  tw_i64(&w, 3, 0);                  /* null_count */
                  tw_bin(&w, 5, mx, 4);              /* max_value */
                  tw_bin(&w, 6, mn, 4);              /* min_value */
                tw_struct_end(&w);
              tw_struct_end(&w);
            tw_struct_end(&w);
          tw_i64(&w, 2, 60);
          tw_i64(&w, 3, 10);
        tw_struct_end(&w);
    }
    tw_str(&w, 6, "handmade");
    /* column_orders: one TYPE_ORDER entry, so that min_value/max_value are defined */
    tw_list(&w, 7, T_STRUCT, 1); tw_elem_begin(&w); tw_struct_begin(&w, 1); tw_struct_end(&w); tw_struct_end(&w);
    b_u8(&m, 0);
    b_put(f, m.p, m.n); b_u32le(f, (uint32_t)m.n); b_put(f, "PAR1", 4);
    free(m.p);
}

int main(void) {
    const char* path = "two_row_groups.parquet";
    buf_t f = {0};
    build(&f);
    pq_write_file(path, &f);

    int violations = 0;
    for (int mode = 0; mode < 3; mode++) {
        carquet_error_t err = CARQUET_ERROR_INIT;
        carquet_reader_options_t ro; carquet_reader_options_init(&ro);
        carquet_reader_t* r;
        if (mode == 0) r = carquet_reader_open(path, &ro, &err);
        else if (mode == 1) { ro.use_mmap = true; r = carquet_reader_open(path, &ro, &err); }
        else r = carquet_reader_open_buffer(f.p, f.n, &ro, &err);
        if (!r) { printf("open: %s\n", err.message); return 2; }
        printf("%s: %d row groups, %d column(s), %lld rows\n", mode == 0 ? "fread " : mode == 1 ? "mmap  " : "buffer",
               carquet_reader_num_row_groups(r), carquet_reader_num_columns(r), (long long)carquet_reader_num_rows(r));

        /* the file reads back */
        carquet_column_reader_t* col = carquet_reader_get_column(r, 1, 0, &err);
        int32_t vals[10];
        if (!col || carquet_column_read_batch(col, vals, 10, NULL, NULL) != 10 || vals[9] != 1009) { printf("file does not read back\n"); return 2; }
        carquet_column_reader_free(col);

        int32_t probe = 5000;   /* larger than every value: 'x == 5000' matches no row group */
        int32_t idx[8];
        int32_t n_ok = carquet_reader_filter_row_groups(r, 0, CARQUET_COMPARE_EQ, &probe, sizeof probe, idx, 8);
        printf("  filter_row_groups(column 0, x == 5000) -> %d   (0 expected: statistics rule out both row groups)\n", n_ok);
        if (n_ok != 0) return 2;

        static const int32_t bad_cols[] = { 1, 7, -1, 2147483647 };
        for (int k = 0; k < 4; k++) {
            bool mm = false;
            carquet_status_t st = carquet_reader_row_group_matches(r, 0, bad_cols[k], CARQUET_COMPARE_EQ,
                                                                  &probe, sizeof probe, &mm);
            int32_t n = carquet_reader_filter_row_groups(r, bad_cols[k], CARQUET_COMPARE_EQ,
                                                         &probe, sizeof probe, idx, 8);
            printf("  column %d: row_group_matches -> %d (%s); filter_row_groups -> %d",
                   bad_cols[k], (int)st, carquet_status_string(st), n);
            if (n >= 0) {
                printf(" {");
                for (int i = 0; i < n; i++) printf("%s%d", i ? ", " : "", idx[i]);
                printf("}   <-- VIOLATION: out-of-range column not reported");
                violations++;
            }
            printf("\n");
        }
        carquet_reader_close(r);
    }
    free(f.p);
    printf("%d violation(s)\n", violations);
    return violations ? 1 : 0;
}
