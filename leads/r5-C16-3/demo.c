/*
 * C16 finding 3: the page-header statistics the writer emits for a column
 * declared as an UNSIGNED integer (logical type INTEGER(32|64, signed=false))
 * are computed with signed comparison, so min_value/max_value do not bound
 * the column's values in the type's order (Parquet: "UINT_32 ... sort order:
 * unsigned").
 *
 * Public API only: write a REQUIRED UINT_32 column {1, 3000000000} and a
 * REQUIRED UINT_64 column {2, 2^63+5}, then parse the first data page header
 * of each chunk straight from the file bytes (thrift compact) and check
 *        min <= every value <= max   (unsigned order)
 *
 * exit 0: bounds hold; exit 1: they do not.
 */
#include <carquet/carquet.h>
#include <inttypes.h>
#include <stdio.h>
#include <stdlib.h>
#include <string.h>

/* ---- minimal thrift compact reader --------------------------------------- */
typedef struct { const uint8_t* p; const uint8_t* end; int last[16]; int depth; int err; } tr;
static uint64_t tr_varint(tr* r) {
    uint64_t v = 0; int sh = 0;
    while (r->p < r->end) { uint8_t b = *r->p++; v |= (uint64_t)(b & 0x7f) << sh; if (!(b & 0x80)) return v; sh += 7; }
    r->err = 1; return 0;
}
static int64_t tr_zz(tr* r) { uint64_t v = tr_varint(r); return (int64_t)(v >> 1) ^ -(int64_t)(v & 1); }
static void tr_begin(tr* r) { r->depth++; r->last[r->depth] = 0; }
static void tr_end(tr* r) { r->depth--; }
static int tr_field(tr* r, int* type, int* id) {
    if (r->p >= r->end) { r->err = 1; return 0; }
    uint8_t h = *r->p++;
    if (h == 0) return 0;
    *type = h & 0x0f;
    int delta = h >> 4;
    *id = delta ? r->last[r->depth] + delta : (int)tr_zz(r);
    r->last[r->depth] = *id;
    return 1;
}
static void tr_skip(tr* r, int type) {
    switch (type) {
        case 1: case 2: break;
        case 3: r->p++; break;
        case 4: case 5: case 6: tr_varint(r); break;
        case 7: r->p += 8; break;
        case 8: { uint64_t n = tr_varint(r); r->p += n; break; }
        case 9: case 10: {
            uint8_t h = *r->p++; int et = h & 0x0f; uint64_t n = h >> 4;
            if (n == 15) n = tr_varint(r);
            for (uint64_t i = 0; i < n && !r->err; i++) { if (et == 1 || et == 2) r->p++; else tr_skip(r, et); }
            break;
        }
        case 12: { int t, id; tr_begin(r); while (tr_field(r, &t, &id)) tr_skip(r, t); tr_end(r); break; }
        default: r->err = 1;
    }
}

typedef struct { int found; uint8_t min[16], max[16]; int min_len, max_len; int64_t null_count; int has_nc; int32_t num_values; } page_stats;

/* PageHeader{5: DataPageHeader{1: num_values, 5: Statistics{3,5,6}}} */
static int parse_page_stats(const uint8_t* p, size_t n, page_stats* out) {
    tr r = { p, p + n, {0}, 0, 0 };
    int t, id;
    memset(out, 0, sizeof *out);
    tr_begin(&r);
    while (tr_field(&r, &t, &id)) {
        if (id == 5 && t == 12) {
            tr_begin(&r);
            while (tr_field(&r, &t, &id)) {
                if (id == 1) out->num_values = (int32_t)tr_zz(&r);
                else if (id == 5 && t == 12) {
                    out->found = 1;
                    tr_begin(&r);
                    while (tr_field(&r, &t, &id)) {
                        if (id == 3) { out->has_nc = 1; out->null_count = tr_zz(&r); }
                        else if ((id == 5 || id == 6) && t == 8) {
                            uint64_t len = tr_varint(&r);
                            if (len > 16) return -1;
                            if (id == 5) { memcpy(out->max, r.p, len); out->max_len = (int)len; }
                            else { memcpy(out->min, r.p, len); out->min_len = (int)len; }
                            r.p += len;
                        } else tr_skip(&r, t);
                    }
                    tr_end(&r);
                } else tr_skip(&r, t);
            }
            tr_end(&r);
        } else tr_skip(&r, t);
    }
    return r.err ? -1 : 0;
}

int main(void) {
    const char* path = "/tmp/wt5/C16/_finding/3/uint.parquet";
    carquet_error_t err = CARQUET_ERROR_INIT;
    carquet_schema_t* schema = carquet_schema_create(&err);
    if (!schema) return 2;

    carquet_logical_type_t u32; memset(&u32, 0, sizeof u32);
    u32.id = CARQUET_LOGICAL_INTEGER; u32.params.integer.bit_width = 32; u32.params.integer.is_signed = false;
    carquet_logical_type_t u64 = u32; u64.params.integer.bit_width = 64;
    if (carquet_schema_add_column(schema, "u32", CARQUET_PHYSICAL_INT32, &u32, CARQUET_REPETITION_REQUIRED, 0) != CARQUET_OK) return 2;
    if (carquet_schema_add_column(schema, "u64", CARQUET_PHYSICAL_INT64, &u64, CARQUET_REPETITION_REQUIRED, 0) != CARQUET_OK) return 2;

    carquet_writer_options_t opts;
    carquet_writer_options_init(&opts);
    opts.compression = CARQUET_COMPRESSION_UNCOMPRESSED;
    opts.write_statistics = true;
    carquet_writer_t* w = carquet_writer_create(path, schema, &opts, &err);
    if (!w) { printf("SETUP: writer: %s\n", err.message); return 2; }

    uint32_t v32[2] = { 1u, 3000000000u };
    uint64_t v64[2] = { 2u, (UINT64_C(1) << 63) + 5 };
    if (carquet_writer_write_batch(w, 0, v32, 2, NULL, NULL) != CARQUET_OK) return 2;
    if (carquet_writer_write_batch(w, 1, v64, 2, NULL, NULL) != CARQUET_OK) return 2;
    if (carquet_writer_close(w) != CARQUET_OK) return 2;

    /* what the file declares and where the chunks are */
    carquet_reader_t* rd = carquet_reader_open(path, NULL, &err);
    if (!rd) { printf("SETUP: reader: %s\n", err.message); return 2; }
    const carquet_schema_t* fs = carquet_reader_schema(rd);
    for (int c = 0; c < 2; c++) {
        /* flat schema: element 0 is the root, element c+1 is leaf c */
        const carquet_schema_node_t* node = carquet_schema_get_element(fs, c + 1);
        const carquet_logical_type_t* lt = carquet_schema_node_logical_type(node);
        printf("column %s: logical type in file: %s bit_width=%d signed=%d\n", c == 0 ? "u32" : "u64",
               lt && lt->id == CARQUET_LOGICAL_INTEGER ? "INTEGER" : "(other)",
               lt ? lt->params.integer.bit_width : 0, lt ? (int)lt->params.integer.is_signed : -1);
        if (!lt || lt->id != CARQUET_LOGICAL_INTEGER || lt->params.integer.is_signed) { printf("SETUP: logical type lost\n"); return 2; }
    }
    uint32_t r32[2]; uint64_t r64[2];
    carquet_column_reader_t* c0 = carquet_reader_get_column(rd, 0, 0, &err);
    carquet_column_reader_t* c1 = carquet_reader_get_column(rd, 0, 1, &err);
    if (!c0 || !c1) return 2;
    if (carquet_column_read_batch(c0, r32, 2, NULL, NULL) != 2) return 2;
    if (carquet_column_read_batch(c1, r64, 2, NULL, NULL) != 2) return 2;
    carquet_column_reader_free(c0); carquet_column_reader_free(c1);
    carquet_reader_close(rd);

    /* raw bytes: chunk 0 starts right after the magic; chunk 1 right after chunk 0 */
    FILE* f = fopen(path, "rb");
    if (!f) return 2;
    static uint8_t buf[1 << 16];
    size_t n = fread(buf, 1, sizeof buf, f);
    fclose(f);

    int bad = 0;
    size_t off = 4;
    for (int c = 0; c < 2; c++) {
        page_stats ps;
        if (parse_page_stats(buf + off, n - off, &ps) != 0) { printf("SETUP: cannot parse page header at %zu\n", off); return 2; }
        if (!ps.found) { printf("column %d: page header has no statistics (nothing to check)\n", c); }
        else if (c == 0) {
            uint32_t mn, mx; memcpy(&mn, ps.min, 4); memcpy(&mx, ps.max, 4);
            printf("u32 page: values {%u, %u}  header statistics min_value=%u max_value=%u (as unsigned), null_count=%" PRId64 "\n",
                   r32[0], r32[1], mn, mx, ps.null_count);
            for (int i = 0; i < 2; i++)
                if (!(mn <= r32[i] && r32[i] <= mx)) { printf("  VIOLATION: %u is not within [min, max] in the column's (unsigned) order\n", r32[i]); bad++; }
        } else {
            uint64_t mn, mx; memcpy(&mn, ps.min, 8); memcpy(&mx, ps.max, 8);
            printf("u64 page: values {%" PRIu64 ", %" PRIu64 "}  header statistics min_value=%" PRIu64 " max_value=%" PRIu64 " (as unsigned)\n",
                   r64[0], r64[1], mn, mx);
            for (int i = 0; i < 2; i++)
                if (!(mn <= r64[i] && r64[i] <= mx)) { printf("  VIOLATION: %" PRIu64 " is not within [min, max] in the column's (unsigned) order\n", r64[i]); bad++; }
        }
        /* next chunk: skip this page (header + 2 plain values) */
        {
            tr r = { buf + off, buf + n, {0}, 0, 0 };
            tr_skip(&r, 12);
            off = (size_t)(r.p - buf) + (c == 0 ? 8 : 16);
        }
    }
    carquet_schema_free(schema);
    remove(path);
    if (bad) { printf("RESULT: %d violations\n", bad); return 1; }
    printf("RESULT: ok\n");
    return 0;
}
