#!/bin/sh
# Builds the unchanged library with ThreadSanitizer (default configuration
# otherwise), builds the demo the same way, writes the test file in one process
# and reads it from 8 threads in another.
HERE=$(cd "$(dirname "$0")" && pwd)
ROOT=$(cd "$HERE/../.." && pwd)
set -e
cd "$ROOT"
cmake -G Ninja -S "$ROOT" -B "$HERE/_build_tsan" -DCMAKE_C_FLAGS="-fsanitize=thread -g -O1" \
      -DCMAKE_EXE_LINKER_FLAGS="-fsanitize=thread" \
      -DCARQUET_BUILD_TESTS=OFF -DCARQUET_BUILD_EXAMPLES=OFF -DCARQUET_BUILD_BENCHMARKS=OFF >/dev/null
cmake --build "$HERE/_build_tsan" --target carquet >/dev/null
cc -fsanitize=thread -O1 -g -I"$ROOT/include" "$HERE/demo.c" "$HERE/_build_tsan/libcarquet.a" \
   -lzstd -lz -lm -fopenmp -lpthread -o "$HERE/demo"
cd "$HERE"
./demo gen c07_crc_demo.parquet
OMP_WAIT_POLICY=passive; export OMP_WAIT_POLICY
RUNS=${RUNS:-20}
i=1
while [ "$i" -le "$RUNS" ]; do
    set +e
    TSAN_OPTIONS="halt_on_error=0 exitcode=66" ./demo read c07_crc_demo.parquet > last_output.txt 2>&1
    rc=$?
    set -e
    if [ "$rc" -ne 0 ]; then
        echo "run $i: demo exit status $rc"
        grep -c "WARNING: ThreadSanitizer: data race" last_output.txt | sed 's/^/data race reports: /'
        grep "SUMMARY: ThreadSanitizer" last_output.txt | sort | uniq -c
        echo "--- first report ---"
        awk '/WARNING: ThreadSanitizer/{n++} n==1' last_output.txt | head -40
        grep "^thread " last_output.txt
        rm -f c07_crc_demo.parquet
        exit 1
    fi
    i=$((i + 1))
done
rm -f c07_crc_demo.parquet
echo "no failure in $RUNS runs"
exit 0
