/*
 * C07 demo: concurrent FIRST use of the library by independent readers.
 *
 *   ./demo gen  FILE   write a small uncompressed file (pages carry CRC32) and exit
 *   ./demo read FILE   start NTHREADS threads at once; each opens its OWN reader
 *                      on FILE and reads it through its own batch reader
 *                      (num_threads = 1: no OpenMP workers involved at all).
 *
 * "gen" runs in a separate process so that in "read" nothing in the library has
 * been used before the threads start: the first page each thread loads is the
 * first use of the CRC32 code in the process.
 *
 * The program is built with ThreadSanitizer (library and demo). It exits 0 when
 * all threads got the rows and no data race was detected; ThreadSanitizer makes
 * it exit 66 when two threads touched the same memory without synchronisation.
 */
#include <carquet/carquet.h>
#include <pthread.h>
#include <stdint.h>
#include <stdio.h>
#include <stdlib.h>
#include <string.h>

#define NTHREADS 8
#define NROWS 2000

static const char* g_path;

static int gen(const char* path) {
    carquet_error_t err = CARQUET_ERROR_INIT;
    carquet_schema_t* s = carquet_schema_create(&err);
    if (!s) return 1;
    if (carquet_schema_add_column(s, "a", CARQUET_PHYSICAL_INT64, NULL, CARQUET_REPETITION_REQUIRED, 0) != CARQUET_OK) return 1;
    if (carquet_schema_add_column(s, "b", CARQUET_PHYSICAL_INT32, NULL, CARQUET_REPETITION_REQUIRED, 0) != CARQUET_OK) return 1;
    carquet_writer_options_t wo; carquet_writer_options_init(&wo);
    wo.compression = CARQUET_COMPRESSION_UNCOMPRESSED;
    wo.page_size = 4096;
    carquet_writer_t* w = carquet_writer_create(path, s, &wo, &err);
    if (!w) return 1;
    static int64_t a[NROWS]; static int32_t b[NROWS];
    for (int i = 0; i < NROWS; i++) { a[i] = (int64_t)i * 1000003; b[i] = i ^ 0x5a5a; }
    if (carquet_writer_write_batch(w, 0, a, NROWS, NULL, NULL) != CARQUET_OK) return 1;
    if (carquet_writer_write_batch(w, 1, b, NROWS, NULL, NULL) != CARQUET_OK) return 1;
    if (carquet_writer_close(w) != CARQUET_OK) return 1;
    carquet_schema_free(s);
    return 0;
}

typedef struct { int64_t rows; int64_t sum; carquet_status_t final; } result_t;
static pthread_barrier_t bar;

static void* worker(void* arg) {
    result_t* r = arg; r->rows = 0; r->sum = 0; r->final = CARQUET_OK;
    pthread_barrier_wait(&bar);
    carquet_error_t err = CARQUET_ERROR_INIT;
    carquet_reader_t* rd = carquet_reader_open(g_path, NULL, &err);    /* verify_checksums defaults to true */
    if (!rd) { r->final = err.code; return NULL; }
    carquet_batch_reader_config_t cfg; carquet_batch_reader_config_init(&cfg);
    cfg.batch_size = 512; cfg.num_threads = 1;
    carquet_batch_reader_t* br = carquet_batch_reader_create(rd, &cfg, &err);
    if (!br) { r->final = err.code; carquet_reader_close(rd); return NULL; }
    for (;;) {
        carquet_row_batch_t* b = NULL;
        carquet_status_t st = carquet_batch_reader_next(br, &b);
        if (st != CARQUET_OK || !b) { r->final = st; break; }
        const void* data; const uint8_t* nulls; int64_t nv;
        if (carquet_row_batch_column(b, 0, &data, &nulls, &nv) == CARQUET_OK)
            for (int64_t i = 0; i < nv; i++) r->sum += ((const int64_t*)data)[i];
        r->rows += carquet_row_batch_num_rows(b);
        carquet_row_batch_free(b);
    }
    carquet_batch_reader_free(br);
    carquet_reader_close(rd);
    return NULL;
}

int main(int argc, char** argv) {
    if (argc != 3) { fprintf(stderr, "usage: %s gen|read FILE\n", argv[0]); return 2; }
    if (strcmp(argv[1], "gen") == 0) return gen(argv[2]) ? 2 : 0;
    g_path = argv[2];
    pthread_t th[NTHREADS]; static result_t res[NTHREADS];
    pthread_barrier_init(&bar, NULL, NTHREADS);
    for (int i = 0; i < NTHREADS; i++) pthread_create(&th[i], NULL, worker, &res[i]);
    for (int i = 0; i < NTHREADS; i++) pthread_join(th[i], NULL);
    int64_t expect = 0; for (int i = 0; i < NROWS; i++) expect += (int64_t)i * 1000003;
    int bad = 0;
    for (int i = 0; i < NTHREADS; i++) {
        int ok = res[i].rows == NROWS && res[i].sum == expect && res[i].final == CARQUET_ERROR_END_OF_DATA;
        printf("thread %d: rows=%lld final=%d (%s) %s\n", i, (long long)res[i].rows, res[i].final,
               carquet_status_string(res[i].final), ok ? "ok" : "WRONG");
        if (!ok) bad = 1;
    }
    return bad;
}
