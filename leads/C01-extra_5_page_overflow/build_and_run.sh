#!/bin/sh
# Builds the library in the worktree as it is, builds the demo, runs it.
set -e
WT=/tmp/wt4/C01
cd "$WT"
cmake -G Ninja -B _build >/dev/null
cmake --build _build >/dev/null
cd "$WT/_finding/extra_5_page_overflow"
cc -g -O2 -I"$WT/include" demo.c "$WT/_build/libcarquet.a" -lzstd -lz -lm -fopenmp -lpthread -o demo
set +e
./demo /tmp   # needs ~3 GiB RAM, ~0.6 GiB of scratch disk in /tmp, ~30 s
echo "demo exit status: $?"
