/*
 * C01 demo (extra 5): one write_batch call of 2^31 rows is accepted (every writer call returns
 * CARQUET_OK) but the file cannot be read back.
 *
 * A REQUIRED BOOLEAN column is used because it is the cheapest way to get 2^31 rows:
 * the caller's array is 2 GiB of calloc'ed (mostly untouched) memory, the finished page
 * is only 256 MiB.  Peak RSS of the demo is about 3 GiB, run time about 10-20 s per case.
 *
 *   control : 2^31 - 1 rows in one call  -> reads back fine
 *   case    : 2^31     rows in one call  -> writer says OK, reader cannot read row 0
 *
 * exit 0 = property holds, 1 = violated, 2 = environment problem (not enough memory...).
 */
#include <carquet/carquet.h>
#include <stdio.h>
#include <stdlib.h>
#include <string.h>
#include <stdint.h>
#include <unistd.h>

static int run(const char* path, int64_t n) {
    carquet_error_t err = CARQUET_ERROR_INIT;
    printf("rows in one write_batch call: %lld\n", (long long)n);

    carquet_schema_t* s = carquet_schema_create(&err);
    if (!s) return 2;
    if (carquet_schema_add_column(s, "b", CARQUET_PHYSICAL_BOOLEAN, NULL,
                                  CARQUET_REPETITION_REQUIRED, 0) != CARQUET_OK) return 2;
    carquet_writer_t* w = carquet_writer_create(path, s, NULL, &err);
    if (!w) { printf("  writer_create failed: %s\n", err.message); return 2; }

    uint8_t* v = calloc((size_t)n, 1);
    if (!v) { printf("  cannot allocate the input array\n"); return 2; }
    v[0] = 1; v[1] = 0; v[2] = 1; v[n - 1] = 1;

    carquet_status_t st = carquet_writer_write_batch(w, 0, v, n, NULL, NULL);
    printf("  carquet_writer_write_batch -> %d (%s)\n", st, carquet_status_string(st));
    if (st != CARQUET_OK) { carquet_writer_abort(w); free(v); return 2; }
    st = carquet_writer_close(w);
    printf("  carquet_writer_close       -> %d (%s)\n", st, carquet_status_string(st));
    free(v);
    carquet_schema_free(s);
    if (st != CARQUET_OK) return 2;

    carquet_reader_t* r = carquet_reader_open(path, NULL, &err);
    if (!r) { printf("  re-open FAILED: %s\n", err.message); return 1; }
    printf("  re-opened: num_rows=%lld row_groups=%d\n",
           (long long)carquet_reader_num_rows(r), carquet_reader_num_row_groups(r));
    carquet_column_reader_t* c = carquet_reader_get_column(r, 0, 0, &err);
    if (!c) { printf("  get_column FAILED: %s\n", err.message); carquet_reader_close(r); return 1; }
    uint8_t out[3] = {9, 9, 9};
    int64_t got = carquet_column_read_batch(c, out, 3, NULL, NULL);
    printf("  carquet_column_read_batch(3) -> %lld, values %d %d %d (expected 3, values 1 0 1)\n",
           (long long)got, out[0], out[1], out[2]);
    int ok = (got == 3 && out[0] == 1 && out[1] == 0 && out[2] == 1);
    carquet_column_reader_free(c);

    if (ok) {   /* also look at the batch reader */
        carquet_batch_reader_t* br = carquet_batch_reader_create(r, NULL, &err);
        carquet_row_batch_t* b = NULL;
        carquet_status_t bs = carquet_batch_reader_next(br, &b);
        if (bs != CARQUET_OK || !b) { printf("  batch reader FAILED: %d\n", bs); ok = 0; }
        carquet_row_batch_free(b);
        carquet_batch_reader_free(br);
    }
    carquet_reader_close(r);
    return ok ? 0 : 1;
}

int main(int argc, char** argv) {
    char path[256];
    snprintf(path, sizeof path, "%s/carquet_c01_demo3_%d.parquet",
             argc > 1 ? argv[1] : "/tmp", (int)getpid());
    int rc_control = run(path, 2147483647LL);
    remove(path);
    int rc_case = run(path, 2147483648LL);
    remove(path);
    if (rc_control == 2 || rc_case == 2) { printf("RESULT: inconclusive (environment)\n"); return 2; }
    printf("control (2^31-1 rows): %s\n", rc_control ? "FAILED" : "ok");
    printf("case    (2^31   rows): %s\n", rc_case ? "FAILED" : "ok");
    int violated = rc_control || rc_case;
    printf(violated ? "RESULT: property VIOLATED\n" : "RESULT: property holds\n");
    return violated;
}
