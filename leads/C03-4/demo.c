/*
 * C03 finding 4: FIXED_LEN_BYTE_ARRAY columns whose type_length exceeds 16 MiB.
 *
 * The batch reader's private get_type_size() returns 0 for such a column
 * ("invalid"), although the file reader, the column reader and the page reader
 * all accept it.  The copying path of carquet_batch_reader_next() then fails
 * the batch, but the zero-copy path (mmap / open_buffer) never looks at the 0
 * and computes the view as  page_start + page_values_read * 0  - i.e. every
 * batch silently points at the FIRST value of the page.
 *
 *   fread  : CARQUET_ERROR_DECODE on a valid file
 *   mmap   : CARQUET_OK, wrong rows (row 0 returned for every batch)
 *   buffer : same as mmap
 *
 * Exit status 0 = the three modes agree and return rows 0,1,2; 1 = violated.
 */
#include <carquet/carquet.h>
#include "pq.h"

#define FLBA_LEN (16 * 1024 * 1024 + 1)
#define NVALUES 3

static void build(pq_buf* f) {
    pq_put(f, "PAR1", 4);
    int64_t data_off = (int64_t)f->n;
    int64_t body = (int64_t)FLBA_LEN * NVALUES;
    /* one v1 data page, PLAIN, uncompressed, no levels (REQUIRED column) */
    pq_tw w; tw_init(&w, f);
    tw_i32(&w, 1, 0); tw_i32(&w, 2, (int32_t)body); tw_i32(&w, 3, (int32_t)body);
    tw_field(&w, T_STRUCT, 5); tw_struct_begin(&w);
    tw_i32(&w, 1, NVALUES); tw_i32(&w, 2, 0); tw_i32(&w, 3, 3); tw_i32(&w, 4, 3);
    tw_struct_end(&w); pq_u8(f, 0);
    uint8_t* v = malloc(FLBA_LEN);
    for (int k = 0; k < NVALUES; k++) { memset(v, 'A' + k, FLBA_LEN); pq_put(f, v, FLBA_LEN); }
    free(v);
    int64_t total = (int64_t)f->n - data_off;

    size_t fstart = f->n;
    tw_init(&w, f);
    tw_i32(&w, 1, 1);
    tw_list(&w, 2, T_STRUCT, 2);
    tw_struct_begin(&w); tw_str(&w, 4, "schema"); tw_i32(&w, 5, 1); tw_struct_end(&w);
    tw_struct_begin(&w); tw_i32(&w, 1, 7 /* FIXED_LEN_BYTE_ARRAY */); tw_i32(&w, 2, FLBA_LEN);
    tw_i32(&w, 3, 0 /* REQUIRED */); tw_str(&w, 4, "blob"); tw_struct_end(&w);
    tw_i64(&w, 3, NVALUES);
    tw_list(&w, 4, T_STRUCT, 1);
    tw_struct_begin(&w);
    tw_list(&w, 1, T_STRUCT, 1);
    tw_struct_begin(&w); tw_i64(&w, 2, data_off);
    tw_field(&w, T_STRUCT, 3); tw_struct_begin(&w);
    tw_i32(&w, 1, 7);
    tw_list(&w, 2, T_I32, 2); pq_varint(f, pq_zz(0)); pq_varint(f, pq_zz(3));
    tw_list(&w, 3, T_BINARY, 1); pq_varint(f, 4); pq_put(f, "blob", 4);
    tw_i32(&w, 4, 0 /* UNCOMPRESSED */); tw_i64(&w, 5, NVALUES);
    tw_i64(&w, 6, total); tw_i64(&w, 7, total); tw_i64(&w, 9, data_off);
    tw_struct_end(&w); tw_struct_end(&w);
    tw_i64(&w, 2, total); tw_i64(&w, 3, NVALUES);
    tw_struct_end(&w);
    tw_str(&w, 6, "hand-built");
    pq_u8(f, 0);
    pq_u32le(f, (uint32_t)(f->n - fstart)); pq_put(f, "PAR1", 4);
}

int main(void) {
    const char* path = "finding4.parquet";
    pq_buf f = {0}; build(&f);
    FILE* fp = fopen(path, "wb"); if (!fp || fwrite(f.d, 1, f.n, fp) != f.n) { perror("write"); return 2; } fclose(fp);

    static const char* mname[] = { "fread ", "mmap  ", "buffer" };
    char got[3][16]; int violated = 0;
    for (int mode = 0; mode < 3; mode++) {
        carquet_error_t err = CARQUET_ERROR_INIT;
        carquet_reader_options_t ro; carquet_reader_options_init(&ro); ro.use_mmap = (mode == 1);
        carquet_reader_t* r = mode == 2 ? carquet_reader_open_buffer(f.d, f.n, &ro, &err) : carquet_reader_open(path, &ro, &err);
        if (!r) { printf("%s: open failed: %s\n", mname[mode], err.message); return 2; }

        /* reference: the column reader handles the column in every mode */
        carquet_column_reader_t* cr = carquet_reader_get_column(r, 0, 0, &err);
        uint8_t* one = malloc(FLBA_LEN); char ref[8] = {0}; int nref = 0;
        while (cr && carquet_column_has_next(cr) && nref < 7) {
            if (carquet_column_read_batch(cr, one, 1, NULL, NULL) != 1) break;
            ref[nref++] = (char)one[0];
        }
        free(one); carquet_column_reader_free(cr);

        carquet_batch_reader_config_t cfg; carquet_batch_reader_config_init(&cfg); cfg.batch_size = 1;
        carquet_batch_reader_t* br = carquet_batch_reader_create(r, &cfg, &err);
        char* g = got[mode]; int n = 0; memset(g, 0, 16);
        for (int guard = 0; guard < 8; guard++) {
            carquet_row_batch_t* b = NULL;
            carquet_status_t st = carquet_batch_reader_next(br, &b);
            if (st == CARQUET_ERROR_END_OF_DATA) break;
            if (st != CARQUET_OK || !b) { g[n++] = '!'; break; }
            const void* data; const uint8_t* nb; int64_t nv;
            if (carquet_row_batch_column(b, 0, &data, &nb, &nv) != CARQUET_OK || nv != 1) g[n++] = '?';
            else g[n++] = (char)((const uint8_t*)data)[0];
            carquet_row_batch_free(b);
        }
        carquet_batch_reader_free(br);
        carquet_reader_close(r);
        printf("%s: column reader values start with \"%s\"; batch reader (batch_size=1) returns \"%s\"   ('!' = carquet_batch_reader_next failed)\n", mname[mode], ref, g);
        if (strcmp(ref, "ABC") != 0) { printf("  (unexpected: column reader did not return ABC)\n"); violated = 1; }
        if (strcmp(g, "ABC") != 0) violated = 1;
    }
    if (strcmp(got[0], got[1]) || strcmp(got[0], got[2])) { printf("VIOLATION: the three read modes return different batch output for the same bytes\n"); violated = 1; }
    remove(path);
    printf(violated ? "RESULT: property violated\n" : "RESULT: property holds\n");
    return violated;
}
