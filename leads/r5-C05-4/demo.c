/*
 * C05 demo 4: the writer stores Statistics.min_value / max_value (fields 6/5)
 * in every data page header but never writes FileMetaData.column_orders
 * (field 7). parquet.thrift: "Without column_orders, the meaning of the
 * min_value and max_value fields in the Statistics object ... is undefined. To
 * ensure well-defined behaviour, if these fields are written to a Parquet file,
 * column_orders must be written as well."
 *
 * Table: REQUIRED INT32 'i' = {3,1,2}, OPTIONAL DOUBLE 'd' = {1.5, NULL, -2.5},
 * default options.
 *
 * exit 0: no min_value/max_value anywhere, or column_orders present with one
 *         entry per leaf column.   exit 1: property violated.
 */
#include <carquet/carquet.h>
#include "pqcheck.h"

int main(void) {
    setvbuf(stdout, NULL, _IONBF, 0);
    const char *path = "demo4.parquet";
    carquet_error_t err = CARQUET_ERROR_INIT;
    carquet_schema_t *schema = carquet_schema_create(&err);
    if (!schema) return 2;
    if (carquet_schema_add_column(schema, "i", CARQUET_PHYSICAL_INT32, NULL, CARQUET_REPETITION_REQUIRED, 0) != CARQUET_OK) return 2;
    if (carquet_schema_add_column(schema, "d", CARQUET_PHYSICAL_DOUBLE, NULL, CARQUET_REPETITION_OPTIONAL, 0) != CARQUET_OK) return 2;
    carquet_writer_options_t opt; carquet_writer_options_init(&opt);
    carquet_writer_t *w = carquet_writer_create(path, schema, &opt, &err);
    if (!w) return 2;
    int32_t iv[3] = {3, 1, 2};
    double dv[2] = {1.5, -2.5};
    int16_t def[3] = {1, 0, 1};
    carquet_status_t s1 = carquet_writer_write_batch(w, 0, iv, 3, NULL, NULL);
    carquet_status_t s2 = carquet_writer_write_batch(w, 1, dv, 3, def, NULL);
    carquet_status_t s3 = carquet_writer_close(w);
    carquet_schema_free(schema);
    printf("write_batch=%d,%d close=%d\n", s1, s2, s3);
    if (s1 || s2 || s3) { printf("writer reported an error: property not engaged\n"); return 0; }

    pq_file_t f;
    int problems = pq_check_file(path, &f);
    if (problems) { printf("FAIL: independent reader reports %d other problems\n", problems); return 1; }
    int64_t with_new = 0, with_old = 0;
    for (int c = 0; c < f.n_leaf; c++) { with_new += f.col[c].pages_with_minmax_value; with_old += f.col[c].pages_with_minmax_deprecated; }
    printf("data pages whose Statistics carry min_value/max_value (fields 6/5): %lld\n", (long long)with_new);
    printf("data pages whose Statistics carry the deprecated min/max (fields 2/1): %lld\n", (long long)with_old);
    printf("FileMetaData.column_orders (field 7): %s", f.has_column_orders ? "present" : "ABSENT");
    if (f.has_column_orders) printf(", %d entries for %d leaf columns", f.n_column_orders, f.n_leaf);
    printf("\n");
    int bad = with_new > 0 && (!f.has_column_orders || f.n_column_orders != f.n_leaf);
    pq_free(&f);
    if (bad) { printf("FAIL: min_value/max_value are written but column_orders is not: their meaning is undefined by the format\n"); return 1; }
    printf("PASS\n");
    return 0;
}
