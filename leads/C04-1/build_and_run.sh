#!/bin/sh
# Builds the unchanged library (plain and ASan/UBSan), builds the demo against
# both, runs both. Exit status 0 = property holds, non-zero = violated.
HERE=$(cd "$(dirname "$0")" && pwd)
WT=$(cd "$HERE/../.." && pwd)
cd "$WT" || exit 2
cmake -G Ninja -B _build >/dev/null && cmake --build _build --target carquet >/dev/null || exit 2
cmake -G Ninja -B _build_asan -DCMAKE_C_FLAGS="-fsanitize=address,undefined -g -O1" \
      -DCMAKE_EXE_LINKER_FLAGS="-fsanitize=address,undefined" >/dev/null \
  && cmake --build _build_asan --target carquet >/dev/null || exit 2
cd "$HERE" || exit 2
LIBS="-lzstd -lz -lm -fopenmp -lpthread"
gcc -g -O1 -w -I"$WT/include" demo.c "$WT/_build/libcarquet.a" $LIBS -o demo_plain || exit 2
gcc -g -O1 -w -fsanitize=address,undefined -I"$WT/include" demo.c "$WT/_build_asan/libcarquet.a" $LIBS -o demo_asan || exit 2
echo "=== plain build ==="
./demo_plain; rc1=$?
echo "exit status: $rc1"
echo "=== ASan/UBSan build ==="
./demo_asan 2>&1 | head -40;
./demo_asan >/dev/null 2>&1; rc2=$?
echo "exit status: $rc2"
[ $rc1 -eq 0 ] && [ $rc2 -eq 0 ]
