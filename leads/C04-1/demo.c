/*
 * C04 finding 1: carquet_reader_row_group_matches() reads 4/8 bytes from the
 * caller's probe value and from the file's min/max statistics no matter how
 * long they really are.
 *
 * The file built here is VALID: one REQUIRED BOOLEAN column, 8 values
 * (1,0,1,0,0,1,0,1), chunk statistics min=0x00 / max=0x01 - one byte each, which
 * is how every Parquet writer (parquet-mr, arrow, ...) stores boolean min/max.
 * The call is valid too: a BOOLEAN value is one byte in carquet (see the
 * "Value Buffer Sizing" table of carquet_column_read_batch) and value_size=1 is
 * passed.
 *
 * Part A (wrong answer): the byte after the probe is not the library's to read,
 *         but its contents decide the result: "flag == true" is reported as
 *         impossible for a row group that contains true.
 * Part B (out of bounds): the probe byte is the last byte of a mapping that is
 *         followed by an inaccessible page; the library's 4-byte load crosses
 *         into it (SIGSEGV without a sanitizer, heap-buffer-overflow report
 *         with one if a malloc(1) probe is used - see part C).
 *
 * exit 0 = property holds, non-zero = violated.
 */
#include <carquet/carquet.h>
#include <signal.h>
#include <stdio.h>
#include <stdlib.h>
#include <string.h>
#include <sys/mman.h>
#include <unistd.h>
#include "pqbuild.h"

static void on_segv(int sig) {
    (void)sig;
    static const char msg[] =
        "PART B: VIOLATION - SIGSEGV: carquet_reader_row_group_matches read past the "
        "caller's 1-byte value (value_size=1)\n";
    ssize_t w = write(2, msg, sizeof msg - 1);
    (void)w;
    _exit(11);
}

int main(void) {
    const char* path = "/tmp/c04_finding1.parquet";
    int failures = 0;

    /* ---- build the (valid) file ---- */
    tb_t pages; tb_init(&pages);
    uint8_t body[1] = {0xA5};                 /* bits LSB first: 1,0,1,0,0,1,0,1 */
    pq_data_page(&pages, 8, ENC_PLAIN, body, 1);
    uint8_t mn = 0, mx = 1;
    pq_col_t col = {"flag", PT_BOOLEAN, 0, REP_REQUIRED, 0, 8, pages.p, pages.n, 0, 0, &mn, 1, &mx, 1};
    tb_t f; tb_init(&f);
    pq_file(&f, &col, 1, 8);
    if (pq_write(path, &f) != 0) { perror("write"); return 2; }
    tb_free(&f); tb_free(&pages);

    carquet_error_t err = CARQUET_ERROR_INIT;
    carquet_reader_t* r = carquet_reader_open(path, NULL, &err);
    if (!r) { fprintf(stderr, "unexpected: cannot open the valid file: %s\n", err.message); return 2; }

    /* sanity: the data really contains true values and the stats are 1 byte */
    carquet_column_reader_t* c = carquet_reader_get_column(r, 0, 0, &err);
    uint8_t vals[8] = {0};
    int64_t n = c ? carquet_column_read_batch(c, vals, 8, NULL, NULL) : -1;
    int trues = 0;
    for (int i = 0; i < n; i++) trues += vals[i];
    carquet_column_reader_free(c);
    carquet_column_statistics_t st;
    carquet_status_t s = carquet_reader_column_statistics(r, 0, 0, &st);
    printf("column 'flag': %lld values read, %d of them true; statistics: status=%d has_min_max=%d "
           "min_size=%d max_size=%d\n", (long long)n, trues, s, st.has_min_max,
           st.min_value_size, st.max_value_size);
    if (n != 8 || trues != 4 || s != CARQUET_OK || !st.has_min_max) {
        fprintf(stderr, "unexpected: setup does not look as planned\n");
        return 2;
    }

    /* ---- Part A: the answer depends on bytes that are not part of the value ---- */
    struct { uint8_t value; uint8_t not_the_value[7]; } probe;
    bool might[2] = {true, true};
    for (int k = 0; k < 2; k++) {
        probe.value = 1;                                  /* "flag == true" */
        memset(probe.not_the_value, k ? 0xFF : 0x00, sizeof probe.not_the_value);
        might[k] = true;
        s = carquet_reader_row_group_matches(r, 0, 0, CARQUET_COMPARE_EQ,
                                             &probe.value, 1, &might[k]);
        printf("PART A: flag == true, value_size=1, bytes after the value = 0x%02X: status=%d might_match=%d\n",
               k ? 0xFF : 0x00, s, might[k]);
    }
    if (!might[0] || !might[1]) {
        printf("PART A: VIOLATION - the row group holds %d true values but is reported as "
               "not matching 'flag == true'\n", trues);
        failures++;
    }
    if (might[0] != might[1]) {
        printf("PART A: VIOLATION - result depends on memory outside the 1-byte value\n");
        failures++;
    }

    /* ---- Part C: exact-size heap value (caught by AddressSanitizer / valgrind) ---- */
    {
        uint8_t* hv = malloc(1);
        *hv = 0;
        bool m = true;
        s = carquet_reader_row_group_matches(r, 0, 0, CARQUET_COMPARE_EQ, hv, 1, &m);
        printf("PART C: malloc(1) value: status=%d might_match=%d (a sanitizer reports the 4-byte read here)\n", s, m);
        free(hv);
    }

    /* ---- Part B: value placed directly in front of an inaccessible page ---- */
    long pg = sysconf(_SC_PAGESIZE);
    uint8_t* map = mmap(NULL, (size_t)pg * 2, PROT_READ | PROT_WRITE, MAP_PRIVATE | MAP_ANONYMOUS, -1, 0);
    if (map == MAP_FAILED || mprotect(map + pg, (size_t)pg, PROT_NONE) != 0) { perror("mmap"); return 2; }
    uint8_t* last = map + pg - 1;                         /* a valid 1-byte buffer */
    *last = 1;
    struct sigaction sa; memset(&sa, 0, sizeof sa); sa.sa_handler = on_segv;
    sigaction(SIGSEGV, &sa, NULL); sigaction(SIGBUS, &sa, NULL);
    fflush(stdout);
    bool m = true;
    s = carquet_reader_row_group_matches(r, 0, 0, CARQUET_COMPARE_EQ, last, 1, &m);
    printf("PART B: survived: status=%d might_match=%d\n", s, m);

    carquet_reader_close(r);
    unlink(path);
    printf(failures ? "RESULT: property violated\n" : "RESULT: ok\n");
    return failures ? 1 : 0;
}
