#!/bin/sh
# Builds the library of this worktree as it is (plain and ASan variants, own
# build directories), builds the demo against both, runs them.
# Exit status 0 = property holds.
set -u
HERE=$(cd "$(dirname "$0")" && pwd)
ROOT=$(cd "$HERE/../.." && pwd)

cmake -G Ninja -S "$ROOT" -B "$HERE/_build" >/dev/null || exit 2
cmake --build "$HERE/_build" --target carquet >/dev/null || exit 2
gcc -O1 -g -I"$ROOT/include" "$HERE/demo.c" "$HERE/_build/libcarquet.a" \
    -o "$HERE/demo" -lzstd -lz -lm -fopenmp -lpthread || exit 2

echo "=== plain build: heap growth per exited thread (mallinfo2) ==="
"$HERE/demo"; rc=$?
echo "exit status: $rc"

cmake -G Ninja -S "$ROOT" -B "$HERE/_build_asan" \
      -DCMAKE_C_FLAGS="-fsanitize=address,undefined -g -O1" \
      -DCMAKE_EXE_LINKER_FLAGS="-fsanitize=address,undefined" >/dev/null || exit 2
cmake --build "$HERE/_build_asan" --target carquet >/dev/null || exit 2
gcc -O1 -g -fsanitize=address,undefined -I"$ROOT/include" "$HERE/demo.c" \
    "$HERE/_build_asan/libcarquet.a" -o "$HERE/demo_asan" -lzstd -lz -lm -fopenmp -lpthread || exit 2

echo "=== ASan build: LeakSanitizer report at exit ==="
ASAN_OPTIONS=detect_leaks=1 "$HERE/demo_asan" >/dev/null 2>"$HERE/lsan.log"; rc2=$?
grep -E "LeakSanitizer|Direct leak|ZSTD_createDCtx|get_dctx|carquet_zstd_decompress|SUMMARY" "$HERE/lsan.log" | head -n 12
echo "exit status: $rc2"

[ $rc -ne 0 ] && exit $rc
exit $rc2
