/*
 * C14 finding 2: every thread that reads a ZSTD-compressed page leaks a
 * ZSTD decompression context (about 94 KiB) when it exits.
 *
 * One carquet_reader_t is shared; K short-lived threads are started one after
 * the other, each reads one column through its own column reader (documented
 * as thread-safe), frees everything it was given and exits. All carquet
 * objects are released before the measurement.
 *
 * Exit status: 0 = no growth (property holds), 1 = heap grows per thread,
 * 2 = set-up problem. Under -fsanitize=address LeakSanitizer additionally
 * reports the lost contexts at exit (exit status 23).
 *
 * Public API only (+ mallinfo2 from glibc to look at the heap).
 */
#include <carquet/carquet.h>
#include <malloc.h>
#include <pthread.h>
#include <stdio.h>
#include <stdlib.h>
#include <string.h>

#define ROWS 4000
static const char* PATH = "/tmp/c14_finding2.parquet";
static carquet_reader_t* rd;
static int bad = 0;

static int write_file(carquet_compression_t codec) {
    carquet_error_t err = CARQUET_ERROR_INIT;
    carquet_schema_t* s = carquet_schema_create(&err);
    if (!s) return 2;
    if (carquet_schema_add_column(s, "c", CARQUET_PHYSICAL_INT32, NULL,
                                  CARQUET_REPETITION_REQUIRED, 0) != CARQUET_OK) return 2;
    carquet_writer_options_t o;
    carquet_writer_options_init(&o);
    o.compression = codec;
    carquet_writer_t* w = carquet_writer_create(PATH, s, &o, &err);
    if (!w) return 2;
    int32_t v[ROWS];
    for (int i = 0; i < ROWS; i++) v[i] = i * 3;
    if (carquet_writer_write_batch(w, 0, v, ROWS, NULL, NULL) != CARQUET_OK) return 2;
    if (carquet_writer_close(w) != CARQUET_OK) return 2;
    carquet_schema_free(s);
    return 0;
}

static void* work(void* a) {
    (void)a;
    carquet_error_t err = CARQUET_ERROR_INIT;
    carquet_column_reader_t* c = carquet_reader_get_column(rd, 0, 0, &err);
    if (!c) { bad = 1; return NULL; }
    int32_t v[512];
    int64_t n, t = 0;
    while ((n = carquet_column_read_batch(c, v, 512, NULL, NULL)) > 0) {
        for (int i = 0; i < n; i++) if (v[i] != (int32_t)(t + i) * 3) bad = 1;
        t += n;
    }
    if (n < 0 || t != ROWS) bad = 1;
    carquet_column_reader_free(c);
    return NULL;
}

static long run_threads(int k) {
    for (int i = 0; i < k; i++) {
        pthread_t th;
        if (pthread_create(&th, NULL, work, NULL) != 0) exit(2);
        pthread_join(th, NULL);
    }
    return (long)mallinfo2().uordblks;
}

static int scenario(const char* name, carquet_compression_t codec) {
    if (write_file(codec) != 0) { fprintf(stderr, "cannot write %s file\n", name); exit(2); }
    carquet_error_t err = CARQUET_ERROR_INIT;
    rd = carquet_reader_open(PATH, NULL, &err);
    if (!rd) exit(2);
    long warm = run_threads(2);               /* one-time allocations out of the way */
    long a = run_threads(50);
    long b = run_threads(50);
    carquet_reader_close(rd);
    remove(PATH);
    long per_thread = (b - a) / 50;
    printf("%-6s heap in use: after warm-up %ld, +50 threads %ld, +100 threads %ld  => %ld bytes per thread%s\n",
           name, warm, a, b, per_thread, bad ? "  (DATA WRONG)" : "");
    return per_thread > 1024;
}

int main(void) {
    int snappy_leaks = scenario("SNAPPY", CARQUET_COMPRESSION_SNAPPY);   /* control */
    int zstd_leaks   = scenario("ZSTD", CARQUET_COMPRESSION_ZSTD);
    if (bad) return 2;
    if (zstd_leaks || snappy_leaks) {
        printf("LEAK: each exiting reader thread leaves memory behind\n");
        return 1;
    }
    printf("no per-thread growth\n");
    return 0;
}
