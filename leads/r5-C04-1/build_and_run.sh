#!/bin/sh
# Finding 1: builds the unchanged library, builds the demo, runs it.
# Exit status: 0 = property holds, non-zero = violated.
set -e
W=/tmp/wt5/C04
cd "$W"
cmake -G Ninja -B _build >/dev/null
cmake --build _build --target carquet >/dev/null
cd "$W/_finding/1"

# (a) plain build; malloc is wrapped only to give fresh heap memory a
#     deterministic (non-zero) content - see the comment at the top of demo.c
gcc -g -O1 -I"$W/include" -o demo demo.c -Wl,--wrap=malloc \
    "$W/_build/libcarquet.a" -lzstd -lz -lm -fopenmp -lpthread
set +e
./demo
rc=$?
set -e

# (b) optional: same program WITHOUT the malloc wrapper under valgrind, to show
#     that the uninitialised read is there with the ordinary allocator as well
if command -v valgrind >/dev/null 2>&1; then
    echo "---- valgrind (no malloc wrapper), first report only ----"
    gcc -g -O1 -DNO_WRAP -I"$W/include" -o demo_nowrap demo.c \
        "$W/_build/libcarquet.a" -lzstd -lz -lm -fopenmp -lpthread
    valgrind -q --trace-children=yes ./demo_nowrap 2>&1 | grep -A6 -m1 "uninitialised" || true
fi
exit $rc
