/*
 * Finding 1: carquet_batch_reader_next() reads uninitialised carquet_byte_array_t
 * slots (and memcpy()s from the garbage pointers in them) when a data page of an
 * OPTIONAL BYTE_ARRAY column carries a definition level larger than the column's
 * maximum definition level.
 *
 * The file: schema  root { optional group g { optional binary s } }   (max_def = 2,
 * so levels are stored with bit width 2 and the value 3 can be encoded).
 * One row group, one uncompressed v1 data page with 8 rows whose definition
 * levels are 3,0,0,0,0,0,0,0 and which therefore stores NO values at all.
 *
 * Public API only.  malloc() is wrapped (-Wl,--wrap=malloc) only to make the
 * content of fresh heap memory deterministic (C leaves it indeterminate): every
 * 16-byte unit is pre-filled so that, read as a carquet_byte_array_t, it is
 * { .data = (uint8_t*)0x10, .length = 16 }.  Nothing else is injected.
 *
 * exit 0: property holds (error reported, or a batch whose values are sane)
 * exit 1: property violated (child crashed / garbage value handed out)
 */
#include <carquet/carquet.h>
#include "pqb.h"
#include <signal.h>
#include <sys/wait.h>
#include <unistd.h>

/* ---- deterministic "dirty heap" ---- */
#ifndef NO_WRAP
void* __real_malloc(size_t n);
void* __wrap_malloc(size_t n) {
    uint8_t* p = (uint8_t*)__real_malloc(n);
    if (p) {
        size_t fill = n < 65536 ? n : 65536;
        size_t i = 0;
        for (; i + 16 <= fill; i += 16) {
            uint64_t ptr = 0x10; int32_t len = 16; int32_t pad = 0;
            memcpy(p + i, &ptr, 8); memcpy(p + i + 8, &len, 4); memcpy(p + i + 12, &pad, 4);
        }
        for (; i < fill; i++) p[i] = 0;
    }
    return p;
}
#endif

static void build_file(pqb_t* file) {
    pqb_init(file);
    pqb_put(file, "PAR1", 4);

    /* page body: def levels (RLE/bit-packed hybrid, 4-byte length prefix) */
    pqb_t body; pqb_init(&body);
    pqb_u32le(&body, 3);        /* length of the level section */
    pqb_u8(&body, 0x03);        /* bit-packed run, 1 group of 8 values */
    pqb_u8(&body, 0x03);        /* levels 3,0,0,0 (2 bits each, LSB first) */
    pqb_u8(&body, 0x00);        /* levels 0,0,0,0 */
    /* no values follow: no level equals max_def (2) */

    int64_t page_off = (int64_t)file->len;
    pq_data_page_header(file, (int32_t)body.len, (int32_t)body.len, 8,
                        0 /* PLAIN */, 3 /* RLE */, 3 /* RLE */);
    pqb_put(file, body.p, body.len);
    int64_t chunk_size = (int64_t)file->len - page_off;
    pqb_free(&body);

    size_t footer_start = file->len;
    t_struct_begin(file);
    t_i32(file, 1, 1);                                  /* version */
    t_list(file, 2, T_STRUCT, 3);                       /* schema */
    pq_schema_elem(file, "schema", -1, 0, -1, 1);
    pq_schema_elem(file, "g", -1, 0, 1 /* OPTIONAL */, 1);
    pq_schema_elem(file, "s", 6 /* BYTE_ARRAY */, 0, 1 /* OPTIONAL */, 0);
    t_i64(file, 3, 8);                                  /* num_rows */
    t_list(file, 4, T_STRUCT, 1);                       /* row_groups */
    t_struct_begin(file);
    t_list(file, 1, T_STRUCT, 1);
    { const char* path[2] = { "g", "s" };
      pq_column_chunk(file, 6, path, 2, 0 /* UNCOMPRESSED */, 8, chunk_size, chunk_size,
                      page_off, 0, 0); }
    t_i64(file, 2, chunk_size);
    t_i64(file, 3, 8);
    t_struct_end(file);
    t_str(file, 6, "demo");
    t_struct_end(file);
    pq_finish_file(file, footer_start);
}

static int child(const pqb_t* file, int mode, const char* path) {
    carquet_error_t err = CARQUET_ERROR_INIT;
    carquet_reader_t* r;
    if (mode == 0) {
        r = carquet_reader_open_buffer(file->p, file->len, NULL, &err);
    } else {
        carquet_reader_options_t o; carquet_reader_options_init(&o);
        o.use_mmap = (mode == 2);
        r = carquet_reader_open(path, &o, &err);
    }
    if (!r) { printf("  open refused: %s\n", err.message); return 0; }

    carquet_batch_reader_config_t cfg; carquet_batch_reader_config_init(&cfg);
    cfg.batch_size = 8;
    cfg.num_threads = 1;
    carquet_batch_reader_t* br = carquet_batch_reader_create(r, &cfg, &err);
    if (!br) { printf("  batch reader refused: %s\n", err.message); carquet_reader_close(r); return 0; }

    carquet_row_batch_t* batch = NULL;
    carquet_status_t st = carquet_batch_reader_next(br, &batch);
    printf("  carquet_batch_reader_next -> %d (%s)\n", (int)st, carquet_status_string(st));
    int rc = 0;
    if (st == CARQUET_OK && batch) {
        const void* data; const uint8_t* nulls; int64_t n;
        if (carquet_row_batch_column(batch, 0, &data, &nulls, &n) == CARQUET_OK) {
            const carquet_byte_array_t* ba = (const carquet_byte_array_t*)data;
            int64_t dense = 0;
            for (int64_t i = 0; i < n; i++) {
                int is_null = (nulls[i / 8] >> (i % 8)) & 1;
                printf("    row %lld: %s", (long long)i, is_null ? "NULL\n" : "");
                if (!is_null) {
                    printf("value #%lld = { data=%p, length=%d }\n",
                           (long long)dense, (void*)ba[dense].data, ba[dense].length);
                    /* the file stores no value at all: anything handed out is garbage */
                    rc = 1;
                    dense++;
                }
            }
        }
        carquet_row_batch_free(batch);
    }
    carquet_batch_reader_free(br);
    carquet_reader_close(r);
    return rc;
}

int main(void) {
    setvbuf(stdout, NULL, _IONBF, 0);
    pqb_t file; build_file(&file);
    const char* path = "/tmp/wt5/C04/_finding/1/hostile_def_level.parquet";
    if (pq_write_file(path, &file) != 0) { perror("write"); return 2; }
    printf("file: %s (%zu bytes)\n", path, file.len);

    int failed = 0;
    static const char* names[3] = { "buffer", "fread", "mmap" };
    for (int mode = 0; mode < 3; mode++) {
        printf("[%s]\n", names[mode]);
        fflush(stdout);
        pid_t pid = fork();
        if (pid == 0) { int rc = child(&file, mode, path); fflush(stdout); _exit(rc); }
        int status = 0; waitpid(pid, &status, 0);
        if (WIFSIGNALED(status)) {
            printf("  VIOLATION: reader crashed with signal %d (%s)\n",
                   WTERMSIG(status), strsignal(WTERMSIG(status)));
            failed = 1;
        } else if (WEXITSTATUS(status) != 0) {
            printf("  VIOLATION: values handed out although the page stores none\n");
            failed = 1;
        } else {
            printf("  ok\n");
        }
    }
    pqb_free(&file);
    printf(failed ? "RESULT: property violated\n" : "RESULT: property holds\n");
    return failed;
}
