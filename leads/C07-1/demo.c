/*
 * C07 finding 1: after one failed batch the batch reader keeps going from a
 * state that depends on how far each worker thread got, so the batches (and
 * status codes) of the following carquet_batch_reader_next() calls differ
 * between num_threads settings - and are row-misaligned in every setting.
 *
 * Public API only, plus link-time interposition of malloc (-Wl,--wrap=malloc)
 * to inject exactly ONE allocation failure: the buffer for column 1 of the
 * second batch (the only 8000-byte request: 1000 rows x INT64).  The failing
 * call is also delayed by 200 ms, which fixes the interleaving "the other
 * workers have already passed the `if (read_error) continue;` check".
 *
 * File: 1 row group, 3000 rows, 3 REQUIRED columns
 *   c0 INT32 = row*10+0, c1 INT64 = row*10+1, c2 INT32 = row*10+2
 * so for every row r of a correct batch  c0/10 == c1/10 == c2/10 == r.
 *
 * exit 0 = property holds, 1 = violated, 2 = setup problem.
 */
#define _GNU_SOURCE
#include <carquet/carquet.h>
#include <stdio.h>
#include <stdlib.h>
#include <string.h>
#include <stdint.h>
#include <unistd.h>

#define ROWS   3000
#define BATCH  1000
#define PATH   "/tmp/wt4/C07/_finding/1/demo.parquet"

/* ---- single-shot allocation fault ---------------------------------------- */
void* __real_malloc(size_t n);
static volatile int g_armed = 0;      /* fail the next malloc(8000) */
static volatile int g_injected = 0;
void* __wrap_malloc(size_t n) {
    if (n == (size_t)BATCH * 8 && __sync_bool_compare_and_swap(&g_armed, 1, 0)) {
        g_injected++;
        usleep(200 * 1000);           /* let the other workers run ahead */
        return NULL;
    }
    return __real_malloc(n);
}

static int write_file(void) {
    carquet_error_t err = CARQUET_ERROR_INIT;
    carquet_schema_t* s = carquet_schema_create(&err);
    if (!s) return 1;
    if (carquet_schema_add_column(s, "c0", CARQUET_PHYSICAL_INT32, NULL, CARQUET_REPETITION_REQUIRED, 0) != CARQUET_OK) return 1;
    if (carquet_schema_add_column(s, "c1", CARQUET_PHYSICAL_INT64, NULL, CARQUET_REPETITION_REQUIRED, 0) != CARQUET_OK) return 1;
    if (carquet_schema_add_column(s, "c2", CARQUET_PHYSICAL_INT32, NULL, CARQUET_REPETITION_REQUIRED, 0) != CARQUET_OK) return 1;
    carquet_writer_options_t o;
    carquet_writer_options_init(&o);
    o.compression = CARQUET_COMPRESSION_SNAPPY;
    o.page_size = 1024;
    carquet_writer_t* w = carquet_writer_create(PATH, s, &o, &err);
    if (!w) return 1;
    static int32_t c0[ROWS], c2[ROWS];
    static int64_t c1[ROWS];
    for (int i = 0; i < ROWS; i++) { c0[i] = i * 10; c1[i] = (int64_t)i * 10 + 1; c2[i] = i * 10 + 2; }
    if (carquet_writer_write_batch(w, 0, c0, ROWS, NULL, NULL) != CARQUET_OK) return 1;
    if (carquet_writer_write_batch(w, 1, c1, ROWS, NULL, NULL) != CARQUET_OK) return 1;
    if (carquet_writer_write_batch(w, 2, c2, ROWS, NULL, NULL) != CARQUET_OK) return 1;
    if (carquet_writer_close(w) != CARQUET_OK) return 1;
    carquet_schema_free(s);
    return 0;
}

#define MAXCALLS 8
typedef struct {
    int ncalls;
    int status[MAXCALLS];
    long long rows[MAXCALLS];
    long long first[MAXCALLS][3];   /* row index (value/10) of the first value of each column */
    int misaligned;                  /* some OK batch whose columns are not the same rows */
} trace_t;

/* inject = 0: fault-free run.  inject = 1: fail column 1's buffer in call #2 */
static int run(int num_threads, int inject, trace_t* t) {
    memset(t, 0, sizeof *t);
    carquet_error_t err = CARQUET_ERROR_INIT;
    carquet_reader_t* rd = carquet_reader_open(PATH, NULL, &err);
    if (!rd) return 2;
    carquet_batch_reader_config_t cfg;
    carquet_batch_reader_config_init(&cfg);
    cfg.batch_size = BATCH;
    cfg.num_threads = num_threads;
    carquet_batch_reader_t* br = carquet_batch_reader_create(rd, &cfg, &err);
    if (!br) return 2;

    for (int call = 0; call < MAXCALLS; call++) {
        if (inject && call == 1) g_armed = 1;
        carquet_row_batch_t* b = NULL;
        carquet_status_t st = carquet_batch_reader_next(br, &b);
        g_armed = 0;
        t->status[call] = st;
        t->ncalls = call + 1;
        if (st == CARQUET_ERROR_END_OF_DATA) break;
        if (st != CARQUET_OK || !b) continue;       /* carry on after a failure */
        t->rows[call] = carquet_row_batch_num_rows(b);
        const void* d[3]; const uint8_t* nb; int64_t nv[3];
        for (int c = 0; c < 3; c++)
            if (carquet_row_batch_column(b, c, &d[c], &nb, &nv[c]) != CARQUET_OK) return 2;
        for (int64_t i = 0; i < t->rows[call]; i++) {
            long long r0 = ((const int32_t*)d[0])[i] / 10;
            long long r1 = ((const int64_t*)d[1])[i] / 10;
            long long r2 = ((const int32_t*)d[2])[i] / 10;
            if (i == 0) { t->first[call][0] = r0; t->first[call][1] = r1; t->first[call][2] = r2; }
            if (r0 != r1 || r1 != r2) t->misaligned = 1;
        }
        carquet_row_batch_free(b);
    }
    carquet_batch_reader_free(br);
    carquet_reader_close(rd);
    return 0;
}

static void print_trace(const char* label, const trace_t* t) {
    printf("%s\n", label);
    for (int i = 0; i < t->ncalls; i++) {
        if (t->status[i] == CARQUET_OK)
            printf("    next() #%d -> OK, %lld rows; first value comes from row c0:%lld c1:%lld c2:%lld%s\n",
                   i + 1, t->rows[i], t->first[i][0], t->first[i][1], t->first[i][2],
                   (t->first[i][0] != t->first[i][1] || t->first[i][1] != t->first[i][2]) ? "   <-- columns are different rows" : "");
        else
            printf("    next() #%d -> status %d (%s)\n", i + 1, t->status[i], carquet_status_string(t->status[i]));
    }
}

static int same(const trace_t* a, const trace_t* b) {
    if (a->ncalls != b->ncalls) return 0;
    for (int i = 0; i < a->ncalls; i++) {
        if (a->status[i] != b->status[i] || a->rows[i] != b->rows[i]) return 0;
        for (int c = 0; c < 3; c++) if (a->first[i][c] != b->first[i][c]) return 0;
    }
    return 1;
}

int main(void) {
    if (write_file()) { fprintf(stderr, "could not write %s\n", PATH); return 2; }
    int violated = 0;
    const int threads[] = {1, 2, 3, 8, 16};
    const int nt = (int)(sizeof threads / sizeof threads[0]);
    trace_t base, t;

    /* Sanity: without a fault all settings agree and the file reads back right */
    if (run(1, 0, &base)) return 2;
    print_trace("fault-free, num_threads=1:", &base);
    for (int k = 1; k < nt; k++) {
        if (run(threads[k], 0, &t)) return 2;
        if (!same(&base, &t) || t.misaligned) { printf("fault-free run differs for num_threads=%d ?!\n", threads[k]); violated = 1; }
    }
    if (base.misaligned) violated = 1;

    /* One allocation failure in call #2, then the caller simply calls next() again */
    g_injected = 0;
    if (run(1, 1, &base)) return 2;
    printf("\none malloc failure (column 1 buffer, 2nd batch), caller carries on:\n");
    print_trace("  num_threads=1:", &base);
    if (g_injected != 1) { printf("fault was not injected (%d)\n", g_injected); return 2; }
    if (base.misaligned) { printf("  => an OK batch contains values of different rows in its columns\n"); violated = 1; }
    for (int k = 1; k < nt; k++) {
        char label[64];
        g_injected = 0;
        if (run(threads[k], 1, &t)) return 2;
        if (g_injected != 1) { printf("fault was not injected (%d)\n", g_injected); return 2; }
        snprintf(label, sizeof label, "  num_threads=%d:", threads[k]);
        print_trace(label, &t);
        if (t.misaligned) { printf("  => an OK batch contains values of different rows in its columns\n"); violated = 1; }
        if (!same(&base, &t)) { printf("  => batches/status codes differ from num_threads=1\n"); violated = 1; }
    }
    printf("\n%s\n", violated ? "PROPERTY VIOLATED" : "property holds");
    return violated;
}
