#!/bin/sh
# Builds the unchanged library (ASan+UBSan), the demo, and runs it.
set -e
WT=/tmp/wt4/C07
cd "$WT"
cmake -G Ninja -B _build_asan -DCMAKE_C_FLAGS="-fsanitize=address,undefined -g -O1" \
      -DCMAKE_EXE_LINKER_FLAGS="-fsanitize=address,undefined" >/dev/null
cmake --build _build_asan --target carquet >/dev/null
cd "$WT/_finding/1"
gcc -g -O1 -fsanitize=address,undefined -fopenmp -I"$WT/include" demo.c \
    "$WT/_build_asan/libcarquet.a" -Wl,--wrap=malloc -lzstd -lz -lm -lpthread -o demo
# the ZSTD/libgomp per-thread state is not the subject here
ASAN_OPTIONS=detect_leaks=0 ./demo
