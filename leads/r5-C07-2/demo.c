/*
 * C07 demo: independent reader handles on the same file, one per thread.
 *
 * Writes a ZSTD-compressed file through the public writer API, reads it once
 * alone (reference), then lets NTHREADS threads read it at the same time, each
 * with its OWN carquet_reader_t + carquet_batch_reader_t (fread / mmap / buffer
 * in turn).  Every thread must get exactly what the lone reader got.
 *
 * Exit 0: all threads returned the same batches and the same final status.
 * Exit 1 (or a crash): some thread got an error or different content.
 */
#include <carquet/carquet.h>
#include <pthread.h>
#include <stdint.h>
#include <stdio.h>
#include <stdlib.h>
#include <string.h>

#define NTHREADS 8
#define NROWS 40000
#define NCOLS 6

static const char* PATH = "c07_zstd_demo.parquet";
static void* g_buf; static size_t g_len;

static int write_file(void) {
    carquet_error_t err = CARQUET_ERROR_INIT;
    carquet_schema_t* s = carquet_schema_create(&err);
    if (!s) return 1;
    const carquet_physical_type_t types[NCOLS] = {
        CARQUET_PHYSICAL_INT64, CARQUET_PHYSICAL_DOUBLE, CARQUET_PHYSICAL_BYTE_ARRAY,
        CARQUET_PHYSICAL_INT32, CARQUET_PHYSICAL_INT64, CARQUET_PHYSICAL_BYTE_ARRAY};
    for (int c = 0; c < NCOLS; c++) {
        char name[16]; snprintf(name, sizeof name, "c%d", c);
        if (carquet_schema_add_column(s, name, types[c], NULL, CARQUET_REPETITION_REQUIRED, 0) != CARQUET_OK) return 1;
    }
    carquet_writer_options_t wo; carquet_writer_options_init(&wo);
    wo.compression = CARQUET_COMPRESSION_ZSTD;
    wo.page_size = 8192;
    carquet_writer_t* w = carquet_writer_create(PATH, s, &wo, &err);
    if (!w) return 1;
    static char text[64 * 1024];
    for (size_t i = 0; i < sizeof text; i++) text[i] = (char)('a' + (i * 7 + i / 13) % 26);
    int64_t* i64 = malloc(sizeof(int64_t) * NROWS); double* f64 = malloc(sizeof(double) * NROWS);
    int32_t* i32 = malloc(sizeof(int32_t) * NROWS); carquet_byte_array_t* ba = malloc(sizeof(*ba) * NROWS);
    uint64_t x = 88172645463325252ULL;
    for (int c = 0; c < NCOLS; c++) {
        const void* vals = NULL;
        for (int i = 0; i < NROWS; i++) {
            x ^= x << 13; x ^= x >> 7; x ^= x << 17;
            i64[i] = (int64_t)(x % 100000) * (c + 1); f64[i] = (double)(x % 977) / 3.0; i32[i] = (int32_t)(x % 5000);
            ba[i].length = (int32_t)(x % 24); ba[i].data = (uint8_t*)text + (x % 60000);
        }
        switch (types[c]) {
            case CARQUET_PHYSICAL_INT64: vals = i64; break;
            case CARQUET_PHYSICAL_DOUBLE: vals = f64; break;
            case CARQUET_PHYSICAL_INT32: vals = i32; break;
            default: vals = ba; break;
        }
        if (carquet_writer_write_batch(w, c, vals, NROWS, NULL, NULL) != CARQUET_OK) return 1;
    }
    if (carquet_writer_close(w) != CARQUET_OK) return 1;
    carquet_schema_free(s);
    free(i64); free(f64); free(i32); free(ba);
    return 0;
}

static uint64_t fnv(uint64_t h, const void* p, size_t n) {
    const uint8_t* b = p;
    for (size_t i = 0; i < n; i++) { h ^= b[i]; h *= 1099511628211ULL; }
    return h;
}

typedef struct { int mode; uint64_t digest; int64_t rows; int batches; carquet_status_t final; } result_t;

static void read_all(result_t* r) {
    r->digest = 1469598103934665603ULL; r->rows = 0; r->batches = 0; r->final = CARQUET_OK;
    carquet_error_t err = CARQUET_ERROR_INIT;
    carquet_reader_options_t ro; carquet_reader_options_init(&ro);
    ro.use_mmap = (r->mode == 1);
    carquet_reader_t* rd = (r->mode == 2) ? carquet_reader_open_buffer(g_buf, g_len, &ro, &err)
                                          : carquet_reader_open(PATH, &ro, &err);
    if (!rd) { r->final = err.code; return; }
    carquet_batch_reader_config_t cfg; carquet_batch_reader_config_init(&cfg);
    cfg.batch_size = 1000; cfg.num_threads = 1;
    carquet_batch_reader_t* br = carquet_batch_reader_create(rd, &cfg, &err);
    if (!br) { r->final = err.code; carquet_reader_close(rd); return; }
    for (;;) {
        carquet_row_batch_t* b = NULL;
        carquet_status_t st = carquet_batch_reader_next(br, &b);
        if (st != CARQUET_OK || !b) { r->final = st; break; }
        int64_t n = carquet_row_batch_num_rows(b);
        r->rows += n; r->batches++;
        for (int c = 0; c < carquet_row_batch_num_columns(b); c++) {
            const void* data; const uint8_t* nulls; int64_t nv;
            if (carquet_row_batch_column(b, c, &data, &nulls, &nv) != CARQUET_OK) { r->final = CARQUET_ERROR_INTERNAL; break; }
            r->digest = fnv(r->digest, &nv, sizeof nv);
            if (c == 2 || c == 5) {
                const carquet_byte_array_t* ba = data;
                for (int64_t i = 0; i < nv; i++) { r->digest = fnv(r->digest, &ba[i].length, 4); r->digest = fnv(r->digest, ba[i].data, (size_t)ba[i].length); }
            } else {
                r->digest = fnv(r->digest, data, (size_t)nv * (c == 3 ? 4 : 8));
            }
        }
        carquet_row_batch_free(b);
    }
    carquet_batch_reader_free(br);
    carquet_reader_close(rd);
}

static pthread_barrier_t bar;
static void* worker(void* arg) { pthread_barrier_wait(&bar); read_all(arg); return NULL; }

int main(void) {
    if (write_file()) { fprintf(stderr, "could not write the test file\n"); return 2; }
    FILE* f = fopen(PATH, "rb"); if (!f) return 2;
    fseek(f, 0, SEEK_END); g_len = (size_t)ftell(f); fseek(f, 0, SEEK_SET);
    g_buf = malloc(g_len); if (fread(g_buf, 1, g_len, f) != g_len) return 2; fclose(f);

    result_t alone = {0}; alone.mode = 0; read_all(&alone);
    printf("alone : rows=%lld batches=%d final=%d (%s) digest=%016llx\n", (long long)alone.rows, alone.batches,
           alone.final, carquet_status_string(alone.final), (unsigned long long)alone.digest);
    if (alone.rows != NROWS || alone.final != CARQUET_ERROR_END_OF_DATA) { printf("reference read is wrong\n"); return 2; }

    pthread_t th[NTHREADS]; result_t res[NTHREADS];
    pthread_barrier_init(&bar, NULL, NTHREADS);
    for (int i = 0; i < NTHREADS; i++) { res[i].mode = i % 3; pthread_create(&th[i], NULL, worker, &res[i]); }
    for (int i = 0; i < NTHREADS; i++) pthread_join(th[i], NULL);

    int bad = 0;
    static const char* modes[] = {"fread", "mmap", "buffer"};
    for (int i = 0; i < NTHREADS; i++) {
        int same = res[i].digest == alone.digest && res[i].rows == alone.rows && res[i].batches == alone.batches && res[i].final == alone.final;
        printf("thread %d (%-6s): rows=%lld batches=%d final=%d (%s) %s\n", i, modes[res[i].mode], (long long)res[i].rows,
               res[i].batches, res[i].final, carquet_status_string(res[i].final), same ? "same as alone" : "DIFFERENT");
        if (!same) bad = 1;
    }
    free(g_buf);
    remove(PATH);
    if (bad) printf("FAIL: independent readers used concurrently did not return what a lone reader returns\n");
    else printf("OK\n");
    return bad;
}
