#!/bin/sh
# Builds the unchanged library in the configuration its CMakeLists.txt selects
# when the C compiler has no OpenMP (find_package(OpenMP) is optional: e.g.
# Apple clang, MSVC without /openmp, any minimal toolchain).  On this machine
# OpenMP is installed, so the "not found" outcome is requested with the standard
# CMake switch CMAKE_DISABLE_FIND_PACKAGE_OpenMP; no source file is touched.
# Then builds the demo against that library and runs it.
set -e
HERE=$(cd "$(dirname "$0")" && pwd)
ROOT=$(cd "$HERE/../.." && pwd)
cd "$ROOT"
cmake -G Ninja -S "$ROOT" -B "$HERE/_build_noomp" -DCMAKE_DISABLE_FIND_PACKAGE_OpenMP=ON \
      -DCARQUET_BUILD_TESTS=OFF -DCARQUET_BUILD_EXAMPLES=OFF -DCARQUET_BUILD_BENCHMARKS=OFF >/dev/null
cmake --build "$HERE/_build_noomp" --target carquet >/dev/null
cc -O1 -g -I"$ROOT/include" "$HERE/demo.c" "$HERE/_build_noomp/libcarquet.a" \
   -lzstd -lz -lm -lpthread -o "$HERE/demo"
cd "$HERE"
# The schedule decides; a handful of runs is plenty (it fails nearly every time).
RUNS=${RUNS:-20}
i=1
while [ "$i" -le "$RUNS" ]; do
    set +e
    ./demo > last_output.txt 2>&1
    rc=$?
    set -e
    if [ "$rc" -ne 0 ]; then
        echo "run $i: demo exit status $rc"
        cat last_output.txt
        exit 1
    fi
    i=$((i + 1))
done
echo "no failure in $RUNS runs"
exit 0
