/*
 * C01 demonstration: one write_batch call with 2^31 BOOLEAN values.
 *
 * Every writer call returns CARQUET_OK, the file re-opens, the footer says
 * 2147483648 rows - and not a single row can be read back, because the one
 * data page the writer produced carries num_values = -2147483648 in its
 * header (the 64-bit page value count was narrowed to the 32-bit Thrift field).
 *
 * Public API only. Needs about 3 GB of RAM and 260 MB of disk for ~15 s:
 * the 2 GiB input array is an untouched anonymous mapping (all zero pages,
 * i.e. 2^31 times "false"), so it costs no memory itself.
 *
 * exit 0: property holds (the rows come back, or the writer refused the
 *         batch with an error); exit 1: property violated.
 */
#include <carquet/carquet.h>
#include <stdio.h>
#include <stdlib.h>
#include <string.h>
#include <sys/mman.h>
#include <unistd.h>

int main(int argc, char** argv) {
    const char* path = argc > 1 ? argv[1] : "c01_big_page.parquet";
    const int64_t n = (int64_t)1 << 31;              /* 2147483648 rows */
    carquet_error_t err = CARQUET_ERROR_INIT;

    uint8_t* vals = mmap(NULL, (size_t)n, PROT_READ,
                         MAP_PRIVATE | MAP_ANONYMOUS | MAP_NORESERVE, -1, 0);
    if (vals == MAP_FAILED) { perror("mmap"); return 2; }

    carquet_schema_t* schema = carquet_schema_create(&err);
    if (!schema || carquet_schema_add_column(schema, "flag", CARQUET_PHYSICAL_BOOLEAN, NULL,
                                             CARQUET_REPETITION_REQUIRED, 0) != CARQUET_OK) return 2;

    carquet_writer_t* w = carquet_writer_create(path, schema, NULL, &err);   /* default options */
    if (!w) { printf("writer_create: %s\n", err.message); return 2; }

    carquet_status_t st = carquet_writer_write_batch(w, 0, vals, n, NULL, NULL);
    printf("carquet_writer_write_batch(%lld booleans) -> %d (%s)\n", (long long)n, st, carquet_status_string(st));
    if (st != CARQUET_OK) {
        carquet_writer_abort(w);
        printf("the writer refused the batch: property holds\n");
        return 0;
    }
    st = carquet_writer_close(w);
    printf("carquet_writer_close -> %d (%s)\n", st, carquet_status_string(st));
    if (st != CARQUET_OK) {
        unlink(path);
        printf("the writer reported the problem at close: property holds\n");
        return 0;
    }
    munmap(vals, (size_t)n);

    int rc = 0;
    carquet_reader_t* r = carquet_reader_open(path, NULL, &err);
    if (!r) {
        printf("VIOLATION: every writer call returned OK but the file does not re-open: %s\n", err.message);
        unlink(path);
        return 1;
    }
    printf("reader: num_rows=%lld row_groups=%d\n",
           (long long)carquet_reader_num_rows(r), carquet_reader_num_row_groups(r));
    if (carquet_reader_num_rows(r) != n) { printf("VIOLATION: row count differs\n"); rc = 1; }

    carquet_column_reader_t* cr = carquet_reader_get_column(r, 0, 0, &err);
    if (!cr) {
        printf("VIOLATION: carquet_reader_get_column failed: %s\n", err.message);
        rc = 1;
    } else {
        static uint8_t out[1 << 20];
        int64_t total = 0, got;
        while ((got = carquet_column_read_batch(cr, out, 1 << 20, NULL, NULL)) > 0) {
            for (int64_t i = 0; i < got; i++) if (out[i] != 0) { printf("VIOLATION: value differs\n"); rc = 1; break; }
            total += got;
        }
        printf("carquet_column_read_batch: %lld rows delivered, last return value %lld\n",
               (long long)total, (long long)got);
        if (total != n) {
            printf("VIOLATION: %lld rows written with CARQUET_OK from every call, %lld rows read back\n",
                   (long long)n, (long long)total);
            rc = 1;
        }
        carquet_column_reader_free(cr);
    }
    carquet_reader_close(r);
    carquet_schema_free(schema);
    unlink(path);
    printf(rc ? "RESULT: property violated\n" : "RESULT: property holds\n");
    return rc;
}
