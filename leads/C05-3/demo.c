/*
 * C05 finding 3: a row-group flush that fails half way is not rolled back, and
 * the writer stays usable.  Retrying carquet_writer_new_row_group() (or simply
 * calling carquet_writer_close()) then succeeds, close() returns OK, and the
 * file is structurally invalid.
 *
 * Table: required int32 id, required int64 x;  row group 0 = 1000 rows,
 *        row group 1 = 10 rows.
 *
 * Scenario A (--wrap=fwrite): the fwrite that stores row group 0 is short once
 *   (half of the bytes reach the file, as with a full disk).
 *   new_row_group() -> CARQUET_ERROR_FILE_WRITE; the caller retries -> OK;
 *   writes row group 1; close() -> OK.
 * Scenario B (--wrap=realloc): the N-th realloc inside new_row_group() fails
 *   once (N scanned 1..14); the caller retries -> OK; close() -> OK.
 *
 * Every file whose close() returned OK goes to the independent checker.
 * Exit 0 = property holds, 1 = violated.
 */
#include <carquet/carquet.h>
#include "pqcheck.h"

extern void *__real_realloc(void *, size_t);
extern size_t __real_fwrite(const void *, size_t, size_t, FILE *);
static int arm_realloc = 0, arm_fwrite = 0, fired = 0;
void *__wrap_realloc(void *p, size_t n) {
    if (arm_realloc > 0 && --arm_realloc == 0) { fired = 1; return NULL; }
    return __real_realloc(p, n);
}
size_t __wrap_fwrite(const void *p, size_t sz, size_t n, FILE *fp) {
    if (arm_fwrite > 0 && --arm_fwrite == 0) {
        fired = 1;
        size_t half = n / 2;
        return __real_fwrite(p, sz, half, fp);      /* short write: only half gets out */
    }
    return __real_fwrite(p, sz, n, fp);
}

enum { ROWS0 = 1000, ROWS1 = 10 };

static int run(const char *label, int fwrite_n, int realloc_n) {
    const char *path = "finding3.parquet";
    carquet_error_t err = CARQUET_ERROR_INIT;
    carquet_schema_t *s = carquet_schema_create(&err);
    if (!s) return -1;
    if (carquet_schema_add_column(s, "id", CARQUET_PHYSICAL_INT32, NULL, CARQUET_REPETITION_REQUIRED, 0)) return -1;
    if (carquet_schema_add_column(s, "x", CARQUET_PHYSICAL_INT64, NULL, CARQUET_REPETITION_REQUIRED, 0)) return -1;
    carquet_writer_options_t o; carquet_writer_options_init(&o);
    o.compression = CARQUET_COMPRESSION_UNCOMPRESSED;
    carquet_writer_t *w = carquet_writer_create(path, s, &o, &err);
    if (!w) return -1;

    static int32_t id[ROWS0 + ROWS1]; static int64_t x[ROWS0 + ROWS1];
    for (int i = 0; i < ROWS0 + ROWS1; i++) { id[i] = i; x[i] = 1000000007LL * i; }
    if (carquet_writer_write_batch(w, 0, id, ROWS0, NULL, NULL)) return -1;
    if (carquet_writer_write_batch(w, 1, x, ROWS0, NULL, NULL)) return -1;

    fired = 0; arm_fwrite = fwrite_n; arm_realloc = realloc_n;
    carquet_status_t st1 = carquet_writer_new_row_group(w);
    arm_fwrite = arm_realloc = 0;
    carquet_status_t st2 = CARQUET_OK;
    if (st1 != CARQUET_OK) st2 = carquet_writer_new_row_group(w);     /* retry */
    if (st2 != CARQUET_OK) { printf("  %s: retry failed (%s), aborted\n", label, carquet_status_string(st2)); carquet_writer_abort(w); carquet_schema_free(s); return 0; }
    if (carquet_writer_write_batch(w, 0, id + ROWS0, ROWS1, NULL, NULL)) return -1;
    if (carquet_writer_write_batch(w, 1, x + ROWS0, ROWS1, NULL, NULL)) return -1;
    carquet_status_t stc = carquet_writer_close(w);
    carquet_schema_free(s);
    if (!fired) return 0;       /* fault not reached: nothing to see */
    printf("  %s: new_row_group -> %s, retry -> %s, close -> %s\n", label, carquet_status_string(st1),
           st1 != CARQUET_OK ? carquet_status_string(st2) : "(not needed)", carquet_status_string(stc));
    if (stc != CARQUET_OK) return 0;

    pq_file f; memset(&f, 0, sizeof f);
    int bad = 0;
    if (!pq_check(path, &f)) { printf("        independent reader REJECTS the file: %s\n", f.err); bad = 1; }
    else if (f.num_rows != ROWS0 + ROWS1 || f.cols[0].n_values != ROWS0 + ROWS1 ||
             memcmp(f.cols[0].vals, id, sizeof id) || memcmp(f.cols[1].vals, x, sizeof x)) {
        printf("        independent reader accepts the file but recovers a different table (rows=%lld)\n", (long long)f.num_rows);
        bad = 1;
    } else printf("        file is valid and holds the table\n");
    pq_free(&f);
    return bad;
}

int main(void) {
    int violated = 0, r;
    printf("Scenario A: the fwrite of row group 0 is short once\n");
    r = run("fwrite #1", 1, 0); if (r < 0) return 2; violated |= r;
    printf("Scenario B: one realloc inside new_row_group() fails\n");
    for (int N = 1; N <= 14; N++) {
        char label[32]; snprintf(label, sizeof label, "realloc #%d", N);
        r = run(label, 0, N); if (r < 0) return 2; violated |= r;
    }
    printf(violated ? "RESULT: property VIOLATED\n" : "RESULT: property holds\n");
    return violated ? 1 : 0;
}
