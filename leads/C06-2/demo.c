/* A column chunk whose pages are [3 values][0 values][3 values] (data page v1,
 * PLAIN, UNCOMPRESSED, required INT32).  A data page with num_values = 0 is
 * legal: nothing in the format requires a page to be non-empty.
 * The documented read loop must deliver all 6 stored values. */
#include <carquet/carquet.h>
#include "pq.h"
#include <stdio.h>

static void page(pq_buf* f, const int32_t* v, int n) {
    pq_buf body = {0};
    for (int i = 0; i < n; i++) pq_u32(&body, (uint32_t)v[i]);
    pq_data_page(f, n, 0 /*PLAIN*/, &body);
    free(body.p);
}

static int build(const char* path, int empty_first) {
    static const int32_t vals[6] = {10, 11, 12, 13, 14, 15};
    pq_buf f = {0};
    pq_put(&f, "PAR1", 4);
    pq_chunk c = {0};
    c.type = 1; c.path[0] = "x"; c.pathlen = 1; c.num_values = 6; c.encodings[0] = 0; c.encodings[1] = 3; c.nenc = 2;
    c.first_page_off = c.data_page_off = (int64_t)f.n;
    if (empty_first) { page(&f, vals, 0); page(&f, vals, 3); page(&f, vals + 3, 3); }
    else             { page(&f, vals, 3); page(&f, vals, 0); page(&f, vals + 3, 3); }
    c.size = (int64_t)f.n - c.first_page_off;
    pq_elem el[2] = {{"schema", -1, -1, 0, 1}, {"x", 0, 1, 0, 0}};
    pq_rowgroup rg = {6, &c, 1};
    pq_finish(&f, el, 2, &rg, 1);
    int r = pq_save(&f, path); free(f.p); return r;
}

static int read_all(const char* path, int use_mmap, const char* label) {
    carquet_error_t err = CARQUET_ERROR_INIT;
    carquet_reader_options_t o; carquet_reader_options_init(&o); o.use_mmap = use_mmap;
    carquet_reader_t* r = carquet_reader_open(path, &o, &err);
    if (!r) { printf("  %s: open failed: %s\n", label, err.message); return 1; }
    carquet_column_reader_t* cr = carquet_reader_get_column(r, 0, 0, &err);
    if (!cr) { printf("  %s: get_column failed: %s\n", label, err.message); carquet_reader_close(r); return 1; }
    int32_t out[16]; int total = 0; int64_t n; int bad = 0;
    /* the loop from the documentation: 0 means end of column, <0 error */
    while ((n = carquet_column_read_batch(cr, out + total, 3, NULL, NULL)) > 0) total += (int)n;   /* 3 values per call */
    printf("  %s: column reader delivered %d of 6 values, last return %lld, has_next=%d, remaining=%lld\n",
           label, total, (long long)n, carquet_column_has_next(cr), (long long)carquet_column_remaining(cr));
    if (total != 6 || n != 0) bad = 1;
    for (int i = 0; i < total && !bad; i++) if (out[i] != 10 + i) bad = 1;
    carquet_column_reader_free(cr);

    /* high-level batch reader */
    carquet_batch_reader_t* br = carquet_batch_reader_create(r, NULL, &err);
    carquet_row_batch_t* b = NULL; int64_t rows = 0; carquet_status_t st;
    while ((st = carquet_batch_reader_next(br, &b)) == CARQUET_OK && b) { rows += carquet_row_batch_num_rows(b); carquet_row_batch_free(b); b = NULL; }
    printf("  %s: batch reader delivered %lld of 6 rows, final status %d (%s)\n", label, (long long)rows, st, carquet_status_string(st));
    if (rows != 6 || st != CARQUET_ERROR_END_OF_DATA) bad = 1;
    carquet_batch_reader_free(br);
    carquet_reader_close(r);
    return bad;
}

int main(void) {
    int bad = 0;
    if (carquet_init() != CARQUET_OK) return 2;
    printf("file A: pages of 3, 0, 3 values\n");
    if (build("empty_mid.parquet", 0)) return 2;
    bad |= read_all("empty_mid.parquet", 0, "fread");
    bad |= read_all("empty_mid.parquet", 1, "mmap ");
    printf("file B: pages of 0, 3, 3 values\n");
    if (build("empty_first.parquet", 1)) return 2;
    bad |= read_all("empty_first.parquet", 0, "fread");
    bad |= read_all("empty_first.parquet", 1, "mmap ");
    printf(bad ? "FAIL: stored values were not all returned\n" : "OK\n");
    return bad;
}
