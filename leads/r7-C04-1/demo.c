/* Finding 1: a dictionary-index section whose bit-width byte is above 32 is
 * decoded (undefined shifts, indices truncated) and the values are returned
 * with success instead of an error.
 *
 * The file is hand-built: one REQUIRED INT32 column, uncompressed, a PLAIN
 * dictionary page with 4 entries {10,20,30,40} and one RLE_DICTIONARY data
 * page with 3 values (case A) or 8 values (case B).
 *
 *  case A: bit width 40, one RLE run of 3 whose 5-byte value is
 *          01 00 00 00 01  = 2^32 + 1   (not a valid index: 4 entries)
 *  case B: bit width 40, one bit-packed group of 8 values, each 2^32 + k
 *  case C: bit width 200, one bit-packed group (200 bytes, low bits 1)
 *
 * The Parquet format limits the bit width of the RLE/bit-packed hybrid to 32
 * (Encodings.md: "bit-width ... up to 32"); every index here is >= 2^32 and
 * the dictionary has 4 entries, so the only right answer is an error.
 *
 * exit 0: the reader reports an error on every I/O path
 * exit 1: the reader returned values with success
 */
#include "pq.h"
#include <carquet/carquet.h>

static size_t build(buf_t* f, int variant) {
    b_put(f, "PAR1", 4);
    pq_col_t c = {0};
    c.type = c.chunk_type = PT_INT32; c.repetition = REP_REQUIRED; c.codec = CODEC_NONE;
    /* dictionary page */
    buf_t dict = {0};
    b_u32le(&dict, 10); b_u32le(&dict, 20); b_u32le(&dict, 30); b_u32le(&dict, 40);
    c.has_dict_offset = 1; c.dict_page_offset = (int64_t)f->n;
    pq_page_header(f, PAGE_DICT, (int32_t)dict.n, (int32_t)dict.n, 4, ENC_PLAIN);
    b_put(f, dict.p, dict.n);
    /* data page */
    buf_t body = {0};
    int nvals;
    b_u8(&body, variant == 2 ? 200 : 40);    /* bit width: 40 or 200 (> 32) */
    if (variant == 2) {
        nvals = 8;
        b_varint(&body, (1 << 1) | 1);       /* one bit-packed group: 8 x 200 bits = 200 bytes */
        for (int k = 0; k < 200; k++) b_u8(&body, k % 25 == 0 ? 1 : 0);   /* each 200-bit value = 1 */
    } else if (variant == 0) {
        nvals = 3;
        b_varint(&body, 3 << 1);             /* RLE run of 3 */
        b_u8(&body, 1); b_u8(&body, 0); b_u8(&body, 0); b_u8(&body, 0); b_u8(&body, 1);
    } else {
        nvals = 8;
        b_varint(&body, (1 << 1) | 1);       /* one bit-packed group */
        for (int k = 0; k < 8; k++) {        /* value k = 2^32 + (k % 4), 40 bits each = 5 bytes */
            b_u8(&body, (uint8_t)(k % 4)); b_u8(&body, 0); b_u8(&body, 0); b_u8(&body, 0); b_u8(&body, 1);
        }
    }
    c.data_page_offset = (int64_t)f->n;
    pq_page_header(f, PAGE_DATA, (int32_t)body.n, (int32_t)body.n, nvals, ENC_RLE_DICT);
    b_put(f, body.p, body.n);
    c.num_values = nvals; c.num_rows = nvals;
    pq_footer(f, &c);
    free(dict.p); free(body.p);
    return (size_t)nvals;
}

int main(void) {
    int violations = 0;
    for (int variant = 0; variant < 3; variant++) {
        buf_t f = {0};
        size_t nvals = build(&f, variant);
        const char* path = variant == 0 ? "bw40_rle.parquet" : variant == 1 ? "bw40_bitpacked.parquet" : "bw200_bitpacked.parquet";
        pq_write_file(path, &f);
        for (int mode = 0; mode < 3; mode++) {
            carquet_error_t err = CARQUET_ERROR_INIT;
            carquet_reader_options_t opt; carquet_reader_options_init(&opt);
            carquet_reader_t* r;
            if (mode == 0) r = carquet_reader_open(path, &opt, &err);
            else if (mode == 1) { opt.use_mmap = true; r = carquet_reader_open(path, &opt, &err); }
            else r = carquet_reader_open_buffer(f.p, f.n, &opt, &err);
            if (!r) { printf("open failed: %s\n", err.message); return 2; }
            carquet_column_reader_t* col = carquet_reader_get_column(r, 0, 0, &err);
            if (!col) { printf("get_column failed: %s\n", err.message); return 2; }
            int32_t vals[8] = {0};
            int64_t n = carquet_column_read_batch(col, vals, (int64_t)nvals, NULL, NULL);
            printf("case %c, %s: read_batch -> %lld", 'A' + variant,
                   mode == 0 ? "fread " : mode == 1 ? "mmap  " : "buffer", (long long)n);
            if (n > 0) {
                printf("  values:");
                for (int64_t i = 0; i < n; i++) printf(" %d", vals[i]);
                printf("   <-- VIOLATION: bit width > 32 accepted");
                violations++;
            }
            printf("\n");
            carquet_column_reader_free(col);

            /* the batch reader sits on the same decoder */
            carquet_batch_reader_config_t cfg; carquet_batch_reader_config_init(&cfg); cfg.num_threads = 1;
            carquet_batch_reader_t* br = carquet_batch_reader_create(r, &cfg, &err);
            carquet_row_batch_t* b = NULL;
            carquet_status_t st = br ? carquet_batch_reader_next(br, &b) : CARQUET_ERROR_INTERNAL;
            if (st == CARQUET_OK && b) {
                printf("        batch reader: status OK, %lld rows   <-- VIOLATION: bit width > 32 accepted\n",
                       (long long)carquet_row_batch_num_rows(b));
                violations++;
                carquet_row_batch_free(b);
            }
            carquet_batch_reader_free(br);
            carquet_reader_close(r);
        }
        free(f.p);
    }
    printf("%d violation(s)\n", violations);
    return violations ? 1 : 0;
}
