#!/bin/sh
# Builds the demo twice: against the plain library, and against the
# AddressSanitizer/UBSan library (which also shows the undefined shifts).
set -e
cd "$(dirname "$0")"
ROOT=../..
[ -f $ROOT/_build/libcarquet.a ] || (cd $ROOT && cmake -G Ninja -B _build >/dev/null && cmake --build _build >/dev/null)
gcc -O1 -g -I$ROOT/include demo.c $ROOT/_build/libcarquet.a -lzstd -lz -lm -fopenmp -lpthread -o demo
echo "== plain build =="
rc=0; ./demo || rc=$?
echo "exit code $rc"
if [ -f $ROOT/_build_asan/libcarquet.a ]; then
  gcc -O1 -g -fsanitize=address,undefined -I$ROOT/include demo.c $ROOT/_build_asan/libcarquet.a -lzstd -lz -lm -fopenmp -lpthread -o demo_asan
  echo "== sanitizer build (UBSan reports the shifts) =="
  rc2=0; ./demo_asan 2>&1 | grep -E "runtime error|case|violation" | sort -u | head -20 || rc2=$?
fi
exit $rc
