/*
 * Finding 4: carquet_column_read_batch(reader, values, max_values, ...) takes an
 * int64_t max_values but the page cursor narrows it to int32_t.  With a buffer
 * that really has room for max_values values:
 *     max_values = 2^32      -> returns 0 rows although remaining() == 10
 *     max_values = 2^32 + 3  -> returns 3 rows (then 7 remain)
 *     max_values = 2^31      -> negative length reaches memcpy(): SIGSEGV
 *     max_values = 2^31 - 1  -> 10 rows (control)
 * i.e. the rows a call delivers depend on max_values modulo 2^32, not on
 * min(max_values, remaining).
 *
 * Public API only. The values buffer is a real (lazily committed) mapping of
 * max_values bytes: the column is BOOLEAN, one byte per value.
 * exit 0 = every call delivered min(max_values, remaining) rows, 1 = not.
 */
#define _GNU_SOURCE
#include <carquet/carquet.h>
#include <stdio.h>
#include <stdlib.h>
#include <string.h>
#include <sys/mman.h>
#include <sys/wait.h>
#include <unistd.h>

#define CHECK(x) do { if ((x) != CARQUET_OK) { fprintf(stderr, "setup failed: %s\n", #x); exit(2); } } while (0)

static const uint8_t rows[10] = {1,0,1,1,0,0,1,0,1,1};

/* returns 0 ok, 1 wrong result; crashes are seen by the parent */
static int attempt(long long max_values) {
    carquet_error_t err = CARQUET_ERROR_INIT;
    carquet_reader_t* r = carquet_reader_open("finding4.parquet", NULL, &err);
    if (!r) exit(2);
    carquet_column_reader_t* c = carquet_reader_get_column(r, 0, 0, &err);
    if (!c) exit(2);
    uint8_t* buf = mmap(NULL, (size_t)max_values, PROT_READ | PROT_WRITE,
                        MAP_PRIVATE | MAP_ANONYMOUS | MAP_NORESERVE, -1, 0);
    if (buf == MAP_FAILED) { printf("cannot map %lld bytes\n", max_values); exit(2); }
    long long before = (long long)carquet_column_remaining(c);
    int64_t n = carquet_column_read_batch(c, buf, max_values, NULL, NULL);
    int ok = (n == 10) && memcmp(buf, rows, 10) == 0 && carquet_column_remaining(c) == 0;
    printf("remaining()=%lld, read_batch(max_values=%lld) -> %lld, remaining()=%lld has_next()=%d%s\n",
           before, max_values, (long long)n, (long long)carquet_column_remaining(c),
           (int)carquet_column_has_next(c), ok ? "" : "   <-- WRONG (expected 10 rows)");
    fflush(stdout);
    munmap(buf, (size_t)max_values);
    carquet_column_reader_free(c);
    carquet_reader_close(r);
    return ok ? 0 : 1;
}

int main(void) {
    carquet_error_t err = CARQUET_ERROR_INIT;
    carquet_schema_t* s = carquet_schema_create(&err);
    CHECK(carquet_schema_add_column(s, "f", CARQUET_PHYSICAL_BOOLEAN, NULL, CARQUET_REPETITION_REQUIRED, 0));
    carquet_writer_t* w = carquet_writer_create("finding4.parquet", s, NULL, &err);
    if (!w) return 2;
    CHECK(carquet_writer_write_batch(w, 0, rows, 10, NULL, NULL));
    CHECK(carquet_writer_close(w));
    carquet_schema_free(s);

    long long cases[] = { (1LL << 31) - 1, 1LL << 32, (1LL << 32) + 3, 1LL << 31 };
    int bad = 0;
    for (int i = 0; i < 4; i++) {
        fflush(stdout);
        pid_t pid = fork();
        if (pid == 0) _exit(attempt(cases[i]));
        int st = 0; waitpid(pid, &st, 0);
        if (WIFSIGNALED(st)) {
            printf("read_batch(max_values=%lld) -> process killed by signal %d   <-- WRONG (expected 10 rows)\n",
                   cases[i], WTERMSIG(st));
            bad++;
        } else if (WEXITSTATUS(st) == 2) return 2;
        else bad += WEXITSTATUS(st);
    }
    printf("wrong results: %d\n", bad);
    return bad ? 1 : 0;
}
