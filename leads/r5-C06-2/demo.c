/* Finding 2: statistics that exist only in the deprecated Statistics.min / .max
 * fields (1 and 2) are compared as if they were min_value / max_value.
 *
 * parquet.thrift: "min/max (deprecated) ... These fields encode min and max
 * values determined by SIGNED comparison only."  Writers of that era
 * (parquet-mr up to 1.9, PARQUET-686) compared BYTE_ARRAY values as signed
 * bytes, so for strings with non-ASCII characters the stored "min" is not the
 * smallest value in unsigned byte order. carquet falls back to these fields and
 * applies unsigned memcmp: a row group that contains the probe value is
 * reported as "cannot match", so a caller that follows
 * carquet_reader_filter_row_groups never gets the rows stored in the file.
 *
 * exit 0: property holds; exit 1: violated. */
#include "pqfile.h"
#include <carquet/carquet.h>

static const char* VALUES[3] = { "a", "\xC3\xA9" /* e-acute, UTF-8 */, "z" };

/* signed-byte comparison, as old parquet-mr Binary.compareTo did */
static int signed_cmp(const char* a, const char* b) {
    size_t la = strlen(a), lb = strlen(b), n = la < lb ? la : lb;
    for (size_t i = 0; i < n; i++) { int x = (signed char)a[i], y = (signed char)b[i]; if (x != y) return x < y ? -1 : 1; }
    return la < lb ? -1 : la > lb;
}

int main(void) {
    carquet_status_t ist = carquet_init(); (void)ist;
    /* the writer's own min / max (signed order): min = e-acute, max = "z" */
    const char* mn = VALUES[0]; const char* mx = VALUES[0];
    for (int i = 1; i < 3; i++) { if (signed_cmp(VALUES[i], mn) < 0) mn = VALUES[i]; if (signed_cmp(VALUES[i], mx) > 0) mx = VALUES[i]; }

    buf_t f = { 0 }; b_put(&f, "PAR1", 4);
    buf_t body = { 0 };
    for (int i = 0; i < 3; i++) { b_u32(&body, (uint32_t)strlen(VALUES[i])); b_put(&body, VALUES[i], strlen(VALUES[i])); }
    page_opts_t po; memset(&po, 0, sizeof po);
    chunk_t k; memset(&k, 0, sizeof k);
    k.type = PT_BYTE_ARRAY; k.codec = CODEC_NONE; k.num_values = 3; k.data_page_offset = (int64_t)f.n;
    k.path[0] = "name"; k.path_len = 1; k.encodings[0] = ENC_PLAIN; k.encodings[1] = ENC_BIT_PACKED; k.n_enc = 2;
    k.stats = 1;                      /* Statistics { 1: max, 2: min, 3: null_count } - deprecated fields only */
    k.smin = mn; k.smin_n = strlen(mn); k.smax = mx; k.smax_n = strlen(mx);
    size_t sz = pq_put_page(&f, PAGE_DATA, 3, ENC_PLAIN, body.p, body.n, &po);
    k.total_compressed = k.total_uncompressed = (int64_t)sz;
    schema_el_t schema[2] = { { "schema", -1, 0, -1, 1, -1 }, { "name", PT_BYTE_ARRAY, 0, REP_REQUIRED, 0, 0 /* UTF8 */ } };
    int64_t rows = 3; footer_opts_t fo; memset(&fo, 0, sizeof fo);
    fo.created_by = "parquet-mr version 1.8.1 (build 4aba4dae7bb0d4edbcf7923ae1339f28fd3f7fcf)";
    pq_put_footer(&f, schema, 2, 3, &k, 1, 1, &rows, &fo);

    carquet_error_t err = CARQUET_ERROR_INIT;
    carquet_reader_t* rd = carquet_reader_open_buffer(f.p, f.n, NULL, &err);
    if (!rd) { printf("open failed: %s\n", err.message); return 2; }

    /* 1. the values are in the file and carquet decodes them */
    carquet_column_reader_t* col = carquet_reader_get_column(rd, 0, 0, &err);
    carquet_byte_array_t v[3]; int16_t d[3], r[3];
    int64_t got = col ? carquet_column_read_batch(col, v, 3, d, r) : -1;
    int found = 0;
    for (int64_t i = 0; i < got; i++) if (v[i].length == 2 && memcmp(v[i].data, VALUES[1], 2) == 0) found = 1;
    printf("column holds %lld values; value C3 A9 present: %s\n", (long long)got, found ? "yes" : "no");
    if (col) carquet_column_reader_free(col);
    if (!found) { printf("setup problem\n"); return 2; }

    carquet_column_statistics_t st;
    if (carquet_reader_column_statistics(rd, 0, 0, &st) == CARQUET_OK && st.has_min_max)
        printf("carquet reports min = %02X.. (%d bytes), max = '%.*s' (taken from the deprecated fields)\n",
               ((const uint8_t*)st.min_value)[0], st.min_value_size, st.max_value_size, (const char*)st.max_value);

    /* 2. predicate pushdown: name == e-acute */
    int bad = 0;
    bool might = true;
    carquet_status_t s = carquet_reader_row_group_matches(rd, 0, 0, CARQUET_COMPARE_EQ, VALUES[1], 2, &might);
    printf("row_group_matches(name == C3 A9): status %d, might_match = %s\n", s, might ? "true" : "false");
    if (s == CARQUET_OK && !might) bad = 1;
    int32_t idx[4];
    int32_t n = carquet_reader_filter_row_groups(rd, 0, CARQUET_COMPARE_EQ, VALUES[1], 2, idx, 4);
    printf("filter_row_groups(name == C3 A9) keeps %d of 1 row groups\n", n);
    if (n != 1) bad = 1;
    /* also: name >= "b" (matches e-acute and "z" in the column's UTF8 / unsigned order) is fine, name > "z" is not */
    might = true;
    s = carquet_reader_row_group_matches(rd, 0, 0, CARQUET_COMPARE_GT, "z", 1, &might);
    printf("row_group_matches(name > 'z'): might_match = %s (C3 A9 > 'z' in the column's order)\n", might ? "true" : "false");
    if (s == CARQUET_OK && !might) bad = 1;

    carquet_reader_close(rd); b_free(&f); b_free(&body);
    printf(bad ? "RESULT: property violated (row group holding the value is pruned)\n" : "RESULT: ok\n");
    return bad;
}
