#!/bin/sh
# Builds the library in the worktree as it is, builds the demonstration, runs it.
# exit status of the demonstration: 0 = property holds, non-zero = violated.
set -e
HERE="$(cd "$(dirname "$0")" && pwd)"
ROOT="$(cd "$HERE/../.." && pwd)"
cd "$ROOT"
cmake -G Ninja -B _build >/dev/null
cmake --build _build --target carquet >/dev/null
cd "$HERE"
gcc -O2 -g -I"$ROOT/include" demo.c "$ROOT/_build/libcarquet.a" -lzstd -lz -lm -fopenmp -lpthread -o demo
set +e
./demo
rc=$?
echo "demo exit status: $rc"
exit $rc
