/* C02 / batch reader: "the null bitmap separates null from non-null rows exactly as the definition
 * levels do (one fixed polarity ...)".
 *
 * The public contract of carquet_row_batch_column() (include/carquet/carquet.h, "Null Bitmap Format",
 * and README.md "bit i is 1 if value i is NOT null") is: bit i SET = value i is NOT null, and it gives
 * this test verbatim:
 *
 *     bool is_null = null_bitmap && !(null_bitmap[i / 8] & (1 << (i % 8)));
 *
 * The implementation sets bit i when row i IS null (and hands out an all-zero bitmap for REQUIRED
 * columns).  A caller that follows the documented contract sees every present value as null and
 * every null as present.
 *
 * The demo writes 5 rows  id = 1..5 (REQUIRED)  and  v = [10, NULL, 30, NULL, 50] (OPTIONAL),
 * reads the definition levels through the column reader, reads the batch, applies the documented
 * test and compares.   exit 0: documented test agrees with the definition levels; exit 1: it does not.
 */
#include <carquet/carquet.h>
#include <stdio.h>
#include <stdbool.h>

int main(void) {
    const char* path = "finding2.parquet";
    carquet_error_t err = CARQUET_ERROR_INIT;
    carquet_schema_t* s = carquet_schema_create(&err);
    if (!s) return 2;
    if (carquet_schema_add_column(s, "id", CARQUET_PHYSICAL_INT32, NULL, CARQUET_REPETITION_REQUIRED, 0) != CARQUET_OK) return 2;
    if (carquet_schema_add_column(s, "v", CARQUET_PHYSICAL_INT32, NULL, CARQUET_REPETITION_OPTIONAL, 0) != CARQUET_OK) return 2;
    carquet_writer_options_t wo; carquet_writer_options_init(&wo); wo.compression = CARQUET_COMPRESSION_UNCOMPRESSED;
    carquet_writer_t* w = carquet_writer_create(path, s, &wo, &err);
    if (!w) { printf("writer: %s\n", err.message); return 2; }
    int32_t ids[5] = {1, 2, 3, 4, 5};
    int32_t vs[3] = {10, 30, 50};
    int16_t def[5] = {1, 0, 1, 0, 1};
    if (carquet_writer_write_batch(w, 0, ids, 5, NULL, NULL) != CARQUET_OK) return 2;
    if (carquet_writer_write_batch(w, 1, vs, 5, def, NULL) != CARQUET_OK) return 2;
    if (carquet_writer_close(w) != CARQUET_OK) return 2;
    carquet_schema_free(s);

    int mismatches = 0;
    for (int use_mmap = 0; use_mmap < 2; use_mmap++) {
        carquet_reader_options_t ro; carquet_reader_options_init(&ro); ro.use_mmap = use_mmap;
        carquet_reader_t* rd = carquet_reader_open(path, &ro, &err);
        if (!rd) { printf("open: %s\n", err.message); return 2; }

        /* ground truth: definition levels from the column reader */
        int16_t truth[2][5] = {{0}};
        for (int c = 0; c < 2; c++) {
            carquet_column_reader_t* cr = carquet_reader_get_column(rd, 0, c, &err);
            int32_t vals[5]; int16_t d[5];
            if (!cr || carquet_column_read_batch(cr, vals, 5, d, NULL) != 5) return 2;
            for (int i = 0; i < 5; i++) truth[c][i] = d[i];
            carquet_column_reader_free(cr);
        }
        int16_t maxdef[2] = {0, 1};

        carquet_batch_reader_t* br = carquet_batch_reader_create(rd, NULL, &err);
        carquet_row_batch_t* b = NULL;
        if (!br || carquet_batch_reader_next(br, &b) != CARQUET_OK || !b) return 2;
        for (int c = 0; c < 2; c++) {
            const void* data; const uint8_t* null_bitmap; int64_t n;
            if (carquet_row_batch_column(b, c, &data, &null_bitmap, &n) != CARQUET_OK || n != 5) return 2;
            printf("%s column %s: bitmap byte 0x%02x\n", use_mmap ? "mmap " : "fread", c ? "v (OPTIONAL)" : "id (REQUIRED)", null_bitmap ? null_bitmap[0] : 0);
            for (int i = 0; i < 5; i++) {
                /* the documented test, verbatim */
                bool is_null = null_bitmap && !(null_bitmap[i / 8] & (1 << (i % 8)));
                bool really_null = truth[c][i] < maxdef[c];
                printf("    row %d: documented test says %-8s definition level says %-8s%s\n", i,
                       is_null ? "NULL" : "present", really_null ? "NULL" : "present", is_null != really_null ? "  <-- MISMATCH" : "");
                if (is_null != really_null) mismatches++;
            }
        }
        carquet_row_batch_free(b);
        carquet_batch_reader_free(br);
        carquet_reader_close(rd);
    }
    if (mismatches) { printf("VIOLATION: %d rows classified wrongly by the documented null test\n", mismatches); return 1; }
    printf("OK\n");
    return 0;
}
