/*
 * C17 finding 3: a schema that consists of the root only (a table with zero
 * columns - pyarrow writes such files for pa.table({}), and carquet's own
 * writer does for a builder schema without columns) has NO leaves.  The reader
 * accepts the file (validate_schema_subtree explicitly allows the childless
 * root) but then reports ONE column: the root group itself is counted as a
 * leaf, and it can be "found" as a column by the name "schema".
 *
 * Part A: hand-built valid file (footer only).  Part B: the same through the
 * builder API + writer, where the builder says 0 columns and the reader says 1
 * for the file produced from it.
 *
 * Exit 0 = property holds, 1 = violated.
 */
#include <carquet/carquet.h>
#include "pq.h"
#include <unistd.h>

#define PATH "/tmp/wt4/C17/_finding/3/empty.parquet"

static int check_reader(carquet_reader_t *rd, const char *what) {
    int bad = 0;
    const carquet_schema_t *s = carquet_reader_schema(rd);
    int32_t nc = carquet_schema_num_columns(s), rnc = carquet_reader_num_columns(rd);
    int32_t ne = carquet_schema_num_elements(s);
    printf("%s: num_elements=%d  schema num_columns=%d  reader num_columns=%d  (expected 1, 0, 0)\n",
           what, ne, nc, rnc);
    if (ne != 1 || nc != 0 || rnc != 0) bad = 1;
    const carquet_schema_node_t *root = carquet_schema_get_element(s, 0);
    printf("%s: element 0 '%s' is_leaf=%d\n", what, carquet_schema_node_name(root),
           carquet_schema_node_is_leaf(root));
    int32_t f = carquet_schema_find_column(s, carquet_schema_node_name(root));
    printf("%s: find_column(\"%s\") = %d (expected -1: the root is not a column)\n",
           what, carquet_schema_node_name(root), f);
    if (f != -1) bad = 1;
    return bad;
}

int main(void) {
    int bad = 0;
    carquet_error_t err = CARQUET_ERROR_INIT;

    /* Part A: hand-built */
    pq_node root; memset(&root, 0, sizeof root);
    root.name = "schema"; root.rep = -1; root.converted = -1; root.num_children = 0;
    size_t sz; uint8_t *file = pq_build_file(&root, 1, &sz);
    carquet_reader_t *rd = carquet_reader_open_buffer(file, sz, NULL, &err);
    if (!rd) { printf("A: open failed: %s\n", err.message); return 1; }
    bad |= check_reader(rd, "A hand-built ");
    carquet_reader_close(rd);
    free(file);

    /* Part B: builder -> writer -> reader */
    carquet_schema_t *s = carquet_schema_create(&err);
    if (!s) return 2;
    printf("B builder    : num_elements=%d num_columns=%d\n",
           carquet_schema_num_elements(s), carquet_schema_num_columns(s));
    if (carquet_schema_num_columns(s) != 0) bad = 1;
    carquet_writer_t *w = carquet_writer_create(PATH, s, NULL, &err);
    if (!w) { printf("B: writer_create: %s\n", err.message); return 2; }
    carquet_status_t st = carquet_writer_close(w);
    if (st != CARQUET_OK) { printf("B: close %d\n", st); return 2; }
    rd = carquet_reader_open(PATH, NULL, &err);
    if (!rd) { printf("B: open failed: %s\n", err.message); return 1; }
    bad |= check_reader(rd, "B round trip ");
    carquet_reader_close(rd);
    carquet_schema_free(s);
    unlink(PATH);

    printf(bad ? "VIOLATION: the reader does not expose exactly the leaves of the schema\n" : "ok\n");
    return bad;
}
