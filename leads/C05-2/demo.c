/*
 * C05 finding 2: a write_batch() that fails half way leaves its half-added
 * batch in the page; a later carquet_writer_close() still returns OK and the
 * file it produced is not valid Parquet.
 *
 * Scenario A (one injected allocation failure, -Wl,--wrap=realloc):
 *   schema: required int32 id, optional int32 v
 *   write id  = 1 2 3 4
 *   write v   = 10 NULL 30 40      <- the N-th realloc inside this call fails
 *   write v   = 10 NULL 30 40      <- the application retries; this succeeds
 *   close                          <- returns OK
 *   N is scanned from 1 to 6 so that the demo does not depend on how many
 *   allocations happen before the one that matters.
 *
 * Scenario B (no fault injection at all):
 *   schema: required int32 id, required int96 ts
 *   write id = 1 2 3          -> OK
 *   write ts = 3 values       -> CARQUET_ERROR_NOT_IMPLEMENTED
 *   close                     -> returns OK
 *
 * Every file for which close() returned OK is given to the independent
 * checker (pqcheck.h).  Exit 0 = property holds, 1 = violated.
 */
#include <carquet/carquet.h>
#include "pqcheck.h"

/* ---- fault injection: fail exactly one realloc ---- */
extern void *__real_realloc(void *, size_t);
static int arm_countdown = 0;      /* 0 = disarmed; k = fail the k-th realloc from now */
static int fired = 0;
void *__wrap_realloc(void *p, size_t n) {
    if (arm_countdown > 0 && --arm_countdown == 0) { fired = 1; return NULL; }
    return __real_realloc(p, n);
}

static int scenario_a(int N) {
    const char *path = "finding2a.parquet";
    carquet_error_t err = CARQUET_ERROR_INIT;
    carquet_schema_t *s = carquet_schema_create(&err);
    if (!s) return -1;
    if (carquet_schema_add_column(s, "id", CARQUET_PHYSICAL_INT32, NULL, CARQUET_REPETITION_REQUIRED, 0)) return -1;
    if (carquet_schema_add_column(s, "v", CARQUET_PHYSICAL_INT32, NULL, CARQUET_REPETITION_OPTIONAL, 0)) return -1;
    carquet_writer_options_t o; carquet_writer_options_init(&o);
    o.compression = CARQUET_COMPRESSION_UNCOMPRESSED;
    carquet_writer_t *w = carquet_writer_create(path, s, &o, &err);
    if (!w) return -1;

    int32_t id[4] = {1, 2, 3, 4};
    int32_t v[3] = {10, 30, 40};
    int16_t def[4] = {1, 0, 1, 1};
    if (carquet_writer_write_batch(w, 0, id, 4, NULL, NULL) != CARQUET_OK) return -1;

    fired = 0; arm_countdown = N;
    carquet_status_t st1 = carquet_writer_write_batch(w, 1, v, 4, def, NULL);
    arm_countdown = 0;
    carquet_status_t st2 = CARQUET_OK;
    if (st1 != CARQUET_OK) st2 = carquet_writer_write_batch(w, 1, v, 4, def, NULL);   /* retry */
    carquet_status_t stc;
    if (st2 != CARQUET_OK) { carquet_writer_abort(w); carquet_schema_free(s); printf("  N=%d: retry failed too (%s), aborted\n", N, carquet_status_string(st2)); return 0; }
    stc = carquet_writer_close(w);
    carquet_schema_free(s);
    printf("  N=%d: fault %s; write_batch(v) -> %s%s; close -> %s\n", N, fired ? "fired" : "not reached",
           carquet_status_string(st1), st1 != CARQUET_OK ? ", retry -> Success" : "", carquet_status_string(stc));
    if (stc != CARQUET_OK) return 0;

    pq_file f; memset(&f, 0, sizeof f);
    int bad = 0;
    if (!pq_check(path, &f)) { printf("        independent reader REJECTS the file: %s\n", f.err); bad = 1; }
    else if (f.num_rows != 4 || f.cols[1].n_levels != 4 || f.cols[1].n_values != 3 ||
             memcmp(f.cols[1].defs, def, sizeof def) || memcmp(f.cols[1].vals, v, sizeof v) ||
             memcmp(f.cols[0].vals, id, sizeof id)) {
        printf("        independent reader accepts the file but recovers a different table (rows=%lld, v: %lld levels, %lld values)\n",
               (long long)f.num_rows, (long long)f.cols[1].n_levels, (long long)f.cols[1].n_values);
        bad = 1;
    } else printf("        file is valid and holds the table\n");
    pq_free(&f);
    return bad;
}

static int scenario_b(void) {
    const char *path = "finding2b.parquet";
    carquet_error_t err = CARQUET_ERROR_INIT;
    carquet_schema_t *s = carquet_schema_create(&err);
    if (!s) return -1;
    if (carquet_schema_add_column(s, "id", CARQUET_PHYSICAL_INT32, NULL, CARQUET_REPETITION_REQUIRED, 0)) return -1;
    if (carquet_schema_add_column(s, "ts", CARQUET_PHYSICAL_INT96, NULL, CARQUET_REPETITION_REQUIRED, 0)) return -1;
    carquet_writer_options_t o; carquet_writer_options_init(&o);
    o.compression = CARQUET_COMPRESSION_UNCOMPRESSED;
    carquet_writer_t *w = carquet_writer_create(path, s, &o, &err);
    if (!w) return -1;
    int32_t id[3] = {1, 2, 3};
    carquet_int96_t ts[3]; memset(ts, 0x11, sizeof ts);
    carquet_status_t s0 = carquet_writer_write_batch(w, 0, id, 3, NULL, NULL);
    carquet_status_t s1 = carquet_writer_write_batch(w, 1, ts, 3, NULL, NULL);
    carquet_status_t sc = carquet_writer_close(w);
    carquet_schema_free(s);
    printf("  write(id) -> %s; write(ts) -> %s; close -> %s\n", carquet_status_string(s0), carquet_status_string(s1), carquet_status_string(sc));
    if (sc != CARQUET_OK) return 0;
    pq_file f; memset(&f, 0, sizeof f);
    int bad = 0;
    if (!pq_check(path, &f)) { printf("        independent reader REJECTS the file: %s\n", f.err); bad = 1; }
    else printf("        file accepted\n");
    pq_free(&f);
    return bad;
}

int main(void) {
    int violated = 0;
    printf("Scenario A: one realloc fails inside write_batch, the caller retries, close() says OK\n");
    for (int N = 1; N <= 6; N++) { int r = scenario_a(N); if (r < 0) { printf("setup failed\n"); return 2; } violated |= r; }
    printf("Scenario B: write_batch on an INT96 column fails with NOT_IMPLEMENTED, close() says OK\n");
    { int r = scenario_b(); if (r < 0) { printf("setup failed\n"); return 2; } violated |= r; }
    printf(violated ? "RESULT: property VIOLATED\n" : "RESULT: property holds\n");
    return violated ? 1 : 0;
}
