/*
 * C17 finding 1: a REPEATED leaf added through the schema builder.
 *
 * The builder (and, after writing, the reader) report max_def_level = 1 and
 * max_rep_level = 1 for a top-level REPEATED column - the textbook values. The
 * writer, however, encodes the column with max_def_level = 0.
 *
 * Part A: three lists without empty/null entries are written with the levels
 *         the schema asks for and read back through the public reader.
 * Part B: the same with one empty list (def level 0, so one value less than
 *         level entries, exactly as carquet_writer_write_batch documents). The
 *         values array ends at a PROT_NONE page; the writer reads one value
 *         past it. Run in a child so that the crash can be reported.
 *
 * exit 0: property holds; non-zero: violated.
 */
#include <carquet/carquet.h>
#include <stdio.h>
#include <string.h>
#include <stdlib.h>
#include <unistd.h>
#include <sys/mman.h>
#include <sys/wait.h>

static const char* PATH = "/tmp/c17_finding1.parquet";

static carquet_schema_t* make_schema(void) {
    carquet_error_t err = CARQUET_ERROR_INIT;
    carquet_schema_t* s = carquet_schema_create(&err);
    if (!s) { printf("schema_create failed\n"); exit(2); }
    if (carquet_schema_add_column(s, "tags", CARQUET_PHYSICAL_INT32, NULL,
                                  CARQUET_REPETITION_REPEATED, 0) != CARQUET_OK) {
        printf("add_column failed\n"); exit(2);
    }
    return s;
}

static int part_a(void) {
    carquet_error_t err = CARQUET_ERROR_INIT;
    carquet_schema_t* s = make_schema();
    const carquet_schema_node_t* n = carquet_schema_get_element(s, 1);
    int bdef = carquet_schema_node_max_def_level(n), brep = carquet_schema_node_max_rep_level(n);
    printf("A: builder reports   max_def=%d max_rep=%d\n", bdef, brep);
    if (bdef != 1 || brep != 1) { printf("A: builder levels are not the textbook ones\n"); return 1; }

    carquet_writer_t* w = carquet_writer_create(PATH, s, NULL, &err);
    if (!w) { printf("writer_create: %s\n", err.message); return 2; }
    /* rows: [10,20,30], [40], [50]  - every entry defined */
    int32_t vals[] = {10, 20, 30, 40, 50};
    int16_t def[]  = {1, 1, 1, 1, 1};
    int16_t rep[]  = {0, 1, 1, 0, 0};
    carquet_status_t st = carquet_writer_write_batch(w, 0, vals, 5, def, rep);
    if (st != CARQUET_OK) { printf("A: write_batch -> %d\n", st); return 2; }
    st = carquet_writer_close(w);
    if (st != CARQUET_OK) { printf("A: close -> %d\n", st); return 2; }

    carquet_reader_t* r = carquet_reader_open(PATH, NULL, &err);
    if (!r) { printf("A: reader_open: %s\n", err.message); return 1; }
    n = carquet_schema_get_element(carquet_reader_schema(r), 1);
    printf("A: reader reports    max_def=%d max_rep=%d (repetition=%d)\n",
           carquet_schema_node_max_def_level(n), carquet_schema_node_max_rep_level(n),
           (int)carquet_schema_node_repetition(n));
    carquet_column_reader_t* c = carquet_reader_get_column(r, 0, 0, &err);
    if (!c) { printf("A: get_column: %s\n", err.message); return 1; }
    int32_t out[16]; int16_t od[16], orp[16];
    memset(out, 0, sizeof out); memset(od, -1, sizeof od); memset(orp, -1, sizeof orp);
    int64_t got = carquet_column_read_batch(c, out, 16, od, orp);
    printf("A: read_batch -> %lld entries\n", (long long)got);
    int bad = (got != 5);
    for (int i = 0; i < got && i < 16; i++) {
        printf("A:   [%d] def=%d rep=%d   (written def=%d rep=%d)\n", i, od[i], orp[i],
               i < 5 ? def[i] : -1, i < 5 ? rep[i] : -1);
        if (i < 5 && (od[i] != def[i] || orp[i] != rep[i])) bad = 1;
    }
    printf("A: values read: %d %d %d %d %d (written 10 20 30 40 50)\n", out[0], out[1], out[2], out[3], out[4]);
    if (memcmp(out, vals, sizeof vals) != 0) bad = 1;
    carquet_column_reader_free(c);
    carquet_reader_close(r);
    carquet_schema_free(s);
    return bad;
}

static int part_b_child(void) {
    carquet_error_t err = CARQUET_ERROR_INIT;
    carquet_schema_t* s = make_schema();
    carquet_writer_t* w = carquet_writer_create(PATH, s, NULL, &err);
    if (!w) return 2;
    long pg = sysconf(_SC_PAGESIZE);
    uint8_t* m = mmap(NULL, (size_t)pg * 2, PROT_READ | PROT_WRITE, MAP_PRIVATE | MAP_ANONYMOUS, -1, 0);
    if (m == MAP_FAILED) return 2;
    mprotect(m + pg, (size_t)pg, PROT_NONE);
    /* rows: [10,20,30], [], [40]: five level entries, four values (sparse
     * encoding as documented: only entries with def == max_def carry a value) */
    int32_t* vals = (int32_t*)(m + pg) - 4;
    vals[0] = 10; vals[1] = 20; vals[2] = 30; vals[3] = 40;
    int16_t def[] = {1, 1, 1, 0, 1};
    int16_t rep[] = {0, 1, 1, 0, 0};
    carquet_status_t st = carquet_writer_write_batch(w, 0, vals, 5, def, rep);
    if (st != CARQUET_OK) return 3;
    st = carquet_writer_close(w);
    carquet_schema_free(s);
    return st == CARQUET_OK ? 0 : 3;
}

int main(void) {
    int bad = 0;
    int a = part_a();
    printf("A: %s\n\n", a ? "VIOLATION (levels/values written for a REPEATED leaf do not come back)" : "ok");
    bad |= a;

    fflush(stdout);
    pid_t pid = fork();
    if (pid == 0) _exit(part_b_child());
    int status = 0;
    waitpid(pid, &status, 0);
    if (WIFSIGNALED(status)) {
        printf("B: writer crashed with signal %d reading past the 4 values supplied for 5 level entries\n", WTERMSIG(status));
        printf("B: VIOLATION\n");
        bad = 1;
    } else if (WEXITSTATUS(status) != 0) {
        printf("B: child exit %d\n", WEXITSTATUS(status));
        bad = 1;
    } else {
        printf("B: ok\n");
    }
    unlink(PATH);
    return bad;
}
