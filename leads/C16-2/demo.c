/*
 * Statistics builder, BYTE_ARRAY column with values of unequal length:
 * the min/max it builds must bound every non-null value that was added, and
 * the value-compare / range-overlap helpers evaluated on those statistics
 * must not exclude a value that is in the column.
 *
 * exit 0: bounds hold, exit 1: a value lies outside [min, max].
 */
#include <carquet/carquet.h>
#include "thrift/parquet_types.h"   /* parquet_statistics_t (what carquet_statistics_build fills) */
#include <stdio.h>
#include <stdlib.h>
#include <string.h>

typedef struct carquet_statistics_builder carquet_statistics_builder_t;
carquet_statistics_builder_t* carquet_statistics_builder_create(carquet_physical_type_t, int32_t);
void carquet_statistics_builder_destroy(carquet_statistics_builder_t*);
carquet_status_t carquet_statistics_add_byte_arrays(carquet_statistics_builder_t*,
    const carquet_byte_array_t*, int64_t);
carquet_status_t carquet_statistics_build(const carquet_statistics_builder_t*,
    carquet_arena_t*, parquet_statistics_t*);
carquet_status_t carquet_statistics_compare(const parquet_statistics_t*, carquet_physical_type_t,
    const void*, size_t, int*);
carquet_status_t carquet_statistics_range_overlaps(const parquet_statistics_t*,
    carquet_physical_type_t, const void*, const void*, size_t, bool*);

static int lexcmp(const uint8_t* a, size_t al, const uint8_t* b, size_t bl) {
    size_t m = al < bl ? al : bl;
    int c = memcmp(a, b, m);
    if (c) return c;
    return (al > bl) - (al < bl);
}

int main(void) {
    static uint8_t big_z[300], big_A[257], mid[] = "m", k256[256];
    memset(big_z, 'z', sizeof big_z);   /* 300 bytes, the true maximum */
    memset(big_A, 'A', sizeof big_A);   /* 257 bytes, the true minimum */
    memset(k256, 'k', sizeof k256);     /* 256 bytes: the largest length still tracked */

    carquet_byte_array_t vals[4] = {
        { mid, 1 }, { big_z, (int32_t)sizeof big_z },
        { big_A, (int32_t)sizeof big_A }, { k256, (int32_t)sizeof k256 },
    };

    carquet_statistics_builder_t* b =
        carquet_statistics_builder_create(CARQUET_PHYSICAL_BYTE_ARRAY, 0);
    carquet_status_t st = carquet_statistics_add_byte_arrays(b, vals, 4);
    printf("add_byte_arrays(4 values of length 1, 300, 257, 256) -> %d\n", (int)st);

    parquet_statistics_t s;
    st = carquet_statistics_build(b, NULL, &s);
    printf("build -> %d, min_len=%d max_len=%d, min[0]='%c' max[0]='%c'\n", (int)st,
           s.min_value_len, s.max_value_len,
           s.min_value ? s.min_value[0] : '?', s.max_value ? s.max_value[0] : '?');

    int bad = 0;
    for (int i = 0; i < 4; i++) {
        if (s.min_value && lexcmp(s.min_value, (size_t)s.min_value_len,
                                  vals[i].data, (size_t)vals[i].length) > 0) {
            printf("VIOLATION: value #%d (len %d, '%c'...) is BELOW the built min\n",
                   i, vals[i].length, vals[i].data[0]);
            bad++;
        }
        if (s.max_value && lexcmp(s.max_value, (size_t)s.max_value_len,
                                  vals[i].data, (size_t)vals[i].length) < 0) {
            printf("VIOLATION: value #%d (len %d, '%c'...) is ABOVE the built max\n",
                   i, vals[i].length, vals[i].data[0]);
            bad++;
        }
        /* the helpers, driven by carquet's own statistics, exclude a value that is there */
        int r = 0;
        carquet_statistics_compare(&s, CARQUET_PHYSICAL_BYTE_ARRAY,
                                   vals[i].data, (size_t)vals[i].length, &r);
        if (r != 0) {
            printf("VIOLATION: statistics_compare says value #%d is %s the column's range\n",
                   i, r < 0 ? "below" : "above");
            bad++;
        }
        bool ov = true;
        carquet_statistics_range_overlaps(&s, CARQUET_PHYSICAL_BYTE_ARRAY,
            vals[i].data, vals[i].data, (size_t)vals[i].length, &ov);
        if (!ov) {
            printf("VIOLATION: range_overlaps([v,v]) is false for value #%d of the column\n", i);
            bad++;
        }
    }
    free(s.min_value); free(s.max_value);
    carquet_statistics_builder_destroy(b);
    printf("violations: %d\n", bad);
    return bad ? 1 : 0;
}
