#!/bin/sh
# Builds the library of this worktree as it is (plain and ASan), then the two demos, then runs them.
HERE=$(cd "$(dirname "$0")" && pwd)
WT=$(cd "$HERE/../.." && pwd)
set -e
cmake -G Ninja -S "$WT" -B "$WT/_build" >/dev/null
cmake --build "$WT/_build" --target carquet >/dev/null
cmake -G Ninja -S "$WT" -B "$WT/_build_asan" -DCMAKE_C_FLAGS="-fsanitize=address,undefined -g -O1" \
      -DCMAKE_EXE_LINKER_FLAGS="-fsanitize=address,undefined" >/dev/null
cmake --build "$WT/_build_asan" --target carquet >/dev/null
LIBS="-lzstd -lz -lm -fopenmp -lpthread"
cc -std=c11 -O1 -g -I"$WT/include" -I"$WT/src" "$HERE/demo.c" "$WT/_build/libcarquet.a" $LIBS -o "$HERE/demo"
cc -std=c11 -O1 -g -fsanitize=address,undefined -I"$WT/include" -I"$WT/src" "$HERE/demo_flba.c" \
   "$WT/_build_asan/libcarquet.a" $LIBS -o "$HERE/demo_flba_asan"
cc -std=c11 -O1 -g -I"$WT/include" -I"$WT/src" "$HERE/demo_flba.c" "$WT/_build/libcarquet.a" $LIBS -o "$HERE/demo_flba"
set +e
echo "== demo (BYTE_ARRAY values longer than 256 bytes) =="
"$HERE/demo"; rc1=$?
echo "exit code: $rc1"
echo "== demo_flba, AddressSanitizer build (FIXED_LEN_BYTE_ARRAY(300)) =="
"$HERE/demo_flba_asan" > "$HERE/asan.log" 2>&1; rc2=$?
head -12 "$HERE/asan.log"
echo "exit code: $rc2"
echo "== demo_flba, plain build =="
"$HERE/demo_flba"; rc3=$?
echo "exit code: $rc3"
[ $rc1 -eq 0 ] && [ $rc2 -eq 0 ] && [ $rc3 -eq 0 ]
