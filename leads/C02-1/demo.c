/*
 * Finding 1: after ONE failed carquet_batch_reader_next() (transient allocation
 * failure), later calls return CARQUET_OK batches whose columns belong to
 * different rows, and rows are silently dropped.
 *
 * Public API only + link-time interposition of malloc (-Wl,--wrap=malloc) to
 * inject exactly one allocation failure.
 *
 * File: 1000 rows, a = i (REQUIRED INT32), b = 10*i (OPTIONAL INT64, no nulls).
 * Invariant of every delivered row: b == 10 * a.
 * exit 0: invariant holds in every delivered batch for every fault position.
 * exit 1: some batch delivered with CARQUET_OK breaks it.
 */
#include <carquet/carquet.h>
#include <stdio.h>
#include <stdlib.h>
#include <string.h>

static long fail_at = -1, counter = 0;
void* __real_malloc(size_t);
void* __wrap_malloc(size_t n) {
    if (fail_at >= 0 && counter++ == fail_at) return NULL;
    return __real_malloc(n);
}

#define N 1000
#define CHECK(x) do { if ((x) != CARQUET_OK) { fprintf(stderr, "setup failed: %s\n", #x); exit(2); } } while (0)

int main(void) {
    carquet_error_t err = CARQUET_ERROR_INIT;
    carquet_schema_t* s = carquet_schema_create(&err);
    CHECK(carquet_schema_add_column(s, "a", CARQUET_PHYSICAL_INT32, NULL, CARQUET_REPETITION_REQUIRED, 0));
    CHECK(carquet_schema_add_column(s, "b", CARQUET_PHYSICAL_INT64, NULL, CARQUET_REPETITION_OPTIONAL, 0));
    carquet_writer_options_t wo; carquet_writer_options_init(&wo); wo.page_size = 512;
    carquet_writer_t* w = carquet_writer_create("finding1.parquet", s, &wo, &err);
    if (!w) return 2;
    static int32_t a[N]; static int64_t b[N]; static int16_t d[N];
    for (int i = 0; i < N; i++) { a[i] = i; b[i] = 10LL * i; d[i] = 1; }
    for (int i = 0; i < N; i += 50) {
        CHECK(carquet_writer_write_batch(w, 0, a + i, 50, NULL, NULL));
        CHECK(carquet_writer_write_batch(w, 1, b + i, 50, d + i, NULL));
    }
    CHECK(carquet_writer_close(w));
    carquet_schema_free(s);

    int violations = 0;
    for (int use_mmap = 0; use_mmap < 2; use_mmap++)
    for (long k = 0; k < 40; k++) {
        carquet_reader_options_t o; carquet_reader_options_init(&o); o.use_mmap = use_mmap;
        carquet_reader_t* r = carquet_reader_open("finding1.parquet", &o, &err);
        if (!r) return 2;
        carquet_batch_reader_config_t cfg; carquet_batch_reader_config_init(&cfg);
        cfg.batch_size = 100; cfg.num_threads = 1;
        carquet_batch_reader_t* br = carquet_batch_reader_create(r, &cfg, &err);
        if (!br) return 2;

        carquet_row_batch_t* batch = NULL;
        if (carquet_batch_reader_next(br, &batch) != CARQUET_OK) return 2;   /* rows 0..99, no fault */
        carquet_row_batch_free(batch); batch = NULL;

        counter = 0; fail_at = k;                       /* the k-th malloc of this call fails */
        carquet_status_t st = carquet_batch_reader_next(br, &batch);
        fail_at = -1;
        int injected = counter > k;
        int failed_status = (int)st;
        if (st == CARQUET_OK) {
            carquet_row_batch_free(batch);
        } else if (injected) {
            /* The caller carries on (the failure was transient). */
            int reported = 0; long long delivered = 0;
            for (int j = 0; j < 20; j++) {
                batch = NULL;
                st = carquet_batch_reader_next(br, &batch);
                if (st != CARQUET_OK || !batch) break;
                const void *da, *db; const uint8_t *na, *nb; int64_t ca, cb;
                CHECK(carquet_row_batch_column(batch, 0, &da, &na, &ca));
                CHECK(carquet_row_batch_column(batch, 1, &db, &nb, &cb));
                delivered += ca;
                for (int64_t i = 0; i < ca && i < cb; i++) {
                    int32_t va = ((const int32_t*)da)[i]; int64_t vb = ((const int64_t*)db)[i];
                    if (vb != 10LL * va) {
                        if (!reported)
                            printf("%s, malloc #%ld of batch 2 fails (status %d): a later batch is returned with "
                                   "CARQUET_OK but its row %lld has a=%d b=%lld (written as b=10*a)\n",
                                   use_mmap ? "mmap " : "fread", k, failed_status, (long long)i, va, (long long)vb);
                        reported = 1; violations++;
                        break;
                    }
                }
                carquet_row_batch_free(batch);
            }
            if (!reported)
                printf("%s, malloc #%ld of batch 2 fails: later batches consistent, %lld more rows delivered\n",
                       use_mmap ? "mmap " : "fread", k, delivered);
        }
        carquet_batch_reader_free(br);
        carquet_reader_close(r);
    }
    printf("batches delivered with CARQUET_OK whose columns are out of step: %d\n", violations);
    return violations ? 1 : 0;
}
