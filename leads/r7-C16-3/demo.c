/*
 * C16 finding 3: the statistics builder stores NaN as max (and as min/max of
 * an all-NaN column).  Its float/double comparators sort NaN "after
 * everything", so as soon as one NaN is among the values the built max_value
 * is NaN, flagged is_max_value_exact.  The Parquet format forbids NaN in
 * min/max; under IEEE order a NaN max bounds nothing; and carquet's own
 * row-group pruning, given exactly these statistics, discards row groups that
 * hold matching rows.
 *
 * exit 0: bounds are true bounds and nothing matching is pruned; exit 1 otherwise.
 */
#include "statfile.h"
#include <math.h>
#include <unistd.h>

typedef struct carquet_statistics_builder carquet_statistics_builder_t;
carquet_statistics_builder_t* carquet_statistics_builder_create(
    carquet_physical_type_t type, int32_t type_length);
void carquet_statistics_builder_destroy(carquet_statistics_builder_t* builder);
carquet_status_t carquet_statistics_add_values(
    carquet_statistics_builder_t* builder, const void* values, int64_t num_values);
void carquet_statistics_add_nulls(carquet_statistics_builder_t* builder, int64_t count);
carquet_status_t carquet_statistics_build(
    const carquet_statistics_builder_t* builder, carquet_arena_t* arena,
    parquet_statistics_t* stats);

static int bad = 0;

static void check_float(const char* label, const float* v, int n) {
    carquet_statistics_builder_t* b = carquet_statistics_builder_create(CARQUET_PHYSICAL_FLOAT, 0);
    (void)carquet_statistics_add_values(b, v, n);
    parquet_statistics_t s;
    (void)carquet_statistics_build(b, NULL, &s);
    float mn = 0, mx = 0;
    if (s.min_value) memcpy(&mn, s.min_value, 4);
    if (s.max_value) memcpy(&mx, s.max_value, 4);
    printf("FLOAT  %-22s -> min=%s%g max=%s%g (exact flags %d/%d)\n", label,
           s.min_value ? "" : "(absent) ", mn, s.max_value ? "" : "(absent) ", mx,
           (int)s.is_min_value_exact, (int)s.is_max_value_exact);
    int v_bad = 0;
    if (s.min_value && isnan(mn)) v_bad = 1;
    if (s.max_value && isnan(mx)) v_bad = 1;
    for (int i = 0; i < n; i++) {
        if (isnan(v[i])) continue;
        if (s.min_value && !(mn <= v[i])) v_bad = 1;
        if (s.max_value && !(v[i] <= mx)) v_bad = 1;
    }
    if (v_bad) { puts("   -> NaN stored as a bound / value not bounded"); bad++; }
    free(s.min_value); free(s.max_value);
    carquet_statistics_builder_destroy(b);
}

static void check_double(const char* label, const double* v, int n) {
    carquet_statistics_builder_t* b = carquet_statistics_builder_create(CARQUET_PHYSICAL_DOUBLE, 0);
    (void)carquet_statistics_add_values(b, v, n);
    parquet_statistics_t s;
    (void)carquet_statistics_build(b, NULL, &s);
    double mn = 0, mx = 0;
    if (s.min_value) memcpy(&mn, s.min_value, 8);
    if (s.max_value) memcpy(&mx, s.max_value, 8);
    printf("DOUBLE %-22s -> min=%s%g max=%s%g\n", label,
           s.min_value ? "" : "(absent) ", mn, s.max_value ? "" : "(absent) ", mx);
    int v_bad = 0;
    if (s.min_value && isnan(mn)) v_bad = 1;
    if (s.max_value && isnan(mx)) v_bad = 1;
    for (int i = 0; i < n; i++) {
        if (isnan(v[i])) continue;
        if (s.min_value && !(mn <= v[i])) v_bad = 1;
        if (s.max_value && !(v[i] <= mx)) v_bad = 1;
    }
    if (v_bad) { puts("   -> NaN stored as a bound / value not bounded"); bad++; }
    free(s.min_value); free(s.max_value);
    carquet_statistics_builder_destroy(b);
}

/* builder statistics -> chunk statistics of a real file -> carquet's pruning */
static void end_to_end(void) {
    const char* path = "/tmp/wt7/C16/_finding/3/nan_stats.parquet";
    double rows[4] = { 1.0, NAN, 5.0, 2.5 };
    carquet_error_t err;
    carquet_schema_t* schema = carquet_schema_create(&err);
    if (carquet_schema_add_column(schema, "x", CARQUET_PHYSICAL_DOUBLE, NULL,
                                  CARQUET_REPETITION_REQUIRED, 0) != CARQUET_OK) { puts("schema"); bad++; return; }
    carquet_writer_options_t wo; carquet_writer_options_init(&wo);
    wo.compression = CARQUET_COMPRESSION_UNCOMPRESSED;
    carquet_writer_t* w = carquet_writer_create(path, schema, &wo, &err);
    if (!w) { puts("writer_create"); bad++; return; }
    if (carquet_writer_write_batch(w, 0, rows, 4, NULL, NULL) != CARQUET_OK ||
        carquet_writer_close(w) != CARQUET_OK) { puts("write"); bad++; return; }
    carquet_schema_free(schema);

    /* chunk statistics exactly as carquet's statistics builder produces them */
    carquet_statistics_builder_t* b = carquet_statistics_builder_create(CARQUET_PHYSICAL_DOUBLE, 0);
    (void)carquet_statistics_add_values(b, rows, 4);
    chunk_stats_t cs = { .rg = 0, .col = 0 };
    (void)carquet_statistics_build(b, NULL, &cs.stats);
    int rc = statfile_attach(path, &cs, 1);
    if (rc != 0) { printf("attach failed %d\n", rc); bad++; return; }

    carquet_reader_t* r = carquet_reader_open(path, NULL, &err);
    if (!r) { printf("open failed: %s\n", err.message); bad++; return; }
    struct { carquet_compare_op_t op; const char* txt; double probe; } q[] = {
        { CARQUET_COMPARE_GT, "x >  2.0", 2.0 },
        { CARQUET_COMPARE_GE, "x >= 5.0", 5.0 },
        { CARQUET_COMPARE_GT, "x >  0.0", 0.0 },
        { CARQUET_COMPARE_LT, "x <  2.0", 2.0 },
        { CARQUET_COMPARE_EQ, "x == 5.0", 5.0 },
    };
    for (size_t i = 0; i < sizeof(q) / sizeof(q[0]); i++) {
        int truth = 0;
        for (int k = 0; k < 4; k++) {
            double v = rows[k];
            switch (q[i].op) {
                case CARQUET_COMPARE_GT: truth |= v >  q[i].probe; break;
                case CARQUET_COMPARE_GE: truth |= v >= q[i].probe; break;
                case CARQUET_COMPARE_LT: truth |= v <  q[i].probe; break;
                case CARQUET_COMPARE_EQ: truth |= v == q[i].probe; break;
                default: break;
            }
        }
        bool mm = true;
        carquet_status_t st = carquet_reader_row_group_matches(r, 0, 0, q[i].op, &q[i].probe, 8, &mm);
        int32_t idx[4]; 
        int32_t cnt = carquet_reader_filter_row_groups(r, 0, q[i].op, &q[i].probe, 8, idx, 4);
        printf("rows {1, NaN, 5, 2.5}, builder statistics, %s: rows match=%d  might_match=%d (status %d)  filter_row_groups=%d\n",
               q[i].txt, truth, (int)mm, (int)st, (int)cnt);
        if (truth && (!mm || cnt != 1)) { puts("   -> row group holding matching rows is PRUNED"); bad++; }
    }
    carquet_reader_close(r);
    free(cs.stats.min_value); free(cs.stats.max_value);
    carquet_statistics_builder_destroy(b);
    unlink(path);
}

int main(void) {
    float  f1[] = { 1.0f, NAN, 5.0f };
    float  f2[] = { NAN, 1.0f, 5.0f };
    float  f3[] = { 1.0f, 5.0f, NAN };
    float  f4[] = { NAN, NAN };
    float  f5[] = { -INFINITY, 3.0f, INFINITY };   /* control without NaN */
    double d1[] = { -2.0, NAN, 7.5 };
    check_float("{1, NaN, 5}", f1, 3);
    check_float("{NaN, 1, 5}", f2, 3);
    check_float("{1, 5, NaN}", f3, 3);
    check_float("{NaN, NaN}", f4, 2);
    check_float("{-inf, 3, +inf} (ctl)", f5, 3);
    check_double("{-2, NaN, 7.5}", d1, 3);
    end_to_end();
    puts(bad ? "RESULT: property violated" : "RESULT: ok");
    return bad ? 1 : 0;
}
