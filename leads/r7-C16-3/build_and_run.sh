#!/bin/sh
# Builds the demo against the ASan/UBSan build of the unchanged library and runs it.
cd "$(dirname "$0")"
ROOT=$(cd ../.. && pwd)
if [ ! -f "$ROOT/_build_asan/libcarquet.a" ]; then
  (cd "$ROOT" && cmake -G Ninja -B _build_asan -DCMAKE_C_FLAGS="-fsanitize=address,undefined -g -O1" \
      -DCMAKE_EXE_LINKER_FLAGS="-fsanitize=address,undefined" >/dev/null && cmake --build _build_asan >/dev/null) || exit 99
fi
cc -std=c11 -D_GNU_SOURCE -g -O1 -fsanitize=address,undefined -I"$ROOT/include" -I"$ROOT/src" demo.c \
   "$ROOT/_build_asan/libcarquet.a" -lzstd -lz -lm -fopenmp -lpthread -o demo || exit 99
./demo
rc=$?
echo "exit code: $rc"
exit $rc
