/*
 * C18 demonstration 4 (adjacent to the property: damaged-file detection is
 * not the same on every open path).
 *
 * A file written by carquet whose first four bytes (the leading "PAR1") have
 * been destroyed is not a Parquet file.  carquet_reader_open_buffer() and
 * carquet_reader_open() with use_mmap=true reject it (INVALID_MAGIC);
 * carquet_reader_open() on its default fread path never looks at the leading
 * magic and opens it as a perfectly good table.
 *
 * exit 0 = all open paths agree (all reject), exit 1 = they disagree.
 */
#include <stdio.h>
#include <stdlib.h>
#include <string.h>
#include <unistd.h>
#include <carquet/carquet.h>

static const char* PATH = "c18_demo4.parquet";

int main(void) {
    carquet_error_t err = CARQUET_ERROR_INIT;
    carquet_schema_t* sc = carquet_schema_create(&err);
    if (!sc || carquet_schema_add_column(sc, "a", CARQUET_PHYSICAL_INT32, NULL, CARQUET_REPETITION_REQUIRED, 0)) return 2;
    carquet_writer_t* w = carquet_writer_create(PATH, sc, NULL, &err);
    if (!w) return 2;
    int32_t v[100]; for (int i = 0; i < 100; i++) v[i] = i;
    if (carquet_writer_write_batch(w, 0, v, 100, NULL, NULL) || carquet_writer_close(w)) return 2;
    carquet_schema_free(sc);

    /* destroy the leading magic */
    FILE* f = fopen(PATH, "r+b");
    if (!f || fwrite("\0\0\0\0", 1, 4, f) != 4 || fclose(f)) return 2;

    /* load for the buffer path */
    f = fopen(PATH, "rb"); fseek(f, 0, SEEK_END); long n = ftell(f); rewind(f);
    unsigned char* buf = malloc(n); if (fread(buf, 1, n, f) != (size_t)n) return 2; fclose(f);

    int opened[3] = {0, 0, 0};
    const char* names[3] = { "carquet_reader_open (fread path)", "carquet_reader_open (use_mmap)", "carquet_reader_open_buffer" };
    for (int p = 0; p < 3; p++) {
        carquet_reader_options_t o; carquet_reader_options_init(&o); o.use_mmap = (p == 1);
        carquet_error_t e = CARQUET_ERROR_INIT;
        carquet_reader_t* r = p == 2 ? carquet_reader_open_buffer(buf, n, &o, &e) : carquet_reader_open(PATH, &o, &e);
        if (r) {
            opened[p] = 1;
            printf("%-36s: OPENED, %lld rows, %d row group(s)\n", names[p],
                   (long long)carquet_reader_num_rows(r), carquet_reader_num_row_groups(r));
            carquet_reader_close(r);
        } else {
            printf("%-36s: rejected: %s (%s)\n", names[p], carquet_status_string(e.code), e.message);
        }
    }
    free(buf); unlink(PATH);
    if (opened[0] || opened[1] || opened[2]) {
        printf("RESULT: VIOLATION - a file without the leading PAR1 magic is accepted by an open path\n");
        return 1;
    }
    printf("RESULT: ok\n");
    return 0;
}
