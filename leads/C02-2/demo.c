/*
 * Finding 2: the BYTE_ARRAY values of a row batch that has NOT been freed are
 * overwritten / freed as soon as the caller asks for further batches.
 *
 * carquet.h, carquet_row_batch_column(): "Returns pointers to the raw column data
 * within the batch. The pointers remain valid until the batch is freed."
 *
 * A consumer that collects the batches first and looks at them afterwards (or
 * simply keeps batch N while fetching batch N+1) therefore sees different
 * content than a consumer that frees each batch before the next call.
 *
 * Public API only. exit 0 = every live batch still holds its rows, 1 = not.
 * (With -fsanitize=address the same program stops with heap-use-after-free.)
 */
#include <carquet/carquet.h>
#include <stdio.h>
#include <stdlib.h>
#include <string.h>

#define N 400
#define CHECK(x) do { if ((x) != CARQUET_OK) { fprintf(stderr, "setup failed: %s\n", #x); exit(2); } } while (0)

static char txt[N][16];

static int run(int use_mmap, carquet_compression_t codec, const char* label) {
    carquet_error_t err = CARQUET_ERROR_INIT;
    carquet_schema_t* s = carquet_schema_create(&err);
    CHECK(carquet_schema_add_column(s, "s", CARQUET_PHYSICAL_BYTE_ARRAY, NULL, CARQUET_REPETITION_REQUIRED, 0));
    carquet_writer_options_t wo; carquet_writer_options_init(&wo);
    wo.page_size = 256; wo.compression = codec;
    carquet_writer_t* w = carquet_writer_create("finding2.parquet", s, &wo, &err);
    if (!w) exit(2);
    static carquet_byte_array_t ba[N];
    for (int i = 0; i < N; i++) { snprintf(txt[i], 16, "row-%06d", i); ba[i].data = (uint8_t*)txt[i]; ba[i].length = 10; }
    for (int i = 0; i < N; i += 10) CHECK(carquet_writer_write_batch(w, 0, ba + i, 10, NULL, NULL));
    CHECK(carquet_writer_close(w));
    carquet_schema_free(s);

    carquet_reader_options_t o; carquet_reader_options_init(&o); o.use_mmap = use_mmap;
    carquet_reader_t* r = carquet_reader_open("finding2.parquet", &o, &err);
    if (!r) exit(2);
    carquet_batch_reader_config_t cfg; carquet_batch_reader_config_init(&cfg);
    cfg.batch_size = 50; cfg.num_threads = 1;
    carquet_batch_reader_t* br = carquet_batch_reader_create(r, &cfg, &err);
    if (!br) exit(2);

    /* Fetch all batches, free none. */
    carquet_row_batch_t* b[8]; int nb = 0;
    while (nb < 8 && carquet_batch_reader_next(br, &b[nb]) == CARQUET_OK && b[nb]) nb++;

    int bad = 0, row = 0;
    for (int k = 0; k < nb; k++) {
        const void* d; const uint8_t* nm; int64_t n;
        CHECK(carquet_row_batch_column(b[k], 0, &d, &nm, &n));
        const carquet_byte_array_t* v = d;
        for (int64_t i = 0; i < n; i++, row++) {
            if (v[i].length != 10 || memcmp(v[i].data, txt[row], 10) != 0) {
                if (bad < 3) printf("  [%s] live batch %d, row %d: holds '%.*s', the file has '%s'\n",
                                    label, k, row, v[i].length, (const char*)v[i].data, txt[row]);
                bad++;
            }
        }
    }
    printf("[%s] %d batches alive, %d rows, %d rows no longer hold their value\n", label, nb, row, bad);
    for (int k = 0; k < nb; k++) carquet_row_batch_free(b[k]);
    carquet_batch_reader_free(br);
    carquet_reader_close(r);
    return bad;
}

int main(void) {
    int bad = 0;
    bad += run(0, CARQUET_COMPRESSION_UNCOMPRESSED, "fread, uncompressed");
    bad += run(1, CARQUET_COMPRESSION_SNAPPY,       "mmap,  snappy      ");
    bad += run(1, CARQUET_COMPRESSION_UNCOMPRESSED, "mmap,  uncompressed");   /* control: pointers go into the mapping */
    return bad ? 1 : 0;
}
