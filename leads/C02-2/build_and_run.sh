#!/bin/sh
# Builds the library of this worktree as it is, then the demonstration, then runs it.
# ASAN=1 ./build_and_run.sh  uses an AddressSanitizer build instead (heap-use-after-free report).
set -e
HERE=$(cd "$(dirname "$0")" && pwd)
WT=$(cd "$HERE/../.." && pwd)
cd "$WT"
if [ -n "$ASAN" ]; then
    B=_build_asan
    cmake -G Ninja -B $B -DCMAKE_C_FLAGS="-fsanitize=address,undefined -g -O1" \
          -DCMAKE_EXE_LINKER_FLAGS="-fsanitize=address,undefined" >/dev/null
    SAN="-fsanitize=address,undefined"
else
    B=_build
    cmake -G Ninja -B $B >/dev/null
    SAN=""
fi
cmake --build $B --target carquet >/dev/null
cd "$HERE"
cc -O1 -g $SAN -I"$WT/include" demo.c "$WT/$B/libcarquet.a" -lzstd -lz -lm -fopenmp -lpthread -o demo
set +e
ASAN_OPTIONS=detect_leaks=0 OMP_NUM_THREADS=1 ./demo
rc=$?
echo "demo exit code: $rc"
exit $rc
