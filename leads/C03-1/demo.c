/*
 * C03 finding 1: a column chunk that starts with an empty data page
 * (DataPageHeader.num_values = 0, zero-length body) is unreadable through
 * carquet_reader_open() with stdio, but reads fine - and correctly - through
 * use_mmap and carquet_reader_open_buffer().
 *
 * Empty data pages are legal (nothing in parquet.thrift forbids them) and are
 * produced by some writers (e.g. a writer that flushes its page buffer when a
 * row group starts; other readers had to learn to skip them).
 *
 * File built here (hand-written bytes, no library code involved):
 *   schema { required int64 v; }          1 row group, UNCOMPRESSED, PLAIN
 *   data pages: [0 values] [100 values] [100 values]      v[i] = 7 * i
 *
 * Exit status 0 = all three modes return the same 200 correct rows; 1 = violated.
 */
#include <carquet/carquet.h>
#include "pq.h"

static void build(pq_buf* f, const int* pages, int npages) {
    pq_put(f, "PAR1", 4);
    int64_t data_off = (int64_t)f->n, row = 0;
    for (int p = 0; p < npages; p++) {
        pq_buf body = {0};
        for (int i = 0; i < pages[p]; i++, row++) { int64_t v = row * 7; pq_put(&body, &v, 8); }
        pq_tw w; tw_init(&w, f);
        tw_i32(&w, 1, 0 /* DATA_PAGE */); tw_i32(&w, 2, (int32_t)body.n); tw_i32(&w, 3, (int32_t)body.n);
        tw_i32(&w, 4, (int32_t)pq_crc32(body.d, body.n));
        tw_field(&w, T_STRUCT, 5); tw_struct_begin(&w);
        tw_i32(&w, 1, pages[p]); tw_i32(&w, 2, 0 /* PLAIN */); tw_i32(&w, 3, 3 /* RLE */); tw_i32(&w, 4, 3 /* RLE */);
        tw_struct_end(&w); pq_u8(f, 0);
        pq_put(f, body.d, body.n); pq_free(&body);
    }
    int64_t total = (int64_t)f->n - data_off;
    size_t fstart = f->n;
    pq_tw w; tw_init(&w, f);
    tw_i32(&w, 1, 1);
    tw_list(&w, 2, T_STRUCT, 2);
    tw_struct_begin(&w); tw_str(&w, 4, "schema"); tw_i32(&w, 5, 1); tw_struct_end(&w);
    tw_struct_begin(&w); tw_i32(&w, 1, 2 /* INT64 */); tw_i32(&w, 3, 0 /* REQUIRED */); tw_str(&w, 4, "v"); tw_struct_end(&w);
    tw_i64(&w, 3, row);
    tw_list(&w, 4, T_STRUCT, 1);
    tw_struct_begin(&w);
    tw_list(&w, 1, T_STRUCT, 1);
    tw_struct_begin(&w); tw_i64(&w, 2, data_off);
    tw_field(&w, T_STRUCT, 3); tw_struct_begin(&w);
    tw_i32(&w, 1, 2);
    tw_list(&w, 2, T_I32, 2); pq_varint(f, pq_zz(0)); pq_varint(f, pq_zz(3));
    tw_list(&w, 3, T_BINARY, 1); pq_varint(f, 1); pq_put(f, "v", 1);
    tw_i32(&w, 4, 0 /* UNCOMPRESSED */); tw_i64(&w, 5, row); tw_i64(&w, 6, total); tw_i64(&w, 7, total); tw_i64(&w, 9, data_off);
    tw_struct_end(&w); tw_struct_end(&w);
    tw_i64(&w, 2, total); tw_i64(&w, 3, row);
    tw_struct_end(&w);
    tw_str(&w, 6, "hand-built");
    pq_u8(f, 0);
    pq_u32le(f, (uint32_t)(f->n - fstart)); pq_put(f, "PAR1", 4);
}

typedef struct { int64_t col_rows, col_errors, col_wrong, bat_rows, bat_errors, bat_wrong; int last_status; } result_t;

int main(void) {
    static const int pages[] = { 0, 100, 100 };
    const char* path = "finding1.parquet";
    pq_buf f = {0}; build(&f, pages, 3);
    FILE* fp = fopen(path, "wb"); if (!fp || fwrite(f.d, 1, f.n, fp) != f.n) { perror("write"); return 2; } fclose(fp);

    static const char* mname[] = { "fread ", "mmap  ", "buffer" };
    result_t res[3]; memset(res, 0, sizeof res);
    for (int mode = 0; mode < 3; mode++) {
        carquet_error_t err = CARQUET_ERROR_INIT;
        carquet_reader_options_t ro; carquet_reader_options_init(&ro); ro.use_mmap = (mode == 1);
        carquet_reader_t* r = mode == 2 ? carquet_reader_open_buffer(f.d, f.n, &ro, &err) : carquet_reader_open(path, &ro, &err);
        if (!r) { printf("%s: open failed: %s\n", mname[mode], err.message); return 2; }
        result_t* R = &res[mode];

        /* low-level API */
        carquet_column_reader_t* cr = carquet_reader_get_column(r, 0, 0, &err);
        int64_t v[64]; int64_t row = 0;
        for (int guard = 0; cr && carquet_column_has_next(cr) && guard < 50; guard++) {
            int64_t n = carquet_column_read_batch(cr, v, 64, NULL, NULL);
            if (n < 0) { R->col_errors++; continue; }
            for (int64_t i = 0; i < n; i++, row++) if (v[i] != row * 7) R->col_wrong++;
        }
        R->col_rows = row;
        carquet_column_reader_free(cr);

        /* batch API */
        carquet_batch_reader_config_t cfg; carquet_batch_reader_config_init(&cfg); cfg.batch_size = 64;
        carquet_batch_reader_t* br = carquet_batch_reader_create(r, &cfg, &err);
        row = 0;
        for (int guard = 0; guard < 50; guard++) {
            carquet_row_batch_t* b = NULL;
            carquet_status_t st = carquet_batch_reader_next(br, &b);
            R->last_status = st;
            if (st == CARQUET_ERROR_END_OF_DATA) break;
            if (st != CARQUET_OK || !b) { R->bat_errors++; continue; }
            const void* data; const uint8_t* nb; int64_t nv;
            if (carquet_row_batch_column(b, 0, &data, &nb, &nv) == CARQUET_OK)
                for (int64_t i = 0; i < nv; i++, row++) { int64_t x; memcpy(&x, (const uint8_t*)data + 8 * i, 8); if (x != row * 7) R->bat_wrong++; }
            carquet_row_batch_free(b);
        }
        R->bat_rows = row;
        carquet_batch_reader_free(br);
        carquet_reader_close(r);
        printf("%s: column reader: %3lld rows, %2lld failed calls, %lld wrong values | batch reader: %3lld rows, %2lld failed calls, %lld wrong values, last status %d\n",
               mname[mode], (long long)R->col_rows, (long long)R->col_errors, (long long)R->col_wrong,
               (long long)R->bat_rows, (long long)R->bat_errors, (long long)R->bat_wrong, R->last_status);
    }
    int violated = 0;
    for (int mode = 0; mode < 3; mode++) {
        if (memcmp(&res[mode], &res[0], sizeof(result_t)) != 0) violated = 1;
        if (res[mode].col_rows != 200 || res[mode].bat_rows != 200 || res[mode].col_wrong || res[mode].bat_wrong ||
            res[mode].col_errors || res[mode].bat_errors) violated = 1;
    }
    remove(path);
    printf(violated ? "RESULT: property violated (the modes disagree on a valid file)\n" : "RESULT: property holds\n");
    return violated;
}
