/* Schema:  message schema { required int32 id; repeated int32 tags; }
 * Rows:    id=1 tags=[10,11,12] | id=2 tags=[20] | id=3 tags=[30,31]
 * The "tags" chunk therefore stores 6 (rep,def,value) triples for 3 rows.
 * The batch reader has no way to hand out repetition levels, so it cannot
 * represent this column; it must either reject it or return every stored value. */
#include <carquet/carquet.h>
#include "pq.h"
#include <stdio.h>

int main(void) {
    setvbuf(stdout, NULL, _IONBF, 0);
    if (carquet_init() != CARQUET_OK) return 2;
    pq_buf f = {0}; pq_put(&f, "PAR1", 4);
    pq_chunk c[2]; memset(c, 0, sizeof c);
    /* id */
    { pq_buf body = {0}; for (int i = 1; i <= 3; i++) pq_u32(&body, (uint32_t)i);
      c[0].type = 1; c[0].path[0] = "id"; c[0].pathlen = 1; c[0].num_values = 3; c[0].encodings[0] = 0; c[0].encodings[1] = 3; c[0].nenc = 2;
      c[0].first_page_off = c[0].data_page_off = (int64_t)f.n; pq_data_page(&f, 3, 0, &body); c[0].size = (int64_t)f.n - c[0].first_page_off; free(body.p); }
    /* tags: max_rep 1, max_def 1 */
    { static const int rep[6] = {0, 1, 1, 0, 0, 1}, def[6] = {1, 1, 1, 1, 1, 1}; static const int32_t v[6] = {10, 11, 12, 20, 30, 31};
      pq_buf body = {0}; pq_levels(&body, rep, 6, 1); pq_levels(&body, def, 6, 1); for (int i = 0; i < 6; i++) pq_u32(&body, (uint32_t)v[i]);
      c[1].type = 1; c[1].path[0] = "tags"; c[1].pathlen = 1; c[1].num_values = 6; c[1].encodings[0] = 0; c[1].encodings[1] = 3; c[1].nenc = 2;
      c[1].first_page_off = c[1].data_page_off = (int64_t)f.n; pq_data_page(&f, 6, 0, &body); c[1].size = (int64_t)f.n - c[1].first_page_off; free(body.p); }
    pq_elem el[3] = {{"schema", -1, -1, 0, 2}, {"id", 0, 1, 0, 0}, {"tags", 2, 1, 0, 0}};
    pq_rowgroup rg = {3, c, 2};
    pq_finish(&f, el, 3, &rg, 1);
    if (pq_save(&f, "repeated.parquet")) return 2;
    free(f.p);

    carquet_error_t err = CARQUET_ERROR_INIT;
    carquet_reader_t* r = carquet_reader_open("repeated.parquet", NULL, &err);
    if (!r) { printf("open failed: %s\n", err.message); return 2; }

    /* sanity: the column reader returns the stored triples */
    { carquet_column_reader_t* cr = carquet_reader_get_column(r, 0, 1, &err); int32_t v[8]; int16_t d[8], p[8];
      int64_t n = carquet_column_read_batch(cr, v, 8, d, p);
      printf("column reader, tags: %lld triples:", (long long)n); for (int i = 0; i < n; i++) printf(" (r%d d%d %d)", p[i], d[i], v[i]); printf("\n");
      carquet_column_reader_free(cr); }

    carquet_batch_reader_t* br = carquet_batch_reader_create(r, NULL, &err);
    if (!br) { printf("batch reader rejected the file: %s -> acceptable\nOK\n", err.message); return 0; }
    carquet_row_batch_t* b = NULL; carquet_status_t st; int64_t tag_values = 0, rows = 0; int batches = 0;
    while ((st = carquet_batch_reader_next(br, &b)) == CARQUET_OK && b) {
        const void* d0; const void* d1; const uint8_t* nb; int64_t n0, n1;
        if (carquet_row_batch_column(b, 0, &d0, &nb, &n0) != CARQUET_OK || carquet_row_batch_column(b, 1, &d1, &nb, &n1) != CARQUET_OK) return 2;
        printf("batch %d: status OK, %lld rows\n", batches, (long long)carquet_row_batch_num_rows(b));
        for (int64_t i = 0; i < carquet_row_batch_num_rows(b); i++)
            printf("   row %lld: id=%d tags=%d\n", (long long)i, ((const int32_t*)d0)[i], i < n1 ? ((const int32_t*)d1)[i] : -1);
        rows += carquet_row_batch_num_rows(b); tag_values += n1; batches++;
        carquet_row_batch_free(b); b = NULL;
    }
    printf("batch reader finished with status %d (%s): %lld rows, %lld of 6 stored tag values delivered\n", st, carquet_status_string(st), (long long)rows, (long long)tag_values);
    carquet_batch_reader_free(br); carquet_reader_close(r);
    if (st == CARQUET_ERROR_END_OF_DATA && tag_values != 6) {
        printf("FAIL: reported success but silently dropped %lld stored values and attached values of row 0 to rows 1 and 2\n", (long long)(6 - tag_values));
        return 1;
    }
    printf("OK\n");
    return 0;
}
