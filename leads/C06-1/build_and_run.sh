#!/bin/sh
# Builds the library in the worktree as it is, builds the demonstration, runs it.
# Exit status 0 = property holds, non-zero = violated.
HERE=$(cd "$(dirname "$0")" && pwd)
WT=$(cd "$HERE/../.." && pwd)
(cd "$WT" && cmake -G Ninja -B _build >/dev/null && cmake --build _build >/dev/null) || exit 2
cd "$HERE" || exit 2
cc -O1 -g -I"$WT/include" demo.c "$WT/_build/libcarquet.a" -o demo -lzstd -lz -lm -fopenmp -lpthread || exit 2
OMP_NUM_THREADS=2 ./demo
rc=$?
echo "demo exit status: $rc"
exit $rc
