/*
 * C01 demo 1: carquet_column_read_batch() with max_values >= 2^31.
 *
 * A 10-row REQUIRED BOOLEAN column is written (all writer calls return OK) and
 * read back with a value buffer that really has room for max_values values
 * (BOOLEAN = 1 byte per value; the buffer is a lazily committed anonymous
 * mapping, so only the bytes actually written are ever touched).
 *
 * Expected for every max_values >= 10: the call returns 10 and the 10 values
 * are the ones written.  Each case runs in a child process so that a crash in
 * one case does not hide the others.
 *
 * exit 0 = property holds, 1 = violated.
 */
#include <carquet/carquet.h>
#include <stdio.h>
#include <stdlib.h>
#include <string.h>
#include <stdint.h>
#include <unistd.h>
#include <sys/mman.h>
#include <sys/wait.h>

static const uint8_t WRITTEN[10] = {1,0,1,1,0,0,1,0,1,1};

static int write_file(const char* path) {
    carquet_error_t err = CARQUET_ERROR_INIT;
    carquet_schema_t* s = carquet_schema_create(&err);
    if (!s) return -1;
    if (carquet_schema_add_column(s, "b", CARQUET_PHYSICAL_BOOLEAN, NULL,
                                  CARQUET_REPETITION_REQUIRED, 0) != CARQUET_OK) return -1;
    carquet_writer_t* w = carquet_writer_create(path, s, NULL, &err);
    if (!w) return -1;
    if (carquet_writer_write_batch(w, 0, WRITTEN, 10, NULL, NULL) != CARQUET_OK) return -1;
    if (carquet_writer_close(w) != CARQUET_OK) return -1;
    carquet_schema_free(s);
    return 0;
}

/* returns 0 if the read behaved, 1 otherwise (or dies) */
static int read_case(const char* path, int64_t max_values) {
    carquet_error_t err = CARQUET_ERROR_INIT;
    carquet_reader_t* r = carquet_reader_open(path, NULL, &err);
    if (!r) { printf("    open failed: %s\n", err.message); return 1; }
    carquet_column_reader_t* c = carquet_reader_get_column(r, 0, 0, &err);
    if (!c) { printf("    get_column failed: %s\n", err.message); return 1; }

    size_t bytes = (size_t)max_values;   /* 1 byte per BOOLEAN value */
    uint8_t* buf = mmap(NULL, bytes, PROT_READ | PROT_WRITE,
                        MAP_PRIVATE | MAP_ANONYMOUS | MAP_NORESERVE, -1, 0);
    if (buf == MAP_FAILED) { perror("    mmap"); return 2; }

    int64_t n = carquet_column_read_batch(c, buf, max_values, NULL, NULL);
    int has_next = carquet_column_has_next(c);
    int same = (n == 10) && memcmp(buf, WRITTEN, 10) == 0;
    printf("    read_batch(max_values=%lld) returned %lld, has_next=%d, values %s\n",
           (long long)max_values, (long long)n, has_next, same ? "match" : "DO NOT match");
    fflush(stdout);
    carquet_column_reader_free(c);
    carquet_reader_close(r);
    return same ? 0 : 1;
}

int main(void) {
    char path[256];
    snprintf(path, sizeof path, "/tmp/carquet_c01_demo1_%d.parquet", (int)getpid());
    if (write_file(path) != 0) { printf("writer failed (unexpected)\n"); return 2; }

    const int64_t cases[] = {
        10, 2147483647LL,            /* controls: behave */
        2147483648LL,                /* 2^31   */
        4294967296LL,                /* 2^32   */
        4294967299LL                 /* 2^32+3 */
    };
    int violated = 0;
    for (size_t i = 0; i < sizeof cases / sizeof cases[0]; i++) {
        printf("case max_values=%lld\n", (long long)cases[i]);
        fflush(stdout);
        pid_t pid = fork();
        if (pid == 0) _exit(read_case(path, cases[i]));
        int st = 0;
        waitpid(pid, &st, 0);
        if (WIFSIGNALED(st)) {
            printf("    child killed by signal %d (%s)\n", WTERMSIG(st), strsignal(WTERMSIG(st)));
            violated = 1;
        } else if (WEXITSTATUS(st) != 0) {
            violated = 1;
        }
    }
    remove(path);
    printf(violated ? "RESULT: property VIOLATED\n" : "RESULT: property holds\n");
    return violated;
}
