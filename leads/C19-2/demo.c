/*
 * C19 finding 2: after carquet_batch_reader_next() fails because of one failed
 * allocation, the next call on the same batch reader reports CARQUET_OK and
 * hands out a batch whose columns come from DIFFERENT rows.
 *
 * Table: 64 rows, two REQUIRED INT32 columns a and b with a[i] == b[i] == i,
 * one row group, read with batch_size 16 (fread, mmap and buffer mode).
 * For every k the k-th allocation request of the scenario
 *   open, batch_reader_create, next() until END_OF_DATA (calling next() again
 *   after an error), free, close
 * fails.  Whatever next() does after an error (retry the batch, skip it, keep
 * failing), a batch that it returns with CARQUET_OK must be a batch of the
 * table: row j of column a and row j of column b are the same table row, which
 * here means a[j] == b[j].  No fault-free run ever returns anything else.
 *
 * Exit 0 = property holds, 1 = violated.
 */
#include <carquet/carquet.h>
#include "fi.h"
#include <stdint.h>
#include <stdbool.h>
#include <unistd.h>

#define ROWS 64
#define BATCH 16
static const char* PATH = "/tmp/c19_f2.parquet";
static uint8_t* filebuf; static size_t filelen;

static int write_table(void) {
    carquet_error_t err = CARQUET_ERROR_INIT;
    carquet_schema_t* s = carquet_schema_create(&err);
    if (!s) return -1;
    if (carquet_schema_add_column(s, "a", CARQUET_PHYSICAL_INT32, NULL, CARQUET_REPETITION_REQUIRED, 0) != CARQUET_OK) return -1;
    if (carquet_schema_add_column(s, "b", CARQUET_PHYSICAL_INT32, NULL, CARQUET_REPETITION_REQUIRED, 0) != CARQUET_OK) return -1;
    carquet_writer_options_t o; carquet_writer_options_init(&o);
    carquet_writer_t* w = carquet_writer_create(PATH, s, &o, &err);
    if (!w) return -1;
    int32_t v[ROWS];
    for (int i = 0; i < ROWS; i++) v[i] = i;
    if (carquet_writer_write_batch(w, 0, v, ROWS, NULL, NULL) != CARQUET_OK) return -1;
    if (carquet_writer_write_batch(w, 1, v, ROWS, NULL, NULL) != CARQUET_OK) return -1;
    if (carquet_writer_close(w) != CARQUET_OK) return -1;
    carquet_schema_free(s);
    FILE* f = fopen(PATH, "rb"); if (!f) return -1;
    fseek(f, 0, SEEK_END); filelen = (size_t)ftell(f); fseek(f, 0, SEEK_SET);
    filebuf = __real_malloc(filelen);
    if (fread(filebuf, 1, filelen, f) != filelen) return -1;
    fclose(f);
    return 0;
}

/* returns 0 fine, 1 violation */
static int scenario(int mode, long k) {
    carquet_error_t err = CARQUET_ERROR_INIT;
    carquet_reader_options_t ro; carquet_reader_options_init(&ro);
    ro.use_mmap = (mode == 1);
    carquet_reader_t* rd = (mode == 2) ? carquet_reader_open_buffer(filebuf, filelen, &ro, &err)
                                       : carquet_reader_open(PATH, &ro, &err);
    if (!rd) return 0;
    carquet_batch_reader_config_t cfg; carquet_batch_reader_config_init(&cfg);
    cfg.batch_size = BATCH; cfg.num_threads = 1;
    carquet_batch_reader_t* br = carquet_batch_reader_create(rd, &cfg, &err);
    if (!br) { carquet_reader_close(rd); return 0; }

    int bad = 0, errors = 0, calls = 0;
    for (;;) {
        carquet_row_batch_t* b = NULL;
        carquet_status_t st = carquet_batch_reader_next(br, &b);
        calls++;
        if (st == CARQUET_ERROR_END_OF_DATA) break;
        if (st != CARQUET_OK) {
            if (++errors > 3) break;     /* keeps failing: acceptable, stop */
            continue;                    /* call next() again after the error */
        }
        const void *da, *db; const uint8_t *na, *nb; int64_t ca, cb;
        if (carquet_row_batch_column(b, 0, &da, &na, &ca) != CARQUET_OK ||
            carquet_row_batch_column(b, 1, &db, &nb, &cb) != CARQUET_OK || ca != cb) {
            printf("mode %d k=%ld: malformed batch\n", mode, k); bad = 1;
        } else {
            for (int64_t j = 0; j < ca; j++) {
                int32_t a, bb;   /* zero-copy views into a mapping need not be aligned */
                memcpy(&a, (const uint8_t*)da + 4 * j, 4);
                memcpy(&bb, (const uint8_t*)db + 4 * j, 4);
                if (a != bb) {
                    printf("mode %d k=%ld: call #%d of carquet_batch_reader_next() returned CARQUET_OK "
                           "(after %d failed call(s)) with a batch of %lld rows in which row %lld has "
                           "a=%d but b=%d  -- the columns are from different table rows\n",
                           mode, k, calls, errors, (long long)ca, (long long)j, a, bb);
                    bad = 1; break;
                }
            }
        }
        carquet_row_batch_free(b);
        if (bad) break;
    }
    carquet_batch_reader_free(br);
    carquet_reader_close(rd);
    return bad;
}

int main(void) {
    static const char* modes[] = { "fread", "mmap", "buffer" };
    if (write_table() != 0) { printf("setup failed\n"); return 3; }
    int bad = 0;
    for (int mode = 0; mode < 3; mode++) {
        int count = 0;
        for (long k = 1; k < 10000; k++) {
            long live0 = fi_live;
            fi_arm(k);
            int r = scenario(mode, k);
            int fired = fi_fired;
            fi_disarm();
            if (r) count++;
            if (fi_live != live0) { printf("mode %d k=%ld: leak\n", mode, k); bad++; }
            if (!fired) { printf("[%s] %ld allocation points, %d of them lead to a misaligned batch reported as success\n",
                                 modes[mode], k - 1, count); break; }
        }
        bad += count;
    }
    unlink(PATH);
    printf(bad ? "PROPERTY VIOLATED\n" : "property holds\n");
    return bad ? 1 : 0;
}
