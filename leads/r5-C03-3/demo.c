/*
 * C03 finding 3: the three ways of opening the same bytes do not agree on
 * whether they are a Parquet file.  A file whose first four bytes are not
 * "PAR1" is refused by use_mmap and by carquet_reader_open_buffer
 * (CARQUET_ERROR_INVALID_MAGIC) but opened and read without complaint by the
 * default stdio path, although carquet_reader_open documents that
 * "The file must be a valid Parquet file with the "PAR1" magic bytes at the
 * beginning and end".
 *
 * exit 0: all three modes give the same verdict on every variant
 * exit 1: the modes disagree
 */
#include <carquet/carquet.h>
#include <stdio.h>
#include <stdlib.h>
#include <string.h>

static const char* GOOD = "/tmp/wt5/C03/_finding/3/good.parquet";
static const char* BAD  = "/tmp/wt5/C03/_finding/3/bad_magic.parquet";

static int write_good(void) {
    carquet_error_t err = CARQUET_ERROR_INIT;
    carquet_schema_t* s = carquet_schema_create(&err);
    if (!s) return 1;
    if (carquet_schema_add_column(s, "a", CARQUET_PHYSICAL_INT32, NULL, CARQUET_REPETITION_REQUIRED, 0) != CARQUET_OK) return 1;
    carquet_writer_t* w = carquet_writer_create(GOOD, s, NULL, &err);
    if (!w) return 1;
    int32_t v[8] = {1, 2, 3, 4, 5, 6, 7, 8};
    if (carquet_writer_write_batch(w, 0, v, 8, NULL, NULL) != CARQUET_OK) return 1;
    if (carquet_writer_close(w) != CARQUET_OK) return 1;
    carquet_schema_free(s);
    return 0;
}

static unsigned char* slurp(const char* path, long* size) {
    FILE* f = fopen(path, "rb"); if (!f) return NULL;
    fseek(f, 0, SEEK_END); *size = ftell(f); fseek(f, 0, SEEK_SET);
    unsigned char* p = malloc(*size);
    if (fread(p, 1, *size, f) != (size_t)*size) { fclose(f); free(p); return NULL; }
    fclose(f); return p;
}

/* returns the status code of opening (0 = opened), and the number of rows that could be read */
static int try_open(const char* path, int mode, long long* rows_read) {
    carquet_error_t err = CARQUET_ERROR_INIT;
    carquet_reader_options_t o; carquet_reader_options_init(&o);
    unsigned char* buf = NULL; long size = 0; carquet_reader_t* rd;
    *rows_read = -1;
    if (mode == 2) { buf = slurp(path, &size); rd = carquet_reader_open_buffer(buf, size, &o, &err); }
    else { o.use_mmap = (mode == 1); rd = carquet_reader_open(path, &o, &err); }
    if (!rd) { free(buf); return err.code ? err.code : -1; }
    if (mode == 1 && !carquet_reader_is_mmap(rd)) printf("   (mmap fell back to stdio)\n");
    carquet_column_reader_t* cr = carquet_reader_get_column(rd, 0, 0, &err);
    if (cr) { int32_t v[16]; *rows_read = carquet_column_read_batch(cr, v, 16, NULL, NULL); carquet_column_reader_free(cr); }
    carquet_reader_close(rd); free(buf);
    return 0;
}

int main(void) {
    static const char* names[] = {"stdio ", "mmap  ", "buffer"};
    if (write_good()) { printf("cannot write test file\n"); return 2; }
    long size; unsigned char* bytes = slurp(GOOD, &size);
    if (!bytes) return 2;
    int disagree = 0;
    const char* heads[] = {"PAR1", "XAR1", "PARE", "\0\0\0\0"};
    for (int v = 0; v < 4; v++) {
        memcpy(bytes, heads[v], 4);
        FILE* f = fopen(BAD, "wb"); fwrite(bytes, 1, size, f); fclose(f);
        printf("leading bytes %02x %02x %02x %02x%s\n", bytes[0], bytes[1], bytes[2], bytes[3], v == 0 ? "  (the valid file)" : "");
        int st[3]; long long rows[3];
        for (int mode = 0; mode < 3; mode++) {
            st[mode] = try_open(BAD, mode, &rows[mode]);
            if (st[mode] == 0) printf("   %s: opened, read %lld values\n", names[mode], rows[mode]);
            else printf("   %s: refused, status %d (%s)\n", names[mode], st[mode], carquet_status_string((carquet_status_t)st[mode]));
        }
        if ((st[0] == 0) != (st[1] == 0) || (st[0] == 0) != (st[2] == 0)) disagree++;
    }
    free(bytes);
    if (disagree) { printf("FAIL: %d variant(s) on which the open modes disagree\n", disagree); return 1; }
    printf("OK\n");
    return 0;
}
