#!/bin/sh
set -u
WT=/tmp/wt5/C03
HERE=$WT/_finding/3
export OMP_NUM_THREADS=2 OMP_WAIT_POLICY=passive
cd $WT && cmake -G Ninja -B _build >/dev/null && cmake --build _build >/dev/null || exit 99
cc -O1 -g -I$WT/include $HERE/demo.c $WT/_build/libcarquet.a -lzstd -lz -lm -fopenmp -lpthread -o $HERE/demo || exit 99
$HERE/demo; rc=$?
echo "exit code $rc"
exit $rc
