/*
 * C18 - "failed writes are never reported OK" / truncated files are never
 * opened as a valid table.
 *
 * carquet_writer_create_file() never looks at where the stream it is given
 * stands.  All offsets it records in the footer assume that the first byte it
 * writes is byte 0 of the file.  When the stream is not at offset 0 - here: a
 * FILE* opened with "ab" on the truncated leftover of an earlier, crashed
 * write of the same table - every writer call returns CARQUET_OK, fclose()
 * succeeds, and the resulting file is NOT the table that was written: the
 * footer of the second attempt points into the bytes of the first, crashed
 * attempt, and the reader silently returns the rows of the crashed attempt.
 *
 * Public API only.  Exit 0 = property holds (the writer refuses the stream,
 * reports an error, or the file reads back as written), 1 = violated.
 */
#include <carquet/carquet.h>
#include <stdio.h>
#include <stdlib.h>
#include <string.h>
#include <unistd.h>

#define N 64

int main(void) {
    char dir[] = "c18_append_XXXXXX";
    if (!mkdtemp(dir)) { perror("mkdtemp"); return 2; }
    char path[256];
    snprintf(path, sizeof path, "%s/table.parquet", dir);

    carquet_error_t err = CARQUET_ERROR_INIT;
    carquet_schema_t *sc = carquet_schema_create(&err);
    if (!sc || carquet_schema_add_column(sc, "a", CARQUET_PHYSICAL_INT32, NULL,
                                         CARQUET_REPETITION_REQUIRED, 0) != CARQUET_OK) {
        fprintf(stderr, "schema setup failed\n");
        return 2;
    }
    int32_t a[N];

    /* Attempt 1 writes 1000..1063 and "crashes": only a prefix reaches the disk. */
    carquet_writer_t *w = carquet_writer_create(path, sc, NULL, &err);
    if (!w) { fprintf(stderr, "create: %s\n", err.message); return 2; }
    for (int i = 0; i < N; i++) a[i] = 1000 + i;
    if (carquet_writer_write_batch(w, 0, a, N, NULL, NULL) != CARQUET_OK) return 2;
    if (carquet_writer_close(w) != CARQUET_OK) return 2;
    FILE *f = fopen(path, "rb");
    fseek(f, 0, SEEK_END);
    long full = ftell(f);
    fclose(f);
    if (truncate(path, full - 10) != 0) { perror("truncate"); return 2; }   /* cut inside the footer */

    carquet_reader_t *r = carquet_reader_open(path, NULL, &err);
    printf("leftover of attempt 1 (%ld of %ld bytes): %s\n", full - 10, full,
           r ? "OPENS (unexpected)" : "rejected by the reader, as it must be");
    if (r) { carquet_reader_close(r); return 1; }

    /* Attempt 2 writes 2000..2063 through a caller-owned stream in binary
     * write (append) mode. */
    f = fopen(path, "ab");
    if (!f) { perror("fopen"); return 2; }
    printf("stream position handed to carquet_writer_create_file: %ld\n", ftell(f));
    memset(&err, 0, sizeof err);
    w = carquet_writer_create_file(f, sc, NULL, &err);
    if (!w) {
        printf("carquet_writer_create_file refused the stream: %s\nok\n", err.message);
        fclose(f);
        return 0;
    }
    for (int i = 0; i < N; i++) a[i] = 2000 + i;
    carquet_status_t s1 = carquet_writer_write_batch(w, 0, a, N, NULL, NULL);
    carquet_status_t s2 = carquet_writer_close(w);
    int s3 = fclose(f);
    printf("attempt 2: write_batch=%d close=%d fclose=%d\n", (int)s1, (int)s2, s3);
    if (s1 != CARQUET_OK || s2 != CARQUET_OK || s3 != 0) {
        printf("a failure was reported\nok\n");
        return 0;
    }

    /* Everything was reported OK: the file must hold what was written. */
    int bad = 0;
    r = carquet_reader_open(path, NULL, &err);
    if (!r) {
        printf("reader: cannot open: %s\n", err.message);
        bad = 1;
    } else {
        printf("reader: opened, %lld rows in %d row group(s)\n",
               (long long)carquet_reader_num_rows(r), carquet_reader_num_row_groups(r));
        carquet_column_reader_t *c = carquet_reader_get_column(r, 0, 0, &err);
        int32_t v[N];
        long long n = c ? carquet_column_read_batch(c, v, N, NULL, NULL) : -1;
        if (n > 0)
            printf("reader: %lld values, first=%d last=%d   (written and reported OK: 2000..%d)\n",
                   n, v[0], v[n - 1], 2000 + N - 1);
        else
            printf("reader: column read failed (%lld)\n", n);
        bad = !(n == N && v[0] == 2000 && v[N - 1] == 2000 + N - 1);
        if (c) carquet_column_reader_free(c);
        carquet_reader_close(r);
    }
    /* same bytes through the mmap open path */
    carquet_reader_options_t ro;
    carquet_reader_options_init(&ro);
    ro.use_mmap = true;
    memset(&err, 0, sizeof err);
    r = carquet_reader_open(path, &ro, &err);
    printf("reader (use_mmap): %s\n", r ? "opened" : err.message);
    if (r) carquet_reader_close(r);

    carquet_schema_free(sc);
    if (bad) {
        printf("VIOLATION: every writer call returned OK, but the file does not hold the written table\n");
        return 1;
    }
    printf("ok\n");
    return 0;
}
