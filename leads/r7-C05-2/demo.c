/*
 * C05 demo 2: a REPEATED column written with rep_levels == NULL.
 *
 * carquet.h: "rep_levels  Repetition levels (NULL if no repetition)". For a
 * column declared REPEATED a batch without repetition is a batch in which
 * every level entry starts a new row (all repetition levels 0): three rows
 * holding the one-element lists [10], [20], [30]. The writer itself counts it
 * that way (num_rows = 3) and every call returns CARQUET_OK.
 *
 * The schema says max_repetition_level = 1, so every data page of the column
 * must carry a repetition-level block (Encodings.md: the block is only
 * omitted when the maximum level is 0). The independent reader in
 * ../common/pqcheck.h checks the file and compares the table.
 *
 * Part B writes the first batch with explicit levels and the second with
 * NULL: both land in the same page.
 *
 * exit 0: property holds.  exit 1: violated.
 */
#include <carquet/carquet.h>
#include "../common/pqcheck.h"

static int write_file(const char* path, int mixed) {
    carquet_error_t err = CARQUET_ERROR_INIT;
    carquet_schema_t* schema = carquet_schema_create(&err);
    if (!schema) return -1;
    if (carquet_schema_add_column(schema, "tags", CARQUET_PHYSICAL_INT32, NULL,
                                  CARQUET_REPETITION_REPEATED, 0) != CARQUET_OK) return -1;
    carquet_writer_options_t opt;
    carquet_writer_options_init(&opt);
    carquet_writer_t* w = carquet_writer_create(path, schema, &opt, &err);
    if (!w) return -1;
    carquet_status_t st = CARQUET_OK;
    if (mixed) {
        /* rows [1,2] and [3] with explicit levels ... */
        int32_t v1[] = { 1, 2, 3 };
        int16_t d1[] = { 1, 1, 1 };
        int16_t r1[] = { 0, 1, 0 };
        st = carquet_writer_write_batch(w, 0, v1, 3, d1, r1);
    }
    if (st == CARQUET_OK) {
        /* ... then rows [10], [20], ... without repetition: 3 rows in part A,
         * 10 rows in part B */
        int32_t v2[] = { 10, 20, 30, 40, 50, 60, 70, 80, 90, 100 };
        st = carquet_writer_write_batch(w, 0, v2, mixed ? 10 : 3, NULL, NULL);
    }
    if (st != CARQUET_OK) {
        printf("  write_batch refused with status %d - property not violated\n", st);
        carquet_writer_abort(w);
        carquet_schema_free(schema);
        return 1;
    }
    st = carquet_writer_close(w);
    carquet_schema_free(schema);
    if (st != CARQUET_OK) {
        printf("  carquet_writer_close reported %d - property not violated\n", st);
        return 1;
    }
    printf("  carquet_writer_close: CARQUET_OK\n");
    return 0;
}

static int check(const char* path, const int32_t* vals, const int16_t* rep, int n, int rows) {
    pq_file_t f;
    if (pq_check_file(path, &f) != 0) {
        printf("  independent reader REJECTS the file: %s\n", pq_errmsg);
        return 1;
    }
    if (f.num_rows != rows || f.data[0].n_levels != n || f.data[0].n_vals != n ||
        memcmp(f.data[0].vals, vals, (size_t)n * 4) || memcmp(f.data[0].rep, rep, (size_t)n * 2)) {
        printf("  independent reader recovers a different table\n");
        return 1;
    }
    printf("  independent reader accepts the file and recovers the table\n");
    return 0;
}

int main(void) {
    int bad = 0, r;
    const char* pa = "/tmp/wt7/C05/_finding/2/repeated_null_rep.parquet";
    const char* pb = "/tmp/wt7/C05/_finding/2/repeated_mixed_rep.parquet";

    printf("A: one batch, rep_levels NULL\n");
    r = write_file(pa, 0);
    if (r < 0) return 3;
    if (r == 0) {
        int32_t v[] = { 10, 20, 30 };
        int16_t rp[] = { 0, 0, 0 };
        bad |= check(pa, v, rp, 3, 3);
    }
    printf("B: a batch with explicit levels, then one with rep_levels NULL\n");
    r = write_file(pb, 1);
    if (r < 0) return 3;
    if (r == 0) {
        int32_t v[] = { 1, 2, 3, 10, 20, 30, 40, 50, 60, 70, 80, 90, 100 };
        int16_t rp[] = { 0, 1, 0, 0, 0, 0, 0, 0, 0, 0, 0, 0, 0 };
        bad |= check(pb, v, rp, 13, 12);
    }
    if (!bad) { remove(pa); remove(pb); }
    return bad;
}
