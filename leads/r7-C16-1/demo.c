/*
 * C16 finding 1: carquet_column_index_page_might_match() compares numeric
 * page bounds with memcmp (little-endian bytes) instead of the column's order,
 * so it answers "cannot match" for pages that do hold matching values.
 *
 * The page-index functions have external linkage in libcarquet.a but are not
 * declared in carquet.h; their prototypes are repeated here exactly as they
 * are defined in src/metadata/page_index.c.
 *
 * exit 0: no false negative; exit 1: at least one false negative.
 */
#include <carquet/carquet.h>
#include <stdio.h>
#include <stdint.h>
#include <stdbool.h>
#include <string.h>

typedef struct carquet_column_index_builder carquet_column_index_builder_t;
carquet_column_index_builder_t* carquet_column_index_builder_create(
    carquet_physical_type_t type, int32_t type_length);
void carquet_column_index_builder_destroy(carquet_column_index_builder_t* builder);
carquet_status_t carquet_column_index_add_page(
    carquet_column_index_builder_t* builder, int64_t null_count,
    const void* min_value, int32_t min_value_len,
    const void* max_value, int32_t max_value_len, bool is_null_page);
carquet_status_t carquet_column_index_page_might_match(
    const carquet_column_index_builder_t* builder, int32_t page_idx,
    const void* min_value, const void* max_value, int32_t value_len,
    bool* might_match);

static uint64_t rng_state = 0x9E3779B97F4A7C15ull;
static uint64_t rnd(void) {
    rng_state ^= rng_state << 13; rng_state ^= rng_state >> 7; rng_state ^= rng_state << 17;
    return rng_state;
}

static int failures = 0;

/* ---- the headline case, spelled out ---------------------------------- */
static void headline(void) {
    /* one INT32 page holding the values 1 .. 256: true bounds min=1 max=256 */
    int32_t pmin = 1, pmax = 256;
    carquet_column_index_builder_t* b =
        carquet_column_index_builder_create(CARQUET_PHYSICAL_INT32, 0);
    if (!b) { puts("alloc"); failures++; return; }
    if (carquet_column_index_add_page(b, 0, &pmin, 4, &pmax, 4, false) != CARQUET_OK) {
        puts("add_page failed"); failures++; return;
    }
    int32_t lo = 2, hi = 2;           /* predicate: 2 <= x <= 2, i.e. x == 2 */
    bool mm = true;
    carquet_status_t st = carquet_column_index_page_might_match(b, 0, &lo, &hi, 4, &mm);
    printf("INT32 page [1,256], query x in [2,2]: status=%d might_match=%d (page holds 2)\n",
           (int)st, (int)mm);
    if (st != CARQUET_OK || !mm) { failures++; puts("  -> FALSE NEGATIVE"); }

    /* signed: page -5 .. 5, query x in [0,0] */
    carquet_column_index_builder_destroy(b);
    b = carquet_column_index_builder_create(CARQUET_PHYSICAL_INT32, 0);
    pmin = -5; pmax = 5;
    (void)carquet_column_index_add_page(b, 0, &pmin, 4, &pmax, 4, false);
    lo = 0; hi = 0; mm = true;
    st = carquet_column_index_page_might_match(b, 0, &lo, &hi, 4, &mm);
    printf("INT32 page [-5,5],  query x in [0,0]: status=%d might_match=%d (page holds 0)\n",
           (int)st, (int)mm);
    if (st != CARQUET_OK || !mm) { failures++; puts("  -> FALSE NEGATIVE"); }
    carquet_column_index_builder_destroy(b);

    /* double: page 1.5 .. 1000.25, query x in [2.0, 3.0] */
    double dmin = 1.5, dmax = 1000.25, dlo = 2.0, dhi = 3.0;
    b = carquet_column_index_builder_create(CARQUET_PHYSICAL_DOUBLE, 0);
    (void)carquet_column_index_add_page(b, 0, &dmin, 8, &dmax, 8, false);
    mm = true;
    st = carquet_column_index_page_might_match(b, 0, &dlo, &dhi, 8, &mm);
    printf("DOUBLE page [1.5,1000.25], query x in [2,3]: status=%d might_match=%d\n",
           (int)st, (int)mm);
    if (st != CARQUET_OK || !mm) { failures++; puts("  -> FALSE NEGATIVE"); }
    carquet_column_index_builder_destroy(b);
}

/* ---- brute force over generated pages -------------------------------- */
#define NV 8

static void brute_i32(void) {
    int fn = 0, cases = 0;
    for (int iter = 0; iter < 2000; iter++) {
        int32_t v[NV];
        int spread = (int)(rnd() % 3);
        for (int i = 0; i < NV; i++) {
            int64_t r = (int64_t)(rnd() % (spread == 0 ? 16 : spread == 1 ? 1000 : 100000));
            v[i] = (int32_t)(r - (spread == 0 ? 8 : spread == 1 ? 500 : 50000));
        }
        int32_t mn = v[0], mx = v[0];
        for (int i = 1; i < NV; i++) { if (v[i] < mn) mn = v[i]; if (v[i] > mx) mx = v[i]; }
        carquet_column_index_builder_t* b =
            carquet_column_index_builder_create(CARQUET_PHYSICAL_INT32, 0);
        (void)carquet_column_index_add_page(b, 0, &mn, 4, &mx, 4, false);
        for (int q = 0; q < 8; q++) {
            int32_t lo = v[rnd() % NV] + (int32_t)(rnd() % 3) - 1;
            int32_t hi = lo + (int32_t)(rnd() % 4);
            bool truth = false;
            for (int i = 0; i < NV; i++) if (v[i] >= lo && v[i] <= hi) truth = true;
            bool mm = true;
            carquet_status_t st = carquet_column_index_page_might_match(b, 0, &lo, &hi, 4, &mm);
            cases++;
            if (st == CARQUET_OK && truth && !mm) {
                if (fn < 3) printf("  INT32 page [%d,%d] query [%d,%d]: matching value present, might_match=0\n",
                                   mn, mx, lo, hi);
                fn++;
            }
        }
        carquet_column_index_builder_destroy(b);
    }
    printf("INT32 brute force: %d false negatives in %d cases\n", fn, cases);
    if (fn) failures++;
}

static void brute_i64(void) {
    int fn = 0, cases = 0;
    for (int iter = 0; iter < 2000; iter++) {
        int64_t v[NV];
        for (int i = 0; i < NV; i++) v[i] = (int64_t)(rnd() % 200000) - 100000;
        int64_t mn = v[0], mx = v[0];
        for (int i = 1; i < NV; i++) { if (v[i] < mn) mn = v[i]; if (v[i] > mx) mx = v[i]; }
        carquet_column_index_builder_t* b =
            carquet_column_index_builder_create(CARQUET_PHYSICAL_INT64, 0);
        (void)carquet_column_index_add_page(b, 0, &mn, 8, &mx, 8, false);
        for (int q = 0; q < 8; q++) {
            int64_t lo = v[rnd() % NV] + (int64_t)(rnd() % 3) - 1;
            int64_t hi = lo + (int64_t)(rnd() % 4);
            bool truth = false;
            for (int i = 0; i < NV; i++) if (v[i] >= lo && v[i] <= hi) truth = true;
            bool mm = true;
            carquet_status_t st = carquet_column_index_page_might_match(b, 0, &lo, &hi, 8, &mm);
            cases++;
            if (st == CARQUET_OK && truth && !mm) fn++;
        }
        carquet_column_index_builder_destroy(b);
    }
    printf("INT64 brute force: %d false negatives in %d cases\n", fn, cases);
    if (fn) failures++;
}

static void brute_double(void) {
    int fn = 0, cases = 0;
    for (int iter = 0; iter < 2000; iter++) {
        double v[NV];
        for (int i = 0; i < NV; i++) v[i] = ((double)(rnd() % 200000) - 100000.0) / 8.0;
        double mn = v[0], mx = v[0];
        for (int i = 1; i < NV; i++) { if (v[i] < mn) mn = v[i]; if (v[i] > mx) mx = v[i]; }
        carquet_column_index_builder_t* b =
            carquet_column_index_builder_create(CARQUET_PHYSICAL_DOUBLE, 0);
        (void)carquet_column_index_add_page(b, 0, &mn, 8, &mx, 8, false);
        for (int q = 0; q < 8; q++) {
            double lo = v[rnd() % NV] - 0.5 + (double)(rnd() % 3) * 0.25;
            double hi = lo + (double)(rnd() % 4);
            bool truth = false;
            for (int i = 0; i < NV; i++) if (v[i] >= lo && v[i] <= hi) truth = true;
            bool mm = true;
            carquet_status_t st = carquet_column_index_page_might_match(b, 0, &lo, &hi, 8, &mm);
            cases++;
            if (st == CARQUET_OK && truth && !mm) fn++;
        }
        carquet_column_index_builder_destroy(b);
    }
    printf("DOUBLE brute force: %d false negatives in %d cases\n", fn, cases);
    if (fn) failures++;
}

/* control: for BYTE_ARRAY (unsigned bytewise order) memcmp is the right order */
static void brute_bytes(void) {
    int fn = 0, cases = 0;
    for (int iter = 0; iter < 2000; iter++) {
        char v[NV][4]; int len[NV];
        for (int i = 0; i < NV; i++) {
            len[i] = 1 + (int)(rnd() % 3);
            for (int k = 0; k < len[i]; k++) v[i][k] = (char)('a' + rnd() % 3);
        }
        int imn = 0, imx = 0;
        #define CMP(a,la,b,lb) (memcmp(a,b,(la)<(lb)?(la):(lb)) ? memcmp(a,b,(la)<(lb)?(la):(lb)) : ((la)-(lb)))
        for (int i = 1; i < NV; i++) {
            if (CMP(v[i], len[i], v[imn], len[imn]) < 0) imn = i;
            if (CMP(v[i], len[i], v[imx], len[imx]) > 0) imx = i;
        }
        carquet_column_index_builder_t* b =
            carquet_column_index_builder_create(CARQUET_PHYSICAL_BYTE_ARRAY, 0);
        (void)carquet_column_index_add_page(b, 0, v[imn], len[imn], v[imx], len[imx], false);
        for (int q = 0; q < 8; q++) {
            /* point query lo == hi == probe (value_len is shared by both ends) */
            char p[4]; int pl = 1 + (int)(rnd() % 3);
            for (int k = 0; k < pl; k++) p[k] = (char)('a' + rnd() % 3);
            bool truth = false;
            for (int i = 0; i < NV; i++) if (len[i] == pl && memcmp(v[i], p, (size_t)pl) == 0) truth = true;
            bool mm = true;
            carquet_status_t st = carquet_column_index_page_might_match(b, 0, p, p, pl, &mm);
            cases++;
            if (st == CARQUET_OK && truth && !mm) fn++;
        }
        carquet_column_index_builder_destroy(b);
    }
    printf("BYTE_ARRAY control: %d false negatives in %d cases\n", fn, cases);
    if (fn) failures++;
}

int main(void) {
    headline();
    brute_i32();
    brute_i64();
    brute_double();
    brute_bytes();
    if (failures) { puts("RESULT: property violated (page-level might-match has false negatives)"); return 1; }
    puts("RESULT: ok");
    return 0;
}
